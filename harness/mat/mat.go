package mat

import (
	"sort"
	"encoding/binary"
	"fmt"
	"math/rand"
	"time"

	"go.sia.tech/core/consensus"
	"go.sia.tech/core/types"
	"go.sia.tech/coreutils/chain"
)

// Params selects the hardfork regime of a scenario.
type Params struct {
	Allow, Require, Final uint64
	Maturity              uint64
	Seed                  int64
	// HardTarget starts the chain at a non-trivial difficulty (about 4096 hashes per block) so
	// that per-branch timestamps make total work diverge from chain length.
	HardTarget bool
	// Oak, if non-zero, is the height of the Oak difficulty hardfork (default 1: the pre-Oak
	// retargeting every 500 blocks, which reads the timestamp of the 1000th ancestor, is then never
	// active); SlowInterval makes blocks arrive faster than the target interval so that pre-Oak
	// retargets actually change the target.
	Oak          uint64
	SlowInterval bool
}

// World is everything deterministic about a scenario: network, genesis, keys.
type World struct {
	P       Params
	N       *consensus.Network
	Genesis types.Block
	Key     types.PrivateKey // owns all funds; renter key of contracts
	HostKey types.PrivateKey
	Addr    types.Address // v1-style address, spendable in v1 and (via unlock-conditions policy) in v2
	Other   types.Address // a foreign address (never spent)
	// UniqueWindows makes the builder give every v1 contract a window end that no other live
	// contract of the same chain has, so that expiration lists never hold two ids (used by the
	// checks of properties other than C02, whose known expiry-order finding needs shared ends).
	UniqueWindows bool
}

func seedKey(seed int64, role string) types.PrivateKey {
	h := types.HashBytes([]byte(fmt.Sprintf("verif/%d/%s", seed, role)))
	return types.NewPrivateKeyFromSeed(h[:])
}

// NewWorld builds a network from the Zen parameters (as testutil.Network does) with trivial
// proof of work, all v1 hardforks at height 1, the given v2 heights, and a genesis block that
// funds Key with siacoin and siafund outputs.
func NewWorld(p Params) *World {
	n, genesis := chain.TestnetZen()
	n.InitialTarget = types.BlockID{0xFF}
	if p.HardTarget {
		n.InitialTarget = types.BlockID{0x00, 0x10}
	}
	n.BlockInterval = time.Second
	if p.Maturity == 0 {
		p.Maturity = 2
	}
	n.MaturityDelay = p.Maturity
	n.HardforkDevAddr.Height = 1
	n.HardforkTax.Height = 1
	n.HardforkStorageProof.Height = 1
	n.HardforkOak.Height = 1
	if p.Oak != 0 {
		n.HardforkOak.Height = p.Oak
		if n.HardforkOak.FixHeight < p.Oak {
			n.HardforkOak.FixHeight = p.Oak
		}
		defer func() { // the later hardforks may not precede Oak
			n.HardforkASIC.Height = p.Oak + 1000 // (resets the target to a real-world difficulty)
			n.HardforkFoundation.Height = p.Oak + 1001
		}()
	}
	if p.SlowInterval {
		n.BlockInterval = 20 * time.Second // blocks come every 10 s (+0..8 s): each pre-Oak retarget makes the target harder by a factor inside the clamp (never saturating)
	}
	n.HardforkASIC.Height = 1
	n.HardforkFoundation.Height = 1
	n.HardforkV2.AllowHeight = p.Allow
	n.HardforkV2.RequireHeight = p.Require
	n.HardforkV2.FinalCutHeight = p.Final
	n.HardforkV2.EphemeralOutputHeight = p.Final
	w := &World{P: p, N: n}
	w.Key = seedKey(p.Seed, "owner")
	w.HostKey = seedKey(p.Seed, "host")
	w.Addr = types.StandardUnlockHash(w.Key.PublicKey())
	w.Other = types.StandardUnlockHash(seedKey(p.Seed, "other").PublicKey())
	var sco []types.SiacoinOutput
	for i := 0; i < 12; i++ {
		sco = append(sco, types.SiacoinOutput{Address: w.Addr, Value: types.Siacoins(uint32(1000 + 100*i))})
	}
	genesis.Transactions = []types.Transaction{{
		SiacoinOutputs: sco,
		SiafundOutputs: []types.SiafundOutput{{Address: w.Addr, Value: 6000}, {Address: w.Addr, Value: 3000}, {Address: w.Other, Value: 1000}},
	}}
	w.Genesis = genesis
	return w
}

// Mine finds a nonce for b on parent state cs (independent of the repo's miner).
func Mine(cs consensus.State, b *types.Block) {
	bh := b.Header()
	bh.Nonce = 0
	factor := cs.NonceFactor()
	target := cs.PoWTarget()
	for bh.ID().CmpWork(target) < 0 {
		bh.Nonce += factor
	}
	b.Nonce = bh.Nonce
}

// A Builder assembles the body of a child of L's tip from a script of operations. Every
// operation only uses elements of L (or outputs created earlier in the same block) that no
// earlier operation of the block has touched, so a script is valid by construction; the real
// verdict is nevertheless always computed with core (Ledger.Validate).
type Builder struct {
	W    *World
	L    *Ledger
	rng  *rand.Rand
	used map[types.Hash256]bool
	ends map[uint64]bool // window ends taken by contracts formed/re-windowed in this block
	v1   []types.Transaction
	v2   []types.V2Transaction
	Ops  []string // names of the operations that were applied
	salt uint64
}

func NewBuilder(w *World, l *Ledger, rng *rand.Rand) *Builder {
	return &Builder{W: w, L: l, rng: rng, used: map[types.Hash256]bool{}, ends: map[uint64]bool{}, salt: rng.Uint64()}
}

func (b *Builder) childHeight() uint64 { return b.L.Height() + 1 }
func (b *Builder) v1OK() bool          { return b.childHeight() < b.W.N.HardforkV2.RequireHeight }
func (b *Builder) v2OK() bool          { return b.childHeight() >= b.W.N.HardforkV2.AllowHeight }

func (b *Builder) policy() types.SpendPolicy {
	return types.SpendPolicy{Type: types.PolicyTypeUnlockConditions(types.StandardUnlockConditions(b.W.Key.PublicKey()))}
}

// pickSC returns an unused, mature, owned siacoin element.
func (b *Builder) pickSC() (types.SiacoinElement, bool) {
	var cands []types.SiacoinElement
	for _, e := range b.L.SortedSC() {
		if e.SiacoinOutput.Address == b.W.Addr && e.MaturityHeight <= b.childHeight() && !b.used[types.Hash256(e.ID)] && !e.SiacoinOutput.Value.IsZero() {
			cands = append(cands, e)
		}
	}
	if len(cands) == 0 {
		return types.SiacoinElement{}, false
	}
	e := cands[b.rng.Intn(len(cands))]
	b.used[types.Hash256(e.ID)] = true
	return e.Copy(), true
}

func (b *Builder) pickSF() (types.SiafundElement, bool) {
	for _, e := range b.L.SortedSF() {
		if e.SiafundOutput.Address == b.W.Addr && !b.used[types.Hash256(e.ID)] {
			b.used[types.Hash256(e.ID)] = true
			return e.Copy(), true
		}
	}
	return types.SiafundElement{}, false
}

func (b *Builder) signV1(txn *types.Transaction) {
	add := func(id types.Hash256) {
		txn.Signatures = append(txn.Signatures, types.TransactionSignature{ParentID: id, CoveredFields: types.CoveredFields{WholeTransaction: true}})
	}
	for _, in := range txn.SiacoinInputs {
		add(types.Hash256(in.ParentID))
	}
	for _, in := range txn.SiafundInputs {
		add(types.Hash256(in.ParentID))
	}
	for _, r := range txn.FileContractRevisions {
		add(types.Hash256(r.ParentID))
	}
	for i := range txn.Signatures {
		h := b.L.CS.WholeSigHash(*txn, txn.Signatures[i].ParentID, 0, 0, nil)
		sig := b.W.Key.SignHash(h)
		txn.Signatures[i].Signature = sig[:]
	}
}

func (b *Builder) signV2(txn *types.V2Transaction) {
	h := b.L.CS.InputSigHash(*txn)
	sp := types.SatisfiedPolicy{Policy: b.policy(), Signatures: []types.Signature{b.W.Key.SignHash(h)}}
	for i := range txn.SiacoinInputs {
		txn.SiacoinInputs[i].SatisfiedPolicy = sp
	}
	for i := range txn.SiafundInputs {
		txn.SiafundInputs[i].SatisfiedPolicy = sp
	}
}

func (b *Builder) uc() types.UnlockConditions { return types.StandardUnlockConditions(b.W.Key.PublicKey()) }

// endFree reports whether a v1 contract may take window end e under UniqueWindows.
func (b *Builder) endFree(e uint64) bool {
	if !b.W.UniqueWindows {
		return true
	}
	return len(b.L.Exp[e]) == 0 && !b.ends[e]
}

// ---- v1 operations

func (b *Builder) OpSC1() bool {
	if !b.v1OK() {
		return false
	}
	e, ok := b.pickSC()
	if !ok {
		return false
	}
	half := e.SiacoinOutput.Value.Div64(2)
	txn := types.Transaction{
		SiacoinInputs:  []types.SiacoinInput{{ParentID: e.ID, UnlockConditions: b.uc()}},
		SiacoinOutputs: []types.SiacoinOutput{{Address: b.W.Addr, Value: half}, {Address: b.W.Addr, Value: e.SiacoinOutput.Value.Sub(half)}},
	}
	b.signV1(&txn)
	b.v1 = append(b.v1, txn)
	b.Ops = append(b.Ops, "sc1")
	return true
}

// OpEph1: a parent and a child transaction in the same block; the child spends an output of the
// parent (an ephemeral element: created and spent within one block).
func (b *Builder) OpEph1() bool {
	if !b.v1OK() {
		return false
	}
	e, ok := b.pickSC()
	if !ok {
		return false
	}
	half := e.SiacoinOutput.Value.Div64(2)
	parent := types.Transaction{
		SiacoinInputs:  []types.SiacoinInput{{ParentID: e.ID, UnlockConditions: b.uc()}},
		SiacoinOutputs: []types.SiacoinOutput{{Address: b.W.Addr, Value: half}, {Address: b.W.Addr, Value: e.SiacoinOutput.Value.Sub(half)}},
	}
	b.signV1(&parent)
	child := types.Transaction{
		SiacoinInputs:  []types.SiacoinInput{{ParentID: parent.SiacoinOutputID(0), UnlockConditions: b.uc()}},
		SiacoinOutputs: []types.SiacoinOutput{{Address: b.W.Addr, Value: half}},
	}
	b.signV1(&child)
	b.v1 = append(b.v1, parent, child)
	b.Ops = append(b.Ops, "eph1")
	return true
}

func (b *Builder) OpSF1() bool {
	if !b.v1OK() {
		return false
	}
	e, ok := b.pickSF()
	if !ok {
		return false
	}
	txn := types.Transaction{
		SiafundInputs:  []types.SiafundInput{{ParentID: e.ID, UnlockConditions: b.uc(), ClaimAddress: b.W.Addr}},
		SiafundOutputs: []types.SiafundOutput{{Address: b.W.Addr, Value: e.SiafundOutput.Value}},
	}
	b.signV1(&txn)
	b.v1 = append(b.v1, txn)
	b.Ops = append(b.Ops, "sf1")
	return true
}

// taxAdjustedPayout inverts the v1 tax function (see chain/db_test.go for the explanation).
func taxAdjustedPayout(target types.Currency) types.Currency {
	guess := target.Mul64(1000).Div64(961)
	mod := func(c types.Currency, v uint64) uint64 {
		// c mod v for small v, via big division on the two words
		q := c.Div64(v)
		return c.Sub(q.Mul64(v)).Lo
	}
	sfc := (consensus.State{}).SiafundCount()
	tm, gm := mod(target, sfc), mod(guess, sfc)
	if gm < tm {
		guess = guess.Sub(types.NewCurrency64(sfc))
	}
	return guess.Add(types.NewCurrency64(tm)).Sub(types.NewCurrency64(gm))
}

// OpFC1 forms a v1 contract whose window is [h+span, h+span+2): several contracts formed at
// nearby heights share expiration heights on purpose.
func (b *Builder) OpFC1(span uint64) bool {
	if !b.v1OK() {
		return false
	}
	e, ok := b.pickSC()
	if !ok {
		return false
	}
	h := b.childHeight()
	for !b.endFree(h + span + 2) {
		span++
	}
	b.ends[h+span+2] = true
	renter, host := types.Siacoins(10), types.Siacoins(5)
	payout := taxAdjustedPayout(renter.Add(host))
	if e.SiacoinOutput.Value.Cmp(payout) < 0 {
		return false
	}
	fc := types.FileContract{
		Filesize: 0, WindowStart: h + span, WindowEnd: h + span + 2, Payout: payout,
		UnlockHash:         b.W.Addr,
		ValidProofOutputs:  []types.SiacoinOutput{{Address: b.W.Addr, Value: renter}, {Address: b.W.Other, Value: host}},
		MissedProofOutputs: []types.SiacoinOutput{{Address: b.W.Addr, Value: renter}, {Address: b.W.Other, Value: host.Div64(2)}, {Address: types.VoidAddress, Value: host.Sub(host.Div64(2))}},
	}
	binary.LittleEndian.PutUint64(fc.FileMerkleRoot[:], b.salt+uint64(len(b.v1)))
	txn := types.Transaction{
		SiacoinInputs:  []types.SiacoinInput{{ParentID: e.ID, UnlockConditions: b.uc()}},
		SiacoinOutputs: []types.SiacoinOutput{{Address: b.W.Addr, Value: e.SiacoinOutput.Value.Sub(payout)}},
		FileContracts:  []types.FileContract{fc},
	}
	b.signV1(&txn)
	b.v1 = append(b.v1, txn)
	b.Ops = append(b.Ops, "fc1")
	return true
}

func (b *Builder) pickFC(open bool) (types.FileContractElement, bool) {
	h := b.childHeight()
	for _, e := range b.L.SortedFC() {
		if b.used[types.Hash256(e.ID)] || e.FileContract.UnlockHash != b.W.Addr {
			continue
		}
		if open && e.FileContract.WindowStart <= h && h < e.FileContract.WindowEnd {
			// proof window open: block WindowStart-1 is on the chain and the contract expires later
			b.used[types.Hash256(e.ID)] = true
			return e.Copy(), true
		}
		if !open && e.FileContract.WindowStart > h {
			b.used[types.Hash256(e.ID)] = true
			return e.Copy(), true
		}
	}
	return types.FileContractElement{}, false
}

// pickFCFirst picks the FIRST member of a linear expiration list with two or more members whose
// proof window has not opened yet (a revision of it must not move it within its list).
func (b *Builder) pickFCFirst() (types.FileContractElement, bool) {
	h := b.childHeight()
	var ends []uint64
	for end, ids := range b.L.Exp {
		if len(ids) >= 2 {
			ends = append(ends, end)
		}
	}
	sort.Slice(ends, func(i, j int) bool { return ends[i] < ends[j] })
	for _, end := range ends {
		e, ok := b.L.FC[b.L.Exp[end][0]]
		if !ok || b.used[types.Hash256(e.ID)] || e.FileContract.UnlockHash != b.W.Addr || e.FileContract.WindowStart <= h {
			continue
		}
		b.used[types.Hash256(e.ID)] = true
		return e.Copy(), true
	}
	return types.FileContractElement{}, false
}

// OpRev1 revises a v1 contract; shift moves the window end (0 = same window).
func (b *Builder) OpRev1(shift uint64) bool { return b.opRev1(shift, false) }

// OpRev1First revises, without moving its window, the first member of a shared expiration list.
func (b *Builder) OpRev1First() bool { return b.opRev1(0, true) }

func (b *Builder) opRev1(shift uint64, first bool) bool {
	if !b.v1OK() {
		return false
	}
	var e types.FileContractElement
	var ok bool
	if first {
		e, ok = b.pickFCFirst()
	} else {
		e, ok = b.pickFC(false)
	}
	if !ok {
		return false
	}
	fc := e.FileContract
	fc.RevisionNumber++
	if shift != 0 {
		for !b.endFree(fc.WindowEnd + shift) {
			shift++
		}
		b.ends[fc.WindowEnd+shift] = true
	}
	fc.WindowEnd += shift
	txn := types.Transaction{FileContractRevisions: []types.FileContractRevision{{ParentID: e.ID, UnlockConditions: b.uc(), FileContract: fc}}}
	b.signV1(&txn)
	b.v1 = append(b.v1, txn)
	if shift == 0 {
		b.Ops = append(b.Ops, "rev1a")
	} else {
		b.Ops = append(b.Ops, "rev1b")
	}
	return true
}

// OpSP1 submits a storage proof for a v1 contract whose window is open (filesize 0: any proof).
func (b *Builder) OpSP1() bool {
	if !b.v1OK() {
		return false
	}
	e, ok := b.pickFC(true)
	if !ok {
		return false
	}
	txn := types.Transaction{StorageProofs: []types.StorageProof{{ParentID: e.ID}}}
	b.v1 = append(b.v1, txn)
	b.Ops = append(b.Ops, "sp1")
	return true
}

// OpFCSP1 forms a v1 contract whose proof window opens in this very block and proves it in the
// same block (formed AND resolved in one block: the element never outlives the block).
func (b *Builder) OpFCSP1() bool {
	if !b.v1OK() {
		return false
	}
	e, ok := b.pickSC()
	if !ok {
		return false
	}
	h := b.childHeight()
	renter, host := types.Siacoins(10), types.Siacoins(5)
	payout := taxAdjustedPayout(renter.Add(host))
	if e.SiacoinOutput.Value.Cmp(payout) < 0 {
		return false
	}
	fc := types.FileContract{
		Filesize: 0, WindowStart: h, WindowEnd: h + 2, Payout: payout,
		UnlockHash:         b.W.Addr,
		ValidProofOutputs:  []types.SiacoinOutput{{Address: b.W.Addr, Value: renter}, {Address: b.W.Other, Value: host}},
		MissedProofOutputs: []types.SiacoinOutput{{Address: b.W.Addr, Value: renter}, {Address: b.W.Other, Value: host.Div64(2)}, {Address: types.VoidAddress, Value: host.Sub(host.Div64(2))}},
	}
	binary.LittleEndian.PutUint64(fc.FileMerkleRoot[:], b.salt+uint64(len(b.v1))+77)
	txn := types.Transaction{
		SiacoinInputs:  []types.SiacoinInput{{ParentID: e.ID, UnlockConditions: b.uc()}},
		SiacoinOutputs: []types.SiacoinOutput{{Address: b.W.Addr, Value: e.SiacoinOutput.Value.Sub(payout)}},
		FileContracts:  []types.FileContract{fc},
	}
	b.signV1(&txn)
	b.v1 = append(b.v1, txn, types.Transaction{StorageProofs: []types.StorageProof{{ParentID: txn.FileContractID(0)}}})
	b.Ops = append(b.Ops, "fcsp1")
	return true
}

// ---- v2 operations

func (b *Builder) OpSC2() bool {
	if !b.v2OK() {
		return false
	}
	e, ok := b.pickSC()
	if !ok {
		return false
	}
	half := e.SiacoinOutput.Value.Div64(2)
	txn := types.V2Transaction{
		SiacoinInputs:  []types.V2SiacoinInput{{Parent: e}},
		SiacoinOutputs: []types.SiacoinOutput{{Address: b.W.Addr, Value: half}, {Address: b.W.Addr, Value: e.SiacoinOutput.Value.Sub(half)}},
	}
	b.signV2(&txn)
	b.v2 = append(b.v2, txn)
	b.Ops = append(b.Ops, "sc2")
	return true
}

func (b *Builder) OpEph2() bool {
	if !b.v2OK() {
		return false
	}
	e, ok := b.pickSC()
	if !ok {
		return false
	}
	half := e.SiacoinOutput.Value.Div64(2)
	parent := types.V2Transaction{
		SiacoinInputs:  []types.V2SiacoinInput{{Parent: e}},
		SiacoinOutputs: []types.SiacoinOutput{{Address: b.W.Addr, Value: half}, {Address: b.W.Addr, Value: e.SiacoinOutput.Value.Sub(half)}},
	}
	b.signV2(&parent)
	child := types.V2Transaction{
		SiacoinInputs:  []types.V2SiacoinInput{{Parent: parent.EphemeralSiacoinOutput(0)}},
		SiacoinOutputs: []types.SiacoinOutput{{Address: b.W.Addr, Value: half}},
	}
	b.signV2(&child)
	b.v2 = append(b.v2, parent, child)
	b.Ops = append(b.Ops, "eph2")
	return true
}

func (b *Builder) OpSF2() bool {
	if !b.v2OK() {
		return false
	}
	e, ok := b.pickSF()
	if !ok {
		return false
	}
	txn := types.V2Transaction{
		SiafundInputs:  []types.V2SiafundInput{{Parent: e, ClaimAddress: b.W.Addr}},
		SiafundOutputs: []types.SiafundOutput{{Address: b.W.Addr, Value: e.SiafundOutput.Value}},
	}
	b.signV2(&txn)
	b.v2 = append(b.v2, txn)
	b.Ops = append(b.Ops, "sf2")
	return true
}

func (b *Builder) signContract(fc *types.V2FileContract) {
	fc.RenterSignature, fc.HostSignature = types.Signature{}, types.Signature{}
	h := b.L.CS.ContractSigHash(*fc)
	fc.RenterSignature = b.W.Key.SignHash(h)
	fc.HostSignature = b.W.HostKey.SignHash(h)
}

// Leaf64 is the single 64-byte leaf of every v2 contract's file (filesize 64).
var Leaf64 = func() (l [64]byte) { copy(l[:], "verif-storage-proof-leaf"); return }()

func (b *Builder) newV2Contract(span uint64) types.V2FileContract {
	h := b.childHeight()
	fc := types.V2FileContract{
		Capacity: 64, Filesize: 64, FileMerkleRoot: b.L.CS.StorageProofLeafHash(Leaf64[:]),
		ProofHeight: h + span, ExpirationHeight: h + span + 2,
		RenterOutput: types.SiacoinOutput{Address: b.W.Addr, Value: types.Siacoins(10)},
		HostOutput:   types.SiacoinOutput{Address: b.W.Other, Value: types.Siacoins(5)},
		MissedHostValue: types.Siacoins(2), TotalCollateral: types.Siacoins(3),
		RenterPublicKey: b.W.Key.PublicKey(), HostPublicKey: b.W.HostKey.PublicKey(),
	}
	return fc
}

func (b *Builder) OpFC2(span uint64) bool {
	if !b.v2OK() {
		return false
	}
	e, ok := b.pickSC()
	if !ok {
		return false
	}
	fc := b.newV2Contract(span)
	fc.RevisionNumber = b.salt % 1000 // distinguishes sibling contracts
	b.signContract(&fc)
	cost := fc.RenterOutput.Value.Add(fc.HostOutput.Value).Add(b.L.CS.V2FileContractTax(fc))
	if e.SiacoinOutput.Value.Cmp(cost) < 0 {
		return false
	}
	txn := types.V2Transaction{
		SiacoinInputs:  []types.V2SiacoinInput{{Parent: e}},
		SiacoinOutputs: []types.SiacoinOutput{{Address: b.W.Addr, Value: e.SiacoinOutput.Value.Sub(cost)}},
		FileContracts:  []types.V2FileContract{fc},
	}
	b.signV2(&txn)
	b.v2 = append(b.v2, txn)
	b.Ops = append(b.Ops, "fc2")
	return true
}

// pickV2 returns an unused v2 contract: phase "rev" (proof height not passed), "proof" (between
// proof height and expiration), "exp" (after expiration height).
func (b *Builder) pickV2(phase string) (types.V2FileContractElement, bool) {
	h := b.childHeight()
	for _, e := range b.L.SortedV2() {
		if b.used[types.Hash256(e.ID)] {
			continue
		}
		fc := e.V2FileContract
		ok := false
		switch phase {
		case "rev":
			ok = fc.ProofHeight >= h
		case "proof":
			ok = h >= fc.ProofHeight && h <= fc.ExpirationHeight && fc.ProofHeight <= b.L.Height()
		case "exp":
			ok = h > fc.ExpirationHeight
		}
		if ok {
			b.used[types.Hash256(e.ID)] = true
			return e.Copy(), true
		}
	}
	return types.V2FileContractElement{}, false
}

func (b *Builder) OpRev2() bool {
	if !b.v2OK() {
		return false
	}
	e, ok := b.pickV2("rev")
	if !ok {
		return false
	}
	rev := e.V2FileContract
	rev.RevisionNumber++
	one := types.Siacoins(1)
	if rev.RenterOutput.Value.Cmp(one) >= 0 {
		rev.RenterOutput.Value = rev.RenterOutput.Value.Sub(one)
		rev.HostOutput.Value = rev.HostOutput.Value.Add(one)
	}
	b.signContract(&rev)
	txn := types.V2Transaction{FileContractRevisions: []types.V2FileContractRevision{{Parent: e, Revision: rev}}}
	b.v2 = append(b.v2, txn)
	b.Ops = append(b.Ops, "rev2")
	return true
}

func (b *Builder) OpRenew2() bool {
	if !b.v2OK() {
		return false
	}
	e, ok := b.pickV2("rev")
	if !ok {
		return false
	}
	in, ok := b.pickSC()
	if !ok {
		return false
	}
	old := e.V2FileContract
	nc := b.newV2Contract(3)
	nc.RevisionNumber = 0
	b.signContract(&nc)
	ren := types.V2FileContractRenewal{
		FinalRenterOutput: old.RenterOutput, FinalHostOutput: old.HostOutput,
		RenterRollover: types.ZeroCurrency, HostRollover: types.ZeroCurrency, NewContract: nc,
	}
	h := b.L.CS.RenewalSigHash(ren)
	ren.RenterSignature = b.W.Key.SignHash(h)
	ren.HostSignature = b.W.HostKey.SignHash(h)
	cost := nc.RenterOutput.Value.Add(nc.HostOutput.Value).Add(b.L.CS.V2FileContractTax(nc))
	if in.SiacoinOutput.Value.Cmp(cost) < 0 {
		return false
	}
	txn := types.V2Transaction{
		SiacoinInputs:           []types.V2SiacoinInput{{Parent: in}},
		SiacoinOutputs:          []types.SiacoinOutput{{Address: b.W.Addr, Value: in.SiacoinOutput.Value.Sub(cost)}},
		FileContractResolutions: []types.V2FileContractResolution{{Parent: e, Resolution: &ren}},
	}
	b.signV2(&txn)
	b.v2 = append(b.v2, txn)
	b.Ops = append(b.Ops, "renew2")
	return true
}

func (b *Builder) OpSP2() bool {
	if !b.v2OK() {
		return false
	}
	e, ok := b.pickV2("proof")
	if !ok {
		return false
	}
	cie, ok := b.L.CI[e.V2FileContract.ProofHeight]
	if !ok {
		return false
	}
	sp := types.V2StorageProof{ProofIndex: cie.Copy(), Leaf: Leaf64}
	txn := types.V2Transaction{FileContractResolutions: []types.V2FileContractResolution{{Parent: e, Resolution: &sp}}}
	b.v2 = append(b.v2, txn)
	b.Ops = append(b.Ops, "sp2")
	return true
}

func (b *Builder) OpExp2() bool {
	if !b.v2OK() {
		return false
	}
	e, ok := b.pickV2("exp")
	if !ok {
		return false
	}
	txn := types.V2Transaction{FileContractResolutions: []types.V2FileContractResolution{{Parent: e, Resolution: &types.V2FileContractExpiration{}}}}
	b.v2 = append(b.v2, txn)
	b.Ops = append(b.Ops, "exp2")
	return true
}

func (b *Builder) OpAtt() bool {
	if !b.v2OK() {
		return false
	}
	a := types.Attestation{PublicKey: b.W.Key.PublicKey(), Key: "verif", Value: []byte{byte(b.salt), byte(len(b.v2))}}
	a.Signature = b.W.Key.SignHash(b.L.CS.AttestationSigHash(a))
	b.v2 = append(b.v2, types.V2Transaction{Attestations: []types.Attestation{a}})
	b.Ops = append(b.Ops, "att")
	return true
}

// Block finishes the block: miner payout (to Addr), unique arbitrary data, commitment, nonce.
// tsOffset is added (in seconds) to the canonical timestamp genesis + 10 s × height.
func (b *Builder) Block(tsOffset int) types.Block {
	cs := b.L.CS
	h := b.childHeight()
	blk := types.Block{
		ParentID:     cs.Index.ID,
		Timestamp:    b.W.Genesis.Timestamp.Add(time.Duration(10*h) * time.Second).Add(time.Duration(tsOffset) * time.Second),
		MinerPayouts: []types.SiacoinOutput{{Address: b.W.Addr, Value: cs.BlockReward()}},
		Transactions: b.v1,
	}
	if b.v2OK() {
		tag := make([]byte, 8)
		binary.LittleEndian.PutUint64(tag, b.salt)
		blk.V2 = &types.V2BlockData{Height: h, Transactions: append([]types.V2Transaction{{ArbitraryData: tag}}, b.v2...)}
		blk.V2.Commitment = cs.Commitment(b.W.Addr, blk.Transactions, blk.V2Transactions())
	} else {
		// make sibling v1 blocks distinct (two siblings built from the same operations at the same
		// timestamp offset would otherwise be the same block, and the same ID, under two node numbers)
		tag := make([]byte, 8)
		binary.LittleEndian.PutUint64(tag, b.salt)
		blk.Transactions = append(append([]types.Transaction(nil), b.v1...), types.Transaction{ArbitraryData: [][]byte{tag}})
	}
	Mine(cs, &blk)
	return blk
}

// AllOps lists the operation catalogue (C02's element-changing transaction kinds).
var AllOps = []string{"sc1", "eph1", "sf1", "fc1", "rev1a", "rev1b", "sp1", "sc2", "eph2", "sf2", "fc2", "rev2", "renew2", "sp2", "exp2", "att"}

// Do applies the named operation if it is possible in the current regime and ledger state.
func (b *Builder) Do(op string) bool {
	switch op {
	case "sc1":
		return b.OpSC1()
	case "eph1":
		return b.OpEph1()
	case "sf1":
		return b.OpSF1()
	case "fc1":
		return b.OpFC1(2 + uint64(b.rng.Intn(2)))
	case "fc1w": // fixed window: contracts formed in the same block share their expiration height
		return b.OpFC1(2)
	case "rev1a":
		return b.OpRev1(0)
	case "rev1b":
		return b.OpRev1(1)
	case "fcsp1": // contract formed and proven in one block
		return b.OpFCSP1()
	case "rev1f": // same-window revision of the FIRST member of a shared expiration list
		return b.OpRev1First()
	case "sp1":
		return b.OpSP1()
	case "sc2":
		return b.OpSC2()
	case "eph2":
		return b.OpEph2()
	case "sf2":
		return b.OpSF2()
	case "fc2":
		return b.OpFC2(2 + uint64(b.rng.Intn(2)))
	case "rev2":
		return b.OpRev2()
	case "renew2":
		return b.OpRenew2()
	case "sp2":
		return b.OpSP2()
	case "exp2":
		return b.OpExp2()
	case "att":
		return b.OpAtt()
	}
	return false
}

// RandomOps applies up to n random operations from the catalogue (contract-related ones are
// preferred once contracts exist so that revisions, proofs, renewals and expirations happen).
func (b *Builder) RandomOps(n int) {
	for i := 0; i < n; i++ {
		for try := 0; try < 6; try++ {
			if b.Do(AllOps[b.rng.Intn(len(AllOps))]) {
				break
			}
		}
	}
}
