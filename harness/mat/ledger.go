// Package mat is the materialiser (DESIGN.md §3.1) and the independent linear-replay ledger
// (§3.2).  The ledger uses ONLY go.sia.tech/core: it never reverts, keeps every unspent element
// with a Merkle proof updated naively at every block, and is the consensus oracle of the checks
// ("the state obtained by replaying exactly those blocks from genesis").
package mat

import (
	"bytes"
	"fmt"
	"sort"
	"time"

	"go.sia.tech/core/consensus"
	"go.sia.tech/core/types"
)

// A Ledger is the state of one linear chain, from genesis to CS.Index.
type Ledger struct {
	N       *consensus.Network
	CS      consensus.State
	Blocks  []types.Block                 // Blocks[h] is the block at height h
	States  []consensus.State             // States[h] is the state after Blocks[h]
	Supps   []consensus.V1BlockSupplement // supplement used for Blocks[h]
	SC      map[types.SiacoinOutputID]types.SiacoinElement
	SF      map[types.SiafundOutputID]types.SiafundElement
	FC      map[types.FileContractID]types.FileContractElement
	V2FC    map[types.FileContractID]types.V2FileContractElement
	CI      map[uint64]types.ChainIndexElement
	Exp     map[uint64][]types.FileContractID // expiration lists as a node that saw this chain linearly keeps them
	Effects []Effect                          // per height: abstract effect of the block (for the specs)
}

// An Effect is the abstract, element-level effect of one block (what Chain.tla's `led` folds):
// siacoin/siafund elements created and spent, and the v1 contract diffs in core's diff order
// (the order in which db.go's applyElements / revertElements walk them).
type Effect struct {
	CreatedSC  []types.SiacoinOutputID
	SpentSC    []types.SiacoinOutputID
	CreatedSF  []types.SiafundOutputID
	SpentSF    []types.SiafundOutputID
	FC         []FCDiff
	CreatedV2  []types.FileContractID
	RevisedV2  []types.FileContractID
	ResolvedV2 []types.FileContractID
	Ephemeral  int // elements created and spent in the same block
}

// An FCDiff is one v1 contract diff: K = "new" | "rev" | "res"; End/Rev are window end and
// revision number after the diff (for "res": at resolution), Old/Prev those before a revision.
type FCDiff struct {
	K    string
	ID   types.FileContractID
	End  uint64
	Old  uint64
	Rev  uint64
	Prev uint64
}

// NewLedger applies the genesis block exactly as a fresh node does.
func NewLedger(n *consensus.Network, genesis types.Block) *Ledger {
	l := &Ledger{
		N:    n,
		SC:   map[types.SiacoinOutputID]types.SiacoinElement{},
		SF:   map[types.SiafundOutputID]types.SiafundElement{},
		FC:   map[types.FileContractID]types.FileContractElement{},
		V2FC: map[types.FileContractID]types.V2FileContractElement{},
		CI:   map[uint64]types.ChainIndexElement{},
		Exp:  map[uint64][]types.FileContractID{},
	}
	gs := n.GenesisState()
	bs := consensus.V1BlockSupplement{Transactions: make([]consensus.V1TransactionSupplement, len(genesis.Transactions))}
	cs, au := consensus.ApplyBlock(gs, genesis, bs, time.Time{})
	l.absorb(genesis, bs, cs, au)
	return l
}

// Clone returns an independent deep copy.
func (l *Ledger) Clone() *Ledger {
	c := &Ledger{N: l.N, CS: l.CS,
		Blocks: append([]types.Block(nil), l.Blocks...), States: append([]consensus.State(nil), l.States...),
		Supps: append([]consensus.V1BlockSupplement(nil), l.Supps...), Effects: append([]Effect(nil), l.Effects...),
		SC: make(map[types.SiacoinOutputID]types.SiacoinElement, len(l.SC)), SF: make(map[types.SiafundOutputID]types.SiafundElement, len(l.SF)),
		FC: make(map[types.FileContractID]types.FileContractElement, len(l.FC)), V2FC: make(map[types.FileContractID]types.V2FileContractElement, len(l.V2FC)),
		CI: make(map[uint64]types.ChainIndexElement, len(l.CI)), Exp: make(map[uint64][]types.FileContractID, len(l.Exp))}
	for k, v := range l.SC {
		c.SC[k] = v.Copy()
	}
	for k, v := range l.SF {
		c.SF[k] = v.Copy()
	}
	for k, v := range l.FC {
		c.FC[k] = v.Copy()
	}
	for k, v := range l.V2FC {
		c.V2FC[k] = v.Copy()
	}
	for k, v := range l.CI {
		c.CI[k] = v.Copy()
	}
	for k, v := range l.Exp {
		c.Exp[k] = append([]types.FileContractID(nil), v...)
	}
	return c
}

// Height returns the tip height.
func (l *Ledger) Height() uint64 { return l.CS.Index.Height }

// AncestorTS mirrors what a node supplies as targetTimestamp for a child of the current tip: the
// zero time once the parent is past the Oak hardfork height, otherwise the timestamp of the block
// AncestorDepth back (or genesis).
func (l *Ledger) AncestorTS() time.Time { return l.ancestorTSAt(l.CS) }

func (l *Ledger) ancestorTSAt(parent consensus.State) time.Time {
	if parent.Index.Height > l.N.HardforkOak.Height {
		return time.Time{}
	}
	h := parent.Index.Height
	d := parent.AncestorDepth()
	if h < d {
		return l.Blocks[0].Timestamp
	}
	return l.Blocks[h-d].Timestamp
}

// TxSupplement builds the v1 supplement of a transaction from the ledger's own element maps.
func (l *Ledger) TxSupplement(txn types.Transaction) (ts consensus.V1TransactionSupplement) {
	if l.Height() >= l.N.HardforkV2.RequireHeight {
		return
	}
	for _, sci := range txn.SiacoinInputs {
		if e, ok := l.SC[sci.ParentID]; ok {
			ts.SiacoinInputs = append(ts.SiacoinInputs, e.Copy())
		}
	}
	for _, sfi := range txn.SiafundInputs {
		if e, ok := l.SF[sfi.ParentID]; ok {
			ts.SiafundInputs = append(ts.SiafundInputs, e.Copy())
		}
	}
	for _, fcr := range txn.FileContractRevisions {
		if e, ok := l.FC[fcr.ParentID]; ok {
			ts.RevisedFileContracts = append(ts.RevisedFileContracts, e.Copy())
		}
	}
	for _, sp := range txn.StorageProofs {
		if e, ok := l.FC[sp.ParentID]; ok {
			if ws := e.FileContract.WindowStart; ws >= 1 && ws-1 <= l.Height() {
				ts.StorageProofs = append(ts.StorageProofs, consensus.V1StorageProofSupplement{FileContract: e.Copy(), WindowID: l.Blocks[ws-1].ID()})
			}
		}
	}
	return
}

// BlockSupplement builds the v1 supplement for a child of the tip.
func (l *Ledger) BlockSupplement(b types.Block) consensus.V1BlockSupplement {
	bs := consensus.V1BlockSupplement{Transactions: make([]consensus.V1TransactionSupplement, len(b.Transactions))}
	if l.Height() >= l.N.HardforkV2.RequireHeight {
		return bs
	}
	for i, txn := range b.Transactions {
		bs.Transactions[i] = l.TxSupplement(txn)
	}
	for _, id := range l.Exp[l.Height()+1] {
		bs.ExpiringFileContracts = append(bs.ExpiringFileContracts, l.FC[id].Copy())
	}
	return bs
}

// Validate checks a child of the tip against the consensus rules (header and body).
func (l *Ledger) Validate(b types.Block) error {
	if err := consensus.ValidateOrphan(l.CS, b); err != nil {
		return fmt.Errorf("orphan: %w", err)
	}
	return consensus.ValidateBlock(l.CS, b, l.BlockSupplement(b))
}

// ValidateHeaderOnly is what a node checks before it stores a block it cannot yet apply.
func (l *Ledger) ValidateHeaderOnly(b types.Block) error { return consensus.ValidateOrphan(l.CS, b) }

// HeaderChild returns the header-derived child state (what AddBlocks computes via ApplyHeader).
func (l *Ledger) HeaderChild(b types.Block) consensus.State {
	return consensus.ApplyHeader(l.CS, b.Header(), l.AncestorTS())
}

// Apply validates b as a child of the tip and applies it.
func (l *Ledger) Apply(b types.Block) error {
	if err := l.Validate(b); err != nil {
		return err
	}
	bs := l.BlockSupplement(b)
	cs, au := consensus.ApplyBlock(l.CS, b, bs, l.AncestorTS())
	l.absorb(b, bs, cs, au)
	return nil
}

func removeID(s []types.FileContractID, id types.FileContractID) []types.FileContractID {
	// swap-with-last removal: the discipline of a node that applies blocks linearly
	for i := range s {
		if s[i] == id {
			s[i] = s[len(s)-1]
			return s[:len(s)-1]
		}
	}
	panic("ledger: missing expiration entry")
}

func (l *Ledger) absorb(b types.Block, bs consensus.V1BlockSupplement, cs consensus.State, au consensus.ApplyUpdate) {
	var eff Effect
	v1 := cs.Index.Height <= l.N.HardforkV2.RequireHeight // the store keeps v1 element buckets only up to here
	for _, d := range au.SiacoinElementDiffs() {
		switch {
		case d.Created && d.Spent:
			eff.Ephemeral++
		case d.Spent:
			delete(l.SC, d.SiacoinElement.ID)
			eff.SpentSC = append(eff.SpentSC, d.SiacoinElement.ID)
		default:
			l.SC[d.SiacoinElement.ID] = d.SiacoinElement.Copy()
			eff.CreatedSC = append(eff.CreatedSC, d.SiacoinElement.ID)
		}
	}
	for _, d := range au.SiafundElementDiffs() {
		switch {
		case d.Created && d.Spent:
			eff.Ephemeral++
		case d.Spent:
			delete(l.SF, d.SiafundElement.ID)
			eff.SpentSF = append(eff.SpentSF, d.SiafundElement.ID)
		default:
			l.SF[d.SiafundElement.ID] = d.SiafundElement.Copy()
			eff.CreatedSF = append(eff.CreatedSF, d.SiafundElement.ID)
		}
	}
	for _, d := range au.FileContractElementDiffs() {
		fce := d.FileContractElement
		switch {
		case d.Created && d.Resolved:
			eff.Ephemeral++
		case d.Resolved:
			delete(l.FC, fce.ID)
			if v1 {
				l.Exp[fce.FileContract.WindowEnd] = removeID(l.Exp[fce.FileContract.WindowEnd], fce.ID)
			}
			eff.FC = append(eff.FC, FCDiff{K: "res", ID: fce.ID, End: fce.FileContract.WindowEnd, Old: fce.FileContract.WindowEnd,
				Rev: fce.FileContract.RevisionNumber, Prev: fce.FileContract.RevisionNumber})
		case d.Revision != nil:
			rev, _ := d.RevisionElement()
			l.FC[fce.ID] = rev.Copy()
			if d.Created {
				// created and revised in the same block: the store records the revision only
				if v1 {
					l.Exp[rev.FileContract.WindowEnd] = append(l.Exp[rev.FileContract.WindowEnd], fce.ID)
				}
				eff.FC = append(eff.FC, FCDiff{K: "new", ID: fce.ID, End: rev.FileContract.WindowEnd, Old: rev.FileContract.WindowEnd,
					Rev: rev.FileContract.RevisionNumber, Prev: rev.FileContract.RevisionNumber})
			} else {
				if v1 && rev.FileContract.WindowEnd != fce.FileContract.WindowEnd {
					l.Exp[fce.FileContract.WindowEnd] = removeID(l.Exp[fce.FileContract.WindowEnd], fce.ID)
					l.Exp[rev.FileContract.WindowEnd] = append(l.Exp[rev.FileContract.WindowEnd], fce.ID)
				}
				eff.FC = append(eff.FC, FCDiff{K: "rev", ID: fce.ID, End: rev.FileContract.WindowEnd, Old: fce.FileContract.WindowEnd,
					Rev: rev.FileContract.RevisionNumber, Prev: fce.FileContract.RevisionNumber})
			}
		default:
			l.FC[fce.ID] = fce.Copy()
			if v1 {
				l.Exp[fce.FileContract.WindowEnd] = append(l.Exp[fce.FileContract.WindowEnd], fce.ID)
			}
			eff.FC = append(eff.FC, FCDiff{K: "new", ID: fce.ID, End: fce.FileContract.WindowEnd, Old: fce.FileContract.WindowEnd,
				Rev: fce.FileContract.RevisionNumber, Prev: fce.FileContract.RevisionNumber})
		}
	}
	for _, d := range au.V2FileContractElementDiffs() {
		fce := d.V2FileContractElement
		switch {
		case d.Resolution != nil:
			delete(l.V2FC, fce.ID)
			eff.ResolvedV2 = append(eff.ResolvedV2, fce.ID)
		case d.Revision != nil:
			e := fce.Copy()
			e.V2FileContract = *d.Revision
			l.V2FC[fce.ID] = e
			if d.Created {
				eff.CreatedV2 = append(eff.CreatedV2, fce.ID)
			} else {
				eff.RevisedV2 = append(eff.RevisedV2, fce.ID)
			}
		default:
			l.V2FC[fce.ID] = fce.Copy()
			eff.CreatedV2 = append(eff.CreatedV2, fce.ID)
		}
	}
	for h, ids := range l.Exp {
		if len(ids) == 0 {
			delete(l.Exp, h)
		}
	}
	l.CI[cs.Index.Height] = au.ChainIndexElement()
	// naive proof maintenance: every element, every block
	for id, e := range l.SC {
		au.UpdateElementProof(&e.StateElement)
		l.SC[id] = e.Copy()
	}
	for id, e := range l.SF {
		au.UpdateElementProof(&e.StateElement)
		l.SF[id] = e.Copy()
	}
	for id, e := range l.FC {
		au.UpdateElementProof(&e.StateElement)
		l.FC[id] = e.Copy()
	}
	for id, e := range l.V2FC {
		au.UpdateElementProof(&e.StateElement)
		l.V2FC[id] = e.Copy()
	}
	for h, e := range l.CI {
		au.UpdateElementProof(&e.StateElement)
		l.CI[h] = e.Copy()
	}
	l.CS = cs
	l.Blocks = append(l.Blocks, b)
	l.States = append(l.States, cs)
	l.Supps = append(l.Supps, bs)
	l.Effects = append(l.Effects, eff)
}

// StateBytes is the canonical encoding of a consensus state (for byte equality).
func StateBytes(cs consensus.State) []byte {
	var buf bytes.Buffer
	e := types.NewEncoder(&buf)
	cs.EncodeTo(e)
	e.Flush()
	return buf.Bytes()
}

// ProofsVerify checks every stored siacoin, siafund and v2 contract proof against the tip
// accumulator using core's own membership check.
func (l *Ledger) ProofsVerify() error {
	return VerifyElements(l.CS, sortedSC(l.SC), sortedSF(l.SF), sortedV2(l.V2FC))
}

// VerifyElements checks element proofs against cs.Elements via ValidateTransactionElements.
func VerifyElements(cs consensus.State, sces []types.SiacoinElement, sfes []types.SiafundElement, v2 []types.V2FileContractElement) error {
	for _, e := range sces {
		txn := types.V2Transaction{SiacoinInputs: []types.V2SiacoinInput{{Parent: e.Copy()}}}
		if err := cs.Elements.ValidateTransactionElements(txn); err != nil {
			return fmt.Errorf("siacoin element %v: %w", e.ID, err)
		}
	}
	for _, e := range sfes {
		txn := types.V2Transaction{SiafundInputs: []types.V2SiafundInput{{Parent: e.Copy()}}}
		if err := cs.Elements.ValidateTransactionElements(txn); err != nil {
			return fmt.Errorf("siafund element %v: %w", e.ID, err)
		}
	}
	for _, e := range v2 {
		txn := types.V2Transaction{FileContractRevisions: []types.V2FileContractRevision{{Parent: e.Copy()}}}
		if err := cs.Elements.ValidateTransactionElements(txn); err != nil {
			return fmt.Errorf("v2 contract element %v: %w", e.ID, err)
		}
	}
	return nil
}

func sortedSC(m map[types.SiacoinOutputID]types.SiacoinElement) []types.SiacoinElement {
	out := make([]types.SiacoinElement, 0, len(m))
	for _, e := range m {
		out = append(out, e)
	}
	sort.Slice(out, func(i, j int) bool { return bytes.Compare(out[i].ID[:], out[j].ID[:]) < 0 })
	return out
}

func sortedSF(m map[types.SiafundOutputID]types.SiafundElement) []types.SiafundElement {
	out := make([]types.SiafundElement, 0, len(m))
	for _, e := range m {
		out = append(out, e)
	}
	sort.Slice(out, func(i, j int) bool { return bytes.Compare(out[i].ID[:], out[j].ID[:]) < 0 })
	return out
}

func sortedV2(m map[types.FileContractID]types.V2FileContractElement) []types.V2FileContractElement {
	out := make([]types.V2FileContractElement, 0, len(m))
	for _, e := range m {
		out = append(out, e)
	}
	sort.Slice(out, func(i, j int) bool { return bytes.Compare(out[i].ID[:], out[j].ID[:]) < 0 })
	return out
}

// SortedSC / SortedSF / SortedFC / SortedV2 expose the element sets in id order.
func (l *Ledger) SortedSC() []types.SiacoinElement       { return sortedSC(l.SC) }
func (l *Ledger) SortedSF() []types.SiafundElement       { return sortedSF(l.SF) }
func (l *Ledger) SortedV2() []types.V2FileContractElement { return sortedV2(l.V2FC) }
func (l *Ledger) SortedFC() []types.FileContractElement {
	out := make([]types.FileContractElement, 0, len(l.FC))
	for _, e := range l.FC {
		out = append(out, e)
	}
	sort.Slice(out, func(i, j int) bool { return bytes.Compare(out[i].ID[:], out[j].ID[:]) < 0 })
	return out
}
