package mat

// Pool transactions (properties C05, C13, C14): transactions that are built and signed with the
// world's keys but are NOT put into a block by the builder.  A PoolTx is a template: its element
// ids, outputs and signatures are fixed (so is its transaction id, which does not cover Merkle
// proofs); At(ledger) instantiates the v2 form with the proofs the given linear ledger holds for
// its inputs, or with the ephemeral marker for inputs that ledger does not (yet) contain.
//
// This file only ADDS functions; nothing the chain checks use is changed.

import (
	"encoding/binary"
	"fmt"
	"math/rand"
	"time"

	"go.sia.tech/core/consensus"
	"go.sia.tech/core/types"
)

// A PoolTx is one catalogued transaction.
type PoolTx struct {
	Name int  // small name used by the specification (1-based)
	V2   bool // transaction version
	T1   types.Transaction
	T2   types.V2Transaction // template; state elements are filled by At
	ID   types.TransactionID
	Fee  types.Currency
	// Ins are the element ids the transaction consumes (siacoin / siafund outputs, a v2 contract for
	// a resolution), Refs the elements it references by proof without consuming them (the contract
	// of a revision, the chain index element of a storage proof), Outs the siacoin / siafund outputs
	// it creates, in order.
	Ins, Refs, Outs []types.Hash256
	Shape           string // "sc", "sf", "rev", "res-exp", "res-sp", "fat"
	// SigHeight is the height of the state the v1 signatures were made for: the v1 signature hash
	// carries a replay prefix that changes at the v2 allow height, so a v1 transaction is only valid
	// in the epoch (before / from the allow height on) it was signed in.
	SigHeight uint64
}

func (w *World) policy() types.SpendPolicy {
	return types.SpendPolicy{Type: types.PolicyTypeUnlockConditions(types.StandardUnlockConditions(w.Key.PublicKey()))}
}

func (w *World) uc() types.UnlockConditions { return types.StandardUnlockConditions(w.Key.PublicKey()) }

func tagBytes(tag uint64) []byte {
	b := make([]byte, 8)
	binary.LittleEndian.PutUint64(b, tag)
	return b
}

func (w *World) signPoolV1(cs consensus.State, txn *types.Transaction) {
	for _, in := range txn.SiacoinInputs {
		txn.Signatures = append(txn.Signatures, types.TransactionSignature{ParentID: types.Hash256(in.ParentID), CoveredFields: types.CoveredFields{WholeTransaction: true}})
	}
	for _, in := range txn.SiafundInputs {
		txn.Signatures = append(txn.Signatures, types.TransactionSignature{ParentID: types.Hash256(in.ParentID), CoveredFields: types.CoveredFields{WholeTransaction: true}})
	}
	for i := range txn.Signatures {
		h := cs.WholeSigHash(*txn, txn.Signatures[i].ParentID, 0, 0, nil)
		sig := w.Key.SignHash(h)
		txn.Signatures[i].Signature = sig[:]
	}
}

func (w *World) signPoolV2(cs consensus.State, txn *types.V2Transaction) {
	h := cs.InputSigHash(*txn)
	sp := types.SatisfiedPolicy{Policy: w.policy(), Signatures: []types.Signature{w.Key.SignHash(h)}}
	for i := range txn.SiacoinInputs {
		txn.SiacoinInputs[i].SatisfiedPolicy = sp
	}
	for i := range txn.SiafundInputs {
		txn.SiafundInputs[i].SatisfiedPolicy = sp
	}
}

// NewSiacoinPoolTx spends the given siacoin elements (only ID, SiacoinOutput and MaturityHeight
// are used) into nOuts equal outputs to the world's address, paying fee to the miner.  tag makes
// otherwise identical transactions (the members of a conflicting pair) distinct; fat > 0 adds
// that many bytes of arbitrary data (pool-full scenarios).  cs only supplies the signature-hash
// replay prefix, which is constant once the v2 allow height is passed.
func (w *World) NewSiacoinPoolTx(cs consensus.State, v2 bool, ins []types.SiacoinElement, nOuts int, fee types.Currency, tag uint64, fat int) *PoolTx {
	var sum types.Currency
	for _, e := range ins {
		sum = sum.Add(e.SiacoinOutput.Value)
	}
	if sum.Cmp(fee) <= 0 {
		panic("mat: pool transaction inputs do not cover the fee")
	}
	rest := sum.Sub(fee)
	var outs []types.SiacoinOutput
	for i := 0; i < nOuts; i++ {
		v := rest.Div64(uint64(nOuts - i))
		if i == nOuts-1 {
			v = rest
		}
		rest = rest.Sub(v)
		outs = append(outs, types.SiacoinOutput{Address: w.Addr, Value: v})
	}
	data := tagBytes(tag)
	if fat > 0 {
		data = append(data, make([]byte, fat)...)
	}
	p := &PoolTx{V2: v2, Fee: fee, Shape: "sc", SigHeight: cs.Index.Height}
	if fat > 0 {
		p.Shape = "fat"
	}
	for _, e := range ins {
		p.Ins = append(p.Ins, types.Hash256(e.ID))
	}
	if v2 {
		txn := types.V2Transaction{SiacoinOutputs: outs, MinerFee: fee, ArbitraryData: data}
		for _, e := range ins {
			txn.SiacoinInputs = append(txn.SiacoinInputs, types.V2SiacoinInput{Parent: types.SiacoinElement{
				ID: e.ID, SiacoinOutput: e.SiacoinOutput, MaturityHeight: e.MaturityHeight,
				StateElement: types.StateElement{LeafIndex: types.UnassignedLeafIndex}}})
		}
		w.signPoolV2(cs, &txn)
		p.T2, p.ID = txn, txn.ID()
		for i := range outs {
			p.Outs = append(p.Outs, types.Hash256(txn.SiacoinOutputID(p.ID, i)))
		}
	} else {
		txn := types.Transaction{SiacoinOutputs: outs, ArbitraryData: [][]byte{data}}
		if !fee.IsZero() {
			txn.MinerFees = []types.Currency{fee}
		}
		for _, e := range ins {
			txn.SiacoinInputs = append(txn.SiacoinInputs, types.SiacoinInput{ParentID: e.ID, UnlockConditions: w.uc()})
		}
		w.signPoolV1(cs, &txn)
		p.T1, p.ID = txn, txn.ID()
		for i := range outs {
			p.Outs = append(p.Outs, types.Hash256(txn.SiacoinOutputID(i)))
		}
	}
	return p
}

// NewSiafundPoolTx moves a confirmed siafund element to a new siafund output (the claim goes to
// the world's address as an immature siacoin output, which is not catalogued).
func (w *World) NewSiafundPoolTx(cs consensus.State, v2 bool, in types.SiafundElement, tag uint64) *PoolTx {
	p := &PoolTx{V2: v2, Shape: "sf", Ins: []types.Hash256{types.Hash256(in.ID)}, SigHeight: cs.Index.Height}
	out := types.SiafundOutput{Address: w.Addr, Value: in.SiafundOutput.Value}
	if v2 {
		txn := types.V2Transaction{
			SiafundInputs:  []types.V2SiafundInput{{Parent: in.Copy(), ClaimAddress: w.Addr}},
			SiafundOutputs: []types.SiafundOutput{out}, ArbitraryData: tagBytes(tag)}
		w.signPoolV2(cs, &txn)
		p.T2, p.ID = txn, txn.ID()
		p.Outs = []types.Hash256{types.Hash256(txn.SiafundOutputID(p.ID, 0))}
	} else {
		txn := types.Transaction{
			SiafundInputs:  []types.SiafundInput{{ParentID: in.ID, UnlockConditions: w.uc(), ClaimAddress: w.Addr}},
			SiafundOutputs: []types.SiafundOutput{out}, ArbitraryData: [][]byte{tagBytes(tag)}}
		w.signPoolV1(cs, &txn)
		p.T1, p.ID = txn, txn.ID()
		p.Outs = []types.Hash256{types.Hash256(txn.SiafundOutputID(0))}
	}
	return p
}

func (w *World) signV2Contract(cs consensus.State, fc *types.V2FileContract) {
	fc.RenterSignature, fc.HostSignature = types.Signature{}, types.Signature{}
	h := cs.ContractSigHash(*fc)
	fc.RenterSignature = w.Key.SignHash(h)
	fc.HostSignature = w.HostKey.SignHash(h)
}

// NewRevisionPoolTx revises a confirmed v2 contract (one siacoin moved from the renter to the
// host, revision number + bump).  It references the contract element and consumes nothing.
func (w *World) NewRevisionPoolTx(cs consensus.State, fce types.V2FileContractElement, bump uint64) *PoolTx {
	rev := fce.V2FileContract
	rev.RevisionNumber += bump
	one := types.Siacoins(1)
	if rev.RenterOutput.Value.Cmp(one) >= 0 {
		rev.RenterOutput.Value = rev.RenterOutput.Value.Sub(one)
		rev.HostOutput.Value = rev.HostOutput.Value.Add(one)
	}
	w.signV2Contract(cs, &rev)
	txn := types.V2Transaction{FileContractRevisions: []types.V2FileContractRevision{{Parent: fce.Copy(), Revision: rev}}}
	p := &PoolTx{V2: true, Shape: "rev", T2: txn, ID: txn.ID(), Refs: []types.Hash256{types.Hash256(fce.ID)}}
	return p
}

// NewExpirationPoolTx resolves a v2 contract by expiration (valid once its expiration height has
// passed); NewStorageProofPoolTx resolves it with a storage proof against the given chain index
// element (the block at the contract's proof height).  Both consume the contract element.
func (w *World) NewExpirationPoolTx(fce types.V2FileContractElement) *PoolTx {
	txn := types.V2Transaction{FileContractResolutions: []types.V2FileContractResolution{{Parent: fce.Copy(), Resolution: &types.V2FileContractExpiration{}}}}
	return &PoolTx{V2: true, Shape: "res-exp", T2: txn, ID: txn.ID(), Ins: []types.Hash256{types.Hash256(fce.ID)}}
}

func (w *World) NewStorageProofPoolTx(fce types.V2FileContractElement, cie types.ChainIndexElement) *PoolTx {
	sp := &types.V2StorageProof{ProofIndex: cie.Copy(), Leaf: Leaf64}
	txn := types.V2Transaction{FileContractResolutions: []types.V2FileContractResolution{{Parent: fce.Copy(), Resolution: sp}}}
	return &PoolTx{V2: true, Shape: "res-sp", T2: txn, ID: txn.ID(), Ins: []types.Hash256{types.Hash256(fce.ID)},
		Refs: []types.Hash256{types.Hash256(cie.ID)}}
}

// At instantiates the v2 form of the transaction for the tip of l: every input element the ledger
// holds gets the ledger's own copy (leaf index and Merkle proof valid at l's tip); a siacoin or
// siafund input the ledger does not hold is marked ephemeral (it must be created by an earlier
// transaction of the same set, pool or block).  eph lists the ids that were marked ephemeral.
// Contract and chain index elements are taken from the ledger when present and left as in the
// template otherwise.
func (p *PoolTx) At(l *Ledger) (txn types.V2Transaction, eph []types.Hash256) {
	if !p.V2 {
		panic("mat: At on a v1 pool transaction")
	}
	txn = p.T2.DeepCopy()
	for i := range txn.SiacoinInputs {
		in := &txn.SiacoinInputs[i]
		if e, ok := l.SC[in.Parent.ID]; ok {
			in.Parent = e.Copy()
		} else {
			in.Parent.StateElement = types.StateElement{LeafIndex: types.UnassignedLeafIndex}
			eph = append(eph, types.Hash256(in.Parent.ID))
		}
	}
	for i := range txn.SiafundInputs {
		in := &txn.SiafundInputs[i]
		if e, ok := l.SF[in.Parent.ID]; ok {
			in.Parent = e.Copy()
		} else {
			in.Parent.StateElement = types.StateElement{LeafIndex: types.UnassignedLeafIndex}
			eph = append(eph, types.Hash256(in.Parent.ID))
		}
	}
	for i := range txn.FileContractRevisions {
		if e, ok := l.V2FC[txn.FileContractRevisions[i].Parent.ID]; ok {
			txn.FileContractRevisions[i].Parent = e.Copy()
		}
	}
	for i := range txn.FileContractResolutions {
		r := &txn.FileContractResolutions[i]
		if e, ok := l.V2FC[r.Parent.ID]; ok {
			r.Parent = e.Copy()
		}
		if sp, ok := r.Resolution.(*types.V2StorageProof); ok {
			c := *sp
			if e, ok := l.CI[sp.ProofIndex.ChainIndex.Height]; ok && e.ID == sp.ProofIndex.ID {
				c.ProofIndex = e.Copy()
			}
			r.Resolution = &c
		}
	}
	return
}

// SpendableSC lists the siacoin elements of l that belong to the world's key, carry a value and
// have no maturity delay (ordinary transaction outputs and the genesis outputs), in id order.
// Restricting pool transactions to them keeps their validity independent of the height reached.
func (w *World) SpendableSC(l *Ledger) (out []types.SiacoinElement) {
	for _, e := range l.SortedSC() {
		if e.SiacoinOutput.Address == w.Addr && e.MaturityHeight == 0 && !e.SiacoinOutput.Value.IsZero() {
			out = append(out, e.Copy())
		}
	}
	return
}

// AddPoolTx puts a catalogued transaction into the block under construction (v2: instantiated
// for the builder's ledger, inputs created earlier in the same block stay ephemeral) and marks
// its inputs as used so that later random operations of the block do not touch them.
func (b *Builder) AddPoolTx(p *PoolTx) {
	for _, id := range p.Ins {
		b.used[id] = true
	}
	for _, id := range p.Refs {
		b.used[id] = true
	}
	if p.V2 {
		txn, _ := p.At(b.L)
		b.v2 = append(b.v2, txn)
	} else {
		b.v1 = append(b.v1, CopyTxn(p.T1))
	}
	b.Ops = append(b.Ops, fmt.Sprintf("pool%d", p.Name))
}

// MarkUsed keeps the random operations of the block away from the given elements (the inputs of
// pooled transactions that the scenario wants to stay spendable on this branch).
func (b *Builder) MarkUsed(ids ...types.Hash256) {
	for _, id := range ids {
		b.used[id] = true
	}
}

// AddCustom mines a valid child of node parent whose body is assembled by fill (AddPoolTx, Do,
// RandomOps ...) on the parent's linear ledger, classifies it with core and appends it to the tree
// exactly as Add does for uncorrupted blocks.
func (t *Tree) AddCustom(parent int, rng *rand.Rand, tsOffset int, fill func(b *Builder)) *Node {
	p := t.Node(parent)
	if p.L == nil {
		panic("mat: AddCustom needs a parent with a valid chain")
	}
	bld := NewBuilder(t.W, p.L, rng)
	if fill != nil {
		fill(bld)
	}
	blk := bld.blockWithFees(tsOffset)
	n := t.attach(parent, blk)
	n.Ops = bld.Ops
	return n
}

// blockWithFees finishes the block like Builder.Block, but pays the miner the reward PLUS the fees
// of the pool transactions in the body (Builder.Block's own operations never carry fees).
func (b *Builder) blockWithFees(tsOffset int) types.Block {
	cs := b.L.CS
	h := b.childHeight()
	reward := cs.BlockReward()
	for _, txn := range b.v1 {
		reward = reward.Add(txn.TotalFees())
	}
	for _, txn := range b.v2 {
		reward = reward.Add(txn.MinerFee)
	}
	blk := types.Block{
		ParentID:     cs.Index.ID,
		Timestamp:    b.W.Genesis.Timestamp.Add(time.Duration(10*h) * time.Second).Add(time.Duration(tsOffset) * time.Second),
		MinerPayouts: []types.SiacoinOutput{{Address: b.W.Addr, Value: reward}},
		Transactions: b.v1,
	}
	if b.v2OK() {
		blk.V2 = &types.V2BlockData{Height: h, Transactions: append([]types.V2Transaction{{ArbitraryData: tagBytes(b.salt)}}, b.v2...)}
		blk.V2.Commitment = cs.Commitment(b.W.Addr, blk.Transactions, blk.V2Transactions())
	} else if len(b.v1) == 0 {
		blk.Transactions = []types.Transaction{{ArbitraryData: [][]byte{tagBytes(b.salt)}}}
	}
	Mine(cs, &blk)
	return blk
}

// AddBlock appends an externally assembled block (for instance one mined from a node's
// transaction pool) as a child of node parent; its class is computed with core as for every other
// block of the tree.
func (t *Tree) AddBlock(parent int, blk types.Block) *Node { return t.attach(parent, blk) }

func (t *Tree) attach(parent int, blk types.Block) *Node {
	p := t.Node(parent)
	n := &Node{ID: len(t.Nodes) + 1, Parent: parent, Height: p.Height + 1, Block: blk, Alias: len(t.Nodes) + 1}
	pstate := p.State()
	n.Cls = classify(p.L, pstate, blk)
	var ats time.Time
	if p.L != nil {
		ats = p.L.AncestorTS()
	}
	n.Hdr = consensus.ApplyHeader(pstate, blk.Header(), ats)
	n.HasState = p.HasState && (n.Cls == "ok" || n.Cls == "badbody")
	if p.L != nil && p.ValidChain && n.Cls == "ok" {
		l := p.L.Clone()
		if err := l.Apply(blk); err != nil {
			panic(fmt.Sprintf("mat: block classified ok does not apply: %v", err))
		}
		n.L = l
		n.ValidChain = true
	}
	t.Nodes = append(t.Nodes, n)
	return n
}

// AssembleBlock builds a child of l's tip from the given transactions (own assembly, independent
// of the repository's miner): canonical timestamp, reward plus fees to the world's address,
// commitment, nonce.
func (w *World) AssembleBlock(l *Ledger, v1 []types.Transaction, v2 []types.V2Transaction, salt uint64) types.Block {
	cs := l.CS
	h := cs.Index.Height + 1
	reward := cs.BlockReward()
	for _, txn := range v1 {
		reward = reward.Add(txn.TotalFees())
	}
	for _, txn := range v2 {
		reward = reward.Add(txn.MinerFee)
	}
	blk := types.Block{
		ParentID:     cs.Index.ID,
		Timestamp:    w.Genesis.Timestamp.Add(time.Duration(10*h) * time.Second),
		MinerPayouts: []types.SiacoinOutput{{Address: w.Addr, Value: reward}},
		Transactions: v1,
	}
	if h >= w.N.HardforkV2.AllowHeight {
		blk.V2 = &types.V2BlockData{Height: h, Transactions: append([]types.V2Transaction{{ArbitraryData: tagBytes(salt)}}, v2...)}
		blk.V2.Commitment = cs.Commitment(w.Addr, blk.Transactions, blk.V2Transactions())
	} else {
		blk.Transactions = append([]types.Transaction{{ArbitraryData: [][]byte{tagBytes(salt)}}}, v1...)
	}
	Mine(cs, &blk)
	return blk
}
