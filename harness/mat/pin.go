package mat

// Pinned expiration order (added for property C06; nothing in mat.go / trees.go / ledger.go calls
// into this file).  chain.WithExpiringContractOrder lets a node operator pin, per block, the order
// in which the v1 contracts expiring in that block are resolved; the order decides the leaf
// indices of the missed-proof outputs and thereby every later accumulator state.  A ledger that is
// to be the oracle of a manager with such a pin must apply the block with the same order.

import (
	"fmt"

	"go.sia.tech/core/consensus"
	"go.sia.tech/core/types"
)

// ApplyOrdered validates b as a child of the tip and applies it like Apply, except that, when two
// or more v1 contracts expire in b and reorder is not nil, they are resolved in the order
// reorder(ids) (ids = the ledger's own, linear order).  It returns that order (nil if the block
// needs no pin).
func (l *Ledger) ApplyOrdered(b types.Block, reorder func([]types.FileContractID) []types.FileContractID) ([]types.FileContractID, error) {
	bs := l.BlockSupplement(b)
	var pinned []types.FileContractID
	if reorder != nil && len(bs.ExpiringFileContracts) >= 2 {
		byID := map[types.FileContractID]types.FileContractElement{}
		var ids []types.FileContractID
		for _, fce := range bs.ExpiringFileContracts {
			byID[fce.ID] = fce
			ids = append(ids, fce.ID)
		}
		pinned = reorder(append([]types.FileContractID(nil), ids...))
		if len(pinned) != len(ids) {
			return nil, fmt.Errorf("mat: reorder changed the number of expiring contracts")
		}
		ordered := make([]types.FileContractElement, 0, len(ids))
		for _, id := range pinned {
			fce, ok := byID[id]
			if !ok {
				return nil, fmt.Errorf("mat: reorder invented contract %v", id)
			}
			ordered = append(ordered, fce)
			delete(byID, id)
		}
		bs.ExpiringFileContracts = ordered
	}
	if err := consensus.ValidateOrphan(l.CS, b); err != nil {
		return nil, fmt.Errorf("orphan: %w", err)
	}
	if err := consensus.ValidateBlock(l.CS, b, bs); err != nil {
		return nil, err
	}
	cs, au := consensus.ApplyBlock(l.CS, b, bs, l.AncestorTS())
	l.absorb(b, bs, cs, au)
	return pinned, nil
}

// PinOrders are the permutations a RoleTree can pin: "linear" (the order of a node that saw the chain
// linearly), "reverse", "rotate" (first contract last).
func PinOrder(mode string) func([]types.FileContractID) []types.FileContractID {
	switch mode {
	case "linear":
		return func(ids []types.FileContractID) []types.FileContractID { return ids }
	case "reverse":
		return func(ids []types.FileContractID) []types.FileContractID {
			for i, j := 0, len(ids)-1; i < j; i, j = i+1, j-1 {
				ids[i], ids[j] = ids[j], ids[i]
			}
			return ids
		}
	case "rotate":
		return func(ids []types.FileContractID) []types.FileContractID { return append(ids[1:], ids[0]) }
	}
	return nil
}
