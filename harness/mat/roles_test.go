package mat

import (
	"math/rand"
	"testing"
	"time"
)

// TestRoleMaterialiser: role trees in the three regimes, every role operation occurring, ledger
// proofs verifying at every tip, Foundation subsidies recurring.
func TestRoleMaterialiser(t *testing.T) {
	ops := map[string]int{}
	cls := map[string]int{}
	start := time.Now()
	for seed := int64(1); seed <= 6; seed++ {
		for _, p := range []Params{{Allow: 1000, Require: 1010, Final: 1020}, {Allow: 6, Require: 12, Final: 16}, {Allow: 1, Require: 1, Final: 1}} {
			p.Seed = seed
			rw := NewRoleWorld(RoleParams{Params: p, FoundationHeight: 2, FoundationTo: int(seed) % 3, SubsidyEvery: 4})
			rng := rand.New(rand.NewSource(seed))
			tr := NewRoleTree(rw)
			tip := 1
			for i := 0; i < 3; i++ {
				tip = tr.Add(tip, rng, 3, nil, 0, "").ID
			}
			tr.GrowRandom(rng, GenSpec{Blocks: 60, ForkProb: 0.25, MaxLeaves: 3, BadBlocks: 3, OpsPerBlk: 3, Warmup: 3}, []int{tip})
			for _, n := range tr.Nodes {
				cls[n.Cls+"/"+n.Corrupt]++
				for _, o := range n.Ops {
					name := o
					for i := range o {
						if o[i] == ':' {
							name = o[:i]
							break
						}
					}
					ops[name]++
				}
				if n.L != nil {
					if err := n.L.ProofsVerify(); err != nil {
						t.Fatalf("seed %d node %d: %v", seed, n.ID, err)
					}
				}
			}
		}
	}
	t.Log("ops:", ops)
	t.Log("classes:", cls)
	t.Log("wall:", time.Since(start))
	for _, o := range RoleOps {
		if ops[o] == 0 {
			t.Errorf("operation %s never generated", o)
		}
	}
}
