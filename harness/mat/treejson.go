package mat

import "go.sia.tech/core/types"

// TreeJSON is the abstract tree handed to the TLA+ specification (spec/MCChain.tla reads a JSON
// array of these).  Block ids are 1..N (1 = genesis), element and contract ids small integers.
type TreeJSON struct {
	N        int        `json:"n"`
	Parent   []int      `json:"parent"`
	Height   []int      `json:"height"`
	Cls      []string   `json:"cls"`
	Heavier  [][]bool   `json:"heavier"`
	RequireH int        `json:"requireH"`
	MaxH     int        `json:"maxH"`
	Eff      []EffJSON  `json:"eff"`
	Ops      [][]string `json:"ops"`
	Corrupt  []string   `json:"corrupt"`
	V2       []bool     `json:"v2"`    // block carries v2 data
	Valid    []bool     `json:"valid"` // whole chain genesis..block is valid
	Alias    []int      `json:"alias"` // the node whose block ID the node shares (itself unless an ID twin)
	Twins    [][]int    `json:"twins"` // per node: the ID twins of it
}

type EffJSON struct {
	Creates []int    `json:"creates"`
	Spends  []int    `json:"spends"`
	FC      []FCJSON `json:"fc"`
}

type FCJSON struct {
	K    string `json:"k"`
	ID   int    `json:"id"`
	End  int    `json:"end"`
	Old  int    `json:"old"`
	Rev  int    `json:"rev"`
	Prev int    `json:"prev"`
}

// Names maps real ids to the small integers of the abstract tree (and back).
type Names struct {
	Elem   map[types.Hash256]int
	ElemID []types.Hash256 // ElemID[i-1] is element i
	FC     map[types.FileContractID]int
	FCID   []types.FileContractID
}

func (nm *Names) elem(id types.Hash256) int {
	if v, ok := nm.Elem[id]; ok {
		return v
	}
	nm.ElemID = append(nm.ElemID, id)
	nm.Elem[id] = len(nm.ElemID)
	return len(nm.ElemID)
}

func (nm *Names) fc(id types.FileContractID) int {
	if v, ok := nm.FC[id]; ok {
		return v
	}
	nm.FCID = append(nm.FCID, id)
	nm.FC[id] = len(nm.FCID)
	return len(nm.FCID)
}

// Abstract projects the tree onto what the specification sees.
func (t *Tree) Abstract() (TreeJSON, *Names) {
	nm := &Names{Elem: map[types.Hash256]int{}, FC: map[types.FileContractID]int{}}
	n := len(t.Nodes)
	tj := TreeJSON{N: n, RequireH: int(t.W.N.HardforkV2.RequireHeight)}
	maxH := 0
	for _, nd := range t.Nodes {
		tj.Parent = append(tj.Parent, nd.Parent)
		tj.Height = append(tj.Height, int(nd.Height))
		tj.Cls = append(tj.Cls, nd.Cls)
		tj.Ops = append(tj.Ops, append([]string{}, nd.Ops...))
		tj.Corrupt = append(tj.Corrupt, nd.Corrupt)
		tj.V2 = append(tj.V2, nd.Block.V2 != nil)
		tj.Valid = append(tj.Valid, nd.ValidChain)
		tj.Alias = append(tj.Alias, nd.Alias)
		if int(nd.Height) > maxH {
			maxH = int(nd.Height)
		}
		ej := EffJSON{Creates: []int{}, Spends: []int{}, FC: []FCJSON{}}
		if nd.L != nil {
			e := nd.L.Effects[len(nd.L.Effects)-1]
			for _, id := range e.CreatedSC {
				ej.Creates = append(ej.Creates, nm.elem(types.Hash256(id)))
			}
			for _, id := range e.CreatedSF {
				ej.Creates = append(ej.Creates, nm.elem(types.Hash256(id)))
			}
			for _, id := range e.SpentSC {
				ej.Spends = append(ej.Spends, nm.elem(types.Hash256(id)))
			}
			for _, id := range e.SpentSF {
				ej.Spends = append(ej.Spends, nm.elem(types.Hash256(id)))
			}
			for _, d := range e.FC {
				ej.FC = append(ej.FC, FCJSON{K: d.K, ID: nm.fc(d.ID), End: int(d.End), Old: int(d.Old), Rev: int(d.Rev), Prev: int(d.Prev)})
				if int(d.End) > maxH {
					maxH = int(d.End)
				}
				if int(d.Old) > maxH {
					maxH = int(d.Old)
				}
			}
		}
		tj.Eff = append(tj.Eff, ej)
	}
	tj.MaxH = maxH + 1
	tj.Twins = make([][]int, n)
	for i := range tj.Twins {
		tj.Twins[i] = []int{}
	}
	for _, nd := range t.Nodes {
		if nd.Alias != nd.ID {
			tj.Twins[nd.Alias-1] = append(tj.Twins[nd.Alias-1], nd.ID)
		}
	}
	tj.Heavier = make([][]bool, n)
	for i := range tj.Heavier {
		tj.Heavier[i] = make([]bool, n)
		for j := range tj.Heavier[i] {
			tj.Heavier[i][j] = t.Heavier(i+1, j+1)
		}
	}
	return tj, nm
}
