// Package kvx binds spec/KV.tla to the real chain.DB backends (property C17):
// MemDB, CacheDB over MemDB, CacheDB over Bolt, BoltChainDB.
package kvx

import (
	"fmt"
	"os"
	"path/filepath"
	"sort"
	"strings"
	"testing"

	"go.etcd.io/bbolt"
	"go.sia.tech/coreutils"
	"go.sia.tech/coreutils/chain"
	"verifharness/hx"
)

var Backends = []string{"mem", "cache-mem", "cache-bolt", "bolt"}

type session struct {
	backend string
	db      chain.DB
	closers []func()
}

var boltN int

func open(backend string) (*session, error) {
	s := &session{backend: backend}
	newBolt := func() (chain.DB, error) {
		dir := os.Getenv("VERIF_WORK")
		if dir == "" {
			dir = os.TempDir()
		}
		boltN++
		p := filepath.Join(dir, fmt.Sprintf("kv-%d-%d.bolt", os.Getpid(), boltN))
		os.Remove(p)
		bdb, err := bbolt.Open(p, 0600, &bbolt.Options{NoSync: true, NoFreelistSync: true, NoGrowSync: true})
		if err != nil {
			return nil, err
		}
		cdb := coreutils.NewBoltChainDB(bdb)
		s.closers = append(s.closers, func() { cdb.Cancel(); bdb.Close(); os.Remove(p) })
		return cdb, nil
	}
	var err error
	switch backend {
	case "mem":
		s.db = chain.NewMemDB()
	case "cache-mem":
		s.db = chain.NewCacheDB(chain.NewMemDB())
	case "cache-bolt":
		var b chain.DB
		if b, err = newBolt(); err == nil {
			s.db = chain.NewCacheDB(b)
		}
	case "bolt":
		s.db, err = newBolt()
	case "stub-getfallthrough":
		// self-test only: a deliberately wrong backend (Get ignores unflushed deletes)
		s.db = &stubDB{DB: chain.NewCacheDB(chain.NewMemDB()), inner: nil}
	default:
		err = fmt.Errorf("unknown backend %q", backend)
	}
	return s, err
}

func (s *session) close() {
	for _, c := range s.closers {
		c()
	}
}

// Act is one spec action (fields as printed by ToJson(act')).
type Act struct {
	Op string `json:"op"`
	B  string `json:"b,omitempty"`
	K  string `json:"k,omitempty"`
	V  string `json:"v,omitempty"`
}

// step performs the action on the real backend and returns the reply in the spec's shape:
// ["ok"], ["exists"], ["nil"], ["bucket"], ["val", v|"none"], ["set", [[k,v]...sorted]].
// A bucket handle is re-fetched for every operation (a bbolt handle dies with its transaction).
func (s *session) step(a Act) (reply []any, err error) {
	defer func() {
		if r := recover(); r != nil {
			err = fmt.Errorf("panic: %v", r)
		}
	}()
	bucket := func() chain.DBBucket { return s.db.Bucket([]byte(a.B)) }
	switch a.Op {
	case "Create":
		if _, e := s.db.CreateBucket([]byte(a.B)); e != nil {
			return []any{"exists"}, nil
		}
		return []any{"ok"}, nil
	case "Open":
		if b := bucket(); b == nil {
			return []any{"nil"}, nil
		}
		return []any{"bucket"}, nil
	case "Put":
		b := bucket()
		if b == nil {
			return []any{"nil"}, nil
		}
		if e := b.Put([]byte(a.K), []byte(a.V)); e != nil {
			return []any{"err", e.Error()}, nil
		}
		return []any{"ok"}, nil
	case "Del":
		b := bucket()
		if b == nil {
			return []any{"nil"}, nil
		}
		if e := b.Delete([]byte(a.K)); e != nil {
			return []any{"err", e.Error()}, nil
		}
		return []any{"ok"}, nil
	case "Get":
		b := bucket()
		if b == nil {
			return []any{"nil"}, nil
		}
		v := b.Get([]byte(a.K))
		if v == nil {
			return []any{"val", "none"}, nil
		}
		return []any{"val", string(v)}, nil
	case "Iter":
		b := bucket()
		if b == nil {
			return []any{"nil"}, nil
		}
		pairs := [][]string{}
		for k, v := range b.Iter() {
			pairs = append(pairs, []string{string(k), string(v)})
		}
		sort.Slice(pairs, func(i, j int) bool { return pairs[i][0] < pairs[j][0] || (pairs[i][0] == pairs[j][0] && pairs[i][1] < pairs[j][1]) })
		// a consumer may stop an iteration after any number of entries: the iterator must then stop
		// too (never call yield again), and what it delivered must be distinct members of the full
		// iteration -- on every backend alike
		if msg := iterStops(b, pairs); msg != "" {
			return []any{"err", msg}, nil
		}
		return []any{"set", pairs}, nil
	case "Flush":
		if e := s.db.Flush(); e != nil {
			return []any{"err", e.Error()}, nil
		}
		return []any{"ok"}, nil
	case "Cancel":
		s.db.Cancel()
		return []any{"ok"}, nil
	}
	return nil, fmt.Errorf("unknown op %q", a.Op)
}

// project computes the spec's `cur` through the public interface only:
// bucket -> {ex, kv: key -> value|"none"}.
func (s *session) project(buckets, keys []string) map[string]any {
	out := map[string]any{}
	for _, bn := range buckets {
		kv := map[string]string{}
		b := s.db.Bucket([]byte(bn))
		for _, k := range keys {
			kv[k] = "none"
			if b != nil {
				if v := b.Get([]byte(k)); v != nil {
					kv[k] = string(v)
				}
			}
		}
		out[bn] = map[string]any{"ex": b != nil, "kv": kv}
	}
	return out
}

// stubDB wraps a correct DB and re-introduces "Get ignores unflushed deletes" (self-test).
type stubDB struct {
	chain.DB
	inner any
	dels map[string]string
	last map[string]string
}

type stubBucket struct {
	chain.DBBucket
	name string
	s    *stubDB
}

func (s *stubDB) Bucket(name []byte) chain.DBBucket {
	b := s.DB.Bucket(name)
	if b == nil {
		return nil
	}
	return stubBucket{b, string(name), s}
}
func (s *stubDB) Flush() error { s.dels = nil; return s.DB.Flush() }
func (s *stubDB) Cancel()      { s.dels = nil; s.DB.Cancel() }
func (b stubBucket) Delete(k []byte) error {
	if v := b.DBBucket.Get(k); v != nil {
		if b.s.dels == nil {
			b.s.dels = map[string]string{}
		}
		b.s.dels[b.name+"/"+string(k)] = string(v)
	}
	return b.DBBucket.Delete(k)
}
func (b stubBucket) Put(k, v []byte) error {
	delete(b.s.dels, b.name+"/"+string(k))
	return b.DBBucket.Put(k, v)
}
func (b stubBucket) Get(k []byte) []byte {
	if v := b.DBBucket.Get(k); v != nil {
		return v
	}
	if v, ok := b.s.dels[b.name+"/"+string(k)]; ok {
		return []byte(v) // wrong on purpose: falls through to the stale value
	}
	return nil
}

// ---------------------------------------------------------------- Leg R: spec -> code

type edge struct {
	Act   Act            `json:"act"`
	Reply []any          `json:"reply"`
	To    map[string]any `json:"to"`
}

type replayIn struct {
	Buckets  []string `json:"buckets"`
	Keys     []string `json:"keys"`
	Backends []string `json:"backends"`
	Paths    [][]edge `json:"paths"`
}

func normReply(r []any) string {
	// the spec prints sets of tuples as arrays in arbitrary order: sort them
	if len(r) == 2 && r[0] == "set" {
		var ps []string
		switch v := r[1].(type) {
		case []any:
			for _, p := range v {
				ps = append(ps, hx.JSON(p))
			}
		case [][]string:
			for _, p := range v {
				ps = append(ps, hx.JSON(p))
			}
		}
		sort.Strings(ps)
		return "set:" + strings.Join(ps, ",")
	}
	return hx.JSON(r)
}

// TestReplay steps every backend through every path of the edge cover of KV's state graph and
// compares reply and projected state with the specification after every action; at the end of
// each path a Cancel is issued and the projection compared with the spec's durable image.
func TestReplay(t *testing.T) {
	res := hx.NewResult()
	defer res.Write()
	var in replayIn
	if err := hx.ReadIn(&in); err != nil {
		t.Fatal(err)
	}
	if len(in.Backends) == 0 {
		in.Backends = Backends
	}
	for _, backend := range in.Backends {
		for pi, path := range in.Paths {
			s, err := open(backend)
			if err != nil {
				t.Fatal(err)
			}
			var lastTo map[string]any
			for si, e := range path {
				res.Eval(backend + "|" + hx.JSON(e.Act) + "|" + hx.JSON(e.To))
				got, err := s.step(e.Act)
				replay := map[string]any{"kind": "path", "backend": backend, "buckets": in.Buckets, "keys": in.Keys, "path": path[:si+1]}
				if err != nil {
					res.Mismatch(fmt.Sprintf("replay:%s:%s:panic", backend, e.Act.Op), fmt.Sprintf("path %d step %d %s: %v", pi, si, hx.JSON(e.Act), err), replay)
					break
				}
				if normReply(got) != normReply(e.Reply) {
					res.Mismatch(fmt.Sprintf("replay:%s:%s:reply", backend, e.Act.Op),
						fmt.Sprintf("path %d step %d %s: backend replied %s, spec says %s", pi, si, hx.JSON(e.Act), hx.JSON(got), hx.JSON(e.Reply)), replay)
					break
				}
				proj := s.project(in.Buckets, in.Keys)
				if want := e.To["cur"]; hx.JSON(proj) != hx.JSON(want) {
					res.Mismatch(fmt.Sprintf("replay:%s:%s:state", backend, e.Act.Op),
						fmt.Sprintf("path %d step %d %s: backend state %s, spec says %s", pi, si, hx.JSON(e.Act), hx.JSON(proj), hx.JSON(want)), replay)
					break
				}
				lastTo = e.To
				if si == len(path)-1 && lastTo != nil {
					s.db.Cancel()
					proj := s.project(in.Buckets, in.Keys)
					if want := lastTo["dur"]; hx.JSON(proj) != hx.JSON(want) {
						res.Mismatch(fmt.Sprintf("replay:%s:durable", backend),
							fmt.Sprintf("path %d: after final Cancel backend state %s, spec durable image %s", pi, hx.JSON(proj), hx.JSON(want)), replay)
					}
				}
			}
			s.close()
			if pi < 1 && backend == in.Backends[0] {
				res.Sample(map[string]any{"backend": backend, "path": path})
			}
		}
	}
	res.Count("paths", len(in.Paths))
	res.Count("backends", len(in.Backends))
}

// ---------------------------------------------------------------- Leg T: code -> spec

type event struct {
	Op      string     `json:"op"`
	Backend string     `json:"backend,omitempty"`
	B       string     `json:"b,omitempty"`
	K       string     `json:"k,omitempty"`
	V       string     `json:"v,omitempty"`
	Reply   string     `json:"reply,omitempty"`
	Res     string     `json:"res,omitempty"`
	Set     [][]string `json:"set"`
	Seq     int        `json:"seq"`
}

type tracer struct {
	tw   *hx.TraceWriter
	s    *session
	seq  int
	keys []string
	bks  []string
	res  *hx.Result
}

// do performs one operation on the real backend and logs the event with its reply.
func (tr *tracer) do(a Act) {
	reply, err := tr.s.step(a)
	tr.seq++
	ev := event{Op: a.Op, B: a.B, K: a.K, V: a.V, Seq: tr.seq, Set: [][]string{}}
	if err != nil {
		ev.Reply = "panic"
		tr.res.Mismatch(fmt.Sprintf("trace:%s:%s:panic", tr.s.backend, a.Op), err.Error(), nil)
	} else {
		ev.Reply = fmt.Sprint(reply[0])
		switch reply[0] {
		case "val":
			ev.Res = reply[1].(string)
		case "set":
			ev.Set = reply[1].([][]string)
		case "nil":
			// the bucket does not exist for the backend: log it as the Open observation it is
			ev.Op = "Open"
		}
	}
	tr.tw.Emit(ev)
}

// observe logs the complete session view: Open for every bucket, Get for every key, Iter.
func (tr *tracer) observe() {
	for _, b := range tr.bks {
		tr.do(Act{Op: "Open", B: b})
		for _, k := range tr.keys {
			tr.do(Act{Op: "Get", B: b, K: k})
		}
		tr.do(Act{Op: "Iter", B: b})
	}
}

func mutAlphabet(buckets, keys, vals []string) []Act {
	var al []Act
	for _, b := range buckets {
		al = append(al, Act{Op: "Create", B: b})
	}
	for _, b := range buckets {
		for _, k := range keys {
			for _, v := range vals {
				al = append(al, Act{Op: "Put", B: b, K: k, V: v})
			}
			al = append(al, Act{Op: "Del", B: b, K: k})
		}
	}
	al = append(al, Act{Op: "Flush"}, Act{Op: "Cancel"})
	return al
}

// TestDriver runs the real backends over (a) every sequence of mutating operations up to
// length VERIF_L over a small alphabet and (b) VERIF_RANDOM random sequences of length
// VERIF_RLEN, observing the complete session view after every operation, and records one
// NDJSON event per interface call.  The traces are validated by TLC against KVTrace.tla.
func TestDriver(t *testing.T) {
	res := hx.NewResult()
	defer res.Write()
	L := hx.EnvInt("VERIF_L", 3)
	nrand := hx.EnvInt("VERIF_RANDOM", 50)
	rlen := hx.EnvInt("VERIF_RLEN", 200)
	shards := hx.EnvInt("VERIF_SHARDS", 8)
	backends := Backends
	if b := os.Getenv("VERIF_BACKENDS"); b != "" {
		backends = strings.Split(b, ",")
	}
	dir := os.Getenv("VERIF_WORK")
	// exhaustive part uses 1 bucket + a second bucket only for Create (bucket independence),
	// random part uses the full alphabet
	exAl := mutAlphabet([]string{"b1"}, []string{"k1", "k2"}, []string{"v1", "v2"})
	exAl = append(exAl, Act{Op: "Create", B: "b2"}, Act{Op: "Put", B: "b2", K: "k1", V: "v1"})
	fullAl := mutAlphabet([]string{"b1", "b2"}, []string{"k1", "k2"}, []string{"v1", "v2"})
	bks, keys := []string{"b1", "b2"}, []string{"k1", "k2"}

	tws := make([]*hx.TraceWriter, shards)
	for i := range tws {
		tw, err := hx.NewTraceWriter(filepath.Join(dir, fmt.Sprintf("kvtrace-%d.ndjson", i)))
		if err != nil {
			t.Fatal(err)
		}
		tws[i] = tw
	}
	ntr := 0
	runSeq := func(backend string, seq []Act) {
		tw := tws[ntr%shards]
		ntr++
		s, err := open(backend)
		if err != nil {
			t.Fatal(err)
		}
		defer s.close()
		tw.Emit(event{Op: "Reset", Backend: backend, Set: [][]string{}})
		tr := &tracer{tw: tw, s: s, keys: keys, bks: bks, res: res}
		tr.observe()
		for _, a := range seq {
			tr.do(a)
			tr.observe()
		}
		res.Eval(backend + "|" + hx.JSON(seq))
	}
	for _, backend := range backends {
		// (a) exhaustive over mutating sequences of length exactly L (prefixes are covered
		// by the observation after every step)
		idx := make([]int, L)
		for {
			seq := make([]Act, L)
			for i, j := range idx {
				seq[i] = exAl[j]
			}
			runSeq(backend, seq)
			i := L - 1
			for ; i >= 0; i-- {
				idx[i]++
				if idx[i] < len(exAl) {
					break
				}
				idx[i] = 0
			}
			if i < 0 {
				break
			}
		}
		// (b) random long sequences
		rng := hx.Rand(int64(len(backend)))
		for n := 0; n < nrand; n++ {
			seq := make([]Act, rlen)
			for i := range seq {
				seq[i] = fullAl[rng.Intn(len(fullAl))]
			}
			runSeq(backend, seq)
			if n == 0 {
				res.Sample(map[string]any{"backend": backend, "random_sequence_prefix": seq[:8]})
			}
		}
	}
	total := 0
	for _, tw := range tws {
		total += tw.N
		if err := tw.Close(); err != nil {
			t.Fatal(err)
		}
	}
	res.Traces = ntr
	res.Count("events", total)
	res.Count("alphabet", len(exAl))
	res.Count("L", L)
}

// TestReplayOne re-executes one saved replay record (./check C17 --replay f).
func TestReplayOne(t *testing.T) {
	res := hx.NewResult()
	defer res.Write()
	var mm struct {
		Replay struct {
			Kind    string   `json:"kind"`
			Backend string   `json:"backend"`
			Buckets []string `json:"buckets"`
			Keys    []string `json:"keys"`
			Path    []edge   `json:"path"`
		} `json:"replay"`
	}
	if err := hx.ReadIn(&mm); err != nil {
		t.Fatal(err)
	}
	r := mm.Replay
	s, err := open(r.Backend)
	if err != nil {
		t.Fatal(err)
	}
	defer s.close()
	for si, e := range r.Path {
		res.Eval(hx.JSON(e.Act))
		got, err := s.step(e.Act)
		if err != nil {
			res.Mismatch(fmt.Sprintf("replay:%s:%s:panic", r.Backend, e.Act.Op), err.Error(), r)
			return
		}
		if normReply(got) != normReply(e.Reply) {
			res.Mismatch(fmt.Sprintf("replay:%s:%s:reply", r.Backend, e.Act.Op), fmt.Sprintf("step %d: got %s want %s", si, hx.JSON(got), hx.JSON(e.Reply)), r)
			return
		}
		if proj := s.project(r.Buckets, r.Keys); hx.JSON(proj) != hx.JSON(e.To["cur"]) {
			res.Mismatch(fmt.Sprintf("replay:%s:%s:state", r.Backend, e.Act.Op), fmt.Sprintf("step %d: got %s want %s", si, hx.JSON(proj), hx.JSON(e.To["cur"])), r)
			return
		}
	}
}


// iterStops drives b.Iter() by hand and stops it after n = 1..len(full) entries.
func iterStops(b chain.DBBucket, full [][]string) (msg string) {
	defer func() {
		if r := recover(); r != nil {
			msg = fmt.Sprintf("early-stopped iteration panicked: %v", r)
		}
	}()
	in := map[string]string{}
	for _, p := range full {
		in[p[0]] = p[1]
	}
	for n := 1; n <= len(full); n++ {
		calls := 0
		seen := map[string]bool{}
		bad := ""
		b.Iter()(func(k, v []byte) bool {
			calls++
			if calls > n {
				bad = fmt.Sprintf("iteration stopped by the consumer after %d entries called yield again (call %d, key %q)", n, calls, k)
				return false
			}
			if w, ok := in[string(k)]; !ok || w != string(v) {
				bad = fmt.Sprintf("early-stopped iteration delivered (%q, %q), not part of the full iteration", k, v)
			}
			if seen[string(k)] {
				bad = fmt.Sprintf("early-stopped iteration delivered key %q twice", k)
			}
			seen[string(k)] = true
			return calls < n
		})
		if bad != "" {
			return bad
		}
		if calls != n {
			return fmt.Sprintf("iteration asked for %d of %d entries delivered %d", n, len(full), calls)
		}
	}
	return ""
}
