package kvx

import (
	"fmt"
	"os"
	"path/filepath"
	"testing"

	"go.etcd.io/bbolt"
	"go.sia.tech/coreutils"
	"go.sia.tech/coreutils/chain"
	"verifharness/hx"
)

// TestBulk is C17 for a session far larger than any enumerated sequence: 70 000 unflushed writes in
// one bucket, bucket handles looked up again in between, then Cancel -- every backend must discard
// exactly the unflushed writes (and nothing may have been committed on the way); the same session
// flushed must be durable on every backend.
func TestBulk(t *testing.T) {
	res := hx.NewResult()
	defer res.Write()
	dir := os.Getenv("VERIF_WORK")
	n := hx.EnvInt("VERIF_BULK_N", 70000)
	key := func(i int) []byte { return []byte(fmt.Sprintf("key-%07d", i)) }
	for _, name := range []string{"mem", "cache-mem", "bolt", "cache-bolt"} {
		for _, end := range []string{"cancel", "flush"} {
			var db chain.DB
			var closer func()
			switch name {
			case "mem":
				db = chain.NewMemDB()
			case "cache-mem":
				db = chain.NewCacheDB(chain.NewMemDB())
			default:
				p := filepath.Join(dir, fmt.Sprintf("bulk-%d-%s-%s.bolt", os.Getpid(), name, end))
				os.Remove(p)
				bdb, err := bbolt.Open(p, 0600, &bbolt.Options{NoSync: true, NoFreelistSync: true, NoGrowSync: true})
				if err != nil {
					t.Fatal(err)
				}
				bc := coreutils.NewBoltChainDB(bdb)
				closer = func() { bc.Cancel(); bdb.Close(); os.Remove(p) }
				db = bc
				if name == "cache-bolt" {
					db = chain.NewCacheDB(bc)
				}
			}
			mismatch := func(desc string) {
				res.Mismatch("bulk:"+name+":"+end, fmt.Sprintf("%s, session of %d unflushed writes ended by %s: %s", name, n, end, desc), map[string]any{"kind": "bulk", "backend": name, "end": end})
			}
			func() {
				defer func() {
					// a panic inside a backend operation is a behaviour of the code under test
					if r := recover(); r != nil {
						mismatch(fmt.Sprintf("a backend operation panicked: %v", r))
					}
				}()
				b, err := db.CreateBucket([]byte("b"))
				if err != nil {
					t.Fatal(err)
				}
				b.Put(key(0), []byte("old"))
				b.Put(key(1), []byte("keep"))
				db.Flush()
				b = db.Bucket([]byte("b"))
				b.Put(key(0), []byte("new"))
				b.Delete(key(1))
				for i := 2; i < n; i++ {
					b.Put(key(i), []byte("v"))
					if i%9973 == 0 {
						b = db.Bucket([]byte("b")) // handles are looked up again all the time (as DBStore does)
					}
				}
				b = db.Bucket([]byte("b"))
				if got := string(b.Get(key(0))); got != "new" {
					mismatch(fmt.Sprintf("before the end, Get(key 0) = %q, want \"new\"", got))
				}
				want := map[string]string{string(key(0)): "old", string(key(1)): "keep"}
				if end == "cancel" {
					db.Cancel()
				} else {
					db.Flush()
					db.Cancel() // nothing unflushed: must change nothing
					want = map[string]string{string(key(0)): "new"}
					for i := 2; i < n; i++ {
						want[string(key(i))] = "v"
					}
				}
				b = db.Bucket([]byte("b"))
				if b == nil {
					mismatch("the flushed bucket is gone")
				} else {
					got := 0
					bad := ""
					for k, v := range b.Iter() {
						got++
						if w, ok := want[string(k)]; !ok || w != string(v) {
							bad = fmt.Sprintf("holds (%q, %q)", k, v)
						}
					}
					if bad != "" || got != len(want) {
						mismatch(fmt.Sprintf("afterwards the bucket has %d keys, want %d; %s", got, len(want), bad))
					}
					for _, i := range []int{0, 1, 2, n - 1} {
						w := want[string(key(i))]
						if g := string(b.Get(key(i))); g != w {
							mismatch(fmt.Sprintf("afterwards Get(key %d) = %q, want %q", i, g, w))
						}
					}
				}
				res.Eval(name + end)
			}()
			if closer != nil {
				func() {
					defer func() { recover() }()
					closer()
				}()
			}
		}
	}
	res.Traces = 8
}
