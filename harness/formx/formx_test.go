package formx

import (
	"errors"
	"fmt"
	"os"
	"path/filepath"
	"reflect"
	"strings"
	"sync"
	"testing"
	"time"

	"go.sia.tech/core/types"
	"verifharness/hx"
)

// ---------------------------------------------------------------- the property, evaluated on the real code

// A finding is one way the real code fails the statement of C16 on one attempt.
type finding struct {
	What string // renter-reserved host-reserved host-contract active-dead ... (last part of the signature)
	Desc string
}

// cause names why the attempt failed, as far as the observations tell (part of the signature).
func (o *Obs) cause() string {
	if strings.HasPrefix(o.Desc.Fault, "wclose") {
		return o.Desc.Fault // a collaborator shut down mid-RPC: never one of the wire / relay causes
	}
	for _, c := range o.Calls {
		switch {
		case c.C == "dial" && c.Res == "err":
			return "dial-fail"
		case c.C == "hBcast" && c.Res == "err":
			return "bcast-fail"
		}
	}
	switch {
	case strings.Contains(o.HErr, "failed to update renter inputs"):
		return "rebase-fail"
	case o.Desc.Fault != "none":
		return o.Desc.Fault
	case o.Desc.PV != "ok":
		return "pv-" + o.Desc.PV
	}
	return "ok"
}

// judgeFailure: "when it fails or is abandoned at any step the host records no contract and each
// side releases every wallet output it reserved".  Applies when the renter got an error and the
// host's broadcast did not happen.
func (o *Obs) judgeFailure() (fs []finding) {
	add := func(what, f string, a ...any) { fs = append(fs, finding{what, fmt.Sprintf(f, a...)}) }
	if o.DHCon != 0 {
		add("host-contract", "the host recorded %d contract(s) although the RPC failed (renter: %q, host: %q)", o.DHCon, o.RErr, o.HErr)
	}
	if o.ActDead && !o.ActDeadBefore {
		add("active-dead", "the existing contract is no longer revisable at the host although the renewal failed")
	}
	if o.DHRes != 0 {
		add("host-reserved", "%d host output(s) that could be spent before the attempt cannot be spent after it", o.DHRes)
	}
	if o.DRRes != 0 {
		add("renter-reserved", "%d renter output(s) that could be spent before the attempt cannot be spent after it", o.DRRes)
	}
	if !o.HSpendSame {
		add("host-spendable", "host SpendableOutputs() differs from before")
	}
	if !o.RSpendSame {
		add("renter-spendable", "renter SpendableOutputs() differs from before")
	}
	if !o.HBalSame {
		add("host-balance", "host Balance() differs from before")
	}
	if !o.RBalSame {
		add("renter-balance", "renter Balance() differs from before")
	}
	return
}

func (o *Obs) judgeAlways() (fs []finding) {
	add := func(what, f string, a ...any) { fs = append(fs, finding{what, fmt.Sprintf(f, a...)}) }
	if o.HGained != 0 || o.RGained != 0 {
		add("gained", "outputs became spendable without a block (host %d, renter %d)", o.HGained, o.RGained)
	}
	if o.H == "panic" {
		add("host-panic", "the host handler panicked: %s", o.HErr)
	}
	if o.R == "ok" && !o.Committed {
		add("success-uncommitted", "the renter reports success but the host never broadcast")
	}
	// agreement: unless the final message itself was cut or corrupted, a contract the host has
	// formed (recorded and broadcast) is a contract the renter reports as formed
	if f := o.Desc.Fault; o.Committed && o.R != "ok" && !strings.HasSuffix(f, "4") && !strings.HasPrefix(f, "m4") {
		add("host-formed-renter-failed", "the host recorded and broadcast the contract but the renter reports failure (%q) and has released its inputs", o.RErr)
	}
	if o.DHCon > 1 || o.DHCon < 0 {
		add("host-contract-count", "the host recorded %d contracts in one attempt", o.DHCon)
	}
	return
}

func sansSigs(fc types.V2FileContract) types.V2FileContract {
	fc.RenterSignature, fc.HostSignature = types.Signature{}, types.Signature{}
	return fc
}

// Settle is called after an attempt in which the host's broadcast happened: it checks the success
// half of the property -- both parties hold the same fully signed contract, the returned set is
// accepted by a neutral node's pool, and a mined block creates (or renews into) exactly that
// contract with the agreed funding -- and leaves the world with that block applied.
func (w *World) Settle(o *Obs) (fs []finding, confirmed int, err error) {
	add := func(what, f string, a ...any) { fs = append(fs, finding{what, fmt.Sprintf(f, a...)}) }
	rec, ok := w.con.lastRecorded()
	if !ok || o.DHCon != 1 {
		add("committed-unrecorded", "the host broadcast a set but recorded %d contracts", o.DHCon)
		err = w.Mine()
		return
	}
	hostState, herr := w.con.state(rec.ID)
	if herr != nil {
		add("host-state", "host cannot lock the contract it recorded: %v", herr)
	}
	hostFC := hostState.Revision
	cs := w.net.cm.TipState()
	res := o.result
	renewing := o.Desc.Kind != "form"
	if o.R == "ok" {
		switch {
		case res.contract.ID != rec.ID:
			add("contract-id", "renter holds contract %v, host recorded %v", res.contract.ID, rec.ID)
		case !reflect.DeepEqual(res.contract.Revision, hostFC):
			add("contract-differs", "renter and host hold different contracts under %v", rec.ID)
		}
		if !reflect.DeepEqual(sansSigs(res.contract.Revision), sansSigs(res.expected)) {
			add("contract-terms", "the signed contract is not the one computed from the agreed parameters")
		}
		sh := cs.ContractSigHash(res.contract.Revision)
		if !res.contract.Revision.RenterPublicKey.VerifyHash(sh, res.contract.Revision.RenterSignature) ||
			!res.contract.Revision.HostPublicKey.VerifyHash(sh, res.contract.Revision.HostSignature) {
			add("contract-unsigned", "the contract the renter holds is not fully signed")
		}
		// pool verdict on the returned set, by a node that took no part in the exchange
		if _, perr := w.net.cm.AddV2PoolTransactions(res.set.Basis, res.set.Transactions); perr != nil {
			add("set-rejected", "the transaction set returned to the renter is rejected by the pool: %v", perr)
		}
	}
	// the set the host recorded must itself be acceptable
	if _, perr := w.net.cm.AddV2PoolTransactions(rec.Set.Basis, rec.Set.Transactions); perr != nil {
		add("host-set-rejected", "the transaction set the host recorded is rejected by the pool: %v", perr)
	}

	// mine and look at what the block did
	oldTip := w.net.cm.Tip()
	if err = w.Mine(); err != nil {
		return
	}
	_, applied, uerr := w.net.cm.UpdatesSince(oldTip, 10)
	if uerr != nil {
		err = uerr
		return
	}
	var created *types.V2FileContractElement
	var renewal *types.V2FileContractRenewal
	var paying *types.V2Transaction
	for _, cau := range applied {
		for _, diff := range cau.V2FileContractElementDiffs() {
			confirmed0 := diff.Created && diff.V2FileContractElement.ID == rec.ID
			if diff.Created {
				confirmed++
			}
			if confirmed0 {
				e := diff.V2FileContractElement.Copy()
				created = &e
			}
			if renewing && diff.V2FileContractElement.ID == rec.Renewed && diff.Resolution != nil {
				if rn, ok := diff.Resolution.(*types.V2FileContractRenewal); ok {
					renewal = rn
				}
			}
		}
		for _, txn := range cau.Block.V2Transactions() {
			for i := range txn.FileContracts {
				if txn.V2FileContractID(txn.ID(), i) == rec.ID {
					t := txn
					paying = &t
				}
			}
			for _, r := range txn.FileContractResolutions {
				if types.FileContractID(r.Parent.ID) == rec.Renewed && renewing {
					t := txn
					paying = &t
				}
			}
		}
	}
	switch {
	case created == nil:
		add("not-confirmed", "the mined block does not create contract %v", rec.ID)
	case !reflect.DeepEqual(created.V2FileContract, hostFC):
		add("confirmed-differs", "the contract created on chain differs from the one the host holds")
	case o.R == "ok" && !reflect.DeepEqual(created.V2FileContract, res.contract.Revision):
		add("confirmed-differs-renter", "the contract created on chain differs from the one the renter holds")
	}
	if renewing && created != nil {
		if renewal == nil {
			add("not-renewed", "the mined block does not resolve %v by renewal", rec.Renewed)
		} else if !reflect.DeepEqual(renewal.NewContract, hostFC) {
			add("renewed-differs", "the renewal on chain carries a different new contract")
		}
	}
	if paying == nil && created != nil {
		add("paying-txn-missing", "the block creates the contract but no transaction in it carries it")
	}
	if paying != nil && o.R == "ok" {
		paid := func(addr types.Address) (types.Currency, bool) {
			var in, out types.Currency
			for _, si := range paying.SiacoinInputs {
				if si.Parent.SiacoinOutput.Address == addr {
					in = in.Add(si.Parent.SiacoinOutput.Value)
				}
			}
			for _, so := range paying.SiacoinOutputs {
				if so.Address == addr {
					out = out.Add(so.Value)
				}
			}
			if in.Cmp(out) < 0 {
				return types.ZeroCurrency, false
			}
			return in.Sub(out), true
		}
		if rp, ok := paid(w.renter.w.Address()); !ok || !rp.Equals(res.cost) {
			add("renter-funding", "the renter paid %v into the transaction, agreed %v", rp, res.cost)
		}
		if hp, ok := paid(w.host.w.Address()); !ok || !hp.Equals(res.hostCost) {
			add("host-funding", "the host paid %v into the transaction, agreed %v", hp, res.hostCost)
		}
		if os.Getenv("PROBE") != "" {
			rp, _ := paid(w.renter.w.Address())
			hp, _ := paid(w.host.w.Address())
			fmt.Printf("PROBE funding: renter paid %v (agreed %v), host paid %v (agreed %v), created=%v renewal=%v\n", rp, res.cost, hp, res.hostCost, created != nil, renewal != nil)
		}
	}
	if o.R == "ok" {
		w.active = res.contract
	}
	return
}

// ---------------------------------------------------------------- Leg R: spec -> code

type edge struct {
	Act struct {
		Lbl struct {
			Op  string `json:"op"`
			Res string `json:"res"`
		} `json:"lbl"`
		D Desc `json:"d"`
	} `json:"act"`
	To struct {
		N    int   `json:"n"`
		RRes []int `json:"rRes"`
		HRes []int `json:"hRes"`
		HCon []int `json:"hCon"`
		RCon []int `json:"rCon"`
		Dead []int `json:"dead"`
		Net  []int `json:"net"`
		Act  int   `json:"active"`
		Out  struct {
			R   string `json:"r"`
			Com bool   `json:"com"`
		} `json:"out"`
	} `json:"to"`
}

type replayIn struct {
	Paths   [][]edge `json:"paths"`
	Repeat  int      `json:"repeat"`
	Workers int      `json:"workers"`
	Stub    string   `json:"stub"` // selftest: "leakyrenter" makes the renter's signer forget ReleaseInputs
}

func has(xs []int, x int) bool {
	for _, y := range xs {
		if y == x {
			return true
		}
	}
	return false
}

var observable = map[string]bool{"rFund": true, "dial": true, "rRelease": true, "hFund": true, "hPool": true, "hRecord": true, "hBcast": true, "hRelease": true}

func side(cs []call, host bool) string {
	var b []string
	for _, c := range cs {
		if (c.C[0] == 'h') == host {
			b = append(b, c.C+":"+c.Res)
		}
	}
	return strings.Join(b, " ")
}

// expectation extracts what the specification says about one attempt from its path.
type expectation struct {
	d          Desc
	calls      []call
	r          string
	com        bool
	hHeld      bool
	rHeld      bool
	hRecorded  bool
	rHolds     bool
	actDead    bool
	mine       bool
	actIsNew   bool
}

func expect(path []edge) (expectation, error) {
	var e expectation
	if len(path) == 0 || path[0].Act.Lbl.Op != "Start" {
		return e, fmt.Errorf("path does not begin with Start")
	}
	e.d = path[0].Act.D
	ended := false
	for _, st := range path[1:] {
		op := st.Act.Lbl.Op
		switch {
		case observable[op]:
			e.calls = append(e.calls, call{op, st.Act.Lbl.Res})
		case op == "End":
			n := st.To.N
			e.r, e.com = st.To.Out.R, st.To.Out.Com
			e.hHeld, e.rHeld = has(st.To.HRes, n), has(st.To.RRes, n)
			e.hRecorded, e.rHolds = has(st.To.HCon, n), has(st.To.RCon, n)
			e.actDead = has(st.To.Dead, 0)
			e.actIsNew = st.To.Act == n
			ended = true
		case op == "Mine":
			e.mine = true
		case op == "Start":
			return e, fmt.Errorf("more than one attempt in a path")
		}
	}
	if !ended {
		return e, fmt.Errorf("path has no End")
	}
	return e, nil
}

type runner struct {
	res  *hx.Result
	leg  string
	seed int64
	w    *World
	stub string
}

func (r *runner) world() (*World, error) {
	if r.w != nil {
		return r.w, nil
	}
	w, err := NewWorld(r.seed)
	if err != nil {
		return nil, err
	}
	if r.stub == "leakyrenter" {
		w.signer.forgetRelease = true
	}
	if err := w.establish(); err != nil {
		w.Close()
		return nil, err
	}
	r.w = w
	return w, nil
}

func (r *runner) drop() {
	if r.w != nil {
		r.w.Close()
		r.w = nil
	}
}

// the result file keeps at most 200 mismatches: report each signature a few times only, so that
// a flood of one kind cannot crowd out another
var (
	sigMu    sync.Mutex
	sigCount = map[string]int{}
)

func (r *runner) mismatch(sig, desc string, replay any) {
	sigMu.Lock()
	sigCount[sig]++
	k := sigCount[sig]
	sigMu.Unlock()
	if k <= 3 {
		r.res.Mismatch(sig, desc, replay)
	} else {
		r.res.Count("more:"+sig, 1)
	}
}

func (r *runner) report(o *Obs, fs []finding, replay any) {
	for _, f := range fs {
		r.mismatch(fmt.Sprintf("%s:%s:%s:%s", r.leg, o.Desc.Kind, o.cause(), f.What), fmt.Sprintf("%v: %s", o.Desc, f.Desc), replay)
	}
}

// establish forms the initial active contract (attempt 0 of the specification) and confirms it.
func (w *World) establish() error {
	if err := w.Arrange("same", "conf"); err != nil {
		return err
	}
	o, err := w.Attempt(Desc{Kind: "form", PV: "ok", Basis: "same", Inp: "conf", Fault: "none"})
	if err != nil {
		return err
	}
	if o.R != "ok" {
		return fmt.Errorf("initial formation failed: %s", o.RErr)
	}
	fs, _, err := w.Settle(o)
	if err != nil {
		return err
	}
	if len(fs) > 0 {
		return fmt.Errorf("initial formation: %v", fs)
	}
	return nil
}

// onePath executes one attempt descriptor on the real code and compares with the specification's
// path; clean failures are repeated to check that nothing is used up.
func (r *runner) onePath(path []edge, repeat int) error {
	exp, err := expect(path)
	if err != nil {
		return err
	}
	replay := map[string]any{"kind": "path", "path": path, "stub": r.stub}
	for rep := 0; rep < repeat; rep++ {
		w, err := r.world()
		if err != nil {
			return err
		}
		// a world grows old: its active contract approaches the proof window
		if w.active.Revision.ProofHeight < w.net.cm.Tip().Height+100 {
			r.drop()
			if w, err = r.world(); err != nil {
				return err
			}
		}
		if err := w.Prepare(exp.d); errors.Is(err, errDrained) {
			r.drop()
			if w, err = r.world(); err != nil {
				return err
			}
			if err := w.Prepare(exp.d); err != nil {
				return fmt.Errorf("%v: arrange in a fresh world: %w", exp.d, err)
			}
		} else if err != nil {
			return fmt.Errorf("%v: arrange: %w", exp.d, err)
		}
		o, err := w.Attempt(exp.d)
		if err != nil {
			return err
		}
		r.res.Eval(fmt.Sprintf("%v|%s|%v", exp.d, o.R, o.Committed))
		dirty := false

		// (1) the property itself, on the observations
		var fs []finding
		fs = append(fs, o.judgeAlways()...)
		if o.R == "err" && !o.Committed {
			fs = append(fs, o.judgeFailure()...)
		}
		if o.Committed {
			sfs, _, err := w.Settle(o)
			if err != nil {
				return fmt.Errorf("%v: settle: %w", exp.d, err)
			}
			fs = append(fs, sfs...)
		}
		r.report(o, fs, replay)
		if len(fs) > 0 {
			dirty = true
		}

		// (2) the specification's prediction for this descriptor
		var diffs []string
		cmp := func(what string, got, want any) {
			if got != want {
				diffs = append(diffs, fmt.Sprintf("%s: code %v, spec %v", what, got, want))
			}
		}
		cmp("renter result", o.R, exp.r)
		cmp("host committed", o.Committed, exp.com)
		cmp("renter calls", side(o.Calls, false), side(exp.calls, false))
		cmp("host calls", side(o.Calls, true), side(exp.calls, true))
		cmp("host outputs held", o.DHRes > 0, exp.hHeld)
		cmp("renter outputs held", o.DRRes > 0, exp.rHeld)
		cmp("host recorded contract", o.DHCon == 1, exp.hRecorded)
		cmp("existing contract dead", o.ActDead, exp.actDead)
		if len(diffs) > 0 {
			r.mismatch(fmt.Sprintf("%s:%s:%s:spec", r.leg, exp.d.Kind, o.cause()),
				fmt.Sprintf("%v: the code does not follow Form.tla: %s (renter: %q host: %q notes %v)", exp.d, strings.Join(diffs, "; "), o.RErr, o.HErr, o.Notes), replay)
			dirty = true
		}
		if rep == 0 && exp.d.PV == "ok" && exp.d.Basis != "same" && (exp.d.Fault == "none" || exp.d.Fault == "bcast" || exp.d.Fault == "cutA4") {
			r.res.Sample(map[string]any{"desc": exp.d, "observed": o, "spec_calls": exp.calls})
		}
		// a world is reused only while it is exactly what the next path's Init assumes
		if dirty || w.hostWalletClosed || o.DHRes > 0 && !o.Committed || o.DRRes > 0 && !o.Committed || o.HostPoolGrew && !o.Committed {
			r.drop()
			return nil
		}
		if o.Committed {
			if o.R != "ok" || w.hostWalletClosed {
				// the host moved on without the renter / its wallet is shut down: start afresh
				r.drop()
			}
			return nil // successes are not repeated
		}
	}
	return nil
}

// TestReplay steps the real code through every path TLC exported (one per attempt descriptor).
func TestReplay(t *testing.T) {
	res := hx.NewResult()
	defer res.Write()
	var in replayIn
	if err := hx.ReadIn(&in); err != nil {
		t.Fatal(err)
	}
	if in.Repeat < 1 {
		in.Repeat = 1
	}
	if in.Workers < 1 {
		in.Workers = 4
	}
	var wg sync.WaitGroup
	errs := make(chan error, in.Workers)
	for k := 0; k < in.Workers; k++ {
		wg.Add(1)
		go func(k int) {
			defer wg.Done()
			r := &runner{res: res, leg: "replay", seed: hx.Seed()*100 + int64(k), stub: in.Stub}
			defer r.drop()
			for i := k; i < len(in.Paths); i += in.Workers {
				if err := r.onePath(in.Paths[i], in.Repeat); err != nil {
					errs <- fmt.Errorf("path %d: %w", i, err)
					return
				}
			}
		}(k)
	}
	wg.Wait()
	close(errs)
	for err := range errs {
		t.Fatal(err)
	}
	res.Count("paths", len(in.Paths))
}

// TestReplayOne re-executes one saved replay record (./check C16 --replay f).
func TestReplayOne(t *testing.T) {
	res := hx.NewResult()
	defer res.Write()
	var mm struct {
		Replay struct {
			Kind string `json:"kind"`
			Path []edge `json:"path"`
			Stub string `json:"stub"`
			Seed int64  `json:"seed"`
			Len  int    `json:"len"`
		} `json:"replay"`
	}
	if err := hx.ReadIn(&mm); err != nil {
		t.Fatal(err)
	}
	switch mm.Replay.Kind {
	case "path":
		r := &runner{res: res, leg: "replay", seed: hx.Seed() * 100, stub: mm.Replay.Stub}
		defer r.drop()
		if err := r.onePath(mm.Replay.Path, 3); err != nil {
			t.Fatal(err)
		}
	default:
		t.Fatalf("unknown replay kind %q", mm.Replay.Kind)
	}
}

// ---------------------------------------------------------------- Leg T: code -> spec

type event struct {
	Op   string `json:"op"` // Reset Start C End Mine
	D    *Desc  `json:"d,omitempty"`
	C    string `json:"c,omitempty"`
	Res  string `json:"res,omitempty"`
	R    string `json:"r,omitempty"`
	Com  bool   `json:"com"`
	HH   bool   `json:"hheld"`   // host outputs of this attempt still held
	RH   bool   `json:"rheld"`   // renter outputs of this attempt still held
	HC   bool   `json:"hrec"`    // host recorded a contract in this attempt
	Dead bool   `json:"actdead"` // the contract that was active before the attempt is dead at the host
	K    int    `json:"k"`       // Mine: contracts confirmed by the block
	Seq  int    `json:"seq"`
}

var driverKinds = []string{"form", "renew", "refreshFull", "refreshPartial"}
var driverBases = []string{"same", "same", "behind", "fork", "forkx"}
var driverPVs = []string{"allow0", "coll", "price", "proof", "chal", "hfund", "rfund", "noelem", "noelem"}
var driverFaults = []string{"none", "dial", "cutB1", "cutA1", "cutB2", "cutA2", "cutB3", "cutA3", "cutB4", "cutA4",
	"m1basis", "m1value", "m2low", "m2id", "m3sig", "m3pol", "m3len", "m4empty", "m4sig", "m4txn", "bcast", "wclose1", "wclose2", "wclose3"}
var earlyFaults = []string{"none", "dial", "cutB1", "cutA1", "cutB2", "cutA2", "m1basis", "m1value"}

// TestDriver runs random sequences of attempts -- with runs of repeated failures -- on one world
// each, and records one NDJSON event per specification action: Start, every observable call of
// either party in the order it happened, End with the observed outcome, Mine.
func TestDriver(t *testing.T) {
	res := hx.NewResult()
	defer res.Write()
	ntraces := hx.EnvInt("VERIF_TRACES", 20)
	tlen := hx.EnvInt("VERIF_TLEN", 25)
	shards := hx.EnvInt("VERIF_SHARDS", 4)
	stub := os.Getenv("VERIF_STUB")
	dir := os.Getenv("VERIF_WORK")
	var wg sync.WaitGroup
	errs := make(chan error, shards)
	var mu sync.Mutex
	total := 0
	for sh := 0; sh < shards; sh++ {
		wg.Add(1)
		go func(sh int) {
			defer wg.Done()
			tw, err := hx.NewTraceWriter(filepath.Join(dir, fmt.Sprintf("formtrace-%d.ndjson", sh)))
			if err != nil {
				errs <- err
				return
			}
			defer tw.Close()
			for tr := sh; tr < ntraces; tr += shards {
				if err := driveOne(res, tw, int64(tr), tlen, stub); err != nil {
					errs <- fmt.Errorf("trace %d: %w", tr, err)
					return
				}
				mu.Lock()
				res.Traces++
				mu.Unlock()
			}
			mu.Lock()
			total += tw.N
			mu.Unlock()
		}(sh)
	}
	wg.Wait()
	close(errs)
	for err := range errs {
		t.Fatal(err)
	}
	res.Count("events", total)
}

func driveOne(res *hx.Result, tw *hx.TraceWriter, tr int64, tlen int, stub string) error {
	rng := hx.Rand(7919 + tr)
	r := &runner{res: res, leg: "trace", seed: hx.Seed()*1000 + tr, stub: stub}
	w, err := r.world()
	if err != nil {
		return err
	}
	defer r.drop()
	// events of the attempt in progress are buffered and written at its End
	seq := 0
	var emu sync.Mutex
	var buf []event
	emit := func(e event) { emu.Lock(); buf = append(buf, e); emu.Unlock() }
	flush := func(keep bool) {
		emu.Lock()
		defer emu.Unlock()
		if keep {
			for _, e := range buf {
				seq++
				e.Seq = seq
				tw.Emit(e)
			}
		}
		buf = nil
	}
	emit(event{Op: "Reset"})
	flush(true)
	w.log.sink = func(c call) { emit(event{Op: "C", C: c.C, Res: c.Res}) }
	defer func() { w.log.sink = nil }()
	leaks := 0
	actDead := false
	var sample []Desc
	for i := 0; i < tlen; i++ {
		d := Desc{Kind: driverKinds[rng.Intn(len(driverKinds))], PV: "ok", Basis: driverBases[rng.Intn(len(driverBases))], Inp: "conf", Fault: "none"}
		if (d.Basis == "fork" || d.Basis == "forkx") && rng.Intn(3) == 0 {
			d.Inp = "forkc"
		} else if rng.Intn(4) == 0 {
			d.Inp = "unconf"
			if d.Basis != "same" && rng.Intn(2) == 0 {
				d.Inp = "unconfc"
			}
		}
		forceReps := false
		switch x := rng.Intn(10); {
		case x < 1 && d.Kind != "form" && !actDead:
			// the existing contract is not confirmed yet: always as a run of repeated failures
			d.PV = "noelem"
			d.Fault = earlyFaults[rng.Intn(len(earlyFaults))]
			forceReps = true
		case x < 2: // clean success (when the chain relation allows it)
		case x < 4:
			d.PV = driverPVs[rng.Intn(len(driverPVs))]
			if d.PV == "chal" && d.Kind == "form" || d.PV == "proof" && strings.HasPrefix(d.Kind, "refresh") {
				d.PV = "allow0"
			}
			// "the existing contract is not confirmed yet" needs a renewal of a contract the host
			// still considers alive (the harness forms a fresh one and withholds its broadcast)
			if d.PV == "noelem" && (d.Kind == "form" || actDead) {
				d.PV = "allow0"
			}
			d.Fault = earlyFaults[rng.Intn(len(earlyFaults))]
		default:
			d.Fault = driverFaults[rng.Intn(len(driverFaults))]
		}
		// runs of the same failing attempt: the NoExhaustion part of the property
		reps := 1
		if rng.Intn(3) == 0 || forceReps {
			reps = 2 + rng.Intn(3)
		}
		for rep := 0; rep < reps; rep++ {
			w.log.sink = nil
			if err := w.Prepare(d); errors.Is(err, errDrained) {
				res.Sample(map[string]any{"trace": tr, "attempts_prefix": sample, "ended_after": i, "why": "renter wallet drained"})
				return nil
			} else if err != nil {
				return fmt.Errorf("%v: arrange: %w", d, err)
			}
			// a world grows old: before the active contract comes near its proof window the trace ends
			if w.active.Revision.ProofHeight < w.net.cm.Tip().Height+60 {
				res.Sample(map[string]any{"trace": tr, "attempts_prefix": sample, "ended_after": i, "why": "active contract near its proof window"})
				return nil
			}
			// a wallet drained by leaked reservations cannot start another attempt: the trace ends
			if hv, err := w.host.view(false); err != nil {
				return err
			} else if rv, err := w.renter.view(true); err != nil {
				return err
			} else if len(hv.Fundable) == 0 || len(rv.Fundable) == 0 {
				res.Sample(map[string]any{"trace": tr, "attempts_prefix": sample, "ended_after": i, "why": "a wallet has nothing spendable left", "leaks": leaks})
				return nil
			}
			w.log.sink = func(c call) { emit(event{Op: "C", C: c.C, Res: c.Res}) }
			dd := d
			emit(event{Op: "Start", D: &dd})
			o, err := w.Attempt(d)
			if err != nil {
				return err
			}
			res.Eval(fmt.Sprintf("%v|%s|%v", d, o.R, o.Committed))
			actDead = o.ActDead && o.R != "ok" // a success moves the renter on to the new contract
			if len(sample) < 6 {
				sample = append(sample, d)
			}
			// a wallet that earlier (reported) leaks have drained too far to fund this attempt: the
			// attempt says nothing new -- it is dropped and the trace ends
			if leaks > 0 && d.PV != "rfund" && d.PV != "hfund" {
				for _, c := range o.Calls {
					if (c.C == "rFund" || c.C == "hFund") && c.Res == "err" {
						flush(false)
						res.Sample(map[string]any{"trace": tr, "attempts_prefix": sample, "ended_after": i, "why": "earlier leaks left too little to fund " + d.String()})
						return nil
					}
				}
			}
			emit(event{Op: "End", R: o.R, Com: o.Committed, HH: o.DHRes > 0, RH: o.DRRes > 0, HC: o.DHCon == 1, Dead: o.ActDead})
			flush(true)
			var fs []finding
			fs = append(fs, o.judgeAlways()...)
			if o.R == "err" && !o.Committed {
				fs = append(fs, o.judgeFailure()...)
			}
			replay := map[string]any{"kind": "trace", "seed": hx.Seed(), "trace": tr, "attempt": i, "desc": d}
			if o.Committed {
				w.log.sink = nil
				sfs, k, err := w.Settle(o)
				if err != nil {
					return fmt.Errorf("%v: settle: %w", d, err)
				}
				fs = append(fs, sfs...)
				emit(event{Op: "Mine", K: k})
				flush(true)
			}
			r.report(o, fs, replay)
			if !o.Committed && (o.DHRes > 0 || o.DRRes > 0) {
				leaks++
			}
			// a world with residue in the host's pool, or drained by leaks, ends its trace
			if !o.Committed && (o.HostPoolGrew || o.DHCon != 0) || leaks >= 2 || w.hostWalletClosed {
				res.Sample(map[string]any{"trace": tr, "attempts_prefix": sample, "ended_after": i + 1})
				return nil
			}
			if o.Committed {
				break
			}
		}
	}
	res.Sample(map[string]any{"trace": tr, "attempts_prefix": sample, "ended_after": tlen})
	return nil
}

// ---------------------------------------------------------------- manual probe (not part of the check)

func TestProbe(t *testing.T) {
	if os.Getenv("PROBE") == "" {
		t.Skip("set PROBE=1")
	}
	t0 := time.Now()
	w, err := NewWorld(hx.Seed())
	if err != nil {
		t.Fatal(err)
	}
	defer func() { w.Close() }()
	if err := w.establish(); err != nil {
		t.Fatal(err)
	}
	t.Logf("world + initial contract in %v", time.Since(t0))
	d := Desc{Kind: hx.Env("PROBE_KIND", "form"), PV: hx.Env("PROBE_PV", "ok"), Basis: hx.Env("PROBE_BASIS", "same"), Inp: hx.Env("PROBE_INP", "conf"), Fault: hx.Env("PROBE_FAULT", "none")}
	if err := w.Prepare(d); err != nil {
		t.Fatal(err)
	}
	o, err := w.Attempt(d)
	if err != nil {
		t.Fatal(err)
	}
	t.Logf("%v: %s", d, hx.JSON(o))
	t.Logf("failure findings: %v", o.judgeFailure())
	if o.Committed {
		fs, k, err := w.Settle(o)
		t.Logf("settle: %v confirmed=%d err=%v", fs, k, err)
	}
}
