// Package formx binds spec/Form.tla to the real contract formation / renewal / refresh code
// (property C16): real rhp4 client functions, real rhp4.Server, real SingleAddressWallets on
// two chain.Managers that can be fed different block sets, connected by harness/memnet with a
// message-aware man-in-the-middle, a recording rhp4.Wallet / rhp4.Contractor around the host's
// wallet and contractor, and a Syncer stub whose BroadcastV2TransactionSet can be made to fail.
package formx

import (
	"context"
	"errors"
	"fmt"
	"net"
	"sort"
	"sync"
	"time"

	proto4 "go.sia.tech/core/rhp/v4"
	"go.sia.tech/core/types"
	"go.sia.tech/coreutils"
	"go.sia.tech/coreutils/chain"
	rhp4 "go.sia.tech/coreutils/rhp/v4"
	"go.sia.tech/coreutils/testutil"
	"go.sia.tech/coreutils/wallet"
	"go.uber.org/zap"
	"go.uber.org/zap/zaptest/observer"
	"lukechampine.com/frand"
	"verifharness/memnet"
)

// ---------------------------------------------------------------- call log

// A call is one observable step of an attempt (one spec action).
type call struct {
	C   string `json:"c"`   // rFund dial rRelease hFund hPool hRecord hBcast hRelease
	Res string `json:"res"` // ok | err
}

type callLog struct {
	mu    sync.Mutex
	calls []call
	sink  func(call) // optional: Leg T trace writer
}

func (l *callLog) add(c, res string) {
	l.mu.Lock()
	defer l.mu.Unlock()
	x := call{c, res}
	l.calls = append(l.calls, x)
	if l.sink != nil {
		l.sink(x)
	}
}

func (l *callLog) take() []call {
	l.mu.Lock()
	defer l.mu.Unlock()
	c := l.calls
	l.calls = nil
	return c
}

func okerr(err error) string {
	if err != nil {
		return "err"
	}
	return "ok"
}

// ---------------------------------------------------------------- nodes

type node struct {
	name string
	cm   *chain.Manager
	ws   *testutil.EphemeralWalletStore
	w    *wallet.SingleAddressWallet
	key  types.PrivateKey
}

// sync brings the wallet store to the chain manager's tip (synchronously; the wallet itself
// never subscribes to the chain).
func (n *node) sync() error {
	if n.w == nil {
		return nil
	}
	for i := 0; i < 1000; i++ {
		tip, err := n.ws.Tip()
		if err != nil {
			return err
		}
		if tip == n.cm.Tip() {
			return nil
		}
		reverted, applied, err := n.cm.UpdatesSince(tip, 1000)
		if err != nil {
			return err
		}
		if err := n.ws.UpdateChainState(func(tx wallet.UpdateTx) error {
			return n.w.UpdateChainState(tx, reverted, applied)
		}); err != nil {
			return err
		}
	}
	return errors.New("wallet does not reach the tip")
}

func (n *node) addBlocks(bs []types.Block) error {
	if len(bs) == 0 {
		return nil
	}
	if err := n.cm.AddBlocks(bs); err != nil {
		return fmt.Errorf("%s: AddBlocks: %w", n.name, err)
	}
	return n.sync()
}

// walletView is what C16 observes of a wallet.
type walletView struct {
	// Fundable is the set of outputs the wallet can still put into a new transaction (confirmed
	// and, for the renter, unconfirmed): obtained through the public API by funding until the
	// wallet runs dry and releasing everything again.
	Fundable  []types.SiacoinOutputID
	Spendable []types.SiacoinOutputID // SpendableOutputs()
	Balance   wallet.Balance
}

func (n *node) view(useUnconfirmed bool) (walletView, error) {
	var v walletView
	sp, err := n.w.SpendableOutputs()
	if err != nil {
		return v, err
	}
	for _, e := range sp {
		v.Spendable = append(v.Spendable, e.ID)
	}
	var held []types.V2Transaction
	for i := 0; i < 10000; i++ {
		var txn types.V2Transaction
		_, _, err := n.w.FundV2Transaction(&txn, types.NewCurrency64(1), useUnconfirmed)
		if errors.Is(err, wallet.ErrNotEnoughFunds) {
			break
		} else if err != nil {
			return v, err
		}
		for _, in := range txn.SiacoinInputs {
			v.Fundable = append(v.Fundable, in.Parent.ID)
		}
		held = append(held, txn)
	}
	n.w.ReleaseInputs(nil, held)
	sortIDs(v.Fundable)
	sortIDs(v.Spendable)
	v.Balance, err = n.w.Balance()
	return v, err
}

func sortIDs(ids []types.SiacoinOutputID) {
	sort.Slice(ids, func(i, j int) bool { return string(ids[i][:]) < string(ids[j][:]) })
}

func sameIDs(a, b []types.SiacoinOutputID) bool {
	if len(a) != len(b) {
		return false
	}
	for i := range a {
		if a[i] != b[i] {
			return false
		}
	}
	return true
}

// ---------------------------------------------------------------- recorders

// stubSyncer is the wallet.Syncer of the host wallet: it hands the set to the network node
// (that is what a broadcast achieves) or fails like the real syncer without peers does.
type stubSyncer struct {
	mu      sync.Mutex
	fail    bool
	hold    bool // accept the set but do not hand it to the network (it stays unconfirmed)
	deliver func(types.ChainIndex, []types.V2Transaction) error
	calls   int
}

var errNoPeers = errors.New("no peers available")

func (s *stubSyncer) BroadcastV2TransactionSet(index types.ChainIndex, txns []types.V2Transaction) error {
	s.mu.Lock()
	fail, hold, deliver := s.fail, s.hold, s.deliver
	s.calls++
	s.mu.Unlock()
	if fail {
		return errNoPeers
	}
	if hold {
		return nil
	}
	if deliver != nil {
		return deliver(index, txns)
	}
	return nil
}

func (s *stubSyncer) setFail(f bool) { s.mu.Lock(); s.fail = f; s.mu.Unlock() }
func (s *stubSyncer) setHold(h bool) { s.mu.Lock(); s.hold = h; s.mu.Unlock() }

// recWallet is the host's rhp4.Wallet: the real wallet behind a recorder.
type recWallet struct {
	w   *wallet.SingleAddressWallet
	log *callLog
}

func (r *recWallet) Address() types.Address { return r.w.Address() }
func (r *recWallet) FundV2Transaction(txn *types.V2Transaction, amount types.Currency, useUnconfirmed bool) (types.ChainIndex, []int, error) {
	ci, ts, err := r.w.FundV2Transaction(txn, amount, useUnconfirmed)
	r.log.add("hFund", okerr(err))
	return ci, ts, err
}
func (r *recWallet) SignV2Inputs(txn *types.V2Transaction, toSign []int) { r.w.SignV2Inputs(txn, toSign) }
func (r *recWallet) ReleaseInputs(txns []types.Transaction, v2txns []types.V2Transaction) {
	r.w.ReleaseInputs(txns, v2txns)
	r.log.add("hRelease", "ok")
}
func (r *recWallet) BroadcastV2TransactionSet(ci types.ChainIndex, txns []types.V2Transaction) error {
	err := r.w.BroadcastV2TransactionSet(ci, txns)
	r.log.add("hBcast", okerr(err))
	return err
}

// recContractor records (and can fail) the two calls that record a contract.
type recContractor struct {
	*testutil.EphemeralContractor
	log  *callLog
	mu   sync.Mutex
	fail bool
	// every contract the host recorded, in order
	recorded []recordedContract
}

type recordedContract struct {
	ID      types.FileContractID
	Renewed types.FileContractID // the contract it renews (zero for formations)
	Set     rhp4.TransactionSet
}

var errRecord = errors.New("contract store unavailable")

func (r *recContractor) setFail(f bool) { r.mu.Lock(); r.fail = f; r.mu.Unlock() }

func (r *recContractor) AddV2Contract(set rhp4.TransactionSet, u proto4.Usage) error {
	r.mu.Lock()
	fail := r.fail
	r.mu.Unlock()
	var err error
	if fail {
		err = errRecord
	} else {
		err = r.EphemeralContractor.AddV2Contract(set, u)
	}
	if err == nil {
		txn := set.Transactions[len(set.Transactions)-1]
		r.mu.Lock()
		r.recorded = append(r.recorded, recordedContract{ID: txn.V2FileContractID(txn.ID(), 0), Set: set})
		r.mu.Unlock()
	}
	r.log.add("hRecord", okerr(err))
	return err
}

func (r *recContractor) RenewV2Contract(set rhp4.TransactionSet, u proto4.Usage) error {
	r.mu.Lock()
	fail := r.fail
	r.mu.Unlock()
	var err error
	if fail {
		err = errRecord
	} else {
		err = r.EphemeralContractor.RenewV2Contract(set, u)
	}
	if err == nil {
		txn := set.Transactions[len(set.Transactions)-1]
		old := types.FileContractID(txn.FileContractResolutions[0].Parent.ID)
		r.mu.Lock()
		r.recorded = append(r.recorded, recordedContract{ID: old.V2RenewalID(), Renewed: old, Set: set})
		r.mu.Unlock()
	}
	r.log.add("hRecord", okerr(err))
	return err
}

func (r *recContractor) numRecorded() int { r.mu.Lock(); defer r.mu.Unlock(); return len(r.recorded) }

func (r *recContractor) lastRecorded() (recordedContract, bool) {
	r.mu.Lock()
	defer r.mu.Unlock()
	if len(r.recorded) == 0 {
		return recordedContract{}, false
	}
	return r.recorded[len(r.recorded)-1], true
}

// state returns the host's view of a contract (through the interface the server uses).
func (r *recContractor) state(id types.FileContractID) (rhp4.RevisionState, error) {
	var rs rhp4.RevisionState
	var err error
	for i := 0; i < 2000; i++ { // the lock is a try-lock; a handler may still be unwinding
		var unlock func()
		rs, unlock, err = r.EphemeralContractor.LockV2Contract(id)
		if err == nil {
			unlock()
			return rs, nil
		}
		if err.Error() != "contract already locked" {
			return rs, err
		}
		time.Sleep(time.Millisecond)
	}
	return rs, err
}

// recChain is the host's rhp4.ChainManager: records the pool verdict on the final set.
type recChain struct {
	*chain.Manager
	log *callLog
}

func (c *recChain) AddV2PoolTransactions(basis types.ChainIndex, txns []types.V2Transaction) (bool, error) {
	known, err := c.Manager.AddV2PoolTransactions(basis, txns)
	if err == nil && len(txns) > 0 {
		last := txns[len(txns)-1]
		if len(last.FileContracts) > 0 || len(last.FileContractResolutions) > 0 {
			c.log.add("hPool", "ok")
		}
	}
	return known, err
}

// renterSigner is the renter's rhp4.FormContractSigner: the real wallet behind a recorder.
type renterSigner struct {
	w   *wallet.SingleAddressWallet
	pk  types.PrivateKey
	log *callLog
	// selftest only: a deliberately wrong renter wallet whose ReleaseInputs does nothing
	forgetRelease bool
}

func (fs *renterSigner) FundV2Transaction(txn *types.V2Transaction, amount types.Currency) (types.ChainIndex, []int, error) {
	ci, ts, err := fs.w.FundV2Transaction(txn, amount, true)
	fs.log.add("rFund", okerr(err))
	return ci, ts, err
}
func (fs *renterSigner) RecommendedFee() types.Currency { return fs.w.RecommendedFee() }
func (fs *renterSigner) ReleaseInputs(txns []types.V2Transaction) {
	if !fs.forgetRelease {
		fs.w.ReleaseInputs(nil, txns)
	}
	fs.log.add("rRelease", "ok")
}
func (fs *renterSigner) SignV2Inputs(txn *types.V2Transaction, toSign []int) { fs.w.SignV2Inputs(txn, toSign) }
func (fs *renterSigner) SignHash(h types.Hash256) types.Signature             { return fs.pk.SignHash(h) }

// dialer is the renter's TransportClient: memnet, with a dial failure on demand.
type dialer struct {
	*memnet.Net
	log  *callLog
	mu   sync.Mutex
	fail bool
}

func (d *dialer) setFail(f bool) { d.mu.Lock(); d.fail = f; d.mu.Unlock() }

func (d *dialer) DialStream(ctx context.Context) (net.Conn, error) {
	d.mu.Lock()
	fail := d.fail
	d.mu.Unlock()
	if fail {
		d.log.add("dial", "err")
		return nil, errors.New("connection refused")
	}
	c, err := d.Net.DialStream(ctx)
	d.log.add("dial", okerr(err))
	return c, err
}

// ---------------------------------------------------------------- world

const (
	renterUTXOs = 14
	hostUTXOs   = 4
	behindBy    = 3
	forkLen     = 2
)

var (
	okAllowance  = types.Siacoins(100)
	okCollateral = types.Siacoins(100)
	maxCollat    = types.Siacoins(5_000_000)
)

// A World is two real nodes (host, renter), a neutral network node that mines, and the RHP4
// plumbing between renter and host.
type World struct {
	net, host, renter *node
	hostKey           types.PrivateKey
	renterKey         types.PrivateKey
	log               *callLog
	syn               *stubSyncer
	hw                *recWallet
	con               *recContractor
	hcm               *recChain
	mem               *memnet.Net
	dial              *dialer
	server            *rhp4.Server
	logs              *observer.ObservedLogs // the host server's log: the handler's own verdict
	sr                *testutil.EphemeralSettingsReporter
	signer            *renterSigner
	// the contract the renter believes active (target of renew/refresh)
	active rhp4.ContractRevision
	// relation currently arranged between the renter's and the host's chain
	relation string
	// the host's wallet was shut down by a collaborator fault: the world is used up
	hostWalletClosed bool
	// the active contract's formation set while it is deliberately kept unconfirmed (pv "noelem")
	held *rhp4.TransactionSet
	closers []func()
}

func (w *World) Close() {
	for i := len(w.closers) - 1; i >= 0; i-- {
		w.closers[i]()
	}
	w.closers = nil
}

func newNode(name string, key types.PrivateKey, withWallet bool, syn wallet.Syncer) (*node, error) {
	n, genesis := testutil.V2Network()
	store, tipState, err := chain.NewDBStore(chain.NewMemDB(), n, genesis, nil)
	if err != nil {
		return nil, err
	}
	nd := &node{name: name, cm: chain.NewManager(store, tipState), key: key}
	if withWallet {
		nd.ws = testutil.NewEphemeralWalletStore()
		nd.w, err = wallet.NewSingleAddressWallet(key, nd.cm, nd.ws, syn, wallet.WithDefragThreshold(1000), wallet.WithDebounceInterval(time.Hour))
		if err != nil {
			return nil, err
		}
	}
	return nd, nil
}

func keyFor(seed int64, role string) types.PrivateKey {
	h := types.HashBytes([]byte(fmt.Sprintf("formx/%d/%s", seed, role)))
	return types.NewPrivateKeyFromSeed(h[:])
}

// mine mines n blocks on the network node (including its pool) and returns them.
func (w *World) mineOn(nd *node, addr types.Address, n int) ([]types.Block, error) {
	var bs []types.Block
	for ; n > 0; n-- {
		b, ok := coreutils.MineBlock(nd.cm, addr, 5*time.Second)
		if !ok {
			return nil, errors.New("mining failed")
		}
		if err := nd.cm.AddBlocks([]types.Block{b}); err != nil {
			return nil, err
		}
		bs = append(bs, b)
	}
	return bs, nd.sync()
}

// waitContractor waits until the host's contractor has processed the host chain's tip.
func (w *World) waitContractor() error {
	dl := time.Now().Add(20 * time.Second)
	for {
		tip, _ := w.con.Tip()
		if tip == w.host.cm.Tip() {
			return nil
		}
		if time.Now().After(dl) {
			return errors.New("contractor does not reach the host tip")
		}
		time.Sleep(200 * time.Microsecond)
	}
}

func NewWorld(seed int64) (*World, error) {
	w := &World{log: &callLog{}, relation: "same"}
	w.hostKey, w.renterKey = keyFor(seed, "host"), keyFor(seed, "renter")
	w.syn = &stubSyncer{}
	var err error
	if w.net, err = newNode("net", types.PrivateKey{}, false, nil); err != nil {
		return nil, err
	}
	if w.host, err = newNode("host", keyFor(seed, "hostwallet"), true, w.syn); err != nil {
		return nil, err
	}
	w.closers = append(w.closers, func() { w.host.w.Close() })
	if w.renter, err = newNode("renter", keyFor(seed, "renterwallet"), true, &testutil.MockSyncer{}); err != nil {
		return nil, err
	}
	w.closers = append(w.closers, func() { w.renter.w.Close() })
	w.syn.deliver = func(ci types.ChainIndex, txns []types.V2Transaction) error {
		_, err := w.net.cm.AddV2PoolTransactions(ci, txns)
		return err
	}

	// the contractor follows the host's chain from genesis on (it is driven by reorg notifications)
	w.con = &recContractor{EphemeralContractor: testutil.NewEphemeralContractor(w.host.cm), log: w.log}
	w.closers = append(w.closers, func() { w.con.EphemeralContractor.Close() })

	// fund both wallets on the network chain and let everything mature
	var all []types.Block
	for _, step := range []struct {
		addr types.Address
		n    int
	}{{w.renter.w.Address(), renterUTXOs}, {w.host.w.Address(), hostUTXOs}, {types.VoidAddress, 8}} {
		bs, err := w.mineOn(w.net, step.addr, step.n)
		if err != nil {
			return nil, err
		}
		all = append(all, bs...)
	}
	if err := w.host.addBlocks(all); err != nil {
		return nil, err
	}
	if err := w.renter.addBlocks(all); err != nil {
		return nil, err
	}

	// host side
	w.hw = &recWallet{w: w.host.w, log: w.log}
	w.hcm = &recChain{Manager: w.host.cm, log: w.log}
	w.sr = testutil.NewEphemeralSettingsReporter()
	w.sr.Update(proto4.HostSettings{
		Release:             "verif",
		AcceptingContracts:  true,
		WalletAddress:       w.host.w.Address(),
		MaxCollateral:       maxCollat,
		MaxContractDuration: 5000,
		RemainingStorage:    100 * proto4.SectorSize,
		TotalStorage:        100 * proto4.SectorSize,
		Prices: proto4.HostPrices{
			ContractPrice: types.Siacoins(1).Div64(5),
			StoragePrice:  types.NewCurrency64(100),
			IngressPrice:  types.NewCurrency64(100),
			EgressPrice:   types.NewCurrency64(100),
			Collateral:    types.NewCurrency64(200),
		},
	})
	w.server = rhp4.NewServer(w.hostKey, w.hcm, w.con, w.hw, w.sr, testutil.NewEphemeralSectorStore())
	w.mem = memnet.New(w.hostKey.PublicKey())
	core, logs := observer.New(zap.DebugLevel)
	w.logs = logs
	go w.server.Serve(w.mem, zap.New(core))
	w.closers = append(w.closers, func() { w.mem.Close() })
	w.dial = &dialer{Net: w.mem, log: w.log}
	w.signer = &renterSigner{w: w.renter.w, pk: w.renterKey, log: w.log}
	if err := w.waitContractor(); err != nil {
		return nil, err
	}
	return w, nil
}

// prices fetches freshly signed prices from the host.
func (w *World) prices() (proto4.HostSettings, error) {
	s, err := rhp4.RPCSettings(context.Background(), w.mem)
	w.mem.WaitLastServerDone(10 * time.Second)
	return s, err
}

// missingBlocks returns the blocks of from's best chain that to's best chain lacks.
func missingBlocks(from, to *chain.Manager) ([]types.Block, error) {
	// find the common ancestor on the best chains
	h := to.Tip().Height
	if ft := from.Tip().Height; ft < h {
		h = ft
	}
	for ; ; h-- {
		a, ok1 := from.BestIndex(h)
		b, ok2 := to.BestIndex(h)
		if ok1 && ok2 && a == b {
			break
		}
		if h == 0 {
			return nil, errors.New("no common ancestor")
		}
	}
	var bs []types.Block
	for x := h + 1; x <= from.Tip().Height; x++ {
		ci, ok := from.BestIndex(x)
		if !ok {
			return nil, errors.New("missing index")
		}
		b, ok := from.Block(ci.ID)
		if !ok {
			return nil, errors.New("missing block")
		}
		bs = append(bs, b)
	}
	return bs, nil
}

// syncTo feeds nd the blocks of the network's best chain it lacks.
func (w *World) syncTo(nd *node) error {
	bs, err := missingBlocks(w.net.cm, nd.cm)
	if err != nil {
		return err
	}
	return nd.addBlocks(bs)
}

// Prepare puts the world into the state the descriptor asks for: the chain relation, the input
// mode and -- for "noelem" -- an active contract that the host has recorded but whose formation
// is not confirmed yet (formed now, its broadcast withheld from the network).
func (w *World) Prepare(d Desc) error {
	switch {
	case d.PV == "noelem" && w.held == nil:
		if err := w.Arrange("same", "conf"); err != nil {
			return err
		}
		w.syn.setHold(true)
		o, err := w.Attempt(Desc{Kind: "form", PV: "ok", Basis: "same", Inp: "conf", Fault: "none"})
		w.syn.setHold(false)
		if err != nil {
			return err
		}
		rec, ok := w.con.lastRecorded()
		if o.R != "ok" || !ok || rec.ID != o.result.contract.ID {
			return fmt.Errorf("cannot form the unconfirmed contract: %s", o.RErr)
		}
		w.active = o.result.contract
		set := rec.Set
		w.held = &set
	case d.PV != "noelem" && w.held != nil:
		if err := w.confirmHeld(); err != nil {
			return err
		}
	}
	return w.Arrange(d.Basis, d.Inp)
}

// confirmHeld lets the withheld formation reach the network and be mined.
func (w *World) confirmHeld() error {
	if w.held == nil {
		return nil
	}
	if err := w.Arrange("same", "conf"); err != nil {
		return err
	}
	if _, err := w.net.cm.AddV2PoolTransactions(w.held.Basis, w.held.Transactions); err != nil {
		return fmt.Errorf("network rejects the withheld formation: %w", err)
	}
	w.held = nil
	if err := w.Mine(); err != nil {
		return err
	}
	if _, _, err := w.con.V2FileContractElement(w.active.ID); err != nil {
		return fmt.Errorf("withheld formation was not confirmed: %w", err)
	}
	return nil
}

// Arrange establishes the basis relation between the renter's chain and the host's -- same tip,
// renter behind, renter on a stale fork the host has seen ("fork") or not ("forkx") -- and
// whether the renter's funds are confirmed outputs or one unconfirmed output with a parent.
func (w *World) Arrange(rel, inp string) error {
	// first bring everybody to the network's tip and confirm whatever the renter had pending
	w.relation = "same"
	if err := w.syncTo(w.host); err != nil {
		return err
	}
	if err := w.syncTo(w.renter); err != nil {
		return err
	}
	if pending := w.renter.cm.V2PoolTransactions(); len(pending) > 0 {
		if _, err := w.net.cm.AddV2PoolTransactions(w.renter.cm.Tip(), pending); err != nil {
			return fmt.Errorf("network rejects the renter's pending transactions: %w", err)
		}
		if err := w.Mine(); err != nil {
			return err
		}
	}
	if len(w.renter.cm.V2PoolTransactions()) != 0 {
		return errors.New("renter pool not empty after confirmation")
	}
	// keep the renter's funds in several outputs (a sweep confirmed earlier leaves a single one,
	// and one successful attempt would then tie up everything until its block)
	if err := w.splitRenter(); err != nil {
		return err
	}
	// "unconfc": the renter funds with an unconfirmed output whose parent the network confirms in
	// a block the renter has not seen -- the sweep is made now, at the common tip, and handed to
	// the network before the chains diverge
	if inp == "forkc" && rel != "fork" && rel != "forkx" {
		return errors.New("forkc needs a renter on its own fork")
	}
	if inp == "unconfc" {
		if rel == "same" {
			return errors.New("unconfc needs a renter that lags")
		}
		if err := w.makeUnconfirmed(); err != nil {
			return err
		}
		if _, err := w.net.cm.AddV2PoolTransactions(w.renter.cm.Tip(), w.renter.cm.V2PoolTransactions()); err != nil {
			return fmt.Errorf("network rejects the renter's parent: %w", err)
		}
	}
	switch rel {
	case "same":
	case "behind":
		if _, err := w.mineOn(w.net, types.VoidAddress, behindBy); err != nil {
			return err
		}
		if err := w.syncTo(w.host); err != nil {
			return err
		}
	case "fork", "forkx":
		// the renter extends the common tip by its own (empty) blocks; the network finds a longer branch
		var fork []types.Block
		var err error
		if inp == "forkc" {
			// the renter's funds are swept into one output by a transaction that only the renter's
			// own fork confirms: a confirmed input that does not exist below the common ancestor
			if err := w.makeUnconfirmed(); err != nil {
				return err
			}
			fork, err = w.mineOn(w.renter, types.VoidAddress, forkLen)
			if err == nil && len(w.renter.cm.V2PoolTransactions()) != 0 {
				err = errors.New("the renter's fork did not confirm its sweep")
			}
		} else {
			fork, err = w.mineEmptyOn(w.renter, forkLen)
		}
		if err != nil {
			return err
		}
		if rel == "fork" {
			if err := w.host.addBlocks(fork); err != nil { // the host follows the fork for a while
				return err
			}
		}
		if _, err := w.mineOn(w.net, types.VoidAddress, forkLen+behindBy-1); err != nil {
			return err
		}
		if err := w.syncTo(w.host); err != nil { // ... and reorgs to the network's branch
			return err
		}
		if w.host.cm.Tip() != w.net.cm.Tip() {
			return errors.New("host did not reorg to the network branch")
		}
	default:
		return fmt.Errorf("unknown relation %q", rel)
	}
	w.relation = rel
	if err := w.waitContractor(); err != nil {
		return err
	}
	switch inp {
	case "unconf":
		return w.makeUnconfirmed()
	case "unconfc":
		if len(w.renter.cm.V2PoolTransactions()) == 0 {
			return errors.New("the renter's parent did not stay unconfirmed for the renter")
		}
		if len(w.net.cm.V2PoolTransactions()) != 0 {
			return errors.New("the network did not confirm the renter's parent")
		}
	}
	return nil
}

// mineEmptyOn mines n blocks without any pool transaction on nd's chain.
func (w *World) mineEmptyOn(nd *node, n int) ([]types.Block, error) {
	var bs []types.Block
	for ; n > 0; n-- {
		cs := nd.cm.TipState()
		b := types.Block{
			ParentID:     cs.Index.ID,
			Timestamp:    types.CurrentTimestamp(),
			MinerPayouts: []types.SiacoinOutput{{Value: cs.BlockReward(), Address: types.VoidAddress}},
			V2: &types.V2BlockData{
				Height:       cs.Index.Height + 1,
				Transactions: []types.V2Transaction{{ArbitraryData: frand.Bytes(12)}},
			},
		}
		b.V2.Commitment = cs.Commitment(types.VoidAddress, b.Transactions, b.V2Transactions())
		if !coreutils.FindBlockNonce(cs, &b, 5*time.Second) {
			return nil, errors.New("mining failed")
		}
		if err := nd.cm.AddBlocks([]types.Block{b}); err != nil {
			return nil, err
		}
		bs = append(bs, b)
	}
	return bs, nd.sync()
}

// splitRenter splits the renter's largest output into eight when it owns fewer than four
// spendable outputs; the split is mined at once (everybody is at the network's tip here).
func (w *World) splitRenter() error {
	sp, err := w.renter.w.SpendableOutputs()
	if err != nil {
		return err
	}
	if len(sp) == 0 || len(sp) >= 4 {
		return nil
	}
	big := sp[0]
	for _, e := range sp {
		if e.SiacoinOutput.Value.Cmp(big.SiacoinOutput.Value) > 0 {
			big = e
		}
	}
	fee := types.Siacoins(1)
	if big.SiacoinOutput.Value.Cmp(types.Siacoins(100000)) < 0 {
		return nil
	}
	part := big.SiacoinOutput.Value.Sub(fee).Div64(8)
	txn := types.V2Transaction{MinerFee: big.SiacoinOutput.Value.Sub(part.Mul64(8)), SiacoinInputs: []types.V2SiacoinInput{{Parent: big.Copy()}}}
	for i := 0; i < 8; i++ {
		txn.SiacoinOutputs = append(txn.SiacoinOutputs, types.SiacoinOutput{Address: w.renter.w.Address(), Value: part})
	}
	w.renter.w.SignV2Inputs(&txn, []int{0})
	tip, err := w.renter.ws.Tip()
	if err != nil {
		return err
	}
	if _, err := w.net.cm.AddV2PoolTransactions(tip, []types.V2Transaction{txn}); err != nil {
		return fmt.Errorf("network rejects the renter's split: %w", err)
	}
	return w.Mine()
}

// errDrained: the renter has (almost) nothing left to spend -- the harness starts a fresh world.
var errDrained = errors.New("the renter's wallet has nothing spendable left")

// makeUnconfirmed sweeps every spendable renter output into one unconfirmed output that only
// the renter's own pool knows, so that the next attempt is funded by an unconfirmed output with
// a parent transaction.
func (w *World) makeUnconfirmed() error {
	sp, err := w.renter.w.SpendableOutputs()
	if err != nil {
		return err
	}
	var have types.Currency
	for _, e := range sp {
		have = have.Add(e.SiacoinOutput.Value)
	}
	if have.Cmp(types.Siacoins(10)) < 0 {
		return errDrained
	}
	tip, err := w.renter.ws.Tip()
	if err != nil {
		return err
	}
	var sum types.Currency
	txn := types.V2Transaction{MinerFee: types.Siacoins(1)}
	for _, e := range sp {
		sum = sum.Add(e.SiacoinOutput.Value)
		txn.SiacoinInputs = append(txn.SiacoinInputs, types.V2SiacoinInput{Parent: e.Copy()})
	}
	txn.SiacoinOutputs = []types.SiacoinOutput{{Address: w.renter.w.Address(), Value: sum.Sub(txn.MinerFee)}}
	idx := make([]int, len(txn.SiacoinInputs))
	for i := range idx {
		idx[i] = i
	}
	w.renter.w.SignV2Inputs(&txn, idx)
	if _, err := w.renter.cm.AddV2PoolTransactions(tip, []types.V2Transaction{txn}); err != nil {
		return fmt.Errorf("sweep rejected: %w", err)
	}
	return nil
}

// Mine has the network mine one block with whatever reached it, and feeds the block to the host
// and -- unless the renter is kept behind / on its fork -- to the renter.
func (w *World) Mine() error {
	if _, err := w.mineOn(w.net, types.VoidAddress, 1); err != nil {
		return err
	}
	if err := w.syncTo(w.host); err != nil {
		return err
	}
	if w.relation == "same" {
		if err := w.syncTo(w.renter); err != nil {
			return err
		}
	}
	return w.waitContractor()
}
