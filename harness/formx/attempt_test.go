package formx

import (
	"context"
	"errors"
	"fmt"
	"io"
	"net"
	"strings"
	"sync"
	"time"

	proto4 "go.sia.tech/core/rhp/v4"
	"go.sia.tech/core/types"
	rhp4 "go.sia.tech/coreutils/rhp/v4"
)

// Desc describes one attempt: the constants TLC enumerates in Form.tla.
type Desc struct {
	Kind  string `json:"kind"`  // form renew refreshFull refreshPartial
	PV    string `json:"pv"`    // ok allow0 coll price proof chal hfund rfund noelem
	Basis string `json:"basis"` // same behind fork forkx
	Inp   string `json:"inp"`   // conf unconf forkc (confirmed only on the renter's own fork) unconfc (parent confirmed on the host's chain in blocks the renter lacks)
	Fault string `json:"fault"` // none dial cutB1..cutA4 m1basis m1value m2low m2id m3sig m3pol m3len m4empty m4sig m4txn bcast wclose1..3
}

func (d Desc) String() string {
	return fmt.Sprintf("%s/%s/%s/%s/%s", d.Kind, d.PV, d.Basis, d.Inp, d.Fault)
}

// ---------------------------------------------------------------- man in the middle

type mitm struct {
	kind  string
	fault string
	// collaborator fault: called when message k passes (fault "wclose<k>")
	onWClose func()
	mu    sync.Mutex
	notes []string
}

func (m *mitm) note(f string, a ...any) {
	m.mu.Lock()
	m.notes = append(m.notes, fmt.Sprintf(f, a...))
	m.mu.Unlock()
}

func (m *mitm) objects() (req, m2, m3, m4 proto4.Object) {
	switch m.kind {
	case "form":
		return new(proto4.RPCFormContractRequest), new(proto4.RPCFormContractResponse), new(proto4.RPCFormContractSecondResponse), new(proto4.RPCFormContractThirdResponse)
	case "renew":
		return new(proto4.RPCRenewContractRequest), new(proto4.RPCRenewContractResponse), new(proto4.RPCRenewContractSecondResponse), new(proto4.RPCRenewContractThirdResponse)
	default:
		return new(proto4.RPCRefreshContractRequest), new(proto4.RPCRefreshContractResponse), new(proto4.RPCRefreshContractSecondResponse), new(proto4.RPCRefreshContractThirdResponse)
	}
}

func flipSig(s *types.Signature) { s[0] ^= 1 }

// corrupt applies the fault's mutation to message k (if the fault targets it).
func (m *mitm) corrupt(k int, o proto4.Object) {
	f := m.fault
	if f == fmt.Sprintf("wclose%d", k) && m.onWClose != nil {
		m.onWClose() // the host's wallet is shut down while this message is in flight
	}
	switch k {
	case 1:
		var basis *types.ChainIndex
		var inputs []types.SiacoinElement
		switch r := o.(type) {
		case *proto4.RPCFormContractRequest:
			basis, inputs = &r.Basis, r.RenterInputs
		case *proto4.RPCRenewContractRequest:
			basis, inputs = &r.Basis, r.RenterInputs
		case *proto4.RPCRefreshContractRequest:
			basis, inputs = &r.Basis, r.RenterInputs
		}
		switch f {
		case "m1basis":
			basis.ID[0] ^= 0x55
			basis.ID[5] ^= 0xaa
		case "m1value":
			if len(inputs) > 0 {
				inputs[0].SiacoinOutput.Value = inputs[0].SiacoinOutput.Value.Add(types.Siacoins(1))
			}
		}
	case 2:
		var his []types.V2SiacoinInput
		switch r := o.(type) {
		case *proto4.RPCFormContractResponse:
			his = r.HostInputs
		case *proto4.RPCRenewContractResponse:
			his = r.HostInputs
		case *proto4.RPCRefreshContractResponse:
			his = r.HostInputs
		}
		switch f {
		case "m2low":
			for i := range his {
				his[i].Parent.SiacoinOutput.Value = types.ZeroCurrency
			}
		case "m2id":
			if len(his) > 0 {
				his[0].Parent.ID[0] ^= 1
			} else {
				m.note("m2id: no host inputs to corrupt")
			}
		}
	case 3:
		var csig *types.Signature
		var pols *[]types.SatisfiedPolicy
		switch r := o.(type) {
		case *proto4.RPCFormContractSecondResponse:
			csig, pols = &r.RenterContractSignature, &r.RenterSatisfiedPolicies
		case *proto4.RPCRenewContractSecondResponse:
			csig, pols = &r.RenterContractSignature, &r.RenterSatisfiedPolicies
		case *proto4.RPCRefreshContractSecondResponse:
			csig, pols = &r.RenterContractSignature, &r.RenterSatisfiedPolicies
		}
		switch f {
		case "m3sig":
			flipSig(csig)
		case "m3pol":
			if len(*pols) > 0 && len((*pols)[0].Signatures) > 0 {
				flipSig(&(*pols)[0].Signatures[0])
			} else {
				m.note("m3pol: no policy signature to corrupt")
			}
		case "m3len":
			if len(*pols) > 0 {
				*pols = (*pols)[:len(*pols)-1]
			}
		}
	case 4:
		var set *[]types.V2Transaction
		switch r := o.(type) {
		case *proto4.RPCFormContractThirdResponse:
			set = &r.TransactionSet
		case *proto4.RPCRenewContractThirdResponse:
			set = &r.TransactionSet
		case *proto4.RPCRefreshContractThirdResponse:
			set = &r.TransactionSet
		}
		switch f {
		case "m4empty":
			*set = nil
		case "m4sig":
			if n := len(*set); n > 0 {
				t := &(*set)[n-1]
				if len(t.FileContracts) > 0 {
					flipSig(&t.FileContracts[0].HostSignature)
				} else if len(t.FileContractResolutions) > 0 {
					if rn, ok := t.FileContractResolutions[0].Resolution.(*types.V2FileContractRenewal); ok {
						flipSig(&rn.NewContract.HostSignature)
					}
				}
			}
		case "m4txn":
			if n := len(*set); n > 0 {
				(*set)[n-1].MinerFee = (*set)[n-1].MinerFee.Add(types.NewCurrency64(1))
			}
		}
	}
}

// cut reports how message k is cut: "B" the sender's write fails, "A" the write succeeds but the
// message is never delivered, "" not at all.
func (m *mitm) cut(k int) string {
	if strings.HasPrefix(m.fault, "cut") && len(m.fault) == 5 && int(m.fault[4]-'0') == k {
		return m.fault[3:4]
	}
	return ""
}

// proxy is a memnet.Proxy that decodes and re-encodes the four messages of the exchange, one
// goroutine per direction (real transports buffer, so the two directions are independent).
func (m *mitm) proxy(_ int, client, server net.Conn) {
	req, m2, m3, m4 := m.objects()
	var once sync.Once
	closeAll := func() { once.Do(func() { client.Close(); server.Close() }) }
	var wg sync.WaitGroup
	wg.Add(2)

	// eat swallows one byte of the next message and then cuts: the sender's write fails
	eat := func(c net.Conn) {
		var b [1]byte
		io.ReadFull(c, b[:])
		closeAll()
	}

	go func() { // renter -> host: m1, m3
		defer wg.Done()
		defer closeAll()
		if m.cut(1) == "B" {
			eat(client)
			return
		}
		id, err := proto4.ReadID(client)
		if err != nil {
			return
		}
		if err := proto4.ReadRequest(client, req); err != nil {
			m.note("proxy: cannot decode m1: %v", err)
			return
		}
		if m.cut(1) == "A" {
			return
		}
		m.corrupt(1, req)
		if err := proto4.WriteRequest(server, id, req); err != nil {
			return
		}
		if m.cut(3) == "B" {
			eat(client)
			return
		}
		if err := proto4.ReadResponse(client, m3); err != nil {
			return
		}
		if m.cut(3) == "A" {
			return
		}
		m.corrupt(3, m3)
		if err := proto4.WriteResponse(server, m3); err != nil {
			return
		}
		// wait for the renter to close
		var b [1]byte
		client.Read(b[:])
	}()

	go func() { // host -> renter: m2, m4 (or an RPC error instead of either)
		defer wg.Done()
		defer closeAll()
		for _, step := range []struct {
			k int
			o proto4.Object
		}{{2, m2}, {4, m4}} {
			if m.cut(step.k) == "B" {
				eat(server)
				return
			}
			err := proto4.ReadResponse(server, step.o)
			var re *proto4.RPCError
			if errors.As(err, &re) {
				// the host refused: forward the error and finish
				proto4.WriteResponse(client, re)
				var b [1]byte
				server.Read(b[:])
				return
			} else if err != nil {
				return
			}
			if m.cut(step.k) == "A" {
				return
			}
			m.corrupt(step.k, step.o)
			if err := proto4.WriteResponse(client, step.o); err != nil {
				return
			}
		}
		var b [1]byte
		server.Read(b[:])
	}()
	wg.Wait()
}

// ---------------------------------------------------------------- one attempt

// Obs is everything C16 observes about one attempt on the real code.
type Obs struct {
	Desc      Desc   `json:"desc"`
	R         string `json:"r"`    // renter's result: ok | err
	RErr      string `json:"rerr"` // its error text
	Dialed    bool   `json:"dialed"`
	Committed bool   `json:"committed"` // the host passed its point of no return (broadcast done, or handler succeeded)
	H         string `json:"h"`         // the host handler's own verdict: ok | err | none (no handler ran)
	HErr      string `json:"herr"`
	Calls     []call `json:"calls"`     // in observed order
	// deltas against the state before the attempt
	DHRes                  int  `json:"dhres"` // host outputs fundable before and no longer fundable after
	DRRes                  int  `json:"drres"` // same for the renter
	HGained, RGained       int  `json:"-"`     // outputs that became fundable (must be 0 without a block)
	DHCon                  int  `json:"dhcon"` // contracts recorded by the host during the attempt
	HSpendSame             bool `json:"hspendsame"`
	RSpendSame             bool `json:"rspendsame"`
	HBalSame               bool `json:"hbalsame"`
	RBalSame               bool `json:"rbalsame"`
	ActDead                bool `json:"actdead"` // the renter's active contract is no longer revisable at the host
	ActDeadBefore          bool `json:"actdeadbefore"`
	HostPoolGrew           bool `json:"hostpoolgrew"`
	Notes                  []string `json:"notes,omitempty"`

	result *attemptResult
	before *snapshot
}

type attemptResult struct {
	contract rhp4.ContractRevision
	set      rhp4.TransactionSet
	cost     types.Currency
	hostCost types.Currency
	expected types.V2FileContract // the contract the renter computed locally (unsigned)
}

type snapshot struct {
	h, r      walletView
	recorded  int
	actDead   bool
	hostPool  int
	streams   int
}

func (w *World) actState() (dead bool, err error) {
	if w.active.ID == (types.FileContractID{}) {
		return false, nil
	}
	rs, err := w.con.state(w.active.ID)
	if err != nil {
		return false, err
	}
	return !rs.Revisable || rs.Renewed, nil
}

func (w *World) snap() (*snapshot, error) {
	s := &snapshot{}
	var err error
	if s.h, err = w.host.view(false); err != nil {
		return nil, err
	}
	if s.r, err = w.renter.view(true); err != nil {
		return nil, err
	}
	s.recorded = w.con.numRecorded()
	if s.actDead, err = w.actState(); err != nil {
		return nil, err
	}
	s.hostPool = len(w.host.cm.V2PoolTransactions())
	s.streams = w.mem.Streams()
	return s, nil
}

func setDiff(a, b []types.SiacoinOutputID) (n int) {
	in := map[types.SiacoinOutputID]bool{}
	for _, x := range b {
		in[x] = true
	}
	for _, x := range a {
		if !in[x] {
			n++
		}
	}
	return
}

// Attempt runs one real RPC as described by d (the chain relation and input mode must have been
// arranged) and observes both parties.
func (w *World) Attempt(d Desc) (*Obs, error) {
	o := &Obs{Desc: d}
	settings, err := w.prices()
	if err != nil {
		return nil, fmt.Errorf("settings: %w", err)
	}
	prices := settings.Prices
	before, err := w.snap()
	if err != nil {
		return nil, err
	}
	o.before = before
	o.ActDeadBefore = before.actDead
	w.log.take()
	w.logs.TakeAll()

	// ---- parameters
	allowance, collateral := okAllowance, okCollateral
	existing := w.active.Revision
	if d.Kind != "form" {
		// make the host fund something: more collateral than the existing contract can roll over
		collateral = existing.HostOutput.Value.Add(types.Siacoins(50))
		allowance = collateral
	}
	formProof := prices.TipHeight + 300
	renewProof := existing.ProofHeight + 10
	switch d.PV {
	case "ok", "noelem": // (noelem is a state of the world, see World.Prepare)
	case "allow0":
		allowance = types.ZeroCurrency
	case "coll":
		collateral = maxCollat.Add(types.Siacoins(1))
	case "price":
		prices.Signature[3] ^= 0x10
	case "proof":
		formProof = prices.TipHeight + 1
		renewProof = existing.ProofHeight
	case "chal":
		existing.RevisionNumber += 7
	case "hfund":
		// more than the host owns, on top of whatever the existing contract rolls over
		hb, _ := w.host.w.Balance()
		collateral = hb.Confirmed.Add(hb.Immature).Add(types.Siacoins(1000))
		if d.Kind != "form" {
			collateral = collateral.Add(existing.HostOutput.Value)
		}
		allowance = proto4.MinRenterAllowance(prices, collateral).Add(types.Siacoins(1))
	case "rfund":
		// more than the renter owns, on top of whatever the existing contract rolls over
		rb, _ := w.renter.w.Balance()
		allowance = rb.Confirmed.Add(rb.Unconfirmed).Add(rb.Immature).Add(types.Siacoins(1000))
		if d.Kind != "form" {
			allowance = allowance.Add(existing.RenterOutput.Value)
		}
	default:
		return nil, fmt.Errorf("unknown pv %q", d.PV)
	}

	// ---- faults
	m := &mitm{kind: d.Kind, fault: d.Fault, onWClose: func() { w.host.w.Close(); w.hostWalletClosed = true }}
	if d.Kind != "form" && d.Kind != "renew" {
		m.kind = "refresh"
	}
	w.mem.SetProxy(m.proxy)
	w.dial.setFail(d.Fault == "dial")
	w.syn.setFail(d.Fault == "bcast")
	w.con.setFail(d.Fault == "record")
	defer func() {
		w.mem.SetProxy(nil)
		w.dial.setFail(false)
		w.syn.setFail(false)
		w.con.setFail(false)
	}()

	ctx, cancel := context.WithTimeout(context.Background(), 90*time.Second)
	defer cancel()
	cs := w.renter.cm.TipState()
	hostAddr := settings.WalletAddress
	res := &attemptResult{}
	var rerr error
	switch d.Kind {
	case "form":
		params := proto4.RPCFormContractParams{
			RenterPublicKey: w.renterKey.PublicKey(), RenterAddress: w.renter.w.Address(),
			Allowance: allowance, Collateral: collateral, ProofHeight: formProof,
		}
		res.expected, _ = proto4.NewContract(prices, params, w.hostKey.PublicKey(), hostAddr)
		var r rhp4.RPCFormContractResult
		r, rerr = rhp4.RPCFormContract(ctx, w.dial, w.renter.cm, w.signer, cs, prices, w.hostKey.PublicKey(), hostAddr, params)
		res.contract, res.set, res.cost = r.Contract, r.FormationSet, r.Cost
		_, res.hostCost = proto4.ContractCost(cs, res.expected, types.ZeroCurrency)
	case "renew":
		params := proto4.RPCRenewContractParams{ContractID: w.active.ID, Allowance: allowance, Collateral: collateral, ProofHeight: renewProof}
		rn, _ := proto4.RenewContract(w.active.Revision, prices, hostAddr, params)
		res.expected = rn.NewContract
		_, res.hostCost = proto4.RenewalCost(cs, rn, types.ZeroCurrency)
		var r rhp4.RPCRenewContractResult
		r, rerr = rhp4.RPCRenewContract(ctx, w.dial, w.renter.cm, w.signer, cs, prices, hostAddr, existing, params)
		res.contract, res.set, res.cost = r.Contract, r.RenewalSet, r.Cost
	case "refreshFull", "refreshPartial":
		params := proto4.RPCRefreshContractParams{ContractID: w.active.ID, Allowance: allowance, Collateral: collateral}
		var rn types.V2FileContractRenewal
		var r rhp4.RPCRefreshContractResult
		if d.Kind == "refreshFull" {
			rn, _ = proto4.RefreshContractFullRollover(w.active.Revision, prices, hostAddr, params)
			r, rerr = rhp4.RPCRefreshContractFullRollover(ctx, w.dial, w.renter.cm, w.signer, cs, prices, hostAddr, existing, params)
		} else {
			rn, _ = proto4.RefreshContractPartialRollover(w.active.Revision, prices, hostAddr, params)
			r, rerr = rhp4.RPCRefreshContractPartialRollover(ctx, w.dial, w.renter.cm, w.signer, cs, prices, hostAddr, existing, params)
		}
		res.expected = rn.NewContract
		_, res.hostCost = proto4.RefreshCost(cs, prices, rn, types.ZeroCurrency)
		res.contract, res.set, res.cost = r.Contract, r.RenewalSet, r.Cost
	default:
		return nil, fmt.Errorf("unknown kind %q", d.Kind)
	}
	o.result = res
	o.R = okerr(rerr)
	if rerr != nil {
		o.RErr = rerr.Error()
	}

	// ---- wait until the host's handler has fully returned
	o.Dialed = w.mem.Streams() > before.streams
	if o.Dialed {
		if !w.mem.WaitLastServerDone(60 * time.Second) {
			return nil, fmt.Errorf("%v: host handler did not return", d)
		}
		w.mem.WaitProxies()
	}
	o.Calls = w.log.take()
	o.H = "none"
	for _, e := range w.logs.TakeAll() {
		switch e.Message {
		case "RPC failed":
			o.H = "err"
			o.HErr = fmt.Sprint(e.ContextMap()["error"])
		case "RPC success":
			o.H = "ok"
			o.Committed = true // the handler ran to its end: the host considers the contract formed
		case "panic in RPC handler":
			o.H = "panic"
			o.HErr = fmt.Sprint(e.ContextMap()["panic"])
		}
	}
	o.Notes = m.notes
	for _, c := range o.Calls {
		if c.C == "hBcast" && c.Res == "ok" {
			o.Committed = true
		}
	}

	// ---- observe
	after, err := w.snap()
	if err != nil {
		return nil, err
	}
	// outputs that were fundable before and are not any more are held by the attempt; nothing
	// can become fundable without a block
	o.DHRes, o.HGained = setDiff(before.h.Fundable, after.h.Fundable), setDiff(after.h.Fundable, before.h.Fundable)
	o.DRRes, o.RGained = setDiff(before.r.Fundable, after.r.Fundable), setDiff(after.r.Fundable, before.r.Fundable)
	o.DHCon = after.recorded - before.recorded
	o.HSpendSame = sameIDs(after.h.Spendable, before.h.Spendable)
	o.RSpendSame = sameIDs(after.r.Spendable, before.r.Spendable)
	o.HBalSame = after.h.Balance == before.h.Balance
	o.RBalSame = after.r.Balance == before.r.Balance
	o.ActDead = after.actDead
	o.HostPoolGrew = after.hostPool > before.hostPool
	return o, nil
}
