"""C14 -- Pool submission and lookup honour their documented contracts.

This module also hosts the machinery shared by the three transaction-pool properties (C14, C05,
C13 import it): the abstract scenarios of Leg M / Leg R, the TLC runs on spec/Pool.tla, the
stimulus paths replayed on the real chain.Manager (harness/poolx TestReplay), the randomised
driver (TestDriver) and the validation of every recorded execution against spec/PoolTrace.tla.

Leg M  spec/Pool.tla on the scenarios below (family `contract`: every pool state x submitted set
       with the conflict / invalidity at each position x lookup id of every kind), ideal rules:
       Atomicity, KnownIffAllPooled, LookupExact hold; with a named deviation switched on TLC
       finds the design-level counterexample (probes).
Leg R  TLC's explored graph (canonical revalidation) is exported as edges; an edge cover gives
       stimulus paths; harness/poolx materialises each abstract scenario as REAL signed v1/v2
       transactions and mined blocks, drives a real Manager through every path, audits it after
       every step (core validation on the independent ledger, mining, deep comparison of caller
       memory) and records one event per spec action; TLC validates every recorded execution
       against PoolTrace.tla -- every reply and every reported pool must be explained by the spec.
Leg T  seeded random histories on much larger trees (forks, reorgs, stale bases, conflicts,
       parent/child chains, lookups of every id kind), same audits, same validation."""
import os, re, json, random, time, itertools, threading, concurrent.futures as cf
import vlib
from vlib import log

PROP = "C14"

# the machine is shared: every JVM gets a bounded heap (the default would be a quarter of the RAM
# per process) and at most TLC_SLOTS trace validations run at a time
JVM_M = {"JAVA_TOOL_OPTIONS": "-Xss64m -Xmx4g"}
JVM_T = {"JAVA_TOOL_OPTIONS": "-Xss64m -Xmx3g -Dtlc2.tool.queue.IStateQueue=StateDeque"}
TLC_SLOTS = threading.BoundedSemaphore(6)

# ------------------------------------------------------------------ deviations <- known findings

DEV_OF = {  # named deviation of Pool.tla -> finding ids (any property) that keep it switched on
    "DevPartialAdd": ["C14-partial-add-on-pool-conflict"],
    "DevSharedIndex": ["C14-lookup-shared-index"],
    "DevEphDrop": ["C05-ephemeral-child-dropped", "C13-ephemeral-input-rejected"],
    "DevStaleParents": ["C13-txset-stale-basis-parents"],
}


def deviations():
    """open finding -> the deviation is tolerated by the specification (and reported by the audits);
    VERIF_POOL_DEVS=none|all overrides (used to try candidate repairs against the strict rules)"""
    ov = os.environ.get("VERIF_POOL_DEVS")
    if ov in ("none", "all"):
        return {dev: ov == "all" for dev in DEV_OF}
    data = json.load(open(os.path.join(vlib.VERIF, "known_findings.json")))
    open_ids = {f["id"] for f in data.get("findings", []) if f.get("status") == "open"}
    return {dev: any(i in open_ids for i in ids) for dev, ids in DEV_OF.items()}


def cfg_with_devs(wd, cfg, devs, tag=""):
    """copies spec/cfg/<cfg> into the work dir with the Dev* constants set as given"""
    text = open(os.path.join(vlib.SPEC, "cfg", cfg)).read()
    for k, v in devs.items():
        text = re.sub(r"^(\s*%s\s*=\s*)(TRUE|FALSE)\s*$" % k, r"\g<1>%s" % ("TRUE" if v else "FALSE"), text, flags=re.M)
    p = os.path.join(wd, cfg.replace(".cfg", "") + tag + ".cfg")
    open(p, "w").write(text)
    return p


# ------------------------------------------------------------------ abstract scenarios

def tx(kind, ins, outs, refs=(), w=1, lo=-99, hi=99):
    """lo / hi: the transaction is valid while lo <= height of the tip (root = 0) <= hi"""
    return {"kind": kind, "ins": list(ins), "outs": list(outs), "refs": list(refs), "w": w, "lo": lo, "hi": hi}


def scenario(name, root, nodes, txs, sets=(), rsets=(), look=(), txsetc=(), regime="both", side=(), maxpool=99, maxblock=99):
    """nodes: [(parent, [body tx ids])] for nodes 2.. (node 1 is the root: the tip of a linear
    warm-up prefix in the materialisation); root: leaves unspent at the root."""
    par = [0] + [p for p, _ in nodes]
    body = [[]] + [list(b) for _, b in nodes]
    h = [0]
    for p, _ in nodes:
        h.append(h[p - 1] + 1)
    cr = [sorted(root)] + [sorted({o for t in b for o in txs[t - 1]["outs"]}) for _, b in nodes]
    sp = [[]] + [sorted({i for t in b for i in txs[t - 1]["ins"]}) for _, b in nodes]
    if regime == "v2":      # v2 is required: a v1 transaction is never valid
        txs = [dict(t, hi=-99) if t["kind"] == "v1" else t for t in txs]
    return {"name": name, "regime": regime, "maxpool": maxpool, "maxblock": maxblock, "n": len(par), "parent": par, "height": h, "body": body, "creates": cr, "spends": sp,
            "ntx": len(txs), "tx": txs, "sets": list(sets), "rsets": [list(r) for r in rsets], "look": list(look),
            "txsetc": list(txsetc), "side": list(side)}


def cset(kind, txs, basis=1, bad=0):
    return {"kind": kind, "basis": basis, "txs": list(txs), "bad": bad}


def inj(items, maxlen):
    for k in range(1, maxlen + 1):
        for p in itertools.permutations(items, k):
            yield list(p)


def contract_scenarios(tier):
    """C14: one chain state; a parent/child pair, a conflicting pair of each version, a v1 child."""
    T = [tx("v2", [1], [4]),       # 1 A
         tx("v2", [4], [5]),       # 2 B  child of A (ephemeral input)
         tx("v2", [1], [6]),       # 3 C  conflicts with A
         tx("v1", [2], [7]),       # 4 D
         tx("v1", [2], [8]),       # 5 E  conflicts with D
         tx("v2", [3], [9]),       # 6 F  independent
         tx("v1", [7], [10])]      # 7 G  v1 child of D
    v2, v1 = [1, 2, 3, 6], [4, 5, 7]
    sets = []
    ml = 2 if tier == "quick" else 3
    for s in inj(v2, ml):
        sets.append(cset("v2", s))
    for s in inj(v1, 3):
        sets.append(cset("v1", s))
    # invalidity (corrupted proof / signature) at each position
    for s in ([1, 2, 6], [6, 1], [3]):
        for k in range(1, len(s) + 1):
            sets.append(cset("v2", s, bad=k))
    for s in ([4, 7], [5]):
        for k in range(1, len(s) + 1):
            sets.append(cset("v1", s, bad=k))
    sets.append(cset("v2", [6], basis=0))            # unknown basis
    a = scenario("contract-both", [1, 2, 3], [], T, sets=sets, look=list(range(1, 9)))
    # v2-only regime: v1 submissions are invalid, lookups by v1 ids are absent
    T2 = [tx("v2", [1], [4]), tx("v2", [4], [5]), tx("v2", [1], [6]), tx("v2", [2], [7]), tx("v2", [7, 3], [8]), tx("v1", [3], [9])]
    sets2 = [cset("v2", s) for s in inj([1, 2, 3, 4, 5], 2)] + [cset("v2", [1, 2, 4, 5]), cset("v1", [6])]
    b = scenario("contract-v2only", [1, 2, 3], [], T2, sets=sets2, look=list(range(1, 8)), regime="v2")
    return [a, b]


def pool_scenarios(tier):
    """C05: a fork tree whose blocks confirm, un-confirm and invalidate pooled transactions.
        1 (root) -- 2 [A] -- 3 [B] -- 7 []
                 \\- 4 [C] -- 5 [] -- 6 [D] -- 8 []
    A: parent, B: its child (ephemeral input), C: conflicts with A, D: v1, E: v1 conflicting with D,
    F: independent v2, G: v2 child of F."""
    T = [tx("v2", [1], [4]),       # 1 A
         tx("v2", [4], [5]),       # 2 B  child of A
         tx("v2", [1], [6]),       # 3 C  conflicts with A
         tx("v1", [2], [7]),       # 4 D
         tx("v1", [2], [8]),       # 5 E  conflicts with D
         tx("v2", [3], [9]),       # 6 F
         tx("v2", [9], [10])]      # 7 G  child of F
    nodes = [(1, [1]), (2, [2]), (1, [3]), (4, []), (5, [4]), (3, []), (6, [])]
    sets = [cset("v2", [1, 2]), cset("v2", [1]), cset("v2", [2], basis=2), cset("v2", [3]), cset("v1", [4]), cset("v1", [5]),
            cset("v2", [6, 7]), cset("v2", [6], basis=1), cset("v2", [7], basis=1), cset("v2", [2, 6], basis=2), cset("v2", [6, 3])]
    if tier == "quick":
        nodes = nodes[:5]
        sets = [c for c in sets if c["txs"] not in ([6], [7], [2, 6])]
    a = scenario("pool-fork", [1, 2, 3], nodes, T, sets=sets)
    # a second, smaller tree where the fork CONFIRMS the pooled parent and child in one block and a
    # later reorg un-confirms them again
    T2 = [tx("v2", [1], [4]), tx("v2", [4], [5]), tx("v1", [2], [6]), tx("v2", [5], [7])]
    nodes2 = [(1, [1, 2]), (1, []), (3, []), (4, [3]), (2, [4])]
    sets2 = [cset("v2", [1, 2]), cset("v2", [1, 2, 4]), cset("v1", [3]), cset("v2", [4], basis=2), cset("v2", [2, 4], basis=1)]
    b = scenario("pool-confirm-both", [1, 2, 3], nodes2, T2, sets=sets2)
    # the hardfork boundaries: v2 is admitted from tip height 1 on (allow height 2), v1 up to tip
    # height 2 (require height 4), v1 signatures made before the allow height die at height 2;
    # a fork that reverts the boundary blocks:   1 -- 2 -- 3 -- 4 -- 7      1 -- 5 -- 6 -- 8 -- 9
    Tb = [tx("v2", [1], [4], lo=1),            # 1 A   v2 on an old element
          tx("v2", [4], [5], lo=1),            # 2 B   its child
          tx("v1", [2], [6], hi=1),            # 3 D   v1 signed before the allow height
          tx("v1", [3], [7], lo=2, hi=2)]      # 4 E   v1 signed after it: valid at height 2 only
    nodesb = [(1, []), (2, []), (3, []), (1, []), (5, []), (4, []), (6, []), (8, [])]
    setsb = [cset("v2", [1, 2]), cset("v2", [1]), cset("v1", [3]), cset("v1", [4]), cset("v2", [2], basis=1)]
    bd = scenario("pool-boundary", [1, 2, 3], nodesb if tier != "quick" else nodesb[:7], Tb, sets=setsb)
    if tier == "quick":
        return [a, b, bd]
    # every abstract transaction in the other version as well (v1 parent/child/conflict, v2 singles)
    flip = {"v1": "v2", "v2": "v1"}
    Tf = [tx(flip[t["kind"]], t["ins"], t["outs"]) for t in T]
    setsf = [cset(flip[c["kind"]], c["txs"], basis=c["basis"]) for c in sets]
    c = scenario("pool-fork-flipped", [1, 2, 3], nodes[:5], Tf, sets=setsf)
    return [a, b, bd, c]


def full_scenarios(tier):
    """C05, eviction: no blocks; the pool is full when the POOLED transactions weigh >= 3.
    a: five transactions of weight 1 (the pool fills one by one);
    b: a small pool and HEAVY sets -- [H, K]: H (weight 3) is fine, K double-spends the pooled A, so
       the set is rejected and must leave NO weight behind (seed C05-b); [H] alone is accepted and
       fills the pool; [G] (weight 2) is accepted and leaves it just below the limit."""
    T = [tx("v2", [1], [5]), tx("v2", [5], [6]), tx("v2", [2], [7]), tx("v1", [3], [8]), tx("v2", [4], [9])]
    sets = [cset("v2", [1, 2]), cset("v2", [3]), cset("v1", [4]), cset("v2", [5]), cset("v1", [4]), cset("v2", [1]), cset("v2", [2])]
    a = scenario("pool-full", [1, 2, 3, 4], [], T, sets=sets, maxpool=3)
    Tb = [tx("v2", [1], [5]),            # 1 A  small, pooled first
          tx("v2", [2], [6], w=3),       # 2 H  heavy
          tx("v2", [1], [7]),            # 3 K  conflicts with A
          tx("v2", [3], [8], w=2),       # 4 G  medium
          tx("v1", [4], [9])]            # 5 D  small v1
    setsb = [cset("v2", [1]), cset("v1", [5]), cset("v2", [2, 3]), cset("v2", [2]), cset("v2", [4]), cset("v2", [4, 3])]
    b = scenario("pool-heavy-sets", [1, 2, 3, 4], [], Tb, sets=setsb, maxpool=3)
    # c: the pool outgrows ONE BLOCK (maxblock = 3) with a parent/child pair straddling the cut:
    #    [A, H, c] -- A fits, the heavy H does not, its small child c would: the assembler must stop at H
    #    (seed C05-c: it skipped H and took c, a child without its parent)
    Tc = [tx("v2", [1], [5]),            # 1 A  small
          tx("v2", [2], [6], w=3),       # 2 H  heavy parent
          tx("v2", [6], [7]),            # 3 c  small child of H
          tx("v1", [3], [8]),            # 4 D  small v1
          tx("v2", [4], [9], w=2)]       # 5 G  medium
    setsc = [cset("v2", [1]), cset("v2", [2, 3]), cset("v1", [4]), cset("v2", [5]), cset("v2", [2]), cset("v2", [3])]
    c = scenario("pool-mine-cut", [1, 2, 3, 4], [], Tc, sets=setsc, maxpool=99, maxblock=3)
    return [a, b, c]


def rebase_scenarios(tier):
    """C13: every (from, to) pair, MaxDist = 3.
        1 -- 2 [A] -- 3 [] -- 4 [B]        6 is submitted late (unknown until then), 7 only as a side block
          \\- 5 [F] -- 6 [] -- 7 [C]
    A parent, B child of A, C conflicts with A, F independent, G child of F, H spends an output of A and one of F."""
    T = [tx("v2", [1], [4]),         # 1 A
         tx("v2", [4], [5]),         # 2 B child of A
         tx("v2", [1], [6]),         # 3 C conflicts with A
         tx("v2", [2], [7]),         # 4 F
         tx("v2", [7], [8]),         # 5 G child of F
         tx("v2", [3], [9, 10]),     # 6 P two outputs
         tx("v2", [9, 10], [11]),    # 7 Q spends both outputs of P
         tx("v2", [9], [12]),        # 8 R spends one output of P
         tx("v2", [10, 12], [13])]   # 9 D spends P's other output and R's: the diamond P -> (R) -> D
    nodes = [(1, [1]), (2, []), (3, [2]), (1, [4]), (5, []), (6, [3])]
    rsets = [[1], [1, 2], [2], [4], [4, 5], [3], [1, 4], [6, 7]]
    if tier == "quick":
        rsets = [[1], [1, 2], [4, 5], [1, 4], [6, 7]]
    sets = [cset("v2", [1, 2]), cset("v2", [6, 7]), cset("v2", [4]), cset("v2", [6, 8])]
    a = scenario("rebase-fork", [1, 2, 3], nodes, T, sets=sets, rsets=rsets, txsetc=[2, 5, 7, 4, 9])
    return [a]


# ------------------------------------------------------------------ legs

def write_scens(wd, scens, name):
    p = os.path.join(wd, "sc_%s.json" % name)
    json.dump(scens, open(p, "w"))
    return p


NODEV = {"DevPartialAdd": False, "DevSharedIndex": False, "DevEphDrop": False, "DevStaleParents": False}


def leg_m(wd, cfg, scfile, what, devs=None, timeout=900, workers=8, tag=None, emit=False):
    """exhaustive TLC run with the ideal rules (no deviation): the properties must hold.  emit=True
    also exports the explored graph as edges (for cfgs whose graph IS the stimulus graph of Leg R)"""
    cfgp = cfg_with_devs(wd, cfg, devs or NODEV, ("_" + tag) if tag else "")
    if emit:
        open(cfgp, "a").write("ACTION_CONSTRAINT EmitEdge\n")
    r = vlib.run_tlc(wd, "MCPool", cfgp, workers=workers, timeout=timeout, env=dict(JVM_M, POOLSC=scfile), tag=(tag or cfg.replace(".cfg", "")))
    vlib.tlc_must_pass(r, what)
    log("  M: %s: %d distinct states, %d transitions, depth %d, %.1fs" % (what, r.distinct, r.generated, r.depth, r.wall))
    return r


def probe(wd, cfg, scfile, dev, expect, tag):
    """the same model with ONE named deviation switched on: TLC must find the design-level
    counterexample (otherwise the model no longer represents the finding)"""
    devs = dict(NODEV); devs[dev] = True
    cfgp = cfg_with_devs(wd, cfg, devs, "_" + tag)
    r = vlib.run_tlc(wd, "MCPool", cfgp, workers=4, timeout=600, env=dict(JVM_M, POOLSC=scfile), tag=tag)
    hit = r.exit != 0 and r.violated is not None and any(e in r.violated for e in expect)
    log("  M: probe %s on %s: %s (violated: %s, %.1fs)" % (dev, cfg, "design-level counterexample found" if hit else "NO counterexample", r.violated, r.wall))
    return hit


def stimulus_paths(wd, cfg, scfile, rng, tag, max_paths=None, max_len=40, tlc=None):
    """TLC's explored graph (ideal rules, canonical revalidation) -> edge cover -> action lists;
    tlc: a finished run of the same graph that already exported its edges (leg_m(emit=True))"""
    r = tlc
    if r is None:
        cfgp = cfg_with_devs(wd, cfg, NODEV, "_" + tag)
        r = vlib.run_tlc(wd, "MCPool", cfgp, workers=4, timeout=1200, env=dict(JVM_M, POOLSC=scfile), tag=tag)
        vlib.tlc_must_pass(r, cfg)
    by_sc = {}
    for raw in r.edges.raw:
        k = int(re.search(r'"sc":(\d+)', raw).group(1))
        by_sc.setdefault(k, vlib.EdgeList()).append_raw(raw)
    # several workers print concurrently: path_cover takes the `from` of the FIRST edge as the initial
    # state, so an edge leaving the initial state (nothing submitted, nothing offered) is moved to the front
    for k, es in by_sc.items():
        for i, raw in enumerate(es.raw):
            f = json.loads(raw)["from"]
            if f["tip"] == 1 and f["sub"] == [1] and not f["offered"] and not f["pool1"] and not f["pool2"] and not f["stale"] and not f["pc"]["busy"]:
                es.raw[0], es.raw[i] = es.raw[i], es.raw[0]
                break
        else:
            raise vlib.Infra("no edge leaves the initial state of scenario %d in %s" % (k, cfg))
    paths = []; nst = ned = 0; full = 0
    for k, es in sorted(by_sc.items()):
        s, n = vlib.graph_stats(es)
        nst += s; ned += n
        ps = vlib.path_cover(es, max_paths=None, rng=rng, max_len=max_len)
        full += len(ps)
        for p in ps:
            paths.append({"sc": k, "acts": [e["act"] for e in p]})
    if max_paths and len(paths) > max_paths:
        rng.shuffle(paths)
        paths = paths[:max_paths]
    acts = sum(len(p["acts"]) for p in paths)
    log("  R: %s graph: %d states / %d edges over %d scenarios; %d of %d cover paths (%d actions)" % (cfg, nst, ned, len(by_sc), len(paths), full, acts))
    return paths, dict(states=nst, edges=ned, cover_paths=full, paths=len(paths), actions=acts, tlc=r)


def split_traces(path):
    cur = []; start = 0
    with open(path) as f:
        for i, line in enumerate(f):
            if line.startswith('{"op":"Reset"') and cur:
                yield start, cur
                cur = []; start = i
            cur.append(line)
    if cur:
        yield start, cur


SLIM = ("op", "sc", "to", "b", "tip", "p1", "p2", "eph", "full", "valid", "mine", "alias", "asked", "found", "kind", "basis", "set", "r", "id", "k",
        "from", "corrupt", "ids", "proofs", "nopanic", "x", "detail")


def validate_shard(wd, prop, trace, scens, devs, verdict, tag, accept=None):
    """TLC-validates one NDJSON file against PoolTrace.tla; a rejected history is reported (first
    unexplainable event / violated property), dropped, and the rest is validated again"""
    events = vlib.count_lines(trace)
    if events == 0:
        return 0, 0, 0
    cfgp = cfg_with_devs(wd, "PoolTrace.cfg", devs, "_" + tag)
    rejected = 0; states = 0
    for it in range(10):
        for attempt in range(3):
            with TLC_SLOTS:
                ok, r, consumed = vlib.validate_trace(wd, "PoolTrace", cfgp, trace, timeout=1800, tag="%s_%d" % (tag, it), extra_env=dict(JVM_T, POOLSC=scens))
            if ok or consumed is not None:
                break
            # no verdict at all: the JVM died (e.g. killed under memory pressure on the shared machine)
            log("  (TLC gave no verdict on %s, exit %s: retrying)" % (os.path.basename(trace), r.exit))
            time.sleep(5 + 10 * attempt)
        states += r.distinct
        if ok:
            break
        if consumed is None:
            raise vlib.Infra("pool trace validation broke (exit %s): %s\n%s" % (r.exit, r.error, r.out[-3000:]))
        traces = list(split_traces(trace))
        # a violated property was evaluated in the state AFTER the last consumed event; an unexplainable
        # event is the first one that was not consumed
        idx = max(consumed - 1, 0) if r.violated else consumed
        bad = None
        for start, lines in traces:
            if start <= idx < start + len(lines):
                bad = (start, lines)
        if bad is None:
            bad = traces[-1]
        start, lines = bad
        k = min(idx - start, len(lines) - 1)
        ev = json.loads(lines[k]); prev = json.loads(lines[max(k - 1, 0)])
        slim = lambda e: {a: b for a, b in e.items() if a in SLIM}
        if r.violated:
            sig = "trace:%s:%s:%s" % (prop, ev.get("op"), r.violated.split()[0])
            desc = "TLC: property %s fails on a recorded execution at event %d %s" % (r.violated, k, json.dumps(slim(ev)))
        else:
            tip = 1
            for x in lines[:k]:
                if '"op":"Done"' in x[:30]:
                    tip = json.loads(x).get("tip", tip)
            stale = ev.get("op") in ("AddSet", "TxSet") and ev.get("basis") not in (tip, None)
            hostile = ev.get("op") == "AddSet" and (ev.get("basis") == 0 or any(x.get("bad") for x in ev.get("set", [])))
            sig = "trace:%s:%s:unexplained%s" % (prop, ev.get("op"), ":hostile" if hostile else ":stale-basis" if stale else "")
            desc = "TLC: no action of Pool.tla explains event %d %s after %s" % (k, json.dumps(slim(ev)), json.dumps(slim(prev)))
        rejected += 1
        if accept is None or accept(sig):
            verdict.add({"sig": sig, "desc": desc,
                         "replay": {"kind": "trace", "events": [slim(json.loads(x)) for x in lines[:k + 1]][-60:], "tlc": r.out[-1200:]}})
        with open(trace, "w") as f:
            for s2, l2 in traces:
                if s2 != start:
                    f.writelines(l2)
        if vlib.count_lines(trace) == 0:
            break
    return events, rejected, states


def validate_all(wd, prop, tag, shards, devs, verdict, accept=None):
    t0 = time.time()
    tot = rej = st = 0
    with cf.ThreadPoolExecutor(max_workers=8) as ex:
        futs = []
        for i in range(shards):
            tr = os.path.join(wd, "pooltrace-%s-%d.ndjson" % (tag, i))
            sc = os.path.join(wd, "poolscens-%s-%d.json" % (tag, i))
            if os.path.exists(tr) and os.path.exists(sc):
                futs.append(ex.submit(validate_shard, wd, prop, tr, sc, devs, verdict, "%s%d" % (tag, i), accept))
        for fu in futs:
            e, r_, s = fu.result()
            tot += e; rej += r_; st += s
    return dict(events=tot, rejected=rej, trace_states=st, wall=time.time() - t0)


def replay_paths(wd, binary, scens, paths, tag, verdict, shards=8, stub="", accept=None, timeout=1500):
    inp = os.path.join(wd, "replay_in_%s.json" % tag)
    json.dump({"scens": scens, "paths": paths, "shards": shards, "tag": tag, "stub": stub}, open(inp, "w"))
    res = vlib.go_run(binary, "TestReplay", wd, env={"VERIF_IN": inp, "VERIF_DEV_PARTIAL": 1 if deviations().get("DevPartialAdd") else 0},
                      timeout=timeout, tag="replay_" + tag)
    for m in res["mismatches"]:
        if m["sig"].startswith("harness:"):
            raise vlib.Infra("harness trouble in replay %s: %s -- %s" % (tag, m["sig"], m["desc"][:600]))
        if accept is None or accept(m["sig"]):
            verdict.add(m)
    return res


def leg_r(wd, binary, prop, cfg, scens, scname, rng, verdict, devs, max_paths=None, max_len=40, shards=8, accept=None, tlc=None):
    scfile = write_scens(wd, scens, scname)
    paths, g = stimulus_paths(wd, cfg, scfile, rng, "edges_" + scname, max_paths=max_paths, max_len=max_len, tlc=tlc)
    res = replay_paths(wd, binary, scens, paths, scname, verdict, shards=shards, accept=accept)
    v = validate_all(wd, prop, scname, shards, devs, verdict, accept=accept)
    log("  R: %s: %d paths / %d events on real nodes (%d harness-level findings, counts %s); TLC validated in %.1fs, %d rejected" %
        (scname, res["traces"], v["events"], len(res["mismatches"]), json.dumps(res.get("counts", {})), v["wall"], v["rejected"]))
    return dict(graph={k: g[k] for k in ("states", "edges", "cover_paths", "paths", "actions")}, paths=res["traces"], events=v["events"],
                rejected=v["rejected"], trace_states=v["trace_states"], evaluations=res["evaluations"], distinct=res["distinct"],
                samples=res["samples"], counts=res.get("counts", {}))


def leg_t(wd, binary, prop, mode, verdict, devs, histories, steps, shards=8, tag="drv", accept=None, extra_env=None, timeout=2400):
    env = {"VERIF_MODE": mode, "VERIF_HISTORIES": histories, "VERIF_SHARDS": shards, "VERIF_STEPS": steps, "VERIF_TAG": tag,
           "VERIF_DEV_PARTIAL": 1 if devs.get("DevPartialAdd") else 0}
    if extra_env:
        env.update(extra_env)
    res = vlib.go_run(binary, "TestDriver", wd, env=env, timeout=timeout, tag="driver_" + tag)
    for m in res["mismatches"]:
        if m["sig"].startswith("harness:"):
            raise vlib.Infra("harness trouble in driver %s: %s -- %s" % (tag, m["sig"], m["desc"][:800]))
        if accept is None or accept(m["sig"]):
            verdict.add(m)
    v = validate_all(wd, prop, tag, shards, devs, verdict, accept=accept)
    c = res.get("counts", {})
    log("  T: mode %s: %d histories / %d blocks / %d transactions / %d events on real nodes in %.1fs (%d harness-level findings); TLC validated in %.1fs, %d rejected" %
        (mode, res["traces"], c.get("blocks", 0), c.get("transactions", 0), v["events"], res["wall"], len(res["mismatches"]), v["wall"], v["rejected"]))
    return dict(traces=res["traces"] - v["rejected"], events=v["events"], rejected=v["rejected"], trace_states=v["trace_states"],
                evaluations=res["evaluations"], distinct=res["distinct"], samples=res["samples"], counts=c, mode=mode)


# ------------------------------------------------------------------ which finding belongs to which property

ACCEPT = {
    "C14": r"^(audit:c14:|trace:C14:(AddSet|Lookup):|trace:C14:[A-Za-z]+:(Atomicity|KnownIffAllPooled|LookupExact|NoAliasing|TypeOK))",
    "C05": r"^(audit:c05:|trace:C05:(Obs|Mine|Submit|Revert|Apply|Done|Reset):|trace:C05:[A-Za-z]+:(PrefixValid|Retention|Retrievable|NoInvention|Minable|Mined|EvictOnlyWhenFull|TypeOK))",
    "C13": r"^(audit:c13:|trace:C13:(Rebase|TxSet):|trace:C13:AddSet:unexplained:(stale-basis|hostile)|trace:C13:[A-Za-z]+:(Rebase|ParentsFirst|BasisIsTip|TxSet[A-Za-z]*|NoPanic))",
}


def acceptor(prop):
    rx = re.compile(ACCEPT[prop])
    return lambda sig: bool(rx.search(sig))


COMMON_ASSUMPTIONS = [
    "go.sia.tech/core (consensus rules, accumulator membership, proof updates) is the trusted oracle; the linear-replay ledger uses only core",
    "abstract validity = real validity for the generated transactions: siacoin inputs without maturity delay, fees covered, equal block spacing (a heavier chain is never shorter); the harness checks the reorg rule on every submission",
    "open findings are tolerated by the specification through named deviations (Dev* = TRUE) and reported by the concrete audits; VERIF_POOL_DEVS=none validates against the strict rules",
    "TLC and the Go runtime are trusted",
]


def evidence(prop, tier, ms, probes, rr, tt, t0, verdict, model_note, extra_assumptions=()):
    cov = {
        "states": sum(m.distinct for m in ms), "transitions": sum(m.generated for m in ms),
        "traces_validated_against_impl": sum(r["paths"] - r["rejected"] for r in rr) + (tt["traces"] if tt else 0),
        "samples": vlib.trim_samples([s for r in rr for s in r["samples"]] + (tt["samples"] if tt else []), 3),
        "evaluations": sum(r["evaluations"] for r in rr) + (tt["evaluations"] if tt else 0),
        "distinct_nontrivial": sum(r["distinct"] for r in rr) + (tt["distinct"] if tt else 0),
        "rule": "one evaluation per call of the real Manager made by the harness (submission, lookup, reported pool with its audits, "
                "mined block, rebase, broadcast set); distinct by (scenario, call, arguments, pool before, reply); every call is one event "
                "validated by TLC against PoolTrace.tla",
        "model": {"module": "Pool.tla", "note": model_note, "runs": [{"cfg": os.path.basename(m.cmd.split("-config ")[1].split()[0]), "distinct": m.distinct, "transitions": m.generated, "depth": m.depth} for m in ms]},
        "design_probes": probes,
        "replay": [{k: v for k, v in r.items() if k not in ("samples",)} for r in rr],
        "deviations_tolerated": deviations(),
    }
    if tt:
        cov["trace_validation"] = {k: v for k, v in tt.items() if k != "samples"}
    vlib.write_evidence(prop, tier, "model_checking", cov, COMMON_ASSUMPTIONS + list(extra_assumptions), time.time() - t0, len(verdict.violations))


def parallel(jobs):
    """runs the legs concurrently (TLC, the Go harness and the trace validation overlap; CPU is
    shared with other checks, so this mostly hides JVM start-up and single-threaded phases);
    jobs: {name: thunk}; returns {name: result}; the first exception is re-raised"""
    out = {}
    with cf.ThreadPoolExecutor(max_workers=len(jobs)) as ex:
        futs = {name: ex.submit(fn) for name, fn in jobs.items()}
        err = None
        for name, fu in futs.items():
            try:
                out[name] = fu.result()
            except Exception as e:      # noqa
                err = err or e
        if err:
            raise err
    return out


# ------------------------------------------------------------------ C14

def run(tier):
    t0 = time.time()
    wd = vlib.workdir(PROP)
    verdict = vlib.Verdict(PROP)
    acc = acceptor(PROP)
    binary = vlib.go_build("poolx", wd)
    devs = deviations()
    rng = random.Random(vlib.seed())
    scens = contract_scenarios(tier)
    scfile = write_scens(wd, scens, "contract_m")
    nh, st = (96, 40) if tier == "quick" else (1200, 60)
    res = parallel({
        "m": lambda: leg_m(wd, "Pool_contract_mc.cfg", scfile, "contract family (ideal rules)", workers=4),
        "p1": lambda: probe(wd, "Pool_dev_partial.cfg", scfile, "DevPartialAdd", ["AtomicityP"], "probe_partial"),
        "p2": lambda: probe(wd, "Pool_dev_index.cfg", scfile, "DevSharedIndex", ["LookupExactP"], "probe_index"),
        "r": lambda: leg_r(wd, binary, PROP, "Pool_contract_edges.cfg", scens, "contract", rng, verdict, devs, accept=acc),
        "t": lambda: leg_t(wd, binary, PROP, "c14", verdict, devs, histories=nh, steps=st, accept=acc, timeout=3000,
                           extra_env={"VERIF_SCRIPTED": 5 if tier == "quick" else 40, "VERIF_SCRIPT_KINDS": "mixed-inputs,boundary,storage-proof,boundary,boundary" if tier == "quick" else "mixed-inputs,storage-proof,cross-kind-eviction,boundary,boundary"}),
    })
    ms, rr, tt = [res["m"]], [res["r"]], res["t"]
    probes = {"DevPartialAdd breaks AtomicityStrict": res["p1"], "DevSharedIndex breaks LookupExactStrict": res["p2"]}
    if not all(probes.values()):
        raise vlib.Infra("a named deviation no longer produces its design-level counterexample: %s" % probes)
    rc = verdict.finish()
    evidence(PROP, tier, ms, probes, rr, tt, t0, verdict,
             "family contract: 2 scenarios (v1+v2 regime, v2-only regime), 7 resp. 6 transactions incl. parent/child, a conflicting pair of each version; "
             "every injective set of length <= %d, corruption at each position, unknown basis; lookups of v1, v2, unpooled and unknown ids through both functions" % (2 if tier == "quick" else 3))
    return rc


def replay(path):
    """re-executes the recorded history: the checks are deterministic for a seed, so the run is
    repeated with the seed of the record and must show the same signature again"""
    rec = json.load(open(path))
    seed = (rec.get("replay") or {}).get("seed")
    if seed is not None:
        os.environ["VERIF_SEED"] = str(seed)
    log("replaying with VERIF_SEED=%s: looking for %s" % (os.environ.get("VERIF_SEED", "1"), rec.get("sig")))
    return run("quick")


def corrupt_one(path, pick, change):
    """rewrites the first event for which pick(e) holds; returns True if one was found"""
    lines = open(path).read().splitlines()
    for i, l in enumerate(lines):
        e = json.loads(l)
        if pick(e):
            change(e)
            lines[i] = json.dumps(e, separators=(",", ":"))
            open(path, "w").write("\n".join(lines) + "\n")
            return True
    return False


def selftest_common(prop, wd, binary, scens, edges_cfg, tag, corruptions, stub, stub_expect):
    """(1) one corrupted field of a good recorded execution -> TLC rejects; (2) the harness misreporting
    the node on purpose (stub) -> the audits and TLC both object"""
    ok = True
    rng = random.Random(1)
    devs = deviations()
    scfile = write_scens(wd, scens, tag + "_m")
    tlc = leg_m(wd, edges_cfg, scfile, "stimulus graph", workers=4, emit=True, tag="st_" + tag) if "_mc" in edges_cfg else None
    paths, _ = stimulus_paths(wd, edges_cfg, scfile, rng, "edges_" + tag, max_paths=60, tlc=tlc)
    v = vlib.Verdict(prop + "-selftest"); v.findings = []
    replay_paths(wd, binary, scens, paths, tag, v, shards=1)
    tr = os.path.join(wd, "pooltrace-%s-0.ndjson" % tag); sc = os.path.join(wd, "poolscens-%s-0.json" % tag)
    good = open(tr).read()
    v0 = vlib.Verdict(prop + "-selftest"); v0.findings = []
    _, rej, _ = validate_shard(wd, prop, tr, sc, devs, v0, tag + "_good")
    log("selftest 0 (the uncorrupted executions are accepted): %s" % ("ok" if rej == 0 else "FAILED"))
    ok = ok and rej == 0
    for name, pick, change in corruptions:
        open(tr, "w").write(good)
        if not corrupt_one(tr, pick, change):
            log("selftest 1 (%s): no such event recorded -- FAILED" % name)
            ok = False
            continue
        v1 = vlib.Verdict(prop + "-selftest"); v1.findings = []
        _, rej, _ = validate_shard(wd, prop, tr, sc, devs, v1, tag + "_bad")
        sigs = sorted({m["sig"] for m in v1.violations})
        log("selftest 1 (%s -> TLC rejects): %s %s" % (name, "ok" if rej >= 1 else "FAILED", sigs[:2]))
        ok = ok and rej >= 1
    v2 = vlib.Verdict(prop + "-selftest"); v2.findings = []
    replay_paths(wd, binary, scens, paths, tag + "stub", v2, shards=1, stub=stub)
    audit_hit = any(re.search(stub_expect, m["sig"]) for m in v2.violations)
    v3 = vlib.Verdict(prop + "-selftest"); v3.findings = []
    _, rej, _ = validate_shard(wd, prop, os.path.join(wd, "pooltrace-%sstub-0.ndjson" % tag), os.path.join(wd, "poolscens-%sstub-0.json" % tag), devs, v3, tag + "_stub")
    log("selftest 2 (harness stub %r: audits object: %s; TLC rejects %d executions): %s" % (stub, audit_hit, rej, "ok" if audit_hit and rej >= 1 else "FAILED"))
    ok = ok and audit_hit and rej >= 1
    return ok


def selftest():
    wd = vlib.workdir(PROP + "-selftest")
    binary = vlib.go_build("poolx", wd)
    scens = contract_scenarios("quick")

    def set_r(val):
        def f(e):
            e["r"] = val
        return f
    corr = [("AddSet reply ok -> known", lambda e: e["op"] == "AddSet" and e["r"] == "ok", set_r("known")),
            ("Lookup found -> absent", lambda e: e["op"] == "Lookup" and e["r"] == "found", set_r("absent")),
            ("AddSet reply err -> ok", lambda e: e["op"] == "AddSet" and e["r"] == "err", set_r("ok"))]
    ok = selftest_common(PROP, wd, binary, scens, "Pool_contract_edges.cfg", "st14", corr, "lookup-absent", r"^audit:c14:lookup:.*:absent$")
    scfile = write_scens(wd, scens, "probe")
    p1 = probe(wd, "Pool_dev_partial.cfg", scfile, "DevPartialAdd", ["AtomicityP"], "probe_partial")
    p2 = probe(wd, "Pool_dev_index.cfg", scfile, "DevSharedIndex", ["LookupExactP"], "probe_index")
    log("selftest 3 (named deviations break the strict properties in TLC): %s" % ("ok" if p1 and p2 else "FAILED"))
    return 0 if ok and p1 and p2 else 2
