"""C04 -- Subscribers can always follow the chain through reorgs via the update stream."""
import chainlib, chaintrace

def run(tier):
    return chainlib.run_family("C04", tier, "Chain_subs.cfg", "Chain_subs_edges.cfg",
                               {"quick": (1, 5), "thorough": (5, 6)}, extra=chaintrace.leg_t("C04"), live_cfg="Chain_subs_live.cfg",
                               # the subs graph (listeners x pre-validated path) is too large for a full edge cover of
                               # 6-block trees: the thorough tier replays a 120 000-path sample, the quick tier 4 000
                               thorough_paths=120000)
