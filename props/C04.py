"""C04 -- Subscribers can always follow the chain through reorgs via the update stream."""
import chainlib, chaintrace

def run(tier):
    return chainlib.run_family("C04", tier, "Chain_subs.cfg", "Chain_subs_edges.cfg",
                               {"quick": (2, 5), "thorough": (6, 6)}, extra=chaintrace.leg_t("C04"))
