"""C05 -- The transaction pool is always a valid, minable continuation of the tip.

Leg M  spec/Pool.tla, family `pool`: submissions (valid, conflicting, parent/child, stale basis) x
       blocks applied / reverted underneath x the FULLY PERMISSIVE Revalidate (any pool over what was
       ever offered that is prefix-valid and contains the must-keep set) on fork trees whose blocks
       confirm, un-confirm and invalidate pooled transactions; invariants PrefixValid, Retention,
       NoInvention, Minable and RetentionSatisfiable (the statement of retention is consistent: some
       pool always satisfies it); the pool-full path with MaxPool = 3.  Probe: DevEphDrop breaks
       RetentionStrict.
Leg R  an edge cover of the explored graph (canonical revalidation) as stimulus paths on real nodes;
       after every step the reported pool is validated prefix by prefix with core on the INDEPENDENT
       ledger's tip state, a block is assembled from it (own assembly and coreutils.MineBlock) and
       must be accepted by a copy of the node and by a fresh linear node; every listed, previously
       listed and must-keep transaction is looked up BY ID through the lookup of its own version
       (invariant Retrievable: found <=> pooled in the spec); the body coreutils.MineBlock
       assembled is an event of its own, judged by the spec (MinedIsPrefix, MinedSelfContained,
       MinedFits, Minable: the assembler cuts the reported sequence at the block weight and takes a
       PREFIX); every execution is validated by TLC against PoolTrace.tla.
Leg T  seeded random histories (forks up to 3 blocks deep, blocks that confirm a prefix of the pool,
       confirm a conflicting transaction or leave the pool alone, several reorgs between two looks
       at the pool, blocks mined from the pool and adopted); in BOTH tiers histories with heavy sets
       (1.9 MB transactions, v1 and v2) against a small pool: a REJECTED set whose valid prefix weighs
       as much as the pool may hold must leave no weight behind (nothing is evicted), an ACCEPTED set
       just below the limit evicts nothing, only pooled transactions reaching the limit permit
       evictions -- the spec recomputes `Full` from the pooled transactions' real weights; directed
       interplay histories (v2 storage-proof resolutions pooled across unrelated blocks, a reorg and
       stale bases; children mixing confirmed and ephemeral inputs under partial confirmation; v1
       submissions evicting v2 transactions between two V2TransactionSet calls); thorough
       also: histories that fill the pool to its 20 M weight limit with 1 MB transactions."""
import os, json, random, time
import vlib
from vlib import log
import C14 as P

PROP = "C05"


def run(tier):
    t0 = time.time()
    wd = vlib.workdir(PROP)
    verdict = vlib.Verdict(PROP)
    acc = P.acceptor(PROP)
    binary = vlib.go_build("poolx", wd)
    devs = P.deviations()
    rng = random.Random(vlib.seed())
    scens = P.pool_scenarios(tier)
    scfile = P.write_scens(wd, scens, "pool_m")
    fullfile = P.write_scens(wd, P.full_scenarios(tier), "full_m")
    q = tier == "quick"
    res = P.parallel({
        "m1": lambda: P.leg_m(wd, "Pool_pool_mc.cfg", scfile, "pool family, permissive Revalidate (ideal rules)", timeout=1500, workers=4),
        "m2": lambda: P.leg_m(wd, "Pool_pool_full.cfg", fullfile, "pool-full path and heavy sets, maxpool = 3 (ideal rules)", workers=2),
        "p": lambda: P.probe(wd, "Pool_dev_ephdrop.cfg", scfile, "DevEphDrop", ["RetentionStrict"], "probe_ephdrop"),
        "r": lambda: P.leg_r(wd, binary, PROP, "Pool_pool_edges.cfg", scens, "pool", rng, verdict, devs, accept=acc,
                             max_paths=(320 if q else None), max_len=40),
        "t": lambda: P.leg_t(wd, binary, PROP, "c05", verdict, devs, histories=(80 if q else 900), steps=(45 if q else 70), accept=acc,
                             extra_env=({"VERIF_HEAVY": 4, "VERIF_SCRIPTED": 6, "VERIF_SCRIPT_KINDS": "storage-proof,mixed-inputs,boundary,cross-kind-eviction,storage-proof,boundary"} if q else {"VERIF_FAT": 4, "VERIF_HEAVY": 16, "VERIF_SCRIPTED": 40, "VERIF_SCRIPT_KINDS": "storage-proof,mixed-inputs,boundary,cross-kind-eviction,boundary"}), timeout=3000),
    })
    ms, rr, tt = [res["m1"], res["m2"]], [res["r"]], res["t"]
    probes = {"DevEphDrop breaks RetentionStrict": res["p"]}
    if not all(probes.values()):
        raise vlib.Infra("a named deviation no longer produces its design-level counterexample: %s" % probes)
    rc = verdict.finish()
    P.evidence(PROP, tier, ms, probes, rr, tt, t0, verdict,
               "family pool: fork trees of %d and 6 blocks with bodies that confirm a parent, its child, a conflicting transaction and a v1 transaction; "
               "11 + 5 candidate sets incl. stale bases; Revalidate fully permissive; eviction with maxpool = 3 incl. heavy rejected / accepted sets against a small pool (Full = sum of the pooled weights)" % (len(scens[0]["parent"])),
               ["retention is tracked for siacoin transactions whose validity does not depend on the height reached (no maturity delay, no contracts); "
                "a transaction of an accepted set that is already known is protected like the new ones",
                "the pool counts as full (any eviction allowed) exactly when the POOLED transactions (last report + accepted since) weigh >= 10 x MaxBlockWeight; blocks applied under the pool do not reduce that sum before the next report (the code evicts before it drops confirmed transactions)"])
    return rc


def replay(path):
    rec = json.load(open(path))
    seed = (rec.get("replay") or {}).get("seed")
    if seed is not None:
        os.environ["VERIF_SEED"] = str(seed)
    log("replaying with VERIF_SEED=%s: looking for %s" % (os.environ.get("VERIF_SEED", "1"), rec.get("sig")))
    return run("quick")


def selftest():
    wd = vlib.workdir(PROP + "-selftest")
    binary = vlib.go_build("poolx", wd)
    scens = P.pool_scenarios("quick")

    def drop_last_p2(e):
        e["p2"] = e["p2"][:-1]; e["eph"] = e["eph"][:-1]

    def set_false(k):
        def f(e):
            e[k] = False
        return f

    def swap_p2(e):
        e["p2"] = e["p2"][::-1]; e["eph"] = e["eph"][::-1]
    corr = [("an accepted transaction vanishes from a reported pool", lambda e: e["op"] == "Obs" and len(e["p2"]) >= 1 and not e["full"], drop_last_p2),
            ("child reported before its parent", lambda e: e["op"] == "Obs" and len(e["p2"]) == 2 and e["eph"][1] != [], swap_p2),
            ("core rejected a prefix of the reported pool", lambda e: e["op"] == "Obs", set_false("valid")),
            ("the mined block was rejected", lambda e: e["op"] == "Obs", set_false("mine")),
            ("the assembled block skips a pooled transaction (not a prefix)", lambda e: e["op"] == "Mine" and len(e["ids"]) >= 2, lambda e: e.update(ids=e["ids"][1:])),
            ("the node rejected the block MineBlock assembled", lambda e: e["op"] == "Mine", lambda e: e.update(r="rejected")),
            ("a listed transaction is not found by its id", lambda e: e["op"] == "Obs" and len(e["found"]) >= 1, lambda e: e.update(found=e["found"][1:])),
            ("a removed transaction is still found by its id", lambda e: e["op"] == "Obs" and len(e["asked"]) > len(e["found"]), lambda e: e.update(found=e["asked"])),
            ("tip after AddBlocks differs", lambda e: e["op"] == "Done" and e["tip"] > 1, lambda e: e.update(tip=1))]
    ok = P.selftest_common(PROP, wd, binary, scens, "Pool_pool_edges.cfg", "st05", corr, "lose-accepted", r"^audit:c05:retention:")
    scfile = P.write_scens(wd, scens, "probe")
    p1 = P.probe(wd, "Pool_dev_ephdrop.cfg", scfile, "DevEphDrop", ["RetentionStrict"], "probe_ephdrop")
    log("selftest 3 (the named deviation breaks the strict property in TLC): %s" % ("ok" if p1 else "FAILED"))
    return 0 if ok and p1 else 2
