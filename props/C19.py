"""C19 -- Pruning removes only old block bodies and never breaks the node."""
import chainlib, chaintrace

def run(tier):
    return chainlib.run_family("C19", tier, "Chain_prune.cfg", "Chain_prune_edges.cfg",
                               {"quick": (1, 5), "thorough": (3, 6)},
                               probes=[("Chain_prune_dev.cfg", ["AllValid", "NeverPanics"])], extra=chaintrace.leg_t("C19"),
                               thorough_paths=150000)
