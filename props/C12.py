"""C12 -- Honest connected nodes converge to the same heaviest chain.
Leg M: Sync.tla, family `honest` (Z = {}): AlwaysValid / WorkMonotone / TypeOK invariants over every
interleaving of 2-3 nodes, every connection order of line/star/triangle topologies, every assignment
of fork-tree branches to nodes; liveness Convergence under weak fairness (no state constraint).
Leg R: TLC's explored graph of the single-active-node cfg is exported as edges; an edge cover is
replayed on a REAL syncer against passive real peers, comparing the projected state at every step.
Leg T: real syncers + real chain.Managers on loopback TCP at the real boundaries (fork depths around
the history sample and the 100-block split, chains before/across/after the v2 heights, genesis and
checkpoint nodes, batch options, topologies, connection orders); every node's ChainManager/PeerStore
call log is validated by TLC against SyncTrace.tla; every node is audited against a linear twin."""
import os, json, random, time, copy, re, concurrent.futures as cf
import vlib
from vlib import log

PROP = "C12"
DEPTHS_THOROUGH = [0, 1, 9, 10, 11, 17, 40, 99, 100, 101, 250]
DEPTHS_QUICK = [0, 1, 9, 10, 11, 17, 40, 100, 101]
HEIGHTS = dict(allow=20, require=30, final=40)


# ------------------------------------------------------------------ scenario generation (Leg T)

def hist_offsets(tip_height):
    """chain/manager.go History(): offsets of the sampled heights below the tip"""
    out = []
    for i in range(32):
        off = i if i < 10 else 7 + (1 << (i - 8))
        off = min(off, tip_height)
        out.append(off)
    return out


def topology(n, kind):
    if kind == "line":
        return [[i, i + 1] for i in range(n - 1)]
    if kind == "star":
        return [[0, i] for i in range(1, n)]
    if kind == "ring":
        return [[i, (i + 1) % n] for i in range(n)] if n > 2 else [[0, 1]]
    if kind == "tritail":  # triangle 0-1-2 plus a tail
        return [[0, 1], [1, 2], [2, 0]] + [[i, i + 1] for i in range(2, n - 1)]
    raise ValueError(kind)


def nominal_ms(n_nodes, edges, total_blocks):
    """a hop costs ~1.1 s (hard 1 s worker tick of parallelSync) + announce latency"""
    hops = max(1, n_nodes - 1)
    return int(1400 * hops + 600 + 3 * total_blocks)


def make_scenario(rng, sid, depth, tier, *, n=None, kind=None, heights=None, trunk=None, force=None):
    force = force or {}
    heights = heights or HEIGHTS
    n = n or rng.choice([2, 2, 3, 3, 4, 5])
    kinds = ["line", "star"] + (["ring", "tritail"] if n >= 3 else [])
    kind = kind or rng.choice(kinds)
    if trunk is None:
        trunk = rng.choice([3, 12, 18, 19, 25, 28, 29, 30, 31, 35, 39, 45])
    extra = rng.choice([1, 1, 2, 3])
    branches = [dict(name="t", **{"from": ""}, at=0, len=trunk),
                dict(name="a", **{"from": "t"}, at=trunk, len=depth + extra)]
    names = ["a"]
    if depth > 0:
        branches.append(dict(name="b", **{"from": "t"}, at=trunk, len=depth))
        names.append("b")
    if n >= 3 and rng.random() < 0.5:
        # a third branch: off the winner, off the loser, or off the trunk below the fork point
        r = rng.random()
        if r < 0.4 and depth + extra > 1:
            at = trunk + rng.randint(1, depth + extra - 1)
            branches.append(dict(name="c", **{"from": "a"}, at=at, len=rng.randint(1, max(1, min(12, trunk + depth + extra - at)))))
        elif r < 0.7 and depth > 1:
            at = trunk + rng.randint(1, depth - 1)
            branches.append(dict(name="c", **{"from": "b"}, at=at, len=rng.randint(1, max(1, trunk + depth - at))))
        elif trunk > 2:
            at = rng.randint(1, trunk - 1)
            branches.append(dict(name="c", **{"from": "t"}, at=at, len=rng.randint(1, max(1, min(15, depth + trunk - at)))))
        if branches[-1]["name"] == "c":
            names.append("c")
    nodes = []
    order = list(range(n))
    rng.shuffle(order)
    for k, i in enumerate(order):
        if k == 0:
            nd = dict(name="n%d" % i, branch="a", back=0)
        elif k == 1 and depth > 0:
            nd = dict(name="n%d" % i, branch="b", back=0)
        else:
            br = rng.choice(names + ["t"])
            ln = [b for b in branches if b["name"] == br][0]["len"]
            nd = dict(name="n%d" % i, branch=br, back=rng.choice([0, 0, 1, 2, 5, 12]) if ln > 0 else 0)
        nd["idx"] = i
        nodes.append(nd)
    nodes.sort(key=lambda x: x["idx"])
    for nd in nodes:
        del nd["idx"]
    # batch option (>= 100: never below the hard-coded request size, see known finding) and peer limits
    for nd in nodes:
        nd["maxSendBlocks"] = rng.choice([0, 0, 0, 100, 150, 1000])
    edges = topology(n, kind)
    rng.shuffle(edges)
    edges = [e if rng.random() < 0.5 else [e[1], e[0]] for e in edges]
    if rng.random() < 0.3:
        for i, nd in enumerate(nodes):
            nd["maxOutbound"] = max(1, sum(1 for e in edges if e[0] == i))
            nd["maxInbound"] = max(1, sum(1 for e in edges if e[1] == i))
    # checkpoint nodes: the checkpoint lies on the trunk, far enough below the lowest fork point that
    # every history sample still contains a block at or above it (see the report: a node can only find
    # a common id with a checkpoint peer inside that peer's stored range)
    dmax = max(b["len"] for b in branches if b["name"] != "t") + 4
    lowfork = min([trunk] + [b["at"] for b in branches if b["from"] == "t" and b["name"] != "t"])
    cp = False
    if lowfork - (dmax + 12) >= heights["allow"] + 1 and rng.random() < 0.6:
        for nd in nodes:
            if rng.random() < 0.5:
                nd["checkpoint"] = rng.randint(heights["allow"] + 1, lowfork - (dmax + 12))
                cp = True
    total = sum(b["len"] for b in branches)
    sc = dict(id=sid, branches=branches, nodes=nodes, edges=edges, gapMs=rng.choice([0, 0, 40, 400, 1300]),
              announceMs=250, winner="a", announce=rng.choice(["header", "outline", "both"]), **heights)
    sc["deadlineMs"] = max(15000, 10 * nominal_ms(n, edges, total))
    sc["shape"] = "%s%d-d%d-t%d%s" % (kind, n, depth, trunk, "-cp" if cp else "")
    sc.update(force)
    return sc


def directed_scenarios(tier):
    """boundary cases of the batch option and the directed reproductions of the known findings"""
    out = []
    H = HEIGHTS

    def two(sid, trunk, la, lb, n0=None, n1=None, **kw):
        br = [dict(name="t", **{"from": ""}, at=0, len=trunk), dict(name="a", **{"from": "t"}, at=trunk, len=la)]
        if lb > 0:
            br.append(dict(name="b", **{"from": "t"}, at=trunk, len=lb))
        sc = dict(id=sid, branches=br,
                  nodes=[dict(dict(name="n0", branch="a"), **(n0 or {})), dict(dict(name="n1", branch="b" if lb > 0 else "t"), **(n1 or {}))],
                  edges=[[0, 1]], gapMs=0, announceMs=250, winner="a", deadlineMs=15000, shape=sid, **H)
        sc.update(kw)
        return sc
    # WithMaxSendBlocks(m) on the serving node, k blocks needed: k <= m must work (boundary m-1, m)
    out.append(two("msb10-need9", 5, 9, 7, n0=dict(maxSendBlocks=10)))
    out.append(two("msb10-need10", 5, 10, 7, n0=dict(maxSendBlocks=10)))
    out.append(two("msb100-need250", 5, 250, 240, n0=dict(maxSendBlocks=100), n1=dict(maxSendBlocks=100), deadlineMs=30000))
    # k > m: the requester asks for min(100, k) blocks in one RPC and rejects the shorter reply
    out.append(two("msbsmall-over-10-need11", 5, 11, 7, n0=dict(maxSendBlocks=10)))
    if tier == "thorough":
        out.append(two("msbsmall-over-50-need120", 5, 120, 100, n0=dict(maxSendBlocks=50)))
        out.append(two("msbsmall-over-99-need100", 35, 100, 90, n0=dict(maxSendBlocks=99)))
    # checkpoint node whose fork point lies above its checkpoint but between its history samples
    out.append(two("cpnear-loser-d17", 35, 20, 17, n1=dict(checkpoint=34)))
    if tier == "thorough":
        out.append(two("cpnear-loser-d40", 45, 43, 40, n1=dict(checkpoint=42)))
        out.append(two("cpnear-both-d12", 35, 15, 12, n0=dict(checkpoint=25), n1=dict(checkpoint=33)))
    # cp node with a shallow fork right above its checkpoint: inside the dense part of the sample
    out.append(two("cpnear-loser-d5", 35, 8, 5, n1=dict(checkpoint=34)))
    out.append(two("cpnear-winner-d5", 35, 8, 5, n0=dict(checkpoint=34)))
    # outline relayed on top of a side-chain block the receiver only holds as a header state
    # (needs heights above the final cut: below it the test network's PoW target is maximal)
    out.append(two("sideoutline-d12", 45, 15, 12, probe="outline-sidechain", announce="outline"))
    if tier == "thorough":
        out.append(two("sideoutline-d3", 60, 6, 3, probe="outline-sidechain", announce="both"))
    return out


def gen_scenarios(tier, seed):
    rng = random.Random(seed * 7919 + (1 if tier == "quick" else 2))
    scs = []
    if tier == "quick":
        depths = DEPTHS_QUICK
        reps = 3
    else:
        depths = DEPTHS_THOROUGH
        reps = 45
    k = 0
    for d in depths:
        r = reps
        if d >= 250:
            r = max(2, reps // 3)
        for j in range(r):
            n = None
            if tier == "quick" and j == 0:
                n = 2
            scs.append(make_scenario(rng, "s%03d" % k, d, tier, n=n))
            k += 1
    # other hardfork configurations: v2 from genesis (testutil.V2Network) and the repository's default
    # test heights 200/250/300 (chains stay in the v1 regime / cross into v2 with long chains)
    alt = [(dict(allow=1, require=1, final=1), [0, 1, 10, 11, 40, 101]), (dict(allow=200, require=250, final=300), [1, 11, 40])]
    for hts, ds in alt:
        for d in ds[: (3 if tier == "quick" else len(ds))]:
            for j in range(1 if tier == "quick" else 6):
                scs.append(make_scenario(rng, "s%03d" % k, d, tier, heights=hts, trunk=rng.choice([3, 12, 35])))
                k += 1
    if tier == "thorough":
        for j in range(4):
            scs.append(make_scenario(rng, "s%03d" % k, rng.choice([40, 101]), tier, heights=dict(allow=200, require=250, final=300), trunk=rng.choice([190, 245, 260])))
            k += 1
    scs += directed_scenarios(tier)
    return scs
