"""C12 -- Honest connected nodes converge to the same heaviest chain.
Leg M: Sync.tla, family `honest` (Z = {}): AlwaysValid / WorkMonotone / TypeOK invariants over every
interleaving of 2-3 nodes, every connection order of line/star/triangle topologies, every assignment
of fork-tree branches to nodes; liveness Convergence under weak fairness (no state constraint).
Leg R: TLC's explored graph of the single-active-node cfg is exported as edges; an edge cover is
replayed on a REAL syncer against passive real peers, comparing the projected state at every step.
Leg T: real syncers + real chain.Managers on loopback TCP at the real boundaries (fork depths around
the history sample and the 100-block split, chains before/across/after the v2 heights, genesis and
checkpoint nodes, batch options, topologies, connection orders); every node's ChainManager/PeerStore
call log is validated by TLC against SyncTrace.tla; every node is audited against a linear twin."""
import os, json, random, time, copy, re, concurrent.futures as cf
import vlib
from vlib import log

PROP = "C12"
DEPTHS_THOROUGH = [0, 1, 9, 10, 11, 17, 40, 99, 100, 101, 250]
DEPTHS_QUICK = [0, 1, 9, 10, 11, 17, 40, 100, 101]
HEIGHTS = dict(allow=20, require=30, final=40)


# ------------------------------------------------------------------ scenario generation (Leg T)

def hist_offsets(tip_height):
    """chain/manager.go History(): offsets of the sampled heights below the tip"""
    out = []
    for i in range(32):
        off = i if i < 10 else 7 + (1 << (i - 8))
        off = min(off, tip_height)
        out.append(off)
    return out


def topology(n, kind):
    if kind == "line":
        return [[i, i + 1] for i in range(n - 1)]
    if kind == "star":
        return [[0, i] for i in range(1, n)]
    if kind == "ring":
        return [[i, (i + 1) % n] for i in range(n)] if n > 2 else [[0, 1]]
    if kind == "tritail":  # triangle 0-1-2 plus a tail
        return [[0, 1], [1, 2], [2, 0]] + [[i, i + 1] for i in range(2, n - 1)]
    raise ValueError(kind)


def nominal_ms(n_nodes, edges, total_blocks):
    """a hop costs ~1.1 s (hard 1 s worker tick of parallelSync) + announce latency"""
    hops = max(1, n_nodes - 1)
    return int(1400 * hops + 600 + 3 * total_blocks)


def make_scenario(rng, sid, depth, tier, *, n=None, kind=None, heights=None, trunk=None, force=None):
    force = force or {}
    heights = heights or HEIGHTS
    n = n or rng.choice([2, 2, 3, 3, 4, 5])
    kinds = ["line", "star"] + (["ring", "tritail"] if n >= 3 else [])
    kind = kind or rng.choice(kinds)
    want_cp = force.pop("cp", None)
    if want_cp is None:
        want_cp = trunk is None and depth <= 101 and rng.random() < 0.22
    if trunk is None:
        trunk = rng.choice([3, 12, 18, 19, 25, 28, 29, 30, 31, 35, 39, 45])
        if want_cp:
            # room for a checkpoint on the trunk, see below
            trunk = heights["allow"] + 1 + (depth + 7) + 12 + rng.randint(0, 8)
    extra = rng.choice([1, 1, 2, 3])
    branches = [dict(name="t", **{"from": ""}, at=0, len=trunk),
                dict(name="a", **{"from": "t"}, at=trunk, len=depth + extra)]
    names = ["a"]
    if depth > 0:
        branches.append(dict(name="b", **{"from": "t"}, at=trunk, len=depth))
        names.append("b")
    if n >= 3 and rng.random() < 0.5:
        # a third branch: off the winner, off the loser, or off the trunk below the fork point
        r = rng.random()
        if r < 0.4 and depth + extra > 1:
            at = trunk + rng.randint(1, depth + extra - 1)
            branches.append(dict(name="c", **{"from": "a"}, at=at, len=rng.randint(1, max(1, min(12, trunk + depth + extra - at)))))
        elif r < 0.7 and depth > 1:
            at = trunk + rng.randint(1, depth - 1)
            branches.append(dict(name="c", **{"from": "b"}, at=at, len=rng.randint(1, max(1, trunk + depth - at))))
        elif trunk > 2:
            at = rng.randint(1, trunk - 1)
            branches.append(dict(name="c", **{"from": "t"}, at=at, len=rng.randint(1, max(1, min(15, depth + trunk - at)))))
        if branches[-1]["name"] == "c":
            names.append("c")
    nodes = []
    order = list(range(n))
    rng.shuffle(order)
    for k, i in enumerate(order):
        if k == 0:
            nd = dict(name="n%d" % i, branch="a", back=0)
        elif k == 1 and depth > 0:
            nd = dict(name="n%d" % i, branch="b", back=0)
        else:
            br = rng.choice(names + ["t"])
            ln = [b for b in branches if b["name"] == br][0]["len"]
            nd = dict(name="n%d" % i, branch=br, back=rng.choice([0, 0, 1, 2, 5, 12]) if ln > 0 else 0)
        nd["idx"] = i
        nodes.append(nd)
    nodes.sort(key=lambda x: x["idx"])
    for nd in nodes:
        del nd["idx"]
    # batch option (>= 100: never below the hard-coded request size, see known finding) and peer limits
    for nd in nodes:
        nd["maxSendBlocks"] = rng.choice([0, 0, 0, 100, 150, 1000])
    edges = topology(n, kind)
    rng.shuffle(edges)
    edges = [e if rng.random() < 0.5 else [e[1], e[0]] for e in edges]
    if rng.random() < 0.3:
        for i, nd in enumerate(nodes):
            nd["maxOutbound"] = max(1, sum(1 for e in edges if e[0] == i))
            nd["maxInbound"] = max(1, sum(1 for e in edges if e[1] == i))
    # checkpoint nodes: the checkpoint lies on the trunk, far enough below the lowest fork point that
    # every history sample still contains a block at or above it (see the report: a node can only find
    # a common id with a checkpoint peer inside that peer's stored range)
    dmax = max(b["len"] for b in branches if b["name"] != "t") + 4
    lowfork = min([trunk] + [b["at"] for b in branches if b["from"] == "t" and b["name"] != "t"])
    cp = False
    if want_cp and lowfork - (dmax + 12) >= heights["allow"] + 1:
        for nd in nodes:
            nd["back"] = min(nd.get("back", 0), 5)      # nobody lags below the checkpoints
            if rng.random() < 0.5 or not cp:
                nd["checkpoint"] = rng.randint(heights["allow"] + 1, lowfork - (dmax + 12))
                cp = True
    total = sum(b["len"] for b in branches)
    sc = dict(id=sid, branches=branches, nodes=nodes, edges=edges, gapMs=rng.choice([0, 0, 40, 400, 1300]),
              announceMs=250, winner="a", announce=rng.choice(["outline", "both"]), **heights)
    # blocks in [allow, require) may still be v1 (coreutils.MineBlock never makes them, the consensus
    # rules allow them): none / all / alternating / only the first / only the last height of the window
    if heights["allow"] < heights["require"]:
        sc["v1Window"] = rng.choice(["", "", "all", "alt", "first", "last"])
    sc["deadlineMs"] = max(15000, 10 * nominal_ms(n, edges, total))
    sc["shape"] = "%s%d-d%d-t%d%s" % (kind, n, depth, trunk, "-cp" if cp else "")
    sc.update(force)
    return sc


def directed_scenarios(tier):
    """boundary cases of the batch option and the directed reproductions of the known findings"""
    out = []
    H = HEIGHTS

    def two(sid, trunk, la, lb, n0=None, n1=None, **kw):
        br = [dict(name="t", **{"from": ""}, at=0, len=trunk), dict(name="a", **{"from": "t"}, at=trunk, len=la)]
        if lb > 0:
            br.append(dict(name="b", **{"from": "t"}, at=trunk, len=lb))
        sc = dict(id=sid, branches=br,
                  nodes=[dict(dict(name="n0", branch="a"), **(n0 or {})), dict(dict(name="n1", branch="b" if lb > 0 else "t"), **(n1 or {}))],
                  edges=[[0, 1]], gapMs=0, announceMs=250, winner="a", deadlineMs=15000, shape=sid, **H)
        sc.update(kw)
        if sid.startswith(("msbsmall-over", "sideoutline")) or sid in ("cpnear-loser-a15b12", "cpnear-loser-a39b36", "cpnear-both-d12"):
            sc["noRetry"] = True      # deterministic reproductions of the known findings
            sc["deadlineMs"] = 12000
        return sc
    # v1 blocks inside the [allow, require) window: the request path (full AddBlocks vs checkpoint +
    # pre-validation) is a function of the BASE height of a batch (common ancestor + k * 100), and a base in
    # the window may be a v1 block -- a lagging node whose tip is such a block, a fork point on such a
    # block, and a 100-block batch boundary landing on the first block of the window
    out.append(two("v1win-lagging-tip25", 35, 4, 0, n1=dict(branch="t", back=10), v1Window="all"))
    out.append(two("v1win-fork-at-27", 27, 9, 6, v1Window="all"))
    out.append(two("v1win-fork-at-28-alt", 28, 9, 6, v1Window="alt"))
    out.append(two("v1win-lagging-tip29-last", 33, 3, 0, n1=dict(branch="t", back=4), v1Window="last"))
    out.append(dict(two("v1win-batch-boundary-200", 203, 4, 0, n1=dict(tip="g"), v1Window="first", deadlineMs=30000), allow=200, require=250, final=300))
    if tier == "thorough":
        out.append(dict(two("v1win-batch-boundary-200-all", 255, 8, 0, n1=dict(tip="g"), v1Window="all", deadlineMs=30000), allow=200, require=250, final=300))
        out.append(dict(two("v1win-batch-boundary-fork", 130, 120, 110, n1=dict(branch="b"), v1Window="all", deadlineMs=30000), allow=200, require=250, final=300))
    # undecided, equal-height competing tips (neither sufficiently heavier): the nodes exchange their forks through
    # the AddBlocks path (header-only side-chain states) and stay put; then ONE node extends its fork by a single
    # v2 block that reaches the others as a relay -- outline, header, or both; directly or through a third node
    def grow(sid, relay, trunk=21, d=4, nodes3=False, **kw):
        sc = dict(id=sid, branches=[dict(name="t", **{"from": ""}, at=0, len=trunk), dict(name="a", **{"from": "t"}, at=trunk, len=d),
                                    dict(name="b", **{"from": "t"}, at=trunk, len=d)],
                  nodes=[dict(name="n0", branch="a"), dict(name="n1", branch="b")] + ([dict(name="n2", branch="b")] if nodes3 else []),
                  edges=[[0, 1]] + ([[2, 1]] if nodes3 else []), gapMs=0, announceMs=250, deadlineMs=20000, winner="", announce=relay,
                  grow=dict(node=2 if nodes3 else 1, n=1, relay=relay), shape=sid, **H)
        sc.update(kw)
        return sc
    out.append(grow("eqtips-grow-outline", "outline"))
    out.append(grow("eqtips-grow-header", "header"))
    out.append(grow("eqtips-grow-both", "both"))
    out.append(grow("eqtips-grow-outline-via-third", "outline", nodes3=True))
    out.append(grow("eqtips-grow-outline-postrequire", "outline", trunk=45))
    if tier == "thorough":
        out.append(grow("eqtips-grow-outline-d1", "outline", d=1))
        out.append(grow("eqtips-grow-outline-d9-v1win", "outline", trunk=19, d=9, v1Window="alt"))
        out.append(grow("eqtips-grow-both-via-third", "both", nodes3=True, gapMs=400))
    # small per-subnet in-flight RPC caps on the node that holds the heaviest fork: a deep fork means many fork-point probes
    # that the server answers with an ERROR (SendHeaders for an id not on its best chain) before the real fork point is
    # offered; erroring, cancelled and over-budget RPCs must all give their slot back
    for cap, d, extra in [(6, 9, {}), (2, 11, {}), (4, 17, dict(n1=dict(maxInflightSubnet=3))), (8, 40, {})]:
        out.append(two("inflightcap%d-d%d" % (cap, d), 25, d + 3, d, n0=dict(maxInflightSubnet=cap), **extra))
    out.append(dict(two("inflightcap3-line3-d9", 25, 12, 9, n0=dict(maxInflightSubnet=3, maxInflight=2)),
                    nodes=[dict(name="n0", branch="a", maxInflightSubnet=3, maxInflight=2), dict(name="n1", branch="b"), dict(name="n2", branch="b", back=4)],
                    edges=[[1, 0], [2, 0]]))
    # both forks SPEND THE SAME pre-fork output (the miner payout of block 1): the lighter fork a, held by n0, at height
    # spendA, the heavier fork b at spendB.  n0 must revert its spend exactly when it reorgs to b -- around the v2 allow /
    # require heights, where the store's v1 element bookkeeping starts and stops (below require: v1 block + v1 transaction,
    # from require on: v2 block + v2 transaction).  Fork points and spending heights at Allow-1, Allow, Require-1, Require, Require+1.
    def spend(forkAt, spendA, spendB, lenA=None, lenB=None, win="all"):
        top = max(spendA, spendB, forkAt + 1)
        lenA = lenA or (max(spendA, forkAt + 1) - forkAt + 1)
        lenB = lenB or (top - forkAt + 4)
        sid = "spend-f%d-a%d-b%d-%s" % (forkAt, spendA, spendB, win or "v2")
        return dict(id=sid, spend=dict(forkAt=forkAt, lenA=lenA, lenB=max(lenB, lenA + 3), spendA=spendA, spendB=spendB), branches=[],
                    nodes=[dict(name="n0", branch="a"), dict(name="n1", branch="b")], edges=[[1, 0]], gapMs=0, announceMs=250, deadlineMs=15000,
                    winner="b", shape=sid, announce="both", v1Window=win, **H)
    A, R = H["allow"], H["require"]
    grid = [(R - 2, R, R - 1), (R - 2, R - 1, R), (R - 3, R, R - 2), (A - 1, R, A), (R - 1, R, R + 1), (R - 2, R + 1, R - 1), (A, A + 1, R)]
    if tier == "thorough":
        grid += [(f, a, b) for f in (A - 1, A, R - 2, R - 1, R) for a in (A, R - 1, R, R + 1) for b in (A, R - 1, R, R + 1) if a > f and b > f and (f, a, b) not in grid]
    for f, a, b in grid:
        out.append(spend(f, a, b))
    if tier == "thorough":
        out.append(spend(R - 2, R, R - 1, win="alt"))
        out.append(spend(R - 2, R, R - 1, win=""))
        out.append(spend(R - 2, 0, R - 1))
        out.append(spend(R - 2, R, 0))
    # heaviest is not longest: non-trivial initial difficulty, a 150-block fork mined ahead of schedule (difficulty
    # rises) is sufficiently heavier than a 165-block fork mined far behind schedule (difficulty falls)
    out.append(dict(id="heavier-shorter-150-165", hardTarget=True, shorterWinner=True,
                    branches=[dict(name="t", **{"from": ""}, at=0, len=0), dict(name="a", **{"from": "t"}, at=0, len=150, pace="fast"),
                              dict(name="b", **{"from": "t"}, at=0, len=165, pace="slow")],
                    nodes=[dict(name="n0", branch="a"), dict(name="n1", branch="b")], edges=[[1, 0]], gapMs=0, announceMs=250, deadlineMs=30000,
                    winner="a", shape="heavier-shorter-150-165", announce="both", **H))
    if tier == "thorough":
        out.append(dict(id="heavier-shorter-3nodes", hardTarget=True, shorterWinner=True,
                        branches=[dict(name="t", **{"from": ""}, at=0, len=40), dict(name="a", **{"from": "t"}, at=40, len=150, pace="fast"),
                                  dict(name="b", **{"from": "t"}, at=40, len=166, pace="slow")],
                        nodes=[dict(name="n0", branch="b"), dict(name="n1", branch="a"), dict(name="n2", branch="b", back=20)], edges=[[0, 1], [2, 0]],
                        gapMs=40, announceMs=250, deadlineMs=45000, winner="a", shape="heavier-shorter-3nodes", announce="both", **H))
    # WithMaxSendBlocks(m) on the serving node, k blocks needed: k <= m must work (boundary m-1, m)
    out.append(two("msb10-need9", 25, 9, 7, n0=dict(maxSendBlocks=10)))
    out.append(two("msb10-need10", 25, 10, 7, n0=dict(maxSendBlocks=10)))
    out.append(two("msb100-need250", 5, 250, 240, n0=dict(maxSendBlocks=100), n1=dict(maxSendBlocks=100), deadlineMs=30000))
    # k > m: the requester asks for min(100, k) blocks in one RPC and rejects the shorter reply
    out.append(two("msbsmall-over-10-need11", 25, 11, 7, n0=dict(maxSendBlocks=10)))
    if tier == "thorough":
        out.append(two("msbsmall-over-50-need120", 25, 120, 100, n0=dict(maxSendBlocks=50)))
        out.append(two("msbsmall-over-99-need100", 35, 100, 90, n0=dict(maxSendBlocks=99)))
    # checkpoint node whose fork point lies above its checkpoint but between its history samples (the
    # full node's own sample does contain the fork point: 50-15 = 35, 84-39 = 45, so only the checkpoint
    # node's sample is the obstacle)
    out.append(two("cpnear-loser-a15b12", 35, 15, 12, n1=dict(checkpoint=34)))
    if tier == "thorough":
        out.append(two("cpnear-loser-a39b36", 45, 39, 36, n1=dict(checkpoint=44)))
        out.append(two("cpnear-both-d12", 35, 15, 12, n0=dict(checkpoint=25), n1=dict(checkpoint=33)))
    # cp node with a shallow fork right above its checkpoint: inside the dense part of the sample
    out.append(two("cpnear-loser-d5", 35, 8, 5, n1=dict(checkpoint=34)))
    out.append(two("cpnear-winner-d5", 35, 8, 5, n0=dict(checkpoint=34)))
    # outline relayed on top of a side-chain block the receiver only holds as a header state
    # (needs heights above the final cut: below it the test network's PoW target is maximal)
    out.append(two("sideoutline-d12", 45, 15, 12, probe="outline-sidechain", announce="outline"))
    if tier == "thorough":
        out.append(two("sideoutline-d3", 60, 6, 3, probe="outline-sidechain", announce="both"))
    return out


def gen_scenarios(tier, seed):
    rng = random.Random(seed * 7919 + (1 if tier == "quick" else 2))
    scs = []
    if tier == "quick":
        depths = DEPTHS_QUICK
        reps = 3
    else:
        depths = DEPTHS_THOROUGH
        reps = 45
    k = 0
    for d in depths:
        r = reps
        if d >= 250:
            r = max(2, reps // 3)
        for j in range(r):
            n = None
            if tier == "quick" and j == 0:
                n = 2
            scs.append(make_scenario(rng, "s%03d" % k, d, tier, n=n))
            k += 1
    # other hardfork configurations: v2 from genesis (testutil.V2Network) and the repository's default
    # test heights 200/250/300 (chains stay in the v1 regime / cross into v2 with long chains)
    alt = [(dict(allow=1, require=1, final=1), [0, 1, 10, 11, 40, 101]), (dict(allow=200, require=250, final=300), [1, 11, 40])]
    for hts, ds in alt:
        for d in ds[: (3 if tier == "quick" else len(ds))]:
            for j in range(1 if tier == "quick" else 6):
                scs.append(make_scenario(rng, "s%03d" % k, d, tier, heights=hts, trunk=rng.choice([3, 12, 35])))
                k += 1
    if tier == "thorough":
        for j in range(4):
            scs.append(make_scenario(rng, "s%03d" % k, rng.choice([40, 101]), tier, heights=dict(allow=200, require=250, final=300), trunk=rng.choice([190, 245, 260])))
            k += 1
    scs += directed_scenarios(tier)
    return scs


# ------------------------------------------------------------------ Leg M

def run_tlc_set(wd, jobs, parallel=3):
    """jobs: list of (module, cfg, what, workers, timeout). Runs them `parallel` at a time."""
    out = {}

    def one(j):
        mod, cfg, what, workers, timeout = j
        r = vlib.run_tlc(wd, mod, cfg, workers=workers, timeout=timeout)
        return j, r
    with cf.ThreadPoolExecutor(max_workers=parallel) as ex:
        for j, r in ex.map(one, jobs):
            vlib.tlc_must_pass(r, j[2])
            log("  M: %s: %d distinct states, %d transitions, depth %d, %.1fs" % (j[2], r.distinct, r.generated, r.depth, r.wall))
            out[j[1]] = r
    return out


def leg_m_jobs(tier):
    jobs = [("SyncMC", "Sync_honest_quick.cfg", "Sync honest 2 nodes, all assignments of TreeA: safety", 4, 600),
            ("SyncMC", "Sync_honest_live2.cfg", "Sync honest 2 nodes: Convergence under weak fairness", 4, 900),
            ("SyncMC", "Sync_honest_v1win.cfg", "Sync honest 2 nodes, v1 and v2 blocks inside the [allow, require) window, request path by base height: safety + Convergence", 4, 900),
            ("SyncMC", "Sync_honest_grow.cfg", "Sync honest 2 nodes, undecided equal-height tips, then one node mines and relays (header / outline): safety + Convergence", 4, 900),
            ("SyncMC", "Sync_honest_cp2.cfg", "Sync honest 2 nodes, one bootstrapped from a checkpoint (history anchored): safety + Convergence", 4, 900)]
    if tier == "quick":
        jobs.append(("SyncMC", "Sync_honest_line3q.cfg", "Sync honest 3 nodes in a line, TreeC: safety + Convergence", 6, 900))
    else:
        jobs.append(("SyncMC", "Sync_honest_line3.cfg", "Sync honest 3 nodes in a line, all assignments of TreeC: safety + Convergence", 8, 3000))
        jobs.append(("SyncMC", "Sync_honest_tri3.cfg", "Sync honest 3 nodes in a triangle, TreeC, 3 assignments: safety + Convergence", 8, 3000))
    return jobs


# ------------------------------------------------------------------ Leg T: trace validation

def split_node_traces(lines):
    """yield (start, end) line ranges of per-node traces and the Tree line each belongs to"""
    out = []
    tree = None
    cur = None
    for i, line in enumerate(lines):
        if line.startswith('{"op":"Tree"'):
            if cur is not None:
                out.append((tree, cur, i)); cur = None
            tree = i
        elif line.startswith('{"op":"Node"'):
            if cur is not None:
                out.append((tree, cur, i))
            cur = i
    if cur is not None:
        out.append((tree, cur, len(lines)))
    return out


def validate_sync_file(wd, path, tag, verdict, prop):
    """TLC-validates one NDJSON file against SyncTrace.tla.  A rejection is reported, the offending
    node trace is dropped and validation continues; a rejection that is exactly the open known
    finding's named deviation switches that file to the deviation cfg so that the rest is checked."""
    events = vlib.count_lines(path)
    if events == 0:
        return 0, 0, 0
    rejected = 0
    states = 0
    cfg = "SyncTrace.cfg"
    for it in range(40):
        ok, r, consumed = vlib.validate_trace(wd, "SyncTrace", cfg, path, timeout=1800, tag="%s_%d" % (tag, it))
        states += r.distinct
        if ok:
            break
        if consumed is None:
            raise vlib.Infra("trace validation broke (no high-water mark): %s\n%s" % (r.error, r.out[-2500:]))
        lines = open(path).read().splitlines(True)
        if consumed >= len(lines):
            raise vlib.Infra("trace rejected after the last line: %s" % r.error)
        ev = json.loads(lines[consumed])
        if cfg == "SyncTrace.cfg" and ev.get("op") == "Ban" and str(ev.get("who", "")).startswith("honest:") and ev.get("kind") == "outline-insufficient-work":
            verdict.add({"sig": "trace:ban-honest:outline-insufficient-work",
                         "desc": "node %s banned the honest peer %s: %s (TLC rejects the Ban; continuing with DevOutlineSidechainBan = TRUE)" % (ev.get("node"), ev.get("who"), ev.get("why")),
                         "replay": {"kind": "trace", "event": ev}})
            cfg = "SyncTrace_dev.cfg"
            continue
        rejected += 1
        traces = split_node_traces(lines)
        bad = [t for t in traces if t[1] <= consumed < t[2]]
        if not bad:
            raise vlib.Infra("cannot locate failing event %d of %s" % (consumed, path))
        tree, s0, s1 = bad[0]
        hdr = json.loads(lines[tree])
        verdict.add({"sig": "trace:%s:%s%s" % (ev.get("op"), "err" if ev.get("err") else "ok", (":" + hdr["kind"]) if hdr.get("kind") else ""),
                     "desc": "TLC rejects event %d of node %s in scenario %s: %s (violated: %s)" %
                             (consumed - s0, ev.get("node"), hdr.get("why"), json.dumps({k: ev[k] for k in ev if k not in ("tree",)})[:700], r.violated or "no SyncTrace action explains it"),
                     "replay": {"kind": "trace", "scenario": hdr.get("why"), "events": [json.loads(x) for x in lines[s0:consumed + 1]]}})
        with open(path, "w") as f:
            f.writelines(lines[:s0] + lines[s1:])
    else:
        log("  T: more than 40 rejections in %s; the rest is not validated" % tag)
    return events, rejected, states


def validate_all(wd, prefix, verdict, prop):
    files = sorted(f for f in os.listdir(wd) if f.startswith(prefix) and f.endswith(".ndjson"))
    tot_ev = tot_rej = tot_states = 0
    t0 = time.time()
    with cf.ThreadPoolExecutor(max_workers=8) as ex:
        futs = [ex.submit(validate_sync_file, wd, os.path.join(wd, f), f.replace(".ndjson", ""), verdict, prop) for f in files]
        for fu in futs:
            ev, rej, st = fu.result()
            tot_ev += ev; tot_rej += rej; tot_states += st
    return dict(events=tot_ev, rejected=tot_rej, trace_states=tot_states, wall=time.time() - t0, files=len(files))


# ------------------------------------------------------------------ Leg T: real syncers

def load_scale():
    """other builders share the machine: stretch the deadlines and narrow the fan-out when it is busy"""
    try:
        return min(6.0, max(1.0, os.getloadavg()[0] / (os.cpu_count() or 16)))
    except OSError:
        return 1.0


def leg_t(wd, tier, binary, verdict, scenarios=None, width=None):
    scs = scenarios if scenarios is not None else gen_scenarios(tier, vlib.seed())
    scale = load_scale()
    if scale > 1.0:
        log("  T: machine load %.1f: deadlines x %.1f" % (os.getloadavg()[0], scale))
        for s in scs:
            s["deadlineMs"] = int(s["deadlineMs"] * scale)
    inp = os.path.join(wd, "converge_in.json")
    json.dump({"scenarios": scs, "width": width or max(6, int((14 if tier == "quick" else 16) / scale)), "retry": True}, open(inp, "w"))
    for f in os.listdir(wd):
        if f.startswith("synctrace-"):
            os.remove(os.path.join(wd, f))
    res = vlib.go_run(binary, "TestConverge", wd, env={"VERIF_IN": inp}, timeout=6000 if tier == "thorough" else 1800)
    if res["counts"].get("infra", 0) > max(2, len(scs) // 20):
        raise vlib.Infra("too many scenarios could not be set up: %s" % res["notes"][:5])
    verdict.add_all(res["mismatches"])
    tv = validate_all(wd, "synctrace-", verdict, PROP)
    c = res["counts"]
    log("  T: %d networks (%d nodes' traces, %d blocks mined) on real syncers: %d converged (mean %.1fs), %d retried, %d mismatches, %.1fs; TLC validated %d events in %.1fs, %d traces rejected" %
        (c.get("scenarios", 0), res["traces"], c.get("blocks", 0), c.get("converged", 0),
         c.get("converge_ms_total", 0) / 1000.0 / max(1, c.get("converged", 1)), c.get("retried", 0), len(res["mismatches"]), res["wall"],
         tv["events"], tv["wall"], tv["rejected"]))
    shapes = sorted({re.sub(r"-t\d+", "", s["shape"]) for s in scs})
    return dict(scenarios=c.get("scenarios", 0), traces=res["traces"], converged=c.get("converged", 0), retried=c.get("retried", 0),
                blocks=c.get("blocks", 0), events=tv["events"], rejected=tv["rejected"], trace_states=tv["trace_states"],
                samples=res["samples"], evaluations=res["evaluations"], distinct=res["distinct"], shapes=len(shapes),
                depths=sorted({int(m.group(1)) for s in scs for m in [re.search(r"-d(\d+)", s["shape"])] if m}), infra=c.get("infra", 0))


def run(tier):
    t0 = time.time()
    wd = vlib.workdir(PROP)
    verdict = vlib.Verdict(PROP)
    binary = vlib.go_build("syncx", wd)
    with cf.ThreadPoolExecutor(max_workers=2) as ex:
        fm = ex.submit(run_tlc_set, wd, leg_m_jobs(tier), 2 if tier == "quick" else 2)
        ft = ex.submit(leg_t, wd, tier, binary, verdict)
        tt = ft.result()
        ms = fm.result()
    rr = leg_r(wd, tier, binary, verdict)
    rc = verdict.finish()
    cov = {
        "states": sum(m.distinct for m in ms.values()), "transitions": sum(m.generated for m in ms.values()),
        "traces_validated_against_impl": tt["traces"] - tt["rejected"] + rr["paths"],
        "exhaustive": True,
        "samples": vlib.trim_samples(tt["samples"] + rr["samples"], 2, 2500),
        "model": {"cfgs": {k: {"distinct": v.distinct, "transitions": v.generated, "depth": v.depth} for k, v in ms.items()},
                  "constants": "2-3 honest nodes; trees of 7-9 blocks with 2-3 branches; every admissible assignment, connection order and interleaving; K=2, Batch=2; liveness without state constraint"},
        "replay": {k: rr[k] for k in rr if k != "samples"},
        "real_networks": {k: tt[k] for k in ("scenarios", "converged", "retried", "blocks", "shapes", "depths", "infra")},
        "trace_validation": {k: tt[k] for k in ("traces", "events", "rejected", "trace_states")},
        "evaluations": tt["evaluations"] + rr["steps"], "distinct_nontrivial": tt["distinct"] + rr["distinct"],
        "rule": "T: one evaluation per real network run to convergence (distinct by shape: topology, size, fork depth, trunk height, checkpoint, id), every ChainManager/PeerStore call of every node is one TLC-validated event; "
                "R: one evaluation per (spec transition, real victim) step of the edge cover, distinct by (action, target state)",
    }
    vlib.write_evidence(PROP, tier, "model_checking", cov, ASSUMPTIONS, time.time() - t0, len(verdict.violations))
    return rc


ASSUMPTIONS = [
    "'heaviest' is read with core's reorg criterion (State.SufficientlyHeavierThan): one tip is sufficiently heavier than every other",
    "tips are re-announced periodically (header, and outline for v2 tips) as the repository's synced() test helper does; the final tip is a v2 block (a v1 block has no outline)",
    "connections are formed by the harness and stay up (no autonomous re-dialing); loopback TCP; SyncInterval 100 ms",
    "checkpoint nodes bootstrap on the common trunk, far enough below the lowest fork point that every history sample still contains a block inside their stored range",
    "WithMaxSendBlocks >= 100 except in the directed boundary scenarios",
    "TLC, the Go runtime, the OS network stack and the oracle (a fresh chain.Manager fed linearly) are trusted",
]


# ------------------------------------------------------------------ Leg R: spec -> code

TREES = {   # parent maps of SyncMC.tla's TreeB / TreeC (the Go harness materialises them: replay.go)
    "B": dict(g="g", t1="g", a2="t1", a3="a2", a4="a3", z2="t1", z3="z2", y2="t1", w4="a3", v2="t1", v3="v2"),
    "C": dict(g="g", t1="g", a2="t1", a3="a2", a4="a3", b2="t1", b3="b2", c3="a2"),
}


def act_class(a, honest, st=None):
    """eager: performed by the real victim / honest peers on their own as soon as enabled;
    ctrl: performed (or released) by the replay driver"""
    op = a.get("op")
    if op in ("SyncTick", "SyncDone"):
        return "eager"
    if op == "Headers":
        if a.get("p") in honest or a.get("res") == "gone":
            return "eager"
        return "ctrl"
    if op == "Fetch":
        return "eager" if a.get("w") in honest else "ctrl"
    if op == "SyncAbort":
        # with a Byzantine worker holding the request the abort is a timeout the driver triggers (it lets
        # the scripted peer fail the request); without one "all peers failed" is detected by the victim itself
        n = a.get("n")
        if st is not None and not any(v == "unsynced" and p not in honest for p, v in st["link"][n].items()):
            return "eager"
        return "ctrl"
    return "ctrl"           # Connect, Announce, ZRelay


def project(st):
    return {"tip": st["tip"], "known": {n: sorted(st["known"][n]) for n in st["known"]}, "link": st["link"], "banned": sorted(st["banned"])}


def macro_graph(edges, honest, par):
    """Quiescent macro-steps: from a state where no eager action is enabled, one driver-controlled action
    followed by the closure under eager actions.  Returns (inits, medges) where medges maps a quiescent
    state key to a list of (act, [successor keys]) and states maps keys to full states."""
    states = {}
    out = {}

    def norm(st):
        # TLC prints sets as arrays in no particular order
        for f in ("known", "round", "seen"):
            for n in st[f]:
                st[f][n] = sorted(st[f][n])
        st["banned"] = sorted(st["banned"])
        return st
    for e in edges:
        norm(e["from"]); norm(e["to"])
        kf, kt = vlib.canon(e["from"]), vlib.canon(e["to"])
        states[kf] = e["from"]; states[kt] = e["to"]
        if kf == kt:
            continue
        out.setdefault(kf, []).append((e["act"], kt))
    def is_init(st):
        if st["banned"] or any(st["link"][n][p] != "off" for n in st["link"] for p in st["link"][n]):
            return False
        if any(st["round"][n] or st["seen"][n] or st["sync"][n]["on"] for n in st["round"]):
            return False
        for n in st["tip"]:
            anc, b = set(), st["tip"][n]
            while True:
                anc.add(b)
                if b == "g":
                    break
                b = par[b]
            if set(st["known"][n]) != anc:
                return False
        return True
    inits = [k for k in states if is_init(states[k])]
    closure_memo = {}

    def closure(k):
        if k in closure_memo:
            return closure_memo[k]
        seen, stack, quiet = {k}, [k], set()
        while stack:
            x = stack.pop()
            eager = [t for a, t in out.get(x, []) if act_class(a, honest, states[x]) == "eager"]
            if not eager:
                quiet.add(x)
            for t in eager:
                if t not in seen:
                    seen.add(t); stack.append(t)
        closure_memo[k] = sorted(quiet)
        return closure_memo[k]
    medges = {}
    todo = []
    start = {}
    for k in inits:
        start[k] = closure(k)
        todo += start[k]
    done = set()
    while todo:
        q = todo.pop()
        if q in done:
            continue
        done.add(q)
        lst = []
        for a, t in out.get(q, []):
            if act_class(a, honest, states[q]) != "ctrl":
                continue
            succs = closure(t)
            if succs == [q]:
                continue
            lst.append((a, succs))
            todo += succs
        medges[q] = lst
    return inits, start, medges, states


def macro_paths(inits, start, medges, states, rng, max_paths, max_len=9):
    """edge cover of the macro graph by paths from initial states; deterministic macro-edges (a single
    successor) are preferred when extending a path"""
    # BFS tree over (quiescent states), following every successor
    parent = {}
    order = []
    for k in inits:
        for q in start[k]:
            if q not in parent:
                parent[q] = (None, k, None)
                order.append(q)
    for q in order:
        for a, succs in medges.get(q, []):
            for s in succs:
                if s not in parent:
                    parent[s] = (q, a, succs)
                    order.append(s)

    def prefix(q):
        steps = []
        init = None
        while True:
            pq, a, succs = parent[q]
            if pq is None:
                init = a
                break
            steps.append({"act": a, "succs": succs, "want": q})
            q = pq
        steps.reverse()
        return init, steps
    covered = set()
    paths = []
    alle = [(q, i) for q in medges for i in range(len(medges[q]))]
    rng.shuffle(alle)
    for q, i in alle:
        a, succs = medges[q][i]
        eid = (q, vlib.canon(a))
        if eid in covered or q not in parent:
            continue
        init, steps = prefix(q)
        if len(steps) >= max_len:
            continue
        for s in steps:
            pass
        want = succs[0] if len(succs) == 1 else rng.choice(succs)
        steps = steps + [{"act": a, "succs": succs, "want": want}]
        covered.add(eid)
        cur = want
        while len(steps) < max_len:
            nxt = [(j, x) for j, x in enumerate(medges.get(cur, [])) if (cur, vlib.canon(x[0])) not in covered]
            if not nxt:
                break
            det = [x for x in nxt if len(x[1][1]) == 1]
            j, (a2, s2) = rng.choice(det or nxt)
            w2 = s2[0] if len(s2) == 1 else rng.choice(s2)
            steps.append({"act": a2, "succs": s2, "want": w2})
            covered.add((cur, vlib.canon(a2)))
            cur = w2
        # the prefix edges are exercised as well
        pq = None
        for sidx, stp in enumerate(steps):
            pass
        def hint(k):
            st = states[k]
            return {"syncOn": st["sync"]["v"]["on"], "syncSrc": st["sync"]["v"]["src"], "round": sorted(st["round"]["v"])}
        paths.append({"init": states[init]["tip"], "steps": [{"act": s["act"], "succs": [project(states[x]) for x in s["succs"]], "want": project(states[s["want"]]),
                                                             "hint": hint(s["want"])} for s in steps]})
        if max_paths and len(paths) >= max_paths:
            break
    nedges = len(alle)
    exercised = {(vlib.canon(st["act"]), vlib.canon(st["want"])) for p in paths for st in p["steps"]}
    return paths, len(exercised), nedges


def leg_r(wd, tier, binary, verdict, family="honest", stub=None):
    cfg = "Sync_edges_honest.cfg" if family == "honest" else "Sync_edges_byz.cfg"
    honest = {"v", "p", "q"} if family == "honest" else {"v", "p"}
    r = vlib.run_tlc(wd, "SyncMC", cfg, workers=1, timeout=900, tag="edges_" + family)
    vlib.tlc_must_pass(r, "Sync edge export (%s)" % family)
    inits, start, medges, states = macro_graph(r.edges, honest, TREES["C" if family == "honest" else "B"])
    _, ned = vlib.graph_stats(r.edges)
    nst = len(states)
    if nst != r.distinct:
        raise vlib.Infra("edge export: %d states reconstructed, TLC reports %d" % (nst, r.distinct))
    rng = random.Random(vlib.seed() + (11 if family == "honest" else 12))
    maxp = (14 if tier == "quick" else 300) if family == "byz" else None
    paths, covered, nmacro = macro_paths(inits, start, medges, states, rng, maxp)
    log("  R: Sync graph (%s) %d states / %d edges -> %d quiescent states / %d macro-steps; %d paths cover %d of them" %
        (family, nst, ned, len(medges), nmacro, len(paths), covered))
    inp = os.path.join(wd, "replay_in_%s.json" % family)
    json.dump({"family": family, "paths": paths, "width": 14, "stub": stub or ""}, open(inp, "w"))
    res = vlib.go_run(binary, "TestReplay", wd, env={"VERIF_IN": inp}, timeout=1200, tag="TestReplay_" + family)
    verdict.add_all(res["mismatches"])
    log("  R: %d macro-steps replayed on a real victim in %d paths (%d diverged to another allowed successor), %d mismatches, %.1fs" %
        (res["evaluations"], len(paths), res["counts"].get("diverged", 0), len(res["mismatches"]), res["wall"]))
    return dict(states=nst, edges=ned, quiescent=len(medges), macro_steps=nmacro, paths=len(paths), covered=covered,
                steps=res["evaluations"], distinct=res["distinct"], diverged=res["counts"].get("diverged", 0), samples=res["samples"],
                full=(covered == nmacro))


# ------------------------------------------------------------------ replay / selftest

def replay_common(prop, path):
    wd = vlib.workdir(prop + "-replay")
    binary = vlib.go_build("syncx", wd)
    mm = json.load(open(path))
    rp = mm.get("replay", {})
    verdict = vlib.Verdict(prop)
    kind = rp.get("kind")
    if kind == "converge":
        inp = os.path.join(wd, "in.json")
        json.dump({"scenarios": [rp["scenario"]], "width": 1, "retry": True}, open(inp, "w"))
        res = vlib.go_run(binary, "TestConverge", wd, env={"VERIF_IN": inp}, timeout=900)
        verdict.add_all(res["mismatches"])
        validate_all(wd, "synctrace-", verdict, prop)
    elif kind == "byz":
        inp = os.path.join(wd, "in.json")
        json.dump({"scenarios": [rp["scenario"]], "width": 1, "retry": True}, open(inp, "w"))
        res = vlib.go_run(binary, "TestByz", wd, env={"VERIF_IN": inp}, timeout=900)
        verdict.add_all(res["mismatches"])
        validate_all(wd, "byztrace-", verdict, prop)
    elif kind == "path":
        inp = os.path.join(wd, "in.json")
        json.dump({"family": rp["family"], "paths": [rp["path"]], "width": 1}, open(inp, "w"))
        res = vlib.go_run(binary, "TestReplay", wd, env={"VERIF_IN": inp}, timeout=900)
        verdict.add_all(res["mismatches"])
    else:
        log("trace rejections are reproduced by re-running the scenario they belong to (same VERIF_SEED): ./check %s" % prop)
        return 2
    return verdict.finish()


def replay(path):
    return replay_common(PROP, path)


def corrupt_and_validate(wd, src, mutate, tag):
    """copies a good trace file, corrupts one recorded field, expects TLC to reject it"""
    lines = open(src).read().splitlines()
    done = False
    for i, l in enumerate(lines):
        e = json.loads(l)
        if mutate(e):
            lines[i] = json.dumps(e, separators=(",", ":"))
            done = True
            break
    if not done:
        return None
    p = os.path.join(wd, "selftest-%s.ndjson" % tag)
    open(p, "w").write("\n".join(lines) + "\n")
    v = vlib.Verdict("selftest"); v.findings = []
    _, rej, _ = validate_sync_file(wd, p, "selftest_" + tag, v, PROP)
    return rej >= 1 or len(v.violations) >= 1


def selftest():
    wd = vlib.workdir(PROP + "-selftest")
    binary = vlib.go_build("syncx", wd)
    ok = True
    # 1. Leg R against a deliberately wrong oracle must find a mismatch
    v = vlib.Verdict(PROP + "-selftest"); v.findings = []
    leg_r(wd, "quick", binary, v, family="honest", stub="tip-a4-is-a3")
    ok1 = any(m["sig"].startswith("replay:honest:") for m in v.violations)
    log("selftest 1 (replay against a wrong oracle finds a mismatch): %s" % ("ok" if ok1 else "FAILED"))
    # 2. a good trace with one corrupted field must be rejected by TLC
    rng = random.Random(5)
    scs = [make_scenario(rng, "t%d" % i, d, "quick", n=2, trunk=t) for i, (d, t) in enumerate([(9, 35), (1, 12), (11, 25)])]
    v2 = vlib.Verdict(PROP + "-selftest"); v2.findings = []
    leg_t(wd, "quick", binary, v2, scenarios=scs, width=3)
    src = [os.path.join(wd, f) for f in sorted(os.listdir(wd)) if f.startswith("synctrace-") and os.path.getsize(os.path.join(wd, f)) > 0]
    ok2 = True

    def flip_err(e):
        if e["op"] in ("AddBlocks", "AddValidated") and not e["err"]:
            e["err"] = True
            return True

    def wrong_tip(e):
        if e["op"] in ("AddBlocks", "AddValidated") and e["tip"] == e["bs"][-1] and len(e["bs"]) > 1:
            e["tip"] = e["bs"][0]
            return True

    def drop_block(e):
        if e["op"] in ("AddBlocks", "AddValidated") and len(e["bs"]) > 2:
            del e["bs"][1]
            return True

    def bad_states(e):
        if e["op"] == "AddValidated":
            e["sok"] = False
            return True
    for name, mut in (("err-flag", flip_err), ("tip", wrong_tip), ("unlinked-batch", drop_block), ("states", bad_states)):
        got = None
        for f in src:
            got = corrupt_and_validate(wd, f, mut, name)
            if got is not None:
                break
        log("selftest 2 (trace with corrupted %s rejected by TLC): %s" % (name, "ok" if got else ("FAILED" if got is False else "no such event")))
        ok2 = ok2 and bool(got)
    # 3. the model without its premises / with the named deviations must fail
    ok3 = True
    for cfg, what in (("Sync_honest_line3_noannounce.cfg", "no re-announcement: Convergence fails (swallowed relay)"),
                      ("Sync_honest_line3_headeronly.cfg", "header-only announcements: Convergence fails (one block behind)"),
                      ("Sync_honest_cp2_dev.cfg", "history not anchored at a checkpoint node's lowest block: Convergence fails"),
                      ("Sync_honest_grow_dev.cfg", "outline handler tests the height instead of the parent id: the honest announcer of a competing fork's next block is banned, NoHonestBan fails"),
                      ("Sync_honest_v1win_dev.cfg", "checkpoint path chosen from the allow height: a v1 base block in the window can never be fetched, Convergence fails")):
        x = vlib.run_tlc(wd, "SyncMC", cfg, workers=4, timeout=900)
        good = x.exit != 0 and ("Temporal property Convergence was violated" in (x.error or "") + x.out or x.violated == "NoHonestBan")
        log("selftest 3 (%s): %s" % (what, "ok" if good else "FAILED"))
        ok3 = ok3 and good
    # 4. the convergence oracle bites: a network in which nobody holds the last two blocks of the branch the
    # oracle names as heaviest can never reach it and must be reported as a stall
    sc = make_scenario(random.Random(9), "selfstall", 9, "quick", n=2, trunk=25)
    for nd in sc["nodes"]:
        if nd["branch"] == "a":
            nd["back"] = 2          # nobody holds the last two blocks of the heaviest branch
    sc["deadlineMs"] = 6000
    sc["noRetry"] = True
    v4 = vlib.Verdict(PROP + "-selftest"); v4.findings = []
    leg_t(wd, "quick", binary, v4, scenarios=[sc], width=1)
    ok4 = any(m["sig"].startswith("converge:stall") for m in v4.violations)
    log("selftest 4 (a network that does not reach the heaviest tip is reported): %s" % ("ok" if ok4 else "FAILED"))
    return 0 if ok1 and ok2 and ok3 and ok4 else 2
