"""C11 -- A Byzantine peer cannot corrupt, crash or stall an honest syncer's chain.
Leg M: Sync.tla, family `byzantine` (victim, honest peer, Byzantine peer answering every request with
any element of the corruption catalogue and relaying anything): AlwaysValid, WorkMonotone,
ProvableMisbehaviourBanned, NoHonestBan; liveness HonestProgress under fairness of honest actions only.
Leg R: TLC's explored graph of the single-active-victim cfg exported as edges, an edge cover replayed
on a REAL victim syncer against a scripted gateway peer (projection compared at every step).
Leg T: a real victim + real honest peers + scripted Byzantine gateway peers (harness/syncx/byz.go) over
the whole catalogue x position x regime (v1 / v2 below the require height / pre-validated instant sync
above it) x connection order; after every scenario: process alive, tip work never decreased, best chain
audited against a linear twin, honest heaviest tip reached within the deadline, Ban recorded for the
provable classes; the victim's and the honest peers' ChainManager/PeerStore call logs are validated by
TLC against SyncTrace.tla."""
import os, json, random, time, re, subprocess, concurrent.futures as cf
import vlib
from vlib import log
import C12

PROP = "C11"
H = dict(allow=20, require=30, final=40)
# regime -> (trunk, honest length, fork length): where the attacked blocks live
REGIMES = {
    "v1": dict(trunk=5, honestLen=16, forkLen=9),      # v1 blocks, AddBlocks path
    "mid": dict(trunk=21, honestLen=6, forkLen=8),     # v2 blocks below the require height, AddBlocks path
    "post": dict(trunk=45, honestLen=8, forkLen=10),   # above require + final cut: checkpoint + pre-validation, real PoW target
}


def zspec(name="z", view="honest", rules=None, relays=None, expect="", dials=False, **fork):
    d = dict(name=name, view=view, rules=rules or [], relays=relays or [], expect=expect, dials=dials,
             forkAt=0, forkLen=0, badAt=-1, badKind="", prefix=0, hangup="", tag="")
    d.update(fork)
    return d


def scen(sid, regime, zs, order="zfirst", victimLen=0, honest=1, deadline=30000, **kw):
    r = REGIMES[regime]
    for z in zs:
        if z["view"] == "fork" and z["forkAt"] == 0:
            z["forkAt"] = r["trunk"]
            if z["forkLen"] == 0:
                z["forkLen"] = r["forkLen"]
    d = dict(id=sid, shape="%s|%s|%s%s" % (regime, order, "+".join(zlabel(z) for z in zs) or "honest-only", "|cpvictim" if kw.get("victimCheckpoint") else ""), trunk=r["trunk"], victimLen=victimLen,
             honestLen=r["honestLen"], honest=honest, z=zs, order=order, deadlineMs=deadline, announce="both", **H)
    d.update(kw)
    return d


def zlabel(z):
    parts = []
    if z["view"] == "same0":
        parts.append("colluding")
    elif z["view"] == "honest-prefix":
        parts.append("prefix%d" % z.get("prefix", 0))
    if z.get("hangup"):
        parts.append("hangup")
    if z.get("tag"):
        parts.append(z["tag"])
    elif z["view"] == "planted":
        parts.append("serve-planted")
    elif z["view"] == "fork" and z["badAt"] >= 0:
        parts.append("fork-%s@%d" % (z["badKind"], z["badAt"]))
    elif z["view"] == "fork":
        parts.append("fork-valid")
    parts += ["%s-%s@%d" % (r["rpc"], r["kind"], r.get("pos", 0)) for r in z["rules"]]
    parts += ["%s/%s" % (r["kind"], r["when"]) for r in z["relays"]]
    return ",".join(parts) or "honestlike"


def catalogue(tier, seed):
    rng = random.Random(seed * 104729 + (3 if tier == "quick" else 4))
    out = []
    k = [0]

    def add(regime, zs, **kw):
        k[0] += 1
        out.append(scen("b%03d" % k[0], regime, zs, **kw))
    thorough = tier == "thorough"
    regs = ["v1", "mid", "post"]
    positions = lambda n: [0, n // 2, n - 1]

    # ---- SendHeaders answers (the peer pretends to hold the honest chain)
    for regime in regs:
        n = REGIMES[regime]["honestLen"]
        for kind in ["malformed", "close", "empty", "remaining-lie", "toomany"]:
            for variant in ([0, 1, 2] if kind == "malformed" and thorough else [0]):
                add(regime, [zspec(rules=[dict(rpc="SendHeaders", kind=kind, pos=variant)])])
        for kind in ["unlinked", "badtime"] + (["lowwork"] if regime == "post" else []):
            for pos in (positions(n) if thorough or regime == "post" else [rng.choice(positions(n))]):
                add(regime, [zspec(rules=[dict(rpc="SendHeaders", kind=kind, pos=pos)])])
    # the stall on SendHeaders runs into the hard-coded 30 s SendHeadersTimeout
    add("mid", [zspec(rules=[dict(rpc="SendHeaders", kind="stall")])], deadline=90000)
    if thorough:
        add("post", [zspec(rules=[dict(rpc="SendHeaders", kind="stall")])], deadline=90000, order="together")

    # ---- SendV2Blocks answers for the honest header chain
    for regime in regs:
        n = REGIMES[regime]["honestLen"]
        for kind in ["malformed", "close", "mismatch", "short", "long", "zero", "stall"]:
            add(regime, [zspec(rules=[dict(rpc="SendV2Blocks", kind=kind)])], victimLen=3 if kind == "mismatch" else 0)
        for pos in (positions(n) if thorough else [rng.choice(positions(n))]):
            add(regime, [zspec(rules=[dict(rpc="SendV2Blocks", kind="reorder", pos=max(1, pos))])])
            if regime != "v1":
                # same id, wrong miner payout: provably invalid block at position pos of the batch
                add(regime, [zspec(rules=[dict(rpc="SendV2Blocks", kind="payout", pos=pos)], expect="ban")])

    # ---- the peer's own fork with one invalid block at position k of the batch
    for regime in regs:
        n = REGIMES[regime]["forkLen"]
        kinds = ["badtxn", "payout", "timestamp"] + (["commitment", "height"] if regime != "v1" else []) + (["lowwork"] if regime == "post" else [])
        for kind in kinds:
            for pos in (positions(n) if thorough or kind in ("badtxn", "commitment") else [rng.choice(positions(n))]):
                # timestamp / lowwork already break the header chain (dropped, not banned)
                exp = "ban" if kind in ("badtxn", "payout", "commitment", "height") else ""
                add(regime, [zspec(view="fork", badAt=pos, badKind=kind, expect=exp)])
        add(regime, [zspec(view="fork")])   # a VALID lighter/heavier fork: must simply be handled
    # second request of a long download (position 100+k): the fork spans two 100-block requests
    for regime, pos in ([("mid", 3), ("post", 99), ("post", 100), ("post", 104)] if thorough else [("post", 100)]):
        flen = 106 if regime == "post" else 8
        add(regime, [zspec(view="fork", forkLen=flen, badAt=pos, badKind="commitment", expect="ban")], honestLen=flen + 3, deadline=60000)
    # instant-sync binding attack: block 99 of the fork commits to a BOGUS state; the checkpoint for the
    # second request (state + block) passes the id + commitment binding, the blocks after it validate
    # against the bogus state
    add("post", [zspec(view="fork", forkLen=106, badAt=99, badKind="bogusstate", expect="ban")], honestLen=110, deadline=60000)
    # two colluding peers serve the same fork, so that the second request (checkpoint with the bogus
    # state + blocks that validate against it) is fetched while the first is still being validated
    add("post", [zspec(name="z0", view="fork", forkLen=106, badAt=99, badKind="bogusstate", expect="ban"), zspec(name="z1", view="same0")], honestLen=110, deadline=60000)
    # the same attack on the FIRST request: a bogus parent state for the honest base block, and a fork
    # that is valid relative to the state derived from it -- only the commitment binding stops it
    add("post", [zspec(view="fork", badAt=0, badKind="bogusbase")])
    add("post", [zspec(view="fork", badAt=0, badKind="bogusbase", dials=True)], order="together", victimLen=2)
    # ... and through the checkpoint BLOCK: the genuine base block with an extra made-up miner payout appended /
    # with the value of its single payout inflated (neither is covered by the v2 id or by the commitment), and a
    # fork that is valid relative to the state derived from the altered block
    add("post", [zspec(view="fork", badAt=0, badKind="extrapayoutbase")])
    add("post", [zspec(view="fork", badAt=0, badKind="payoutvaluebase")])
    if thorough:
        add("post", [zspec(view="fork", forkLen=103, badAt=99, badKind="bogusstate", expect="ban", dials=True)], honestLen=110, deadline=60000, order="together")

    # ---- SendCheckpoint answers (only above the require height)
    for kind in ["state-revenue", "state-attestations", "state-elements", "state-work", "wrong-block", "payouts-empty", "payouts-extra", "payout-value", "payout-address",
                 "body", "malformed", "close", "stall"]:
        add("post", [zspec(rules=[dict(rpc="SendCheckpoint", kind=kind)])])
        if thorough:
            add("post", [zspec(rules=[dict(rpc="SendCheckpoint", kind=kind, nth=2)], dials=True)], order="together")

    # ---- instant sync: the victim bootstraps with syncer.RetrieveCheckpoint from the Byzantine peer; whatever is
    # returned without an error goes into NewDBStoreAtCheckpoint unvalidated, so it must be the genuine pair
    for kind in ["", "payouts-empty", "payouts-extra", "payout-value", "payout-address", "state-revenue", "state-elements", "wrong-block", "body", "malformed", "close"]:
        add("post", [zspec(rules=[dict(rpc="SendCheckpoint", kind=kind)] if kind else [])], retrieve=True, order="retrieve")
    if thorough:
        for kind in ["payouts-empty", "payouts-extra", "payout-value", "state-work", "two-payouts"]:
            add("mid", [zspec(rules=[dict(rpc="SendCheckpoint", kind=kind)])], retrieve=True, order="retrieve")

    # ---- relays issued by the Byzantine peer
    ban_relays = {"hdr-lowwork", "outline-lowwork", "outline-badtxn", "outline-height", "outline-missing-wrong", "outline-missing-none", "txset-empty"}
    relay_rules = {"outline-missing-wrong": [dict(rpc="SendTransactions", kind="wrong")], "outline-missing-close": [dict(rpc="SendTransactions", kind="close")],
                   "outline-missing-none": [dict(rpc="SendTransactions", kind="none")]}
    for regime in ["mid", "post"]:
        kinds = ["hdr-attach", "hdr-unknownparent", "hdr-sidechain", "hdr-malformed", "outline-valid", "outline-badtxn", "outline-height",
                 "outline-missing-ok", "outline-missing-wrong", "outline-missing-close", "outline-missing-none", "outline-malformed",
                 "txset-empty", "txset-unknownbasis", "txset-invalid", "txset-valid", "txset-malformed"]
        if regime == "post":
            kinds += ["hdr-lowwork", "outline-lowwork"]
        for kind in kinds:
            whens = ["connected", "synced"] if thorough else [rng.choice(["connected", "synced"])]
            for when in whens:
                add(regime, [zspec(relays=[dict(kind=kind, when=when)], rules=relay_rules.get(kind, []), expect="ban" if kind in ban_relays else "", dials=rng.random() < 0.5)])
    for kind in ["hdr-attach", "hdr-unknownparent", "hdr-malformed", "txset-empty", "txset-unknownbasis"]:
        add("v1", [zspec(relays=[dict(kind=kind, when="connected")], expect="ban" if kind in ban_relays else "")])

    # ---- plant-then-serve (two Byzantine steps, the second by a fresh peer): z0 relays an outline that extends the
    # victim's tip with valid PoW / height / payout / commitment but an invalid transaction (or a wrong height):
    # rejected, relayer banned -- but chain.Manager.AddBlocks keeps the block's header state.  The accomplice z1
    # then serves that very block through SendHeaders + (SendCheckpoint +) SendV2Blocks.  "Has a state" must
    # not be mistaken for "validated", on either download path.
    for regime in ["post", "mid"]:
        for kind in (["outline-badtxn", "outline-height"] if thorough or regime == "post" else ["outline-badtxn"]):
            for when in (["connected", "synced"] if thorough or regime == "post" else ["connected"]):
                add(regime, [zspec(name="z0", relays=[dict(kind=kind, when=when)], expect="ban", dials=(when == "synced")),
                             zspec(name="z1", view="planted", expect="ban" if kind == "outline-badtxn" else "")])
    if thorough:
        add("post", [zspec(name="z0", relays=[dict(kind="outline-badtxn", when="connected")], expect="ban"),
                     zspec(name="z1", view="planted", expect="ban", dials=True), zspec(name="z2", view="planted", dials=False)], honest=2)

    # ---- hang up before the verdict: the Byzantine peer serves provably invalid data and closes the connection right after;
    # the harness holds the victim's AddBlocks / AddValidatedV2Blocks back until the victim has noticed the disconnect.
    # The ban is owed for the MISBEHAVIOUR, not for the connection: PeerStore.Ban must still be called.
    for regime, kinds in (("mid", ["badtxn", "commitment", "payout"]), ("v1", ["badtxn", "payout"]), ("post", ["badtxn", "commitment"])):
        for kind in (kinds if thorough else kinds[:2]):
            add(regime, [zspec(view="fork", badAt=rng.choice([0, 3, REGIMES[regime]["forkLen"] - 1]), badKind=kind, expect="ban", hangup="blk-", dials=rng.random() < 0.5)])
    add("mid", [zspec(rules=[dict(rpc="SendV2Blocks", kind="payout", pos=2)], expect="ban", hangup="blk-")])
    for regime in ["mid", "post"]:
        for kind in ["outline-badtxn", "outline-height", "txset-empty"] + (["hdr-lowwork", "outline-lowwork"] if regime == "post" else []):
            add(regime, [zspec(relays=[dict(kind=kind, when="connected")], expect="ban", hangup="relay-", dials=rng.random() < 0.5)])
        add(regime, [zspec(relays=[dict(kind="outline-missing-wrong", when="connected")], rules=[dict(rpc="SendTransactions", kind="wrong")], expect="ban", hangup="txn-")])
    if thorough:
        add("mid", [zspec(name="z0", relays=[dict(kind="outline-badtxn", when="synced")], expect="ban", hangup="relay-", dials=True)])
        add("post", [zspec(name="z0", relays=[dict(kind="outline-badtxn", when="connected")], expect="ban", hangup="relay-"),
                     zspec(name="z1", view="planted", expect="ban", hangup="blk-")])

    # ---- two-phase fork: the Byzantine peer's heavier chain forks off BELOW the require height; an invalid block (valid header /
    # PoW / payout, wrong commitment or a money-creating transaction) sits inside the first 100-header request, which alone is
    # NOT heavier than the victim's tip (AddBlocks stores it header-only, nothing is validated); the chain continues, built AS IF
    # that block were valid, far past the require height, so the second request goes through SendCheckpoint + pre-validation +
    # AddValidatedV2Blocks and tips the total work over.  The reorg must fail at the invalid block and the victim must keep the
    # tip it had (WorkMonotone, AlwaysValid); the peer is banned.
    for kind, pos in ([("commitment-asif", 9)] if not thorough else [("commitment-asif", 9), ("badtxn-asif", 0), ("commitment-asif", 60), ("badtxn-asif", 94)]):
        add("mid", [zspec(view="fork", forkLen=150, badAt=pos, badKind=kind, expect="ban")], victimLen=130, honestLen=132, deadline=60000)
    if thorough:
        add("mid", [zspec(view="fork", forkLen=150, badAt=9, badKind="commitment-asif", expect="ban", dials=True)], victimLen=130, honestLen=132, deadline=60000, order="together")

    # ---- checkpoint-bootstrapped victim (NewDBStoreAtCheckpoint on the common trunk): it sits on its own fork D blocks above
    # the fork point T and must find a common ancestor with the honest peer although T falls BETWEEN its sampled history
    # heights (tip-0..9, -11, -15, -23, -39, ...) -- the sample ends with the lowest block it holds.  Fork point at the
    # checkpoint, just above the lowest held block, between samples; tip-to-checkpoint distances 12..36; honest peer only
    # and honest + Byzantine.  (The honest peer's own sync loop is off, or its chain length makes ITS sample hit the
    # victim's stored range: a full node that finds no common id with a checkpoint peer drops it -- see the assumptions.)
    cpv = [(12, 0, 15, False), (12, 1, 14, False), (12, 2, 13, True), (17, 4, 20, True), (30, 6, 34, True)]
    for D, below, L, quiet in (cpv if thorough else cpv[:4]):
        for regime in (["mid", "post"] if thorough else ["post" if D == 12 and below == 0 else "mid"]):
            T = REGIMES[regime]["trunk"] if regime == "post" else 27
            add(regime, [], trunk=T, victimLen=D, honestLen=L, victimCheckpoint=T - below, quietP=quiet, order="pfirst", deadline=30000)
    add("mid", [zspec(rules=[dict(rpc="SendV2Blocks", kind="mismatch")]), zspec(name="z1", view="fork", forkAt=27, badAt=2, badKind="badtxn", expect="ban")],
        trunk=27, victimLen=17, honestLen=20, victimCheckpoint=23, quietP=True, order="together", deadline=30000)
    add("post", [zspec(rules=[dict(rpc="SendHeaders", kind="unlinked", pos=1)])], victimLen=12, honestLen=13, victimCheckpoint=REGIMES["post"]["trunk"] - 2, quietP=True,
        order="zfirst", deadline=30000)

    # ---- in-flight budget flood: the victim runs with WithMaxInflightRPCsPerSubnet(cap) and /24 subnet keys; the Byzantine
    # peer shares the /24 with the honest peer.  After the victim has synced, it fills the budget with half-open RPCs (id,
    # never the request), sends more RPCs while the budget is full (dropped), disconnects -- possibly several rounds --
    # and then the honest peer mines and relays new blocks: the victim must still follow, and at rest every in-flight
    # counter must be 0 (a counter is the number of running handlers).
    for regime, cap, rounds in ([("post", 2, 1), ("mid", 3, 2)] if not thorough else [("post", 2, 1), ("mid", 3, 2), ("post", 4, 3), ("v1", 2, 2), ("mid", 8, 1)]):
        add(regime, [zspec(tag="flood", dials=True)], order="pfirst", flood=dict(cap=cap, halfOpen=cap, extra=cap + 2, rounds=rounds, grow=2), deadline=40000)

    # ---- ID twin, poison-then-heal: the victim sits on its own fork; the Byzantine peer holds only a PREFIX of the honest
    # fork (still lighter, at heights <= the victim's tip) and serves it through the AddBlocks path with one v2 block's
    # body swapped under the honest header (same id).  Stored header-valid, no reorg, no ban.  When the honest peer later
    # offers the whole (now heaviest) fork the re-delivered honest body must replace the unvalidated twin: the victim
    # reorgs, and the honest peer is not banned.
    for kind in ["twin-address", "twin-txns"]:
        for pos in ([0, 2, 3] if thorough or kind == "twin-address" else [1]):
            add("mid", [zspec(view="honest-prefix", prefix=4, rules=[dict(rpc="SendV2Blocks", kind=kind, pos=pos)])], victimLen=5, honestLen=8)
    add("mid", [zspec(view="honest-prefix", prefix=5, rules=[dict(rpc="SendV2Blocks", kind="twin-address", pos=4)], dials=True)], victimLen=5, honestLen=8, honest=2)
    # co-worker twin: the victim (on its own 120-block fork) downloads the honest 150-block fork from the honest AND the
    # Byzantine peer in one parallelSync (two 100-block requests, AddBlocks path: require height far above); the twin
    # sits in the FIRST, still lighter batch, the reorg fails while the honest peer's second batch is being added --
    # the peer that served the invalid block must be banned, not the one whose batch triggered the reorg.  Which
    # worker gets which request is the syncer's choice (map order), hence several copies.
    for j in range(6 if not thorough else 16):
        add("mid", [zspec(view="honest", rules=[dict(rpc="SendV2Blocks", kind="twin-address", pos=50)], tag="coworker", dials=(j % 2 == 0))],
            order="together", victimLen=120, honestLen=150, deadline=40000, allow=20, require=400, final=500)
    if thorough:
        add("post", [zspec(view="honest-prefix", prefix=4, rules=[dict(rpc="SendV2Blocks", kind="twin-address", pos=1)])], victimLen=5, honestLen=8)
        add("v1", [zspec(view="honest-prefix", prefix=3, rules=[dict(rpc="SendV2Blocks", kind="twin-address", pos=1)])], victimLen=4, honestLen=18)

    # ---- mixes: several Byzantine peers, several honest peers, every connection order
    pool = [zspec(rules=[dict(rpc="SendV2Blocks", kind="mismatch")]), zspec(rules=[dict(rpc="SendHeaders", kind="unlinked", pos=1)]),
            zspec(view="fork", badAt=2, badKind="badtxn"), zspec(rules=[dict(rpc="SendV2Blocks", kind="short")]),
            zspec(relays=[dict(kind="txset-empty", when="connected")]), zspec(rules=[dict(rpc="SendV2Blocks", kind="stall")]),
            zspec(view="fork", badAt=0, badKind="payout"), zspec(relays=[dict(kind="hdr-unknownparent", when="connected")])]
    for j in range(12 if not thorough else 330):
        regime = rng.choice(regs)
        zs = [json.loads(json.dumps(z)) for z in rng.sample(pool, rng.choice([1, 2, 2, 3]))]
        if regime == "post":
            zs.append(zspec(rules=[dict(rpc="SendCheckpoint", kind=rng.choice(["state-revenue", "wrong-block", "body"]))]))
        for i, z in enumerate(zs):
            z["name"] = "z%d" % i
            z["dials"] = rng.random() < 0.5
        add(regime, zs, order=rng.choice(["zfirst", "pfirst", "together"]), honest=rng.choice([1, 1, 2]), victimLen=rng.choice([0, 0, 2, 4]))
    return out


# ------------------------------------------------------------------ legs

def leg_m_jobs(tier):
    jobs = [("SyncMC", "Sync_byz_cp.cfg", "Sync byzantine, checkpoint-bootstrapped victim whose fork point lies between its sampled heights (history anchored at its lowest block): safety + HonestProgress", 4, 900),
            ("SyncMC", "Sync_byz_asif.cfg", "Sync byzantine two-phase fork (invalid block stored header-only, descendants built as if it were valid delivered pre-validated): safety + HonestProgress", 4, 900),
            ("SyncMC", "Sync_byz_twin.cfg", "Sync byzantine ID twin (honest header, swapped body) served from a lighter fork prefix: healed by honest re-delivery, culprit banned: safety + HonestProgress", 4, 900),
            ("SyncMC", "Sync_byz_plant.cfg", "Sync byzantine plant-then-serve (two Byzantine peers; a rejected block's stored state is not 'validated'): safety + HonestProgress", 4, 900),
            ("SyncMC", "Sync_byz_quick.cfg", "Sync byzantine (victim + honest + Byzantine peer, 8-block tree): safety + HonestProgress", 6, 1500)]
    if tier == "thorough":
        jobs.append(("SyncMC", "Sync_byz_full.cfg", "Sync byzantine (victim + honest + Byzantine peer, TreeB, all victim positions): safety + HonestProgress", 6, 3000))
        jobs.append(("SyncMC", "Sync_byz_req1.cfg", "Sync byzantine, every download on the pre-validated path (ReqH = 1): safety + HonestProgress", 6, 3000))
    return jobs


CRASH_RE = re.compile(r"^(panic:|fatal error:)", re.M)


def run_byz(wd, binary, scs, verdict, width, timeout, tag="TestByz"):
    """Runs the scenarios in one harness process.  If the process dies (an unrecovered panic in a
    syncer goroutine kills it -- that IS the 'does not crash' part of the property) the scenarios
    that were in flight are re-run one by one, each in its own process, to attribute and confirm it."""
    inp = os.path.join(wd, "byz_in_%s.json" % tag)
    json.dump({"scenarios": scs, "width": width, "retry": True}, open(inp, "w"))
    jp = os.path.join(wd, "byz-journal.txt")
    if os.path.exists(jp):
        os.remove(jp)
    try:
        return vlib.go_run(binary, "TestByz", wd, env={"VERIF_IN": inp}, timeout=timeout, tag=tag)
    except vlib.Infra as e:
        logp = os.path.join(wd, "go_%s.log" % tag)
        text = open(logp, errors="replace").read() if os.path.exists(logp) else ""
        if not CRASH_RE.search(text) or len(scs) == 1:
            if len(scs) == 1 and CRASH_RE.search(text):
                m = re.search(r"(panic:.*|fatal error:.*)", text)
                frames = re.findall(r"go\.sia\.tech/coreutils/[\w/]+\.[\w.()*]+", text)
                return {"mismatches": [{"sig": "byz:crash:" + (frames[0] if frames else "unknown"),
                                        "desc": "scenario %s (%s): victim process died (unrecovered panic in a syncer goroutine kills the honest node): %s" % (scs[0]["id"], scs[0]["shape"], m.group(1) if m else "?"),
                                        "replay": {"kind": "byz", "scenario": scs[0], "log": text[-3000:].splitlines()}}],
                        "counts": {"scenarios": 1, "crashed": 1}, "evaluations": 1, "distinct": 1, "samples": [], "traces": 0, "wall": 0, "notes": []}
            raise
        started, done = [], set()
        for line in open(jp):
            w = line.split()
            if len(w) == 2 and w[0] == "start":
                started.append(w[1])
            elif len(w) == 2 and w[0] == "done":
                done.add(w[1])
        suspects = [s for s in scs if s["id"] in started and s["id"] not in done]
        rest = [s for s in scs if s["id"] not in started]
        log("  harness process died (%s); re-running %d in-flight scenarios one by one, then the remaining %d" % (CRASH_RE.search(text).group(1), len(suspects), len(rest)))
        agg = {"mismatches": [], "counts": {}, "evaluations": 0, "distinct": 0, "samples": [], "traces": 0, "wall": 0, "notes": []}
        parts = [[s] for s in suspects] + ([rest] if rest else [])
        for i, part in enumerate(parts):
            r = run_byz(wd, binary, part, verdict, width, timeout, tag="%s_r%d" % (tag, i))
            agg["mismatches"] += r["mismatches"]
            for k, v in r["counts"].items():
                agg["counts"][k] = agg["counts"].get(k, 0) + v
            for k in ("evaluations", "distinct", "traces", "wall"):
                agg[k] += r.get(k, 0)
            agg["samples"] += r["samples"]
            agg["notes"] += r.get("notes") or []
        return agg


def leg_t(wd, tier, binary, verdict, scenarios=None):
    scs = scenarios if scenarios is not None else catalogue(tier, vlib.seed())
    for f in os.listdir(wd):
        if f.startswith("byztrace-"):
            os.remove(os.path.join(wd, f))
    scale = C12.load_scale()
    if scale > 1.0:
        log("  T: machine load %.1f: deadlines x %.1f" % (os.getloadavg()[0], scale))
        for s in scs:
            s["deadlineMs"] = int(s["deadlineMs"] * scale)
    res = run_byz(wd, binary, scs, verdict, max(6, int((14 if tier == "quick" else 16) / scale)), 1800 if tier == "quick" else 6000)
    c = res["counts"]
    if c.get("infra", 0) > max(2, len(scs) // 20):
        raise vlib.Infra("too many scenarios could not be set up: %s" % (res.get("notes") or [])[:5])
    verdict.add_all(res["mismatches"])
    tv = C12.validate_all(wd, "byztrace-", verdict, PROP)
    fired = {k[6:]: v for k, v in c.items() if k.startswith("fired:")}
    log("  T: %d scenarios (victim + honest + Byzantine peers) on a real syncer: %d reached the honest tip (mean %.1fs), %d retried, %d vacuous, %d Ban calls, %d corrupted answers / relays of %d kinds delivered, %d mismatches, %.1fs; TLC validated %d events in %.1fs, %d traces rejected" %
        (c.get("scenarios", 0), c.get("reached", 0), c.get("reach_ms_total", 0) / 1000.0 / max(1, c.get("reached", 1)), c.get("retried", 0), c.get("vacuous", 0),
         c.get("bans", 0), sum(fired.values()), len(fired), len(res["mismatches"]), res["wall"], tv["events"], tv["wall"], tv["rejected"]))
    return dict(scenarios=c.get("scenarios", 0), reached=c.get("reached", 0), retried=c.get("retried", 0), vacuous=c.get("vacuous", 0), bans=c.get("bans", 0),
                fired=fired, traces=res["traces"], events=tv["events"], rejected=tv["rejected"], trace_states=tv["trace_states"],
                samples=res["samples"], evaluations=res["evaluations"], distinct=res["distinct"], infra=c.get("infra", 0), crashed=c.get("crashed", 0))


ASSUMPTIONS = [
    "the honest peer's chain is sufficiently heavier (core's reorg criterion) than the victim's and ends in a v2 block; honest tips are re-announced periodically (header + outline)",
    "corruptions are produced through core/gateway's public API (a malformed frame is a well-framed response of the wrong type or a request body of another RPC); validity classes of crafted blocks are computed by an oracle (fresh chain.Manager), never assumed",
    "insufficient-work corruptions are only possible above the final-cut height of the test network (below it the PoW target is maximal)",
    "a ban is required for: invalid block in a batch (both sync paths), relayed header/outline with insufficient work, invalid relayed block, wrong 'missing' transactions, empty transaction set; other misbehaviour may be answered by dropping the peer",
    "timeouts shortened through the public options (2 s); SendHeadersTimeout is not configurable (30 s); loopback TCP; recovered handler panics are reported, an unrecovered panic kills the harness process and is attributed by re-running the in-flight scenarios",
    "TLC, the Go runtime, the OS network stack and the oracle are trusted",
]


def run(tier):
    t0 = time.time()
    wd = vlib.workdir(PROP)
    verdict = vlib.Verdict(PROP)
    binary = vlib.go_build("syncx", wd)
    with cf.ThreadPoolExecutor(max_workers=2) as ex:
        fm = ex.submit(C12.run_tlc_set, wd, leg_m_jobs(tier), 2)
        ft = ex.submit(leg_t, wd, tier, binary, verdict)
        tt = ft.result()
        ms = fm.result()
    rr = C12.leg_r(wd, tier, binary, verdict, family="byz")
    rc = verdict.finish()
    cov = {
        "states": sum(m.distinct for m in ms.values()), "transitions": sum(m.generated for m in ms.values()),
        "traces_validated_against_impl": tt["traces"] - tt["rejected"] + rr["paths"],
        "exhaustive": True,
        "samples": vlib.trim_samples(tt["samples"] + rr["samples"], 2, 2500),
        "model": {"cfgs": {k: {"distinct": v.distinct, "transitions": v.generated, "depth": v.depth} for k, v in ms.items()},
                  "constants": "victim + honest peer + Byzantine peer over TreeB (11 blocks: honest chain, header-valid invalid fork, submission-rejected block, invalid block on the honest chain, valid fork only the Byzantine peer holds); the Byzantine peer answers every request with any catalogue element and relays anything; K=2, Batch=2; liveness without state constraint, fairness on honest actions only"},
        "replay": {k: rr[k] for k in rr if k != "samples"},
        "scenarios": {k: tt[k] for k in ("scenarios", "reached", "retried", "vacuous", "bans", "fired", "infra", "crashed")},
        "trace_validation": {k: tt[k] for k in ("traces", "events", "rejected", "trace_states")},
        "evaluations": tt["evaluations"] + rr["steps"], "distinct_nontrivial": tt["distinct"] + rr["distinct"],
        "rule": "T: one evaluation per scenario (regime x connection order x scripts of the Byzantine peers: RPC, corruption, position), every ChainManager/PeerStore call of victim and honest peers is one TLC-validated event; "
                "R: one evaluation per (spec macro-step, real victim) of the edge cover, distinct by (action, target state)",
    }
    vlib.write_evidence(PROP, tier, "model_checking", cov, ASSUMPTIONS, time.time() - t0, len(verdict.violations))
    return rc


def replay(path):
    return C12.replay_common(PROP, path)


def selftest():
    wd = vlib.workdir(PROP + "-selftest")
    binary = vlib.go_build("syncx", wd)
    # 1. Leg R against a deliberately wrong oracle
    v = vlib.Verdict(PROP + "-selftest"); v.findings = []
    C12.leg_r(wd, "quick", binary, v, family="byz", stub="tip-a4-is-a3")
    ok1 = any(m["sig"].startswith("replay:byz:") for m in v.violations)
    log("selftest 1 (replay against a wrong oracle finds a mismatch): %s" % ("ok" if ok1 else "FAILED"))
    # 2. corrupted traces
    scs = [s for s in catalogue("quick", 1) if "fork-badtxn@0" in s["shape"] or "SendV2Blocks-payout" in s["shape"] or "txset-empty" in s["shape"]][:6]
    v2 = vlib.Verdict(PROP + "-selftest"); v2.findings = []
    leg_t(wd, "quick", binary, v2, scenarios=scs)
    src = [os.path.join(wd, f) for f in sorted(os.listdir(wd)) if f.startswith("byztrace-") and os.path.getsize(os.path.join(wd, f)) > 0]
    ok2 = True

    def ban_honest(e):
        if e["op"] == "Ban" and e["who"].startswith("byz:"):
            e["who"] = "honest:p0"
            return True

    def hide_err(e):
        if e["op"] == "AddBlocks" and e["err"]:
            e["err"] = False
            return True
    for name, mut in (("ban-of-honest-peer", ban_honest), ("hidden-rejection", hide_err)):
        got = None
        for f in src:
            got = C12.corrupt_and_validate(wd, f, mut, name)
            if got is not None:
                break
        log("selftest 2 (trace with %s rejected by TLC): %s" % (name, "ok" if got else ("FAILED" if got is False else "no such event")))
        ok2 = ok2 and bool(got)
    # 3. the model without pre-validation of instant-sync batches must violate AlwaysValid
    x = vlib.run_tlc(wd, "SyncMC", "Sync_byz_mut_novalidate.cfg", workers=4, timeout=900)
    ok3 = x.exit != 0 and x.violated == "AlwaysValid"
    log("selftest 3 (model without ValidateBlock on the instant-sync path violates AlwaysValid): %s" % ("ok" if ok3 else "FAILED"))
    x = vlib.run_tlc(wd, "SyncMC", "Sync_byz_plant_dev.cfg", workers=4, timeout=900)
    ok3b = x.exit != 0 and x.violated == "AlwaysValid"
    log("selftest 3 (model that skips ValidateBlock for blocks whose state is already stored violates AlwaysValid): %s" % ("ok" if ok3b else "FAILED"))
    ok3 = ok3 and ok3b
    x = vlib.run_tlc(wd, "SyncMC", "Sync_byz_cp_dev.cfg", workers=4, timeout=900)
    good = x.exit != 0 and "HonestProgress was violated" in (x.error or "") + x.out
    log("selftest 3 (model of a checkpoint victim whose history sample lacks its lowest block: no common history, HonestProgress violated): %s" % ("ok" if good else "FAILED"))
    ok3 = ok3 and good
    x = vlib.run_tlc(wd, "SyncMC", "Sync_byz_twin_dev.cfg", workers=4, timeout=900)
    good = x.exit != 0 and "HonestProgress was violated" in (x.error or "") + x.out
    log("selftest 3 (model whose AddBlocks skips re-delivered stored blocks at or below the tip: the twin is never healed, HonestProgress violated): %s" % ("ok" if good else "FAILED"))
    ok3 = ok3 and good
    for cfg, inv, what in (("Sync_byz_asif_dev.cfg", "WorkMonotone", "model whose failed AddValidatedV2Blocks reorg rolls back to the batch base instead of the old tip"),
                           ("Sync_byz_hangup_dev.cfg", "ProvableMisbehaviourBanned", "model whose ban is skipped for a peer that hung up before the verdict"),
                           ("Sync_byz_twin_coworker_dev.cfg", "NoHonestBan", "model that bans the peer of the batch being added instead of the peer that served the invalid block"),
                           ("Sync_byz_ckptcount_dev.cfg", "NeverPanics", "model whose SendCheckpoint does not check the payout count: the victim process dies"),
                           ("Sync_byz_ckptvalue_dev.cfg", "AlwaysValid", "model whose SendCheckpoint does not bind the payout value: pre-validation is void")):
        x = vlib.run_tlc(wd, "SyncMC", cfg, workers=4, timeout=900)
        good = x.exit != 0 and x.violated == inv
        log("selftest 3 (%s, %s violated): %s" % (what, inv, "ok" if good else "FAILED"))
        ok3 = ok3 and good
    # 4. the ban expectation bites: a corruption the code answers by dropping is not accepted as 'banned'
    sc = scen("self1", "mid", [zspec(rules=[dict(rpc="SendHeaders", kind="unlinked", pos=1)], expect="ban")])
    v4 = vlib.Verdict(PROP + "-selftest"); v4.findings = []
    leg_t(wd, "quick", binary, v4, scenarios=[sc])
    ok4 = any(m["sig"].startswith("byz:not-banned") for m in v4.violations)
    log("selftest 4 (a missing PeerStore.Ban is detected): %s" % ("ok" if ok4 else "FAILED"))
    return 0 if ok1 and ok2 and ok3 and ok4 else 2
