"""C17 -- All key-value backends behave identically, including before a flush.
Leg M: KV.tla (reference) exhaustively, KVMem/KVCache refinement.  Leg R: edge cover of KV's
state graph replayed on MemDB, CacheDB(MemDB), CacheDB(Bolt), BoltChainDB.  Leg T: exhaustive
and random operation sequences on the real backends validated by TLC against KVTrace.tla."""
import re, os, json, random, time, concurrent.futures as cf
import vlib
from vlib import log

PROP = "C17"
BUCKETS = ["b1", "b2"]; KEYS = ["k1", "k2"]


def leg_m(wd, tier):
    r = vlib.run_tlc(wd, "MCKV", "KV_mc.cfg", workers=8, timeout=600)
    vlib.tlc_must_pass(r, "KV reference")
    log("  M: KV reference: %d distinct states, %d transitions, depth %d, %.1fs" % (r.distinct, r.generated, r.depth, r.wall))
    rs = [r]
    suffix = "_quick.cfg" if tier == "quick" else "_mc.cfg"
    for mod in ("KVMem", "KVCache"):
        cfg = mod + suffix
        if os.path.exists(os.path.join(vlib.SPEC, mod + ".tla")):
            x = vlib.run_tlc(wd, mod, cfg, workers=8, timeout=1800)
            vlib.tlc_must_pass(x, mod + " refines KV")
            log("  M: %s refines KV: %d distinct states, %d transitions, %.1fs" % (mod, x.distinct, x.generated, x.wall))
            rs.append(x)
    return rs


def leg_r(wd, tier, binary, verdict, backends=None):
    r = vlib.run_tlc(wd, "MCKV", "KV_edges.cfg", workers=1, timeout=600)
    vlib.tlc_must_pass(r, "KV edge export")
    nst, ned = vlib.graph_stats(r.edges)
    rng = random.Random(vlib.seed())
    paths = vlib.path_cover(r.edges, max_paths=None, rng=rng, max_len=40)
    covered = len({vlib.canon([e["from"], e["act"], e["to"]]) for p in paths for e in p})
    log("  R: KV graph %d states / %d edges; %d paths cover %d edges" % (nst, ned, len(paths), covered))
    inp = os.path.join(wd, "replay_in.json")
    json.dump({"buckets": BUCKETS, "keys": KEYS, "backends": backends or [],
               "paths": [[{"act": e["act"], "reply": e["reply"], "to": e["to"]} for e in p] for p in paths]}, open(inp, "w"))
    res = vlib.go_run(binary, "TestReplay", wd, env={"VERIF_IN": inp}, timeout=1200)
    verdict.add_all(res["mismatches"])
    log("  R: %d steps replayed on %d backends, %d mismatches, %.1fs" % (res["evaluations"], res["counts"].get("backends", 0), len(res["mismatches"]), res["wall"]))
    return dict(states=nst, edges=ned, paths=len(paths), covered=covered, steps=res["evaluations"],
                distinct=res["distinct"], samples=res["samples"], full=(covered == ned))


def split_traces(path):
    """yield (start_line, lines) per Reset-delimited trace"""
    cur = []; start = 0
    with open(path) as f:
        for i, line in enumerate(f):
            if line.startswith('{"op":"Reset"') and cur:
                yield start, cur
                cur = []; start = i
            cur.append(line)
    if cur:
        yield start, cur


def validate_file(wd, path, tag, verdict):
    """TLC-validates one NDJSON file; on rejection, reports the failing trace, drops it and
    continues with the rest (so one divergence does not hide the others)."""
    events = vlib.count_lines(path)
    rejected = 0
    states = 0
    for it in range(12):
        ok, r, consumed = vlib.validate_trace(wd, "KVTrace", "KVTrace.cfg", path, timeout=1200, tag="%s_%d" % (tag, it))
        states += r.distinct
        if ok:
            break
        if consumed is None:
            raise vlib.Infra("trace validation broke (no high-water mark): %s\n%s" % (r.error, r.out[-2000:]))
        # locate the failing trace
        traces = list(split_traces(path))
        bad = None
        for start, lines in traces:
            if start <= consumed < start + len(lines):
                bad = (start, lines)
        if bad is None:
            raise vlib.Infra("cannot locate failing event %d" % consumed)
        start, lines = bad
        ev = json.loads(lines[consumed - start])
        hdr = json.loads(lines[0])
        rejected += 1
        sig = "trace:%s:%s:%s" % (hdr.get("backend"), ev.get("op"), ev.get("reply"))
        verdict.add({"sig": sig,
                     "desc": "TLC rejects event %d of a %s trace: %s (violated: %s)" % (consumed - start, hdr.get("backend"), json.dumps(ev), r.violated or "no KV action explains it"),
                     "replay": {"kind": "trace", "backend": hdr.get("backend"), "events": [json.loads(x) for x in lines[:consumed - start + 1]]}})
        with open(path, "w") as f:
            for s2, l2 in traces:
                if s2 != start:
                    f.writelines(l2)
    else:
        log("  T: more than 12 rejected traces in %s; the rest is not validated" % tag)
    return events, rejected, states


def leg_t(wd, tier, binary, verdict, backends=None):
    env = {"VERIF_L": 3 if tier == "quick" else 4, "VERIF_RANDOM": 40 if tier == "quick" else 400,
           "VERIF_RLEN": 150, "VERIF_SHARDS": 12}
    if backends:
        env["VERIF_BACKENDS"] = ",".join(backends)
    res = vlib.go_run(binary, "TestDriver", wd, env=env, timeout=1800)
    verdict.add_all(res["mismatches"])
    files = sorted(f for f in os.listdir(wd) if f.startswith("kvtrace-"))
    t0 = time.time()
    tot_ev = tot_rej = tot_states = 0
    with cf.ThreadPoolExecutor(max_workers=12) as ex:
        futs = [ex.submit(validate_file, wd, os.path.join(wd, f), f.replace(".ndjson", ""), verdict) for f in files]
        for fu in futs:
            ev, rej, st = fu.result()
            tot_ev += ev; tot_rej += rej; tot_states += st
    log("  T: %d traces / %d events from the real backends; TLC validated in %.1fs, %d traces rejected" %
        (res["traces"], tot_ev, time.time() - t0, tot_rej))
    for f in files:
        try:
            os.remove(os.path.join(wd, f))
        except OSError:
            pass
    return dict(traces=res["traces"], events=tot_ev, rejected=tot_rej, samples=res["samples"], L=env["VERIF_L"],
                alphabet=res["counts"].get("alphabet"), trace_states=tot_states)


def run(tier):
    t0 = time.time()
    wd = vlib.workdir(PROP)
    verdict = vlib.Verdict(PROP)
    binary = vlib.go_build("kvx", wd)
    ms = leg_m(wd, tier)
    rr = leg_r(wd, tier, binary, verdict)
    tt = leg_t(wd, tier, binary, verdict)
    # "consequently the chain store behaves the same whichever backend it is given"
    cbin = vlib.go_build("chainx", wd)
    cb = vlib.go_run(cbin, "TestBackends", wd, env={"VERIF_HISTORIES": 10 if tier == "quick" else 120}, timeout=1800)
    verdict.add_all(cb["mismatches"])
    log("  chain store over the four backends: %d histories, %d backend comparisons, %d mismatches, %.1fs" % (cb["traces"], cb["evaluations"], len(cb["mismatches"]), cb["wall"]))
    # a session far larger than any enumerated sequence (70 000 unflushed writes in one bucket), ended
    # by Cancel / by Flush, on the four backends
    try:
        bk = vlib.go_run(binary, "TestBulk", wd, timeout=900, tag="bulk")
    except vlib.Infra:
        if not verdict.violations:
            raise
        bk = {"mismatches": [], "wall": 0.0}   # the run already has its verdict
    verdict.add_all(bk["mismatches"])
    log("  bulk sessions (70 000 unflushed writes, cancel / flush) on 4 backends: %d findings, %.1fs" % (len(bk["mismatches"]), bk["wall"]))
    # ... also in what survives a stop of the process: crash/reopen histories of the chain store on
    # MemDB, CacheDB(MemDB) and a Bolt file (harness/chainx TestDriver, durable mode); counted for C17:
    # a backend-owned value changed in place / an uncommitted write visible after the stop / a fault
    # or panic on one backend only.  (The reopen-consistency findings of these histories are C03's.)
    try:
        cd = vlib.go_run(cbin, "TestDriver", wd, env={"VERIF_MODE": "durable", "VERIF_HISTORIES": 24 if tier == "quick" else 240, "VERIF_SHARDS": 1,
                                                      "VERIF_MIN_BLOCKS": 15, "VERIF_MAX_BLOCKS": 35}, timeout=2400, tag="durable")
    except vlib.Infra:
        if not verdict.violations:
            raise
        cd = {"mismatches": [], "traces": 0, "counts": {}}
    own = [m for m in cd["mismatches"] if re.search(r"uncommitted-visible|panic", m.get("sig", ""))]
    verdict.add_all(own)
    log("  chain store across process stops on 3 backends: %d histories, %d reopens, %d findings of this property" % (cd["traces"], cd.get("counts", {}).get("reopens", 0), len(own)))
    for f in ("chaintrace-0.ndjson", "chaintrees-0.json"):
        try:
            os.remove(os.path.join(wd, f))
        except OSError:
            pass
    rc = verdict.finish()
    cov = {
        "states": sum(m.distinct for m in ms), "transitions": sum(m.generated for m in ms),
        "traces_validated_against_impl": tt["traces"] - tt["rejected"] + rr["paths"] * 4,
        "exhaustive": True,
        "samples": vlib.trim_samples(rr["samples"] + tt["samples"], 3),
        "model": {"KV_reference_distinct_states": ms[0].distinct, "modules": [m.cmd.split()[-1] for m in ms],
                  "constants": "2 buckets x 2 keys x 2 values; complete reachable state space (not length-bounded)"},
        "replay": {k: rr[k] for k in ("states", "edges", "paths", "covered", "steps", "full")},
        "trace_validation": {k: tt[k] for k in ("traces", "events", "rejected", "L", "alphabet", "trace_states")},
        "evaluations": rr["steps"] + tt["events"], "distinct_nontrivial": rr["distinct"] + tt["traces"],
        "rule": "R: one evaluation per (backend, spec transition) step of the edge cover, distinct by (backend, action, target state); "
                "T: every mutating-op sequence of length L over the alphabet plus random sequences, distinct by (backend, sequence); every interface call is one TLC-validated event",
        "backends": ["MemDB", "CacheDB(MemDB)", "CacheDB(Bolt)", "BoltChainDB"],
        "chain_store_over_backends": {"histories": cb["traces"], "comparisons": cb["evaluations"]},
    }
    vlib.write_evidence(PROP, tier, "model_checking", cov,
                        ["bucket handles are re-fetched after every Flush/Cancel (as DBStore does)",
                         "keys and values are non-empty; Iter results compared as sets",
                         "TLC, bbolt and the Go runtime are trusted"], time.time() - t0, len(verdict.violations))
    return rc


def replay(path):
    wd = vlib.workdir(PROP + "-replay")
    binary = vlib.go_build("kvx", wd)
    mm = json.load(open(path))
    verdict = vlib.Verdict(PROP)
    if mm.get("replay", {}).get("kind") == "path":
        res = vlib.go_run(binary, "TestReplayOne", wd, env={"VERIF_IN": path})
        verdict.add_all(res["mismatches"])
    else:
        log("trace replays are re-run by the driver with the same VERIF_SEED: ./check C17")
        return 2
    return verdict.finish()


def selftest():
    """Demonstrates the binding: (1) Leg R against a deliberately wrong backend must find a
    mismatch; (2) a good trace with one corrupted reply must be rejected by TLC."""
    wd = vlib.workdir(PROP + "-selftest")
    binary = vlib.go_build("kvx", wd)
    v = vlib.Verdict("C17-selftest"); v.findings = []
    leg_r(wd, "quick", binary, v, backends=["stub-getfallthrough"])
    ok1 = any(":Get:" in m["sig"] or ":state" in m["sig"] for m in v.violations)
    log("selftest 1 (wrong stub backend detected by replay): %s" % ("ok" if ok1 else "FAILED"))
    # corrupted trace
    v2 = vlib.Verdict("C17-selftest"); v2.findings = []
    res = vlib.go_run(binary, "TestDriver", wd, env={"VERIF_L": 2, "VERIF_RANDOM": 0, "VERIF_SHARDS": 1, "VERIF_BACKENDS": "bolt"})
    p = os.path.join(wd, "kvtrace-0.ndjson")
    lines = open(p).read().splitlines()
    for i, l in enumerate(lines):
        e = json.loads(l)
        if e["op"] == "Get" and e.get("res") == "v1":
            e["res"] = "v2"; lines[i] = json.dumps(e, separators=(",", ":")); break
    open(p, "w").write("\n".join(lines) + "\n")
    _, rej, _ = validate_file(wd, p, "selftest", v2)
    ok2 = rej >= 1
    log("selftest 2 (corrupted logged reply rejected by TLC): %s" % ("ok" if ok2 else "FAILED"))
    # the implementation-shaped specs with a named deviation switched on must fail refinement
    ok3 = True
    for mod, cfg in (("KVCache", "KVCache_dev_get.cfg"), ("KVMem", "KVMem_dev_iter.cfg"), ("KVMem", "KVMem_dev_recreate.cfg")):
        x = vlib.run_tlc(wd, mod, cfg, workers=4, timeout=300)
        good = x.exit != 0 and x.violated is not None
        log("selftest 3 (%s: deviation breaks refinement of KV in TLC): %s" % (cfg, "ok" if good else "FAILED"))
        ok3 = ok3 and good
    return 0 if ok1 and ok2 and ok3 else 2
