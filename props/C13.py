"""C13 -- Rebasing a v2 transaction set yields proofs valid at the target index.

Leg M  spec/Pool.tla, family `rebase`: Rebase(set, from, to) for EVERY pair of nodes of a fork tree
       (same branch, across the fork, unknown, stored but never applied) x transaction sets with
       confirmed, ephemeral and mixed parents x corruptions, MaxDist = 3; the walk (revert block by
       block, apply block by block, drop confirmed, turn confirmed parents' outputs into confirmed
       inputs) is checked against the independent declarative statement RebaseResult / RebaseErrors;
       TxSet (V2TransactionSet) over every pool state and basis: ParentsFirst, BasisIsTip, TxSetErrors.
       Probes: DevEphDrop breaks RebaseErrorsStrict, DevStaleParents breaks TxSetErrorsStrict.
Leg R  edge covers of both graphs as stimulus paths on real nodes: every returned input's leaf index
       and Merkle proof is compared with the INDEPENDENT ledger's element at the target, kept ids,
       order and ephemeral flags are judged by TLC (PoolTrace.tla); corrupt proof / leaf index /
       basis must give an error and never a panic (recovered and reported).
Leg T  seeded random histories: random (from, to) among all applied nodes, near pairs, pairs around
       the real 144 limit on long branches (MaxDist = 144 in the trace cfg), sets incl. contract
       revisions, expirations and storage proofs, each kind of corruption; V2TransactionSet for new
       children of pooled transactions with current and stale bases; AddV2PoolTransactions with
       stale bases."""
import os, json, random, time
import vlib
from vlib import log
import C14 as P

PROP = "C13"


def run(tier):
    t0 = time.time()
    wd = vlib.workdir(PROP)
    verdict = vlib.Verdict(PROP)
    acc = P.acceptor(PROP)
    binary = vlib.go_build("poolx", wd)
    devs = P.deviations()
    rng = random.Random(vlib.seed()); rng2 = random.Random(vlib.seed() + 7)
    scens = P.rebase_scenarios(tier)
    scfile = P.write_scens(wd, scens, "rebase_m")
    q = tier == "quick"
    long_env = {"VERIF_LONG": 1, "VERIF_LONG_A": 72, "VERIF_LONG_B": 80, "VERIF_SCRIPTED": 6, "VERIF_SCRIPT_KINDS": "cross-kind-eviction,storage-proof,mixed-inputs,boundary,mixed-inputs,storage-proof"} if q else \
               {"VERIF_LONG": 6, "VERIF_LONG_A": 150, "VERIF_LONG_B": 230, "VERIF_SCRIPTED": 40, "VERIF_SCRIPT_KINDS": "cross-kind-eviction,storage-proof,mixed-inputs,boundary,mixed-inputs"}
    def mr(mc_cfg, what, name, rng_, maxlen):
        # the graph TLC checks in Leg M is the stimulus graph of Leg R: one run, invariants + edges
        m = P.leg_m(wd, mc_cfg, scfile, what, workers=4, emit=True, tag=name + "_mc")
        r = P.leg_r(wd, binary, PROP, mc_cfg, scens, name, rng_, verdict, devs, accept=acc, max_paths=(200 if q else None), max_len=maxlen, tlc=m)
        return m, r
    res = P.parallel({
        "mr1": lambda: mr("Pool_rebase_mc.cfg", "rebase family: every (from, to) pair, MaxDist = 3 (ideal rules)", "rebase", rng, 60),
        "mr2": lambda: mr("Pool_txset_mc.cfg", "V2TransactionSet over every pool state x basis (ideal rules)", "txset", rng2, 40),
        "p1": lambda: P.probe(wd, "Pool_dev_ephrebase.cfg", scfile, "DevEphDrop", ["RebaseErrorsP"], "probe_ephrebase"),
        "p2": lambda: P.probe(wd, "Pool_dev_staleparents.cfg", scfile, "DevStaleParents", ["TxSetErrorsP"], "probe_staleparents"),
        "t": lambda: P.leg_t(wd, binary, PROP, "c13", verdict, devs, histories=(48 if q else 700), steps=(40 if q else 70), accept=acc,
                             extra_env=long_env, timeout=3000),
    })
    res["m1"], res["r1"] = res["mr1"]
    res["m2"], res["r2"] = res["mr2"]
    ms, rr, tt = [res["m1"], res["m2"]], [res["r1"], res["r2"]], res["t"]
    probes = {"DevEphDrop breaks RebaseErrorsStrict": res["p1"], "DevStaleParents breaks TxSetErrorsStrict": res["p2"]}
    if not all(probes.values()):
        raise vlib.Infra("a named deviation no longer produces its design-level counterexample: %s" % probes)
    rc = verdict.finish()
    P.evidence(PROP, tier, ms, probes, rr, tt, t0, verdict,
               "family rebase: a 7-block fork tree (two branches, one block confirming a conflicting transaction), 9 transactions incl. parent/child, "
               "two-input child and a diamond; %d rebase sets x all 49 (from, to) pairs x {intact, corrupt proof} + unknown basis; MaxDist = 3 in Leg M, 144 in the trace cfg" % len(scens[0]["rsets"]),
               ["`from = to` returns the set as is (documented) and is not judged",
                "a rebased transaction whose element was spent on the way has nothing to be compared with at the target (counted as rebase_proofs_spent_at_target)",
                "UpdateV2TransactionSet makes no promise about the caller's slice; only AddV2PoolTransactions and V2TransactionSet inputs are deep-compared"])
    return rc


def replay(path):
    rec = json.load(open(path))
    seed = (rec.get("replay") or {}).get("seed")
    if seed is not None:
        os.environ["VERIF_SEED"] = str(seed)
    log("replaying with VERIF_SEED=%s: looking for %s" % (os.environ.get("VERIF_SEED", "1"), rec.get("sig")))
    return run("quick")


def selftest():
    wd = vlib.workdir(PROP + "-selftest")
    binary = vlib.go_build("poolx", wd)
    scens = P.rebase_scenarios("quick")

    def drop_kept(e):
        e["ids"] = e["ids"][:-1]; e["eph"] = e["eph"][:-1]

    def flip_eph(e):
        e["eph"] = [[] for _ in e["eph"]]

    def setk(k, v):
        def f(e):
            e[k] = v
        return f
    corr = [("a kept transaction is missing from the rebased set", lambda e: e["op"] == "Rebase" and e["r"] == "ok" and e["from"] != e["to"] and len(e["ids"]) >= 1, drop_kept),
            ("an error reported as success", lambda e: e["op"] == "Rebase" and e["r"] == "err" and e["corrupt"] == "proof", lambda e: e.update(r="ok", ids=[x["t"] for x in e["set"]], eph=[x["eph"] for x in e["set"]])),
            ("a proof differs from the ledger's at the target", lambda e: e["op"] == "Rebase" and e["r"] == "ok", setk("proofs", False)),
            ("a panic", lambda e: e["op"] == "Rebase", setk("nopanic", False)),
            ("success reported as error", lambda e: e["op"] == "Rebase" and e["r"] == "ok" and e["from"] != e["to"] and all(x["eph"] == [] for x in e["set"]), lambda e: e.update(r="err", ids=[], eph=[]))]
    ok = P.selftest_common(PROP, wd, binary, scens, "Pool_rebase_mc.cfg", "st13", corr, "rebase-identity", r"^audit:c13:rebase:proof-differs$")
    # the broadcast set
    corr2 = [("parents after their child", lambda e: e["op"] == "TxSet" and e["r"] == "ok" and len(e["ids"]) >= 2, lambda e: e.update(ids=e["ids"][::-1])),
             ("basis of the broadcast set is not the tip", lambda e: e["op"] == "TxSet" and e["r"] == "ok", lambda e: e.update(k=e["k"] + 1)),
             ("a pooled parent is missing", lambda e: e["op"] == "TxSet" and e["r"] == "ok" and len(e["ids"]) >= 2, lambda e: e.update(ids=e["ids"][1:]))]
    ok2 = P.selftest_common(PROP, wd, binary, scens, "Pool_txset_mc.cfg", "st13b", corr2, "lose-accepted", r"^audit:c05:retention:")
    scfile = P.write_scens(wd, scens, "probe")
    p1 = P.probe(wd, "Pool_dev_ephrebase.cfg", scfile, "DevEphDrop", ["RebaseErrorsP"], "probe_ephrebase")
    p2 = P.probe(wd, "Pool_dev_staleparents.cfg", scfile, "DevStaleParents", ["TxSetErrorsP"], "probe_staleparents")
    log("selftest 3 (named deviations break the strict properties in TLC): %s" % ("ok" if p1 and p2 else "FAILED"))
    return 0 if ok and ok2 and p1 and p2 else 2
