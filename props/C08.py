"""C08 -- Host commits only doubly-signed, monotone, value-conserving revisions.

Leg M: spec/Host.tla (family `revisions`): one contract, two (thorough: three) renter sessions interleaved at every
       stream read / write; free, append, sector roots, fund, replenish accounts / pools, renew / refresh, latest
       revision, each with every corruption class of every checked field (bad / stale challenge, signature over a
       different revision, replayed signature, expired / foreign / tampered price table, out-of-range parameters),
       abort at every round; RevMonotone, SignedCommit / DoublySigned, Immutable, PayoutSumConstant, NoHostToRenter,
       ExactCharge, BadRequestIsNoop, CommitHoldsLock / SerialisedPerContract on the complete reachable state space.
Leg R: every edge of the two-renter one-exchange graph is executed on the REAL rhp4.Server (raw exchanges built with
       core's encoders; renew / refresh through the real client with a message-level memnet proxy); after every
       commit both signatures are verified with core over the exact revision and a revision transaction is
       validated by consensus against the on-chain element.
Leg T: random sequences of 50-500 revising RPCs (about 10 % corrupted / replayed, aborts) validated by TLC, and a
       concurrent variant: 2-4 renter goroutines on one contract, the recorded Contractor calls (Lock / Commit /
       Unlock in the recorder's order) validated by TLC against the priced cost of the request each commit carries."""
import time
import vlib
from vlib import log
import C09 as H

PROP = "C08"
ALLOW, COLL = 600000, 1100000


def leg_m(wd, tier):
    cfgs = [("Host_revisions_quick.cfg", "Host/revisions two sessions, up to 2 commits")]
    if tier != "quick":
        cfgs += [("Host_revisions_thorough.cfg", "Host/revisions two sessions, up to 3 commits"),
                 ("Host_revisions_thorough3.cfg", "Host/revisions three sessions, up to 2 commits")]
    return H.run_model(wd, cfgs)


def leg_r(wd, tier, binary, verdict, stub="", max_paths=None):
    g, paths = H.export_paths(wd, "Host_revisions_edges.cfg", max_paths=max_paths, max_len=20)
    rr = H.run_replay(wd, binary, "revisions", paths, ALLOW, COLL, verdict, listable="none", stub=stub, shards=8)
    g.update(rr)
    return g


def leg_t(wd, tier, binary, verdict, stub=""):
    shards = 4 if tier == "quick" else 8
    env = {"VERIF_TRACES": 5 if tier == "quick" else 24, "VERIF_OPS": 70 if tier == "quick" else 330}
    d = H.run_driver(wd, binary, "revisions", shards, env, verdict, stub=stub)
    v = H.validate_traces(wd, d["files"], verdict, tag="seq")
    H.cleanup(d["files"])
    d.update(v)
    cenv = {"VERIF_TRACES": 3 if tier == "quick" else 12, "VERIF_OPS": 40 if tier == "quick" else 120}
    c = H.run_driver(wd, binary, "concurrent", shards, cenv, verdict, stub=stub)
    cv = H.validate_traces(wd, c["files"], verdict, tag="conc")
    H.cleanup(c["files"])
    c.update(cv)
    log("  T: concurrent renters: %d attempts, %d commits in %d traces" %
        (c["counts"].get("concurrent_attempts", 0), c["counts"].get("concurrent_commits", 0), c["traces"]))
    d["conc"] = c
    d["ovf"] = H.leg_overflow(wd, binary, verdict, stub=stub)
    d["gated"] = H.leg_gated(wd, binary, verdict, stub=stub)
    return d


def run(tier):
    t0 = time.time()
    wd = vlib.workdir(PROP)
    verdict = vlib.Verdict(PROP)
    binary = H.build(wd)
    ms = leg_m(wd, tier)
    rr = leg_r(wd, tier, binary, verdict)
    tt = leg_t(wd, tier, binary, verdict)
    rc = verdict.finish()
    tl = ms + [rr["tlc"]]
    cc = tt["conc"]
    cov = {
        "states": sum(m.distinct for m in tl) + tt["states"] + cc["states"], "transitions": sum(m.generated for m in tl),
        "traces_validated_against_impl": tt["accepted"] + cc["accepted"] + rr["replayed"],
        "exhaustive": bool(rr["full"]),
        "samples": vlib.trim_samples(rr["samples"] + tt["samples"] + cc["samples"], 3),
        "model": {"cfgs": [m.cmd.split()[-3].split("/")[-1] for m in ms],
                  "constants": "one contract of 2 sectors, 2 (thorough also 3) renter sessions, every revising RPC x every corruption class, aborts, small model prices with payments running out; complete reachable state space up to the commit bound"},
        "replay": {k: rr[k] for k in ("states", "edges", "paths", "covered", "replayed", "steps", "full", "mismatches")},
        "replay_graph": rr["histogram"],
        "trace_validation": {k: tt[k] for k in ("traces", "events", "accepted", "rejected", "suspect")},
        "concurrent": {"traces": cc["traces"], "events": cc["events"], "accepted": cc["accepted"], "rejected": cc["rejected"],
                       "attempts": cc["counts"].get("concurrent_attempts", 0), "commits": cc["counts"].get("concurrent_commits", 0)},
        "driver_counts": tt["counts"],
        "scheduled_concurrency": {"histories": tt["gated"]["counts"].get("gated_histories", 0), "events": tt["gated"]["events"],
                                  "explained_in_lock_order": tt["gated"]["accepted"] - tt["gated"]["second_order"],
                                  "explained_in_other_order": tt["gated"]["second_order"], "unexplained": tt["gated"]["rejected"],
                                  "target_checks": tt["gated"]["counts"].get("gated_target_checks", 0)},
        "amount_overflow": {"traces": tt["ovf"]["traces"], "events": tt["ovf"]["events"], "accepted": tt["ovf"]["accepted"],
                            "rejected": tt["ovf"]["rejected"], "counts": tt["ovf"]["counts"]},
        "evaluations": rr["steps"] + tt["gated"]["events"] + tt["ovf"]["events"] + tt["events"] + cc["events"], "distinct_nontrivial": rr["distinct"] + tt["traces"] + cc["traces"],
        "rule": "R: one evaluation per spec transition executed on the real host; T: one evaluation per recorded stream step (sequential) "
                "or per recorded Contractor call (concurrent) validated by TLC; distinct by (action, arguments, resulting state) resp. by trace",
    }
    vlib.write_evidence(PROP, tier, "model_checking", cov, H.ASSUMPTIONS + [
        "consensus acceptability is checked with consensus.ValidateV2Transaction on a throw-away MidState of the tip state (the pool is not touched)",
        "renew / refresh: the new contract is checked concretely (signatures, revision 0, roots carried over); its on-chain confirmation is C16's"],
        time.time() - t0, len(verdict.violations))
    return rc


def replay(path):
    return H.replay_record(path, PROP)


def selftest():
    """(1) replay against a contractor that hands one unit back to the renter in every commit finds mismatches;
    (2) the same wrong contractor under the concurrent driver: TLC rejects the recorded commits;
    (3) a good trace with an altered renter payout is rejected by TLC."""
    wd = vlib.workdir(PROP + "-selftest")
    binary = H.build(wd)
    v = vlib.Verdict(PROP + "-selftest"); v.findings = []
    leg_r(wd, "quick", binary, v, stub="refund", max_paths=500)
    ok1 = any(m["sig"].endswith(":rout") or m["sig"].endswith(":concrete") or m["sig"].endswith(":hout") for m in v.violations)
    log("selftest (replay against a contractor that refunds one unit per commit finds the divergence): %s" % ("ok" if ok1 else "FAILED"))
    v2 = vlib.Verdict(PROP + "-selftest"); v2.findings = []
    c = H.run_driver(wd, binary, "concurrent", 1, {"VERIF_TRACES": 1, "VERIF_OPS": 25}, v2, stub="refund")
    cv = H.validate_traces(wd, c["files"], v2, tag="st")
    H.cleanup(c["files"])
    ok2 = cv["rejected"] >= 1
    log("selftest (concurrent trace of the refunding contractor rejected by TLC): %s" % ("ok" if ok2 else "FAILED"))
    ok3 = H.corrupted_trace_rejected(wd, binary, "revisions", {"VERIF_TRACES": 2, "VERIF_OPS": 30, "VERIF_GENTLE": 1}, "rout")
    r = vlib.go_run(binary, "TestOracles", wd)
    ok4 = r["exit"] == 0
    log("selftest (signature / consensus oracles accept a genuine revision and reject altered ones): %s" % ("ok" if ok4 else "FAILED"))
    return 0 if ok1 and ok2 and ok3 and ok4 else 2
