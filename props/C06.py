"""C06 -- Wallet ledger equals the chain's truth for its address across reorgs.
Leg M: WalletLedger.tla on abstract trees materialised from REAL blocks (one per real tree and wallet
persona): the property itself (events keyed on the payee; all invariants), the pinned-tree variant
(named deviations of known_findings.json), design-level probes, liveness.  Leg R: edge cover of the
state graph replayed on a real chain.Manager + wallet.SingleAddressWallet over the reference store,
complete projected wallet state compared after every action, property audits against the
independent linear-replay ledger after every chunk.  Leg T: randomised C02-style histories (invalid
blocks, orphans, deep reorgs) with the wallet synchronising in chunks of 1..7, every recorded call
validated by TLC against WalletLedgerTrace.tla."""
import os, re, json, random, time, concurrent.futures as cf
import vlib
from vlib import log

PROP = "C06"
PKG = "walletledx"
DEV = {"C06-claim-event": "DevClaimEvent", "C06-renewal-payee": "DevRenewalPayee"}
SIZES = {  # tier -> (random small trees per regime, blocks per random small tree, histories, min blocks, max blocks)
    "quick": (2, 8, 24, 20, 45),
    "thorough": (24, 14, 1500, 30, 120),
}
ROLES = ["miner", "foundation", "claim:only", "claim:owner", "v1valid", "v1missed", "v2renter:renewal", "v2renter:proof",
         "v2renter:expiration", "v2host:renewal", "v2host:proof", "v2host:expiration", "payment", "spender", "ephemeral"]


def assumed_fixed():
    """VERIF_C06_FIXED=C06-claim-event,C06-renewal-payee: treat these findings as repaired (to try a
    candidate fix in a scratch tree -- tools/seedtest.sh style -- before known_findings.json is edited)"""
    return {x for x in os.environ.get("VERIF_C06_FIXED", "").split(",") if x}


def open_findings():
    return [f for f in vlib.load_findings(PROP) if f.get("status") == "open" and f.get("id") not in assumed_fixed()]


def open_devs():
    """deviation constants that are TRUE: the findings of this property that are still open"""
    return {DEV[f["id"]] for f in open_findings() if f.get("id") in DEV}


def faithful_cfg(wd, name):
    """The cfg faithful to the tree under verification: a deviation stays switched on only while its
    finding is open; once none is, the property's own invariants are checked on the wallet state."""
    txt = open(os.path.join(vlib.SPEC, "cfg", name)).read()
    on = open_devs()
    for c in DEV.values():
        txt = re.sub(r"%s = (TRUE|FALSE)" % c, "%s = %s" % (c, "TRUE" if c in on else "FALSE"), txt)
    if not on:
        txt = txt.replace("INVARIANTS TypeOK", "INVARIANTS EventsExact FlowBalance FlowBalanceEverywhere TypeOK")
    p = os.path.join(wd, "faithful_" + name)
    open(p, "w").write(txt)
    return p


def gen_trees(wd, binary, tier, only=None):
    per, blocks = SIZES[tier][:2]
    env = {"VERIF_PER_REGIME": per, "VERIF_TREE_BLOCKS": blocks}
    if only:
        env["VERIF_ONLY_SCENARIO"] = only
    res = vlib.go_run(binary, "TestGenTrees", wd, env=env)
    missing = [r for r in ROLES if not res["counts"].get("role:" + r)]
    if missing and not only:
        raise vlib.Infra("the small trees do not put the wallet address in these roles: %s" % missing)
    if not only and not res["counts"].get("pinned_blocks"):
        raise vlib.Infra("no small tree has a block whose pinned expiration order differs from the store's own (chain.WithExpiringContractOrder is not exercised)")
    return os.path.join(wd, "wl_trees.json"), json.load(open(os.path.join(wd, "wl_specs.json"))), json.load(open(os.path.join(wd, "wl_refs.json"))), res


def leg_m(wd, tier, trees):
    """five independent TLC runs, three at a time (2 workers each)"""
    env = {"TREES": trees}
    jobs = {
        "ideal": ("WalletLedger_ideal.cfg", None),
        "pinned": (faithful_cfg(wd, "WalletLedger_pinned.cfg"), "pinned"),
        "probe_claim": ("WalletLedger_probe_claim.cfg", None),
        "probe_renewal": ("WalletLedger_probe_renewal.cfg", None),
        "live": ("WalletLedger_live.cfg", None),
    }
    with cf.ThreadPoolExecutor(max_workers=3) as ex:
        futs = {k: ex.submit(vlib.run_tlc, wd, "MCWalletLedger", cfg, workers=2, timeout=1500, env=env, tag=tag) for k, (cfg, tag) in jobs.items()}
        rs = {k: f.result() for k, f in futs.items()}
    out = {}
    r = rs["ideal"]
    vlib.tlc_must_pass(r, "WalletLedger (the property: events keyed on the payee)")
    log("  M: the property (no deviation), all invariants: %d distinct states, %d transitions, depth %d, %.1fs" % (r.distinct, r.generated, r.depth, r.wall))
    out["ideal"] = r
    f = rs["pinned"]
    vlib.tlc_must_pass(f, "WalletLedger (pinned tree: deviations %s)" % sorted(open_devs()))
    log("  M: pinned tree (deviations on: %s): %d distinct states, %d transitions, %.1fs" % (sorted(open_devs()) or "none", f.distinct, f.generated, f.wall))
    out["pinned"] = f
    probes = {}
    for fid, key, cfg in (("C06-claim-event", "probe_claim", "WalletLedger_probe_claim.cfg"), ("C06-renewal-payee", "probe_renewal", "WalletLedger_probe_renewal.cfg")):
        x = rs[key]
        hit = x.exit != 0 and x.violated == "FlowBalance"
        probes[cfg] = hit
        log("  M: probe %s: %s" % (cfg, "TLC finds a history violating FlowBalance under the rule of update.go" if hit else "NO counterexample (%s)" % (x.error or x.violated)))
        if not hit:
            raise vlib.Infra("the model no longer exhibits deviation %s: %s\n%s" % (fid, x.error, x.out[-1500:]))
    lv = rs["live"]
    vlib.tlc_must_pass(lv, "WalletLedger liveness (Settles)")
    log("  M: liveness Settles under fairness on Chunk: %d distinct states, %.1fs" % (lv.distinct, lv.wall))
    out["live"] = lv
    out["probes"] = probes
    return out


def leg_r(wd, tier, binary, trees, specs, refs, verdict, fault="", oracle_fault="", max_paths=None, tag="replay"):
    r = vlib.run_tlc(wd, "MCWalletLedger", faithful_cfg(wd, "WalletLedger_pinned_edges.cfg"), workers=1, timeout=1500, env={"TREES": trees}, tag="edges")
    vlib.tlc_must_pass(r, "WalletLedger edge export")
    by_tree = {}
    for raw in r.edges.raw:
        tnum = int(re.search(r'"t":(\d+)', raw).group(1))
        by_tree.setdefault(tnum, vlib.EdgeList()).append_raw(raw)
    rng = random.Random(vlib.seed())
    paths = []
    nst = ned = 0
    for t, es in sorted(by_tree.items()):
        s, n = vlib.graph_stats(es)
        nst += s; ned += n
        paths.extend(vlib.path_cover(es, max_paths=None, rng=rng, max_len=30))
    full = len(paths)
    if max_paths and len(paths) > max_paths:
        rng.shuffle(paths)
        paths = paths[:max_paths]
    cov = len({vlib.canon([e["from"], e["act"], e["to"]]) for p in paths for e in p})
    inp = os.path.join(wd, "replay_in_%s.json" % tag)
    json.dump({"specs": specs, "refs": refs, "paths": paths, "fault": fault, "oracleFault": oracle_fault}, open(inp, "w"))
    res = vlib.go_run(binary, "TestReplay", wd, env={"VERIF_IN": inp}, timeout=2400, tag=tag)
    os.remove(inp)
    verdict.add_all(res["mismatches"])
    log("  R: graph %d states / %d edges over %d abstract trees; %d of %d cover paths replayed (%d edges), %d steps, %d chunks (%d ending on a revert), %d audits, %d mismatch records, %.1fs" %
        (nst, ned, len(by_tree), len(paths), full, cov, res["evaluations"], res["counts"].get("chunks", 0),
         res["counts"].get("chunks_ending_on_a_revert", 0), res["counts"].get("audits", 0), len(res["mismatches"]), res["wall"]))
    return dict(states=nst, edges=ned, paths=len(paths), cover_paths=full, covered=cov, steps=res["evaluations"], distinct=res["distinct"],
                samples=res["samples"], counts=res.get("counts", {}), full=(cov == ned), trees=len(by_tree))


def split_traces(path):
    cur = []; start = 0
    with open(path) as f:
        for i, line in enumerate(f):
            if line.startswith('{"op":"Reset"') and cur:
                yield start, cur
                cur = []; start = i
            cur.append(line)
    if cur:
        yield start, cur


def validate_shard(wd, i, verdict, cfgp):
    path = os.path.join(wd, "wltrace-%d.ndjson" % i)
    trees = os.path.join(wd, "wltrees-%d.json" % i)
    events = vlib.count_lines(path)
    if events == 0:
        return 0, 0, 0
    rejected = 0; states = 0
    for it in range(8):
        ok, r, consumed = vlib.validate_trace(wd, "WalletLedgerTrace", cfgp, path, timeout=2400, tag="wt%d_%d" % (i, it), extra_env={"TREES": trees})
        states += r.distinct
        if ok:
            break
        if consumed is None:
            raise vlib.Infra("wallet trace validation broke: %s\n%s" % (r.error, r.out[-3000:]))
        traces = list(split_traces(path))
        bad = None
        for start, lines in traces:
            if start <= consumed < start + len(lines) or (consumed == start + len(lines) and r.violated):
                bad = (start, lines)
        if bad is None:
            bad = traces[-1]
        start, lines = bad
        k = min(consumed - start, len(lines) - 1)
        ev = json.loads(lines[k])
        rejected += 1
        what = r.violated or "no WalletLedger action explains the recorded call"
        sig = "trace:%s:%s:%s" % (PROP, ev.get("op"), (r.violated or "unexplained").split()[0])
        verdict.add({"sig": sig,
                     "desc": "TLC rejects a recorded execution at event %d (%s): %s" % (k, json.dumps(ev)[:700], what),
                     "replay": {"kind": "trace", "events": [json.loads(x) for x in lines[:k + 1]][-30:], "tlc": r.out[-1500:]}})
        with open(path, "w") as f:
            for s2, l2 in traces:
                if s2 != start:
                    f.writelines(l2)
        if vlib.count_lines(path) == 0:
            break
    return events, rejected, states


def leg_t(wd, tier, binary, verdict, fault="", histories=None):
    _, _, nh, lo, hi = SIZES[tier]
    if histories:
        nh = histories
    shards = 12
    env = {"VERIF_HISTORIES": nh, "VERIF_SHARDS": shards, "VERIF_MIN_BLOCKS": lo, "VERIF_MAX_BLOCKS": hi}
    if fault:
        env["VERIF_FAULT"] = fault
    res = vlib.go_run(binary, "TestDriver", wd, env=env, timeout=3000, tag="driver")
    verdict.add_all(res["mismatches"])
    cfgp = faithful_cfg(wd, "WalletLedgerTrace.cfg")
    t0 = time.time()
    tot = rej = st = 0
    with cf.ThreadPoolExecutor(max_workers=8) as ex:
        futs = [ex.submit(validate_shard, wd, i, verdict, cfgp) for i in range(shards)]
        for fu in futs:
            e, r_, s = fu.result()
            tot += e; rej += r_; st += s
    c = res.get("counts", {})
    log("  T: %d histories (tree x persona) / %d events on real managers and wallets: %d adopts, %d chunks (%d ending on a revert, %d revert+apply, %d blocks reverted), %d audits; "
        "driver %.1fs, TLC validated in %.1fs, %d traces rejected" %
        (res["traces"], tot, c.get("adopts", 0), c.get("chunks", 0), c.get("chunks_ending_on_a_revert", 0), c.get("chunks_revert_then_apply", 0),
         c.get("reverted_blocks", 0), c.get("audits", 0), res["wall"], time.time() - t0, rej))
    for i in range(shards):
        for f in ("wltrace-%d.ndjson" % i, "wltrees-%d.json" % i):
            try:
                os.remove(os.path.join(wd, f))
            except OSError:
                pass
    return dict(traces=res["traces"] - rej, events=tot, rejected=rej, trace_states=st, samples=res["samples"], counts=c, blocks_per_history=[lo, hi])


def run(tier):
    t0 = time.time()
    wd = vlib.workdir(PROP)
    verdict = vlib.Verdict(PROP)
    verdict.findings = [f for f in verdict.findings if f.get("id") not in assumed_fixed()]
    binary = vlib.go_build(PKG, wd)
    trees, specs, refs, gen = gen_trees(wd, binary, tier)
    log("  materialised %d real trees (%d blocks, %d on valid chains) -> %d abstract trees (tree x wallet persona); roles of the wallet address: %s" %
        (gen["counts"]["real_trees"], gen["counts"]["blocks"], gen["counts"]["valid_blocks"], len(refs),
         ", ".join("%s %d" % (r, gen["counts"].get("role:" + r, 0)) for r in ROLES)))
    t1 = time.time()
    log("  %d worlds run their managers with chain.WithExpiringContractOrder; %d blocks expire two or more v1 contracts in a pinned order other than the store's own" %
        (gen["counts"].get("pinned_worlds", 0), gen["counts"].get("pinned_blocks", 0)))
    m = leg_m(wd, tier, trees)
    t2 = time.time()
    rr = leg_r(wd, tier, binary, trees, specs, refs, verdict)
    t3 = time.time()
    tt = leg_t(wd, tier, binary, verdict)
    log("  wall: build+trees %.0fs, M %.0fs, R %.0fs, T %.0fs" % (t1 - t0, t2 - t1, t3 - t2, time.time() - t3))
    rc = verdict.finish()
    ms = [m["ideal"], m["pinned"], m["live"]]
    cov = {
        "states": sum(x.distinct for x in ms), "transitions": sum(x.generated for x in ms),
        "traces_validated_against_impl": rr["paths"] + tt["traces"],
        "samples": vlib.trim_samples(rr["samples"] + tt["samples"] + gen["samples"], 3),
        "evaluations": rr["steps"] + tt["events"], "distinct_nontrivial": rr["distinct"] + tt["traces"],
        "rule": "R: one evaluation per spec transition (Adopt / Chunk) replayed on a real manager + wallet with the complete wallet state compared, "
                "distinct by (tree, persona, action, resulting tip, resulting wallet position); T: one evaluation per recorded call of the randomised "
                "driver validated by TLC, distinct by (history tree, persona)",
        "model": {"real_trees": gen["counts"]["real_trees"], "abstract_trees": len(refs), "blocks": gen["counts"]["blocks"],
                  "chunk_sizes": [1, 2, 3, 5, 7],
                  "worlds_with_pinned_expiration_order": gen["counts"].get("pinned_worlds", 0),
                  "blocks_with_a_pinned_order_other_than_the_stores": gen["counts"].get("pinned_blocks", 0), "value_abstraction": "residues modulo 65521 in TLC, exact big integers in the audits",
                  "deviations_on": sorted(open_devs()), "design_probes": m["probes"],
                  "wallet_roles_in_small_trees": {r: gen["counts"].get("role:" + r, 0) for r in ROLES}},
        "replay": {k: rr[k] for k in ("states", "edges", "paths", "cover_paths", "covered", "steps", "full", "trees")},
        "replay_counts": {k: v for k, v in rr["counts"].items() if not k.startswith(("role:", "event:"))},
        "trace_validation": {k: v for k, v in tt.items() if k not in ("samples", "counts")},
        "driver_counts": {k: v for k, v in tt["counts"].items() if not k.startswith("event:")},
    }
    vlib.write_evidence(PROP, tier, "model_checking", cov, [
        "the wallet is fed as the package's users feed it: UpdatesSince(index, max) then store.UpdateChainState(wallet.UpdateChainState(tx, reverted, applied)) with the reference store testutil.EphemeralWalletStore; the harness itself keeps the index the stream left the wallet at",
        "wallet-relevant event = an event that changes the address' siacoins (what wallet/update.go itself records); pure siafund movements are not events",
        "go.sia.tech/core (consensus rules, accumulator membership) is the trusted oracle; the linear-replay ledger and the per-block wallet views use only core",
        "v1 contracts share a window end only in worlds whose managers pin the expiration order (chain.WithExpiringContractOrder; the oracle ledger applies the same order) -- without a pin their ORDER is history dependent (C02's known finding); Balance().Spendable and .Unconfirmed are compared only while the manager's pool is empty (a reorg re-pools the reverted transactions), .Confirmed and .Immature always",
        "TLC sees currency values modulo 65521 (sums commute with the reduction); the exact equation is evaluated on the real wallet after every chunk",
    ], time.time() - t0, len(verdict.violations))
    return rc


def replay(path):
    wd = vlib.workdir(PROP + "-replay")
    binary = vlib.go_build(PKG, wd)
    mm = json.load(open(path))
    verdict = vlib.Verdict(PROP)
    kind = mm.get("replay", {}).get("kind")
    if kind in ("path", "driver"):
        res = vlib.go_run(binary, "TestReplayOne", wd, env={"VERIF_IN": path})
        verdict.add_all(res["mismatches"])
        log("replayed %s record: %d mismatches" % (kind, len(res["mismatches"])))
    else:
        log("trace records are re-produced by the driver with the same VERIF_SEED: ./check C06")
        return 2
    return verdict.finish()


def selftest():
    """(1) replay against deliberately wrong update transactions (events kept on revert, spent outputs
    not restored on revert, proofs not updated on revert) must find mismatches; (2) a mutated oracle
    must be noticed; (3) a good trace with one corrupted field must be rejected by TLC; (4) a trace
    recorded from a wrong wallet must be rejected; (5) with a deviation switched on the property's own
    invariants must fail in TLC (design probes)."""
    wd = vlib.workdir(PROP + "-selftest")
    binary = vlib.go_build(PKG, wd)
    trees, specs, refs, _ = gen_trees(wd, binary, "quick", only="v")   # the contract scenarios
    ok = True
    expect = {"keep-events-on-revert": r"replay:state:events|audit:c06:events:leftover",
              "drop-unspent-on-revert": r"replay:state:utxo|audit:c06:utxo:missing|replay:chunk:error",
              "stale-proofs-on-revert": r"audit:c06:proof"}
    for fault, pat in expect.items():
        v = vlib.Verdict(PROP + "-selftest"); v.findings = []
        leg_r(wd, "quick", binary, trees, specs, refs, v, fault=fault, max_paths=400, tag="st_" + fault)
        hit = [m["sig"] for m in v.violations if re.search(pat, m["sig"])]
        log("selftest 1 (%s detected by replay): %s %s" % (fault, "ok" if hit else "FAILED", sorted(set(hit))[:3]))
        ok = ok and bool(hit)
    v = vlib.Verdict(PROP + "-selftest"); v.findings = []
    leg_r(wd, "quick", binary, trees, specs, refs, v, oracle_fault="drop-miner-events", max_paths=200, tag="st_oracle")
    hit = [m["sig"] for m in v.violations if m["sig"] == "audit:c06:events:extra"]
    log("selftest 2 (oracle without miner events disagrees with the real wallet): %s" % ("ok" if hit else "FAILED"))
    ok = ok and bool(hit)
    # corrupted trace
    res = vlib.go_run(binary, "TestDriver", wd, env={"VERIF_HISTORIES": 2, "VERIF_SHARDS": 1, "VERIF_MIN_BLOCKS": 20, "VERIF_MAX_BLOCKS": 30}, tag="st_driver")
    p = os.path.join(wd, "wltrace-0.ndjson")
    good = open(p).read().splitlines()
    cfgp = faithful_cfg(wd, "WalletLedgerTrace.cfg")
    v0 = vlib.Verdict(PROP + "-selftest"); v0.findings = []
    _, rej0, _ = validate_shard(wd, 0, v0, cfgp)
    log("selftest 3a (uncorrupted trace accepted): %s" % ("ok" if rej0 == 0 else "FAILED"))
    ok = ok and rej0 == 0

    def corrupt(mut, what):
        lines = list(good)
        done = False
        for i, l in enumerate(lines):
            e = json.loads(l)
            if e["op"] == "Chunk" and mut(e):
                lines[i] = json.dumps(e, separators=(",", ":")); done = True
                break
        open(p, "w").write("\n".join(lines) + "\n")
        vv = vlib.Verdict(PROP + "-selftest"); vv.findings = []
        _, rej, _ = validate_shard(wd, 0, vv, cfgp)
        log("selftest 3 (%s -> rejected by TLC): %s" % (what, "ok" if done and rej >= 1 else "FAILED"))
        return done and rej >= 1

    def m_maturity(e):
        if e["utxo"]:
            e["utxo"][-1][2] += 1
            return True
    def m_leaf(e):
        if e["utxo"]:
            e["utxo"][-1][3] += 1
            return True
    def m_event(e):
        if len(e["ev"]) > 1:
            e["ev"].pop()
            return True
    def m_stream(e):
        if len(e["aus"]) > 1:
            e["aus"] = e["aus"][:-1]
            return True
    ok = corrupt(m_maturity, "maturity height of one stored output off by one") and ok
    ok = corrupt(m_leaf, "leaf index of one stored output off by one") and ok
    ok = corrupt(m_event, "one stored event removed") and ok
    ok = corrupt(m_stream, "one applied block dropped from the recorded stream") and ok
    # a trace recorded from a wrong wallet
    vlib.go_run(binary, "TestDriver", wd, env={"VERIF_HISTORIES": 6, "VERIF_SHARDS": 1, "VERIF_MIN_BLOCKS": 25, "VERIF_MAX_BLOCKS": 40,
                                               "VERIF_FAULT": "keep-events-on-revert"}, tag="st_driver2")
    vv = vlib.Verdict(PROP + "-selftest"); vv.findings = []
    _, rej, _ = validate_shard(wd, 0, vv, cfgp)
    log("selftest 4 (trace of a wallet that keeps events of reverted blocks rejected by TLC): %s" % ("ok" if rej >= 1 else "FAILED"))
    ok = ok and rej >= 1
    for cfg in ("WalletLedger_probe_claim.cfg", "WalletLedger_probe_renewal.cfg"):
        alltrees, _, _, _ = gen_trees(wd, binary, "quick")
        x = vlib.run_tlc(wd, "MCWalletLedger", cfg, workers=4, timeout=600, env={"TREES": alltrees})
        good5 = x.exit != 0 and x.violated == "FlowBalance"
        log("selftest 5 (%s: deviation breaks FlowBalance in TLC): %s" % (cfg, "ok" if good5 else "FAILED"))
        ok = ok and good5
    return 0 if ok else 2
