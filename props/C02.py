"""C02 -- Chain state depends only on the best chain, not on the reorgs witnessed."""
import chainlib, chaintrace

def run(tier):
    return chainlib.run_family("C02", tier, "Chain_core.cfg", "Chain_core_edges.cfg",
                               {"quick": (1, 5), "thorough": (5, 6)}, deep=True,
                               probes=[("Chain_ledger.cfg", ["LedgerIsFold"])], quick_paths=2500,
                               extra=chaintrace.leg_t("C02"))
