"""C07 -- Wallet funding never double-allocates, conserves value, and yields valid spends.
Leg M: WalletFund.tla (permissive selection, exact success/failure) exhaustively on small
instances: Disjoint, Conservation, LiveValid, PoolValid, NoOrphanLocks, ViewsAgree, Eligible,
FailReservesNothing, ReservationEnds.  Leg R: edge cover of the code-policy schedule graph
(MCWalletFund!PolicySpec) replayed on the real wallet.SingleAddressWallet over a real
chain.Manager; reply and all views compared per step while the wallet follows the policy edge,
and every realized run validated by TLC against the permissive specification.  Leg T: long
random sequential sessions and concurrent hammering sessions, every call one TLC-validated
event (WalletFundTrace.tla)."""
import os, json, random, time, glob, re, concurrent.futures as cf
import vlib
from vlib import log

PROP = "C07"
PKG = "walletx"

M_CFGS = {
    "quick": ["WalletFund_quick_core.cfg", "WalletFund_quick_rs.cfg", "WalletFund_quick_rw.cfg", "WalletFund_quick_mbq.cfg"],
    "thorough": ["WalletFund_mc_core.cfg", "WalletFund_mc_rs.cfg", "WalletFund_mc_rw.cfg", "WalletFund_quick_mb.cfg"],
}
R_CFGS = {
    "quick": ["WalletFund_edges_q1.cfg", "WalletFund_edges_q2.cfg", "WalletFund_edges_q3.cfg", "WalletFund_edges_q4.cfg", "WalletFund_edges_q5.cfg"],
    "thorough": ["WalletFund_edges_q1.cfg", "WalletFund_edges_q2.cfg", "WalletFund_edges_q3.cfg", "WalletFund_edges_q4.cfg", "WalletFund_edges_q5.cfg",
                 "WalletFund_edges_t3.cfg", "WalletFund_edges_t4.cfg", "WalletFund_edges_t5.cfg"],
}
ASSUMPTIONS = [
    "values are hastings-scale (< 2^31) so that TLC does the arithmetic; Currency overflow is not explored; conservation is ALSO computed with types.Currency in the harness",
    "reservation clock: 1 tick = 600 ms of real time, a reservation of rt ticks lasts rt*400 ms (rt=0: 1ns); a run is only judged if every wallet call was measured inside the 120 ms window after its tick boundary (otherwise repeated), rt <= 2",
    "chain updates reach the wallet store atomically w.r.t. wallet calls (AddBlocks+UpdateChainState never interleave with a Fund); in concurrent sessions pool/chain changes and Balance/SpendableOutputs observations happen while no wallet call is in flight, the wallet calls themselves (Fund v1/v2, Redistribute, ReleaseInputs) race freely and are ordered by a stamp taken under the wallet mutex (store wrapper); ReleaseInputs is an interval",
    "a transaction funded from an unconfirmed output made by a transaction of the OTHER version (v1/v2) is expected to be rejected by the pool until that parent confirms (a transaction set cannot carry parents of the other version)",
    "empty (reward) blocks are only mined while no known v2 transaction spends an unconfirmed output: chain.Manager drops/refuses to rebase such transactions across a block that leaves the parent unconfirmed (pool/rebase policy, properties C05/C13)",
    "releasing or broadcasting a transaction whose reservation already lapsed while a newer request holds one of its inputs is caller misuse and not exercised; SplitUTXO may fail for any reason but must then leave no trace; RecommendedFee is an environment input (wrapper around the real chain.Manager)",
    "store lag: the chain manager accepts k (1..8) blocks the wallet store is not fed -- empty as far as the wallet is concerned, optionally after a reorg abandoning 1-2 empty blocks the store had indexed -- then Fund*/Redistribute/SplitUTXO/Release/broadcast run and the store catches up; lag blocks that confirm pool transactions or pay the wallet, and restarts/mining during the lag, are not exercised",
    "restart = wallet closed, fresh chain.Manager over the same chain store (the pool is not persisted), wallet re-opened over the same wallet store",
    "TLC, the Go runtime and go.sia.tech/core consensus validation are trusted",
]


# ------------------------------------------------------------------ Leg M

def leg_m(wd, tier):
    rs = []
    with cf.ThreadPoolExecutor(max_workers=4) as ex:
        futs = [(c, ex.submit(vlib.run_tlc, wd, "MCWalletFund", c, 3 if tier == "quick" else 5, 1500)) for c in M_CFGS[tier]]
        for c, fu in futs:
            r = fu.result()
            vlib.tlc_must_pass(r, "WalletFund " + c)
            log("  M: %s: %d distinct states, %d transitions, depth %d, %.1fs" % (c, r.distinct, r.generated, r.depth, r.wall))
            rs.append(r)
    return rs


# ------------------------------------------------------------------ Leg R

def canon_state(x):
    """All arrays in the exported states are sets: sort them recursively."""
    if isinstance(x, dict):
        return {k: canon_state(v) for k, v in x.items()}
    if isinstance(x, list):
        return sorted((canon_state(v) for v in x), key=vlib.canon)
    return x


def build_paths(edges, rng, max_len, max_paths):
    """Edge cover of the exported graph (several initial states) by paths of at most max_len
    calls, each starting in an initial state.  Greedy walk through uncovered edges; when the walk
    is stuck it moves on through already covered edges to a nearby state (<= 3 steps) that still
    has uncovered out-edges, so paths get long and few (every path costs a fresh chain + wallet
    and up to two real-time ticks)."""
    edges = [e for e in edges]        # parse (vlib keeps the raw JSON text)
    sid = {}; states = []
    def ident(st):
        k = vlib.canon(st)
        v = sid.get(k)
        if v is None:
            v = sid[k] = len(states); states.append(st)
        return v
    E = []; seen = set()
    for e in edges:
        e["from"] = canon_state(e["from"]); e["to"] = canon_state(e["to"])
        e["reply"] = canon_state(e["reply"]); e["obs"] = canon_state(e["obs"])
        f, t = ident(e["from"]), ident(e["to"])
        k = (f, vlib.canon(e["act"]), vlib.canon(e["reply"]), t)
        if k in seen:
            continue
        seen.add(k)
        E.append((f, t, e))
    succ = {}
    has_in = set()
    for j, (f, t, e) in enumerate(E):
        succ.setdefault(f, []).append(j)
        if f != t:
            has_in.add(t)
    inits = [i for i in range(len(states)) if i in succ and i not in has_in]
    # BFS tree from the initial states
    parent = {i: None for i in inits}
    order = list(inits)
    for s0 in order:
        for j in succ.get(s0, []):
            t = E[j][1]
            if t not in parent:
                parent[t] = j; order.append(t)
    def prefix(s0):
        p = []
        while parent[s0] is not None:
            j = parent[s0]; p.append(j); s0 = E[j][0]
        p.reverse()
        return p
    covered = [False] * len(E)
    open_out = {s0: sum(1 for j in js) for s0, js in succ.items()}     # uncovered out-edges per state
    def take(j, p):
        p.append(j)
        if not covered[j]:
            covered[j] = True; open_out[E[j][0]] -= 1
    def nearby(cur, radius):
        """shortest edge list (<= radius) from cur to a state with uncovered out-edges"""
        frontier = [(cur, [])]; seen_s = {cur}
        for _ in range(radius):
            nxt = []
            for s0, pth in frontier:
                for j in succ.get(s0, []):
                    t = E[j][1]
                    if t in seen_s:
                        continue
                    seen_s.add(t)
                    if open_out.get(t, 0) > 0:
                        return pth + [j]
                    nxt.append((t, pth + [j]))
            frontier = nxt
        return None
    todo = list(range(len(E)))
    rng.shuffle(todo)
    paths = []
    for j0 in todo:
        if covered[j0] or E[j0][0] not in parent:
            continue
        p = []
        for j in prefix(E[j0][0]):
            take(j, p)
        take(j0, p)
        cur = E[j0][1]
        while len(p) < max_len:
            nxt = [j for j in succ.get(cur, []) if not covered[j]]
            if nxt:
                j = rng.choice(nxt)
                take(j, p); cur = E[j][1]
                continue
            hop = nearby(cur, 3)
            if hop is None or len(p) + len(hop) >= max_len:
                break
            for j in hop:
                take(j, p)
            cur = E[p[-1]][1]
        paths.append(p)
    total = len(E)
    if max_paths and len(paths) > max_paths:
        # sample; but every Redistribute/SplitUTXO call that is possible in an INITIAL state (the
        # rare, structurally different results: single batch, several batches, partial success,
        # failure) keeps one path that makes it
        rng.shuffle(paths)
        init_set = set(inits)
        want = {j for j, (f, t, e) in enumerate(E) if f in init_set and e["act"]["op"] in ("Redist", "Split")}
        keep, rest = [], []
        for p in paths:
            hit = want.intersection(p)
            if hit:
                want -= hit; keep.append(p)
            else:
                rest.append(p)
        # ... and up to three paths per graph in which a set the pool already knew is broadcast by
        # the wallet and the wallet is restarted afterwards (is the set recorded and re-loaded?)
        def prebcast_then_restart(p):
            seen = False
            for j in p:
                a, rp = E[j][2]["act"], E[j][2]["reply"]
                if a["op"] == "Bcast" and a.get("pre") and rp.get("r") == "acc":
                    seen = True
                elif seen and a["op"] == "Restart":
                    return True
            return False
        special = [p for p in rest if prebcast_then_restart(p)][:3]
        rest = [p for p in rest if not any(p is q for q in special)]
        keep += special
        paths = (keep + rest)[:max(max_paths, len(keep))]
    cov = set()
    for p in paths:
        cov.update(p)
    out = [[E[j][2] for j in p] for p in paths]
    return out, len(inits), total, len(cov), len(states)


def to_path_input(p):
    s0 = p[0]["from"]
    owned = sorted(s0["owned"], key=lambda o: o["id"])
    assert [o["id"] for o in owned] == list(range(1, len(owned) + 1))
    return {"cfg": s0["cfg"], "owned": [{"v": o["v"], "m": o["m"]} for o in owned],
            "steps": [{"act": e["act"], "reply": e["reply"], "obs": e["obs"]} for e in p]}


def leg_r(wd, tier, binary, verdict, stub="", cfgs=None, max_paths=None):
    rng = random.Random(vlib.seed())
    cfgs = cfgs or R_CFGS[tier]
    if max_paths is None:
        max_paths = 260 if tier == "quick" else None
    all_paths = []
    stats = dict(states=0, edges=0, covered=0, graphs=len(cfgs), inits=0, tlc_states=0, tlc_transitions=0)
    with cf.ThreadPoolExecutor(max_workers=4) as ex:
        futs = [(c, ex.submit(vlib.run_tlc, wd, "MCWalletFund", c, 1, 900)) for c in cfgs]
        for c, fu in futs:
            r = fu.result()
            vlib.tlc_must_pass(r, "WalletFund edge export " + c)
            per = None if max_paths is None else max(20, max_paths // len(cfgs))
            paths, ninit, total, covered, nst = build_paths(r.edges, rng, 40, per)
            log("  R: %s: %d states / %d edges from %d initial states; %d paths cover %d edges" % (c, nst, total, ninit, len(paths), covered))
            stats["states"] += nst; stats["edges"] += total; stats["covered"] += covered; stats["inits"] += ninit
            stats["tlc_states"] += r.distinct; stats["tlc_transitions"] += r.generated
            all_paths += [to_path_input(p) for p in paths]
    inp = os.path.join(wd, "replay_in.json")
    json.dump({"stub": stub, "workers": 24 if tier == "quick" else 96, "paths": all_paths}, open(inp, "w"))
    res = vlib.go_run(binary, "TestReplay", wd, env={"VERIF_IN": inp}, timeout=2400)
    verdict.add_all(res["mismatches"])
    c = res["counts"]
    log("  R: %d paths / %d steps replayed on the real wallet (%d compared step-by-step with the policy edge, %d paths diverged to another admissible selection, %d steps not enabled, %d paths dropped for timing), %d Go-side mismatches, %.1fs"
        % (c.get("paths", 0), c.get("steps", 0), c.get("onpath", 0), c.get("diverged", 0), c.get("skipped", 0), c.get("timing_dropped", 0), len(res["mismatches"]), res["wall"]))
    if c.get("timing_dropped", 0) > max(3, len(all_paths) // 5):
        raise vlib.Infra("too many replay paths missed their timing windows (%d of %d): machine too loaded" % (c["timing_dropped"], len(all_paths)))
    tv = validate_all(wd, "walletfund-r-", verdict, "replay")
    stats.update(paths=len(all_paths), steps=c.get("steps", 0), onpath=c.get("onpath", 0), diverged=c.get("diverged", 0),
                 skipped=c.get("skipped", 0), timing_dropped=c.get("timing_dropped", 0), distinct=res["distinct"],
                 samples=res["samples"], traces=res["traces"], full=(stats["covered"] == stats["edges"]), counts=c, tv=tv)
    return stats


# ------------------------------------------------------------------ trace validation

def split_sessions(path):
    cur = []; start = 0
    with open(path) as f:
        for i, line in enumerate(f):
            if '"op":"Reset"' in line and cur:
                yield start, cur
                cur = []; start = i
            cur.append(line)
    if cur:
        yield start, cur


def out_sig(kind, o):
    """Signature of a divergence REPORTED by TLC (an "OUT" line of WalletFundTrace)."""
    ev = o["ev"]; what = sorted(o["what"]); want = o.get("want", {})
    if ev["op"] == "Obs" and what == ["spendable-list"]:
        extra = set(ev["list"]) - set(want.get("list", []))
        missing = set(want.get("list", [])) - set(ev["list"])
        if extra and not missing and extra <= set(want.get("v2spent", [])):
            return "%s:Obs:spendable-list:v2-pool-spent" % kind
    if ev["op"] == "Obs" and set(what) <= {"balance-spendable", "balance-confirmed", "balance-immature"} and want.get("lag", 0) > 0 \
            and ev["conf"] == want.get("confm") and ev["sp"] == want.get("spm"):
        return "%s:Obs:balance-maturity-under-lag" % kind
    if ev["op"] == "Fund" and "dup-input" in what:
        return "%s:Fund:dup-input" % kind + (":ineligible" if "ineligible" in what else "")
    return "%s:%s:%s" % (kind, ev["op"], "+".join(what))


def validate_file(wd, path, tag, verdict, kind):
    """TLC-validates one NDJSON file of sessions.  Divergences TLC reports and survives ("OUT")
    become mismatches; on a rejection the failing session is reported, dropped, and the rest
    re-validated (so one divergence does not hide the others)."""
    events = vlib.count_lines(path)
    rejected = 0; states = 0; reported = 0
    seen = set()
    if events == 0:
        return 0, 0, 0, 0
    for it in range(8):
        ok, r, consumed = vlib.validate_trace(wd, "WalletFundTrace", "WalletFundTrace.cfg", path, timeout=1500, tag="%s_%d" % (tag, it))
        states += r.distinct
        if r.violated:
            # an invariant of the specification failed on a state reached by the real wallet
            consumed = consumed if consumed is not None else 0
        if ok or consumed is not None:
            lines = None
            for o in r.prints:
                if lines is None:
                    lines = open(path).read().splitlines()
                sess, rel = session_of(lines, o["line"] - 1)
                key = "%s:%d" % (sess.get("tag"), rel)
                if key in seen:     # already reported by an earlier pass over this file
                    continue
                seen.add(key)
                reported += 1
                verdict.add({"sig": out_sig(kind, o),
                             "desc": "TLC reports %s at event %s of %s (options %s): specification says %s" %
                                     (sorted(o["what"]), json.dumps(o["ev"]), sess.get("tag"), json.dumps(sess.get("cfg")), json.dumps(o.get("want"))),
                             "replay": {"kind": "trace", "events": trace_prefix(lines, o["line"] - 1)}})
        if ok:
            break
        if consumed is None:
            raise vlib.Infra("trace validation broke (no high-water mark): %s\n%s" % (r.error, r.out[-2500:]))
        sessions = list(split_sessions(path))
        bad = None
        for start, lines in sessions:
            if start <= consumed < start + len(lines):
                bad = (start, lines)
        if bad is None:
            raise vlib.Infra("cannot locate failing event %d in %s" % (consumed, path))
        start, lines = bad
        ev = json.loads(lines[consumed - start]); hdr = json.loads(lines[0])
        rejected += 1
        sig = "%s:%s:%s:%s" % (kind, ev.get("op"), ev.get("r", "-"), r.violated or "unexplained")
        if ev.get("op") == "Fund" and ev.get("r") == "ok" and not ev.get("cons", True):
            sig = "%s:Fund:not-conserved" % kind
        if ev.get("badbasis"):
            sig = "%s:%s:basis-not-wallet-tip" % (kind, ev.get("op"))
        if ev.get("op") == "Bcast" and ev.get("r") == "rej" and ev.get("misordered"):
            sig = "%s:Bcast:parent-order" % kind
        verdict.add({"sig": sig,
                     "desc": "TLC rejects event %d of %s (options %s): %s (violated: %s)" %
                             (consumed - start, hdr.get("tag"), json.dumps(hdr.get("cfg")), json.dumps(ev), r.violated or "no WalletFund action explains it"),
                     "replay": {"kind": "trace", "events": [json.loads(x) for x in lines[:consumed - start + 1]]}})
        with open(path, "w") as f:
            for s2, l2 in sessions:
                if s2 != start:
                    f.writelines(l2)
        if vlib.count_lines(path) == 0:
            break
    else:
        log("  more than 8 rejected sessions in %s; the rest is not validated" % tag)
    return events, rejected, states, reported


def session_of(lines, idx):
    """(Reset event of the session containing line idx, index of that line within the session)"""
    idx = min(idx, len(lines) - 1)
    i = idx
    while i > 0 and '"op":"Reset"' not in lines[i]:
        i -= 1
    try:
        return json.loads(lines[i]), idx - i
    except Exception:
        return {}, idx - i


def trace_prefix(lines, idx):
    i = min(idx, len(lines) - 1)
    s = i
    while s > 0 and '"op":"Reset"' not in lines[s]:
        s -= 1
    return [json.loads(x) for x in lines[s:i + 1]]


def validate_all(wd, prefix, verdict, kind):
    files = sorted(f for f in os.listdir(wd) if f.startswith(prefix) and f.endswith(".ndjson"))
    t0 = time.time()
    tot = dict(events=0, rejected=0, states=0, reported=0, files=len(files))
    with cf.ThreadPoolExecutor(max_workers=8) as ex:
        futs = [ex.submit(validate_file, wd, os.path.join(wd, f), f.replace(".ndjson", ""), verdict, kind) for f in files]
        for fu in futs:
            ev, rej, st, rep = fu.result()
            tot["events"] += ev; tot["rejected"] += rej; tot["states"] += st; tot["reported"] += rep
    tot["wall"] = round(time.time() - t0, 1)
    for f in files:
        try:
            os.remove(os.path.join(wd, f))
        except OSError:
            pass
    return tot


# ------------------------------------------------------------------ Leg T

def leg_t(wd, tier, binary, verdict, race_binary=None):
    nseq = 90 if tier == "quick" else 1200
    nconc = 30 if tier == "quick" else 400
    res = vlib.go_run(binary, "TestSessions", wd, env={"VERIF_SESSIONS": nseq, "VERIF_WORKERS": 32}, timeout=2400)
    verdict.add_all(res["mismatches"])
    dropped = res["counts"].get("timing_dropped", 0)
    if dropped > max(3, nseq // 5):
        raise vlib.Infra("too many sessions missed their timing windows (%d of %d): machine too loaded" % (dropped, nseq))
    tv = validate_all(wd, "walletfund-s-", verdict, "trace")
    log("  T(i): %d random sequential sessions / %d events from the real wallet in %.1fs (%d dropped for timing); TLC validated in %.1fs: %d sessions rejected, %d divergences reported"
        % (res["traces"], tv["events"], res["wall"], dropped, tv["wall"], tv["rejected"], tv["reported"]))
    resc = vlib.go_run(race_binary or binary, "TestConcurrent", wd, env={"VERIF_CONC": nconc, "VERIF_SHARDS": 8}, timeout=2400)
    verdict.add_all(resc["mismatches"])
    tvc = validate_all(wd, "walletfund-c-", verdict, "trace")
    log("  T(ii): %d concurrent sessions (%d goroutines in total%s) / %d events in %.1fs; TLC validated in %.1fs: %d sessions rejected, %d divergences reported"
        % (resc["traces"], resc["counts"].get("goroutines", 0), ", -race" if race_binary else "", tvc["events"], resc["wall"], tvc["wall"], tvc["rejected"], tvc["reported"]))
    return dict(seq=dict(sessions=res["traces"], dropped=dropped, counts=res["counts"], **tv),
                conc=dict(sessions=resc["traces"], counts=resc["counts"], race=bool(race_binary), **tvc),
                samples=res["samples"] + resc["samples"], distinct=res["distinct"] + resc["distinct"])


def leg_g(wd, tier, binary, verdict, case=None):
    """Gated pairs: every operation A x every call A makes out of the wallet x every operation B
    on the real wallet; TLC searches the linearization (WalletFundTrace!TPar)."""
    env = {"VERIF_HOLD_MS": 60 if tier == "quick" else 150, "VERIF_WORKERS": 24, "VERIF_SHARDS": 6}
    if case:
        env["VERIF_GATE_CASE"] = case
    res = vlib.go_run(binary, "TestGated", wd, env=env, timeout=1800)
    verdict.add_all(res["mismatches"])
    tv = validate_all(wd, "walletfund-g-", verdict, "gate")
    c = res["counts"]
    log("  T(iii): %d gated pairs (%d distinct gate points; B ran to completion while A was parked in %d, waited for A in %d) / %d events in %.1fs; TLC found a linearization for all but %d, %d divergences reported, %.1fs"
        % (c.get("cases", 0), c.get("gate_points", 0), c.get("b-completed-while-a-parked", 0), c.get("b-waited-for-a", 0),
           tv["events"], res["wall"], tv["rejected"], tv["reported"], tv["wall"]))
    return dict(cases=c.get("cases", 0), gate_points=c.get("gate_points", 0), counts=c, samples=res["samples"],
                distinct=res["distinct"], sessions=res["traces"], **tv)


# ------------------------------------------------------------------ entry points

def run(tier):
    t0 = time.time()
    wd = vlib.workdir(PROP)
    verdict = vlib.Verdict(PROP)
    binary = vlib.go_build(PKG, wd)
    race_binary = vlib.go_build(PKG, wd, race=True) if tier == "thorough" else None
    with cf.ThreadPoolExecutor(max_workers=1) as bg:      # the model runs while the real wallet is replayed
        fm = bg.submit(leg_m, wd, tier)
        rr = leg_r(wd, tier, binary, verdict)
        ms = fm.result()
    tt = leg_t(wd, tier, binary, verdict, race_binary)
    gg = leg_g(wd, tier, binary, verdict)
    rc = verdict.finish()
    ok_traces = (rr["traces"] - rr["tv"]["rejected"]) + (tt["seq"]["sessions"] - tt["seq"]["rejected"]) + (tt["conc"]["sessions"] - tt["conc"]["rejected"]) + (gg["sessions"] - gg["rejected"])
    cov = {
        "states": sum(m.distinct for m in ms) + rr["tlc_states"], "transitions": sum(m.generated for m in ms) + rr["tlc_transitions"],
        "traces_validated_against_impl": ok_traces,
        "exhaustive": False,
        "samples": vlib.trim_samples(rr["samples"] + tt["samples"], 3),
        "model": {"cfgs": M_CFGS[tier], "distinct_states": [m.distinct for m in ms], "transitions": [m.generated for m in ms],
                  "bounds": "<= 3 initial outputs, <= 2-3 requests, <= 2 ticks, option sets {default-like, all-zero, tiny}; every interleaving and EVERY admissible selection within the bounds; multi-batch Redistribute (incl. partial success) with batch size 1 in the model"},
        "replay": {k: rr[k] for k in ("graphs", "inits", "states", "edges", "covered", "full", "paths", "steps", "onpath", "diverged", "skipped", "timing_dropped")},
        "replay_trace_validation": rr["tv"],
        "trace_validation": {"sequential": tt["seq"], "concurrent": tt["conc"], "gated_pairs": {k: v for k, v in gg.items() if k != "samples"}},
        "evaluations": rr["steps"] + tt["seq"]["events"] + tt["conc"]["events"] + gg["events"],
        "distinct_nontrivial": rr["distinct"] + tt["distinct"] + gg["distinct"],
        "rule": "R: one evaluation per replayed call of an edge-cover path (reply and all views compared with the policy edge while on it), distinct by (options, initial wallet, call, expected views); "
                "T: every wallet call / chain event of a random or concurrent session is one TLC-validated event, distinct by (seed, session); "
                "gated pairs: one session per (pre-state, operation A, call A makes out of the wallet, operation B), TLC searching the linearization",
        "known_findings_hit": dict(verdict.known),
    }
    vlib.write_evidence(PROP, tier, "model_checking", cov, ASSUMPTIONS, time.time() - t0, len(verdict.violations))
    return rc


def replay(path):
    path = os.path.abspath(path)
    wd = vlib.workdir(PROP + "-replay")
    binary = vlib.go_build(PKG, wd)
    mm = json.load(open(path))
    verdict = vlib.Verdict(PROP)
    rp = mm.get("replay") or {}
    kind = rp.get("kind")
    if kind in ("path", "session"):
        res = vlib.go_run(binary, "TestReplayOne", wd, env={"VERIF_IN": path})
        verdict.add_all(res["mismatches"])
        validate_all(wd, "walletfund-one-", verdict, "replay" if kind == "path" else "trace")
    elif kind == "gate":
        c = rp["case"]
        leg_g(wd, "thorough", binary, verdict, case="%s/%s@%s#%d/%s" % (c["pre"], c["a"], c["gate"], c["nth"], c["b"]))
    elif kind == "trace":
        p = os.path.join(wd, "walletfund-one-0.ndjson")
        with open(p, "w") as f:
            for e in rp["events"]:
                f.write(json.dumps(e, separators=(",", ":")) + "\n")
        log("re-validating the recorded events with TLC (re-run the driver with the same VERIF_SEED to re-record them)")
        validate_all(wd, "walletfund-one-", verdict, "trace")
    else:
        log("unknown replay record")
        return 2
    return verdict.finish()


def selftest():
    """Demonstrates the binding: (1) replay against a wallet that forgets its reservations must
    produce mismatches (Go step comparison AND TLC rejection of the realized runs); (2) a good
    trace with one corrupted field must be rejected by TLC; (3) the specification with a named
    deviation switched on must violate the corresponding invariant in TLC."""
    wd = vlib.workdir(PROP + "-selftest")
    binary = vlib.go_build(PKG, wd)
    v = vlib.Verdict("C07-selftest"); v.findings = []
    st = leg_r(wd, "quick", binary, v, stub="nolock", cfgs=["WalletFund_edges_q3.cfg"], max_paths=60)
    go_side = [m for m in v.violations if m["sig"] == "replay:Obs:balance-spendable"]    # never seen on the real wallet
    ok1 = bool(go_side) and st["tv"]["rejected"] >= 1
    log("selftest 1 (wallet that forgets reservations: %d Balance.Spendable step-comparison mismatches, TLC rejects %d realized runs): %s"
        % (len(go_side), st["tv"]["rejected"], "ok" if ok1 else "FAILED"))
    # corrupted traces
    ok2 = True
    res = vlib.go_run(binary, "TestSessions", wd, env={"VERIF_SESSIONS": 16, "VERIF_WORKERS": 8, "VERIF_SHARDS": 1})
    p = os.path.join(wd, "walletfund-s-0.ndjson")
    good = open(p).read().splitlines()

    def check(lines, tag):
        q = os.path.join(wd, "walletfund-x-0.ndjson")
        open(q, "w").write("\n".join(lines) + "\n")
        v2 = vlib.Verdict("C07-selftest"); v2.findings = []
        _, rej, _, rep = validate_file(wd, q, "selftest_" + re.sub(r"[^A-Za-z0-9]+", "_", tag)[:30], v2, "trace")
        os.remove(q)
        return rej, rep
    rej0, rep0 = check(good, "good")
    if rej0:
        log("selftest 2: the unmodified trace is rejected: FAILED")
        return 2

    def corrupt(name, pred, mut):
        lines = list(good)
        for i, l in enumerate(lines):
            e = json.loads(l)
            if pred(e):
                mut(e); lines[i] = json.dumps(e, separators=(",", ":")); break
        else:
            log("selftest 2 (%s): no suitable event in the trace: FAILED" % name)
            return False
        rej, rep = check(lines, name)
        good_ok = rej > rej0 or rep > rep0
        log("selftest 2 (one %s corrupted -> TLC rejects %d sessions, reports %d divergences; unmodified: %d, %d): %s"
            % (name, rej, rep, rej0, rep0, "ok" if good_ok else "FAILED"))
        return good_ok
    ok2 &= corrupt("change value", lambda e: e["op"] == "Fund" and e["r"] == "ok" and not e["dup"] and e["d"][0]["made"],
                   lambda e: e["d"][0]["made"][0].__setitem__(1, e["d"][0]["made"][0][1] + 1))
    ok2 &= corrupt("selected input id", lambda e: e["op"] == "Fund" and e["r"] == "ok" and not e["dup"] and len(e["d"][0]["ins"]) >= 1,
                   lambda e: e["d"][0]["ins"].__setitem__(0, 999))
    ok2 &= corrupt("Balance.Spendable", lambda e: e["op"] == "Obs" and e["sp"] > 0, lambda e: e.__setitem__("sp", e["sp"] - 1))
    ok2 &= corrupt("pool verdict", lambda e: e["op"] == "Bcast" and e["r"] == "acc", lambda e: e.__setitem__("r", "rej"))
    ok2 &= corrupt("successful Fund turned into NotEnoughFunds", lambda e: e["op"] == "Fund" and e["r"] == "ok" and not e["dup"],
                   lambda e: e.update(r="nef", d=[]))
    # a NotEnoughFunds reply for an amount the wallet could afford (the preceding Obs shows how much)
    prev = {}
    def affordable(e):
        ok = e["op"] == "Fund" and e["r"] == "nef" and not e["unc"] and prev.get("op") == "Obs" and prev.get("sp", 0) >= 1
        prev.clear(); prev.update(e)
        return ok
    sp_before = {}
    def lower(e):
        e["amt"] = 1
    ok2 &= corrupt("NotEnoughFunds amount lowered to an affordable one", affordable, lower)
    ok2 &= corrupt("Release event (dropped hookless observation)", lambda e: e["op"] == "Release", lambda e: e.__setitem__("op", "Obs") or e.update(sp=0, conf=0, imm=0, unc=0, list=[]))
    # gated pairs: a Par block whose two calls took the same output has no linearization
    vg = vlib.Verdict("C07-selftest"); vg.findings = []
    vlib.go_run(binary, "TestGated", wd, env={"VERIF_GATE_CASE": "fresh/FundV2@cm.PoolTransactions#1/FundV2", "VERIF_SHARDS": 1})
    pg = os.path.join(wd, "walletfund-g-0.ndjson")
    gl = [json.loads(x) for x in open(pg).read().splitlines()]
    k = next(i for i, e in enumerate(gl) if e["op"] == "Par")
    rej_good = check([json.dumps(e, separators=(",", ":")) for e in gl], "par_good")[0]
    gl[k + 2]["d"][0]["ins"] = list(gl[k + 1]["d"][0]["ins"])
    rej_bad = check([json.dumps(e, separators=(",", ":")) for e in gl], "par_shared")[0]
    ok4 = rej_good == 0 and rej_bad == 1
    log("selftest 4 (gated pair: recorded run accepted in some order: %s; both calls given the same input -> no linearization: %s): %s"
        % (rej_good == 0, rej_bad == 1, "ok" if ok4 else "FAILED"))
    os.remove(pg)
    # named deviations must violate the invariants in TLC
    ok3 = True
    for cfg, inv in (("WalletFund_dev_views.cfg", "ViewsAgree"), ("WalletFund_dev_dup.cfg", "Conservation"),
                     ("WalletFund_dev_redist.cfg", "NoOrphanLocks"), ("WalletFund_dev_lagbal.cfg", "ViewsAgree")):
        x = vlib.run_tlc(wd, "MCWalletFund", cfg, workers=4, timeout=600)
        good3 = x.exit != 0 and x.violated == inv
        log("selftest 3 (%s: TLC reports %s violated: %s): %s" % (cfg, inv, x.violated, "ok" if good3 else "FAILED"))
        ok3 = ok3 and good3
    return 0 if ok1 and ok2 and ok3 and ok4 else 2
