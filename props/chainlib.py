"""Shared orchestration for the Chain.tla properties (C01, C02, C03, C04, C19): materialise small
fork trees from real blocks (harness/chainx TestGenTrees), model-check Chain.tla on them (Leg M),
export the explored graph and replay an edge cover on real nodes (Leg R), run the randomised
drivers on large trees and validate their traces with ChainTrace.tla (Leg T)."""
import os, re, json, random, time, concurrent.futures as cf
import vlib
from vlib import log


def gen_trees(wd, binary, per_regime, blocks, prop=""):
    res = vlib.go_run(binary, "TestGenTrees", wd, env={"VERIF_PER_REGIME": per_regime, "VERIF_TREE_BLOCKS": blocks, "VERIF_PROP": prop})
    trees = os.path.join(wd, "trees.json")
    specs = json.load(open(os.path.join(wd, "specs.json")))
    return trees, specs, res


def leg_m(wd, cfg, trees, timeout=900, workers=8, tag=None):
    r = vlib.run_tlc(wd, "MCChain", cfg, workers=workers, timeout=timeout, env={"TREES": trees}, tag=tag)
    vlib.tlc_must_pass(r, cfg)
    log("  M: %s: %d distinct states, %d transitions, depth %d, %.1fs" % (cfg, r.distinct, r.generated, r.depth, r.wall))
    return r


def leg_m_expect_violation(wd, cfg, trees, prop_names, timeout=600, tag=None):
    """For a named deviation: TLC must find the design-level counterexample (else the model no longer
    represents the finding)."""
    r = vlib.run_tlc(wd, "MCChain", cfg, workers=4, timeout=timeout, env={"TREES": trees}, tag=tag)
    return r


def leg_r(wd, binary, cfg, trees, specs, verdict, max_paths, max_len=40, test="TestReplay", extra_env=None, tag=None, only=None):
    # one graph per tree (initial states differ).  The exported graph of the thorough tier is ~1 GB
    # of JSON text: edges are spooled to one file per tree and each tree is covered separately.
    spool = os.path.join(wd, "edges_%s" % (tag or "r"))
    os.makedirs(spool, exist_ok=True)
    files = {}
    def sink(raw):
        tnum = int(re.search(r'"t":(\d+)', raw).group(1))
        f = files.get(tnum)
        if f is None:
            f = files[tnum] = open(os.path.join(spool, "%d.ndjson" % tnum), "w")
        f.write(raw); f.write("\n")
    r = vlib.run_tlc(wd, "MCChain", cfg, workers=1, timeout=2400, env={"TREES": trees}, tag=tag, edge_sink=sink)
    for f in files.values():
        f.close()
    vlib.tlc_must_pass(r, cfg)
    by_tree = sorted(files)
    rng = random.Random(vlib.seed())
    nst = ned = 0
    per_tree_cap = None if not max_paths else max(max_paths // max(len(by_tree), 1), 40)
    full = npaths = 0
    agg = {"evaluations": 0, "distinct": 0, "mismatches": [], "samples": [], "counts": {}, "wall": 0.0}
    import shutil as _sh
    for t in by_tree:
        es = vlib.EdgeList()
        with open(os.path.join(spool, "%d.ndjson" % t)) as f:
            for line in f:
                es.append_raw(line.rstrip("\n"))
        s, n = vlib.graph_stats(es)
        nst += s; ned += n
        ps = vlib.path_cover(es, max_paths=per_tree_cap, rng=rng, max_len=max_len, raw_out=True)
        del es
        npaths += len(ps)
        # the replay input is assembled from the raw edge text (never parsed in Python)
        inp = os.path.join(wd, "replay_in_%s.json" % (tag or "r"))
        with open(inp, "w") as f:
            f.write('{"specs":' + json.dumps(specs) + ',"paths":[')
            f.write(",".join("[" + ",".join(p) + "]" for p in ps))
            f.write("]}")
        del ps
        env = {"VERIF_IN": inp}
        if extra_env:
            env.update(extra_env)
        res = vlib.go_run(binary, test, wd, env=env, timeout=1800, tag=(tag or "replay"))
        os.remove(inp)
        verdict.add_all(res["mismatches"])
        agg["evaluations"] += res["evaluations"]; agg["distinct"] += res["distinct"]; agg["wall"] += res["wall"]
        agg["mismatches"] += res["mismatches"]
        if not agg["samples"]:
            agg["samples"] = res["samples"]
        for k, v in res.get("counts", {}).items():
            if k != "trees":
                agg["counts"][k] = agg["counts"].get(k, 0) + v
    _sh.rmtree(spool, ignore_errors=True)
    res = agg
    cov = agg["counts"].get("edges_replayed", 0)
    full = agg["counts"].get("paths", npaths)
    log("  R: %s graph %d states / %d edges over %d trees; %d cover paths replayed%s, %d steps, %d mismatches, %.1fs" %
        (cfg, nst, ned, len(by_tree), npaths, " (sampled: %d per tree)" % per_tree_cap if per_tree_cap else " (full edge cover)", res["evaluations"], len(res["mismatches"]), res["wall"]))
    return dict(states=nst, edges=ned, paths=npaths, cover_paths=npaths, covered=(ned if not per_tree_cap else None), steps=res["evaluations"],
                distinct=res["distinct"], samples=res["samples"], counts=res.get("counts", {}), tlc=r)


def probe(wd, cfg, trees, expect, tag=None):
    """Runs a cfg in which a NAMED DEVIATION (or an idealised rule) makes TLC report a design-level
    counterexample.  Returns True iff TLC reported a violation of one of `expect`."""
    r = vlib.run_tlc(wd, "MCChain", cfg, workers=4, timeout=900, env={"TREES": trees}, tag=tag)
    hit = r.exit != 0 and r.violated is not None and any(x in (r.violated or "") or x in r.out for x in expect)
    log("  M: probe %s: %s (violated: %s)" % (cfg, "design-level counterexample found" if hit else "no counterexample", r.violated))
    return hit, r


# which harness findings belong to which property's statement (a ledger-set mismatch seen while
# checking C04 is not a violation of C04: it is reported by the checks of C02/C03/C19)
ACCEPT = {
    "C01": r"^(replay:|trace:|driver:c01|audit:c01)",
    "C02": r"^(replay:|trace:|driver:c02|audit:c02|audit:c01:tipstate)",
    "C03": r"^(replay:|trace:|driver:c03|audit:c01|audit:c02:(utxo|contract|expiry-set|twin))",
    "C04": r"^(replay:|trace:|driver:c04)",
    "C19": r"^(replay:|trace:|driver:c19|audit:c01|audit:c02:(utxo|contract|expiry-set))",
}
# replay mismatches on the expiration ORDER are the C02 finding seen through the spec comparison
NOT_FOR = {"C01": r"led-order", "C03": r"led-order", "C04": r"led-order", "C19": r"led-order"}


class FilteredVerdict(vlib.Verdict):
    def add(self, mm):
        import re
        sig = mm.get("sig", "")
        if not re.search(ACCEPT[self.prop], sig):
            return
        if self.prop in NOT_FOR and re.search(NOT_FOR[self.prop], sig):
            return
        super().add(mm)


def run_family(prop, tier, mc_cfg, edge_cfg, sizes, deep=False, probes=(), assumptions=(), quick_paths=4000, extra=None, live_cfg=None, thorough_paths=None):
    import time as _t
    t0 = _t.time()
    wd = vlib.workdir(prop)
    verdict = FilteredVerdict(prop)
    binary = vlib.go_build("chainx", wd)
    per, blocks = sizes[tier]
    trees, specs, gen = gen_trees(wd, binary, per, blocks, prop)
    m = leg_m(wd, mc_cfg, trees, timeout=1500)
    live = None
    if live_cfg:
        # liveness under fairness, without VIEW or CONSTRAINT, on the first trees only
        k = 6 if tier == "quick" else 16
        sub = os.path.join(wd, "trees_live.json")
        json.dump(json.load(open(trees))[:k], open(sub, "w"))
        live = leg_m(wd, live_cfg, sub, timeout=1500, workers=4)
    probe_res = {}
    for cfg, expect in probes:
        hit, _ = probe(wd, cfg, trees, expect)
        probe_res[cfg] = hit
    env = {"VERIF_DEEP": "1"} if deep else {}
    rr = leg_r(wd, binary, edge_cfg, trees, specs, verdict, max_paths=(quick_paths if tier == "quick" else thorough_paths), extra_env=env)
    pre = None
    if prop in ("C01", "C02", "C04"):
        # the regime the fork trees cannot reach: pre-Oak retargeting (every 500 blocks, from the
        # timestamp of the 1000th ancestor) on a chain of 1503 real blocks -- tip states vs the
        # independent ledger, a batch-fed side-chain node vs the linear one, update-stream states
        try:
            pre = vlib.go_run(binary, "TestPreOak", wd, timeout=900, tag="preoak")
        except vlib.Infra:
            if not verdict.violations:
                raise
            pre = {"mismatches": [], "counts": {}, "wall": 0.0, "evaluations": 0}   # the run already has its verdict
        verdict.add_all(pre["mismatches"])
        log("  P: pre-Oak chain of %d blocks (Oak hardfork at 1500 and beyond the chain): %d findings, %.1fs" % (pre.get("counts", {}).get("preoak_blocks", 0), len(pre["mismatches"]), pre["wall"]))
    if prop == "C19":
        # a backlog no fork tree has: 3400 real blocks pruned in one call (and again, and in steps)
        try:
            lp = vlib.go_run(binary, "TestLongPrune", wd, timeout=900, tag="longprune")
        except vlib.Infra:
            if not verdict.violations:
                raise
            lp = {"mismatches": [], "counts": {}, "wall": 0.0}
        verdict.add_all(lp["mismatches"])
        log("  P: chain of %d blocks pruned in one call: %d findings, %.1fs" % (lp.get("counts", {}).get("long_blocks", 0), len(lp["mismatches"]), lp["wall"]))
    tt = None
    if extra:
        tt = extra(wd, binary, tier, verdict)
    rc = verdict.finish()
    cov = {"states": m.distinct, "transitions": m.generated,
           "traces_validated_against_impl": rr["paths"] + (tt["traces"] if tt else 0),
           "samples": vlib.trim_samples(rr["samples"] + gen["samples"] + (tt["samples"] if tt else []), 3),
           "evaluations": rr["steps"] + (tt["events"] if tt else 0), "distinct_nontrivial": rr["distinct"] + (tt["traces"] if tt else 0),
           "rule": "R: one evaluation per spec transition replayed on a real node, distinct by (tree, action, resulting best chain); "
                   "T: one evaluation per recorded event of the randomised driver, distinct by trace",
           "model": {"cfg": mc_cfg, "trees": len(specs), "tree_blocks": blocks, "depth": m.depth},
           "replay": {k: rr[k] for k in ("states", "edges", "paths", "cover_paths", "covered", "steps")},
           "replay_counts": rr["counts"], "design_probes": probe_res}
    if live:
        cov["liveness"] = {"cfg": live_cfg, "states": live.distinct, "transitions": live.generated, "property": "CatchUp under FairSpec (SF on Poll, WF on reorg steps)"}
        cov["states"] += live.distinct; cov["transitions"] += live.generated
    if pre:
        cov["pre_oak_chain"] = {"blocks": pre.get("counts", {}).get("preoak_blocks", 0), "polls": pre.get("counts", {}).get("preoak_polls", 0), "oak_height": 1500}
        cov["evaluations"] += pre["evaluations"]
    if tt:
        cov["trace_validation"] = {k: v for k, v in tt.items() if k != "samples"}
    vlib.write_evidence(prop, tier, "model_checking", cov, list(assumptions) + [
        "go.sia.tech/core (consensus rules, accumulator membership) is the trusted oracle; the linear-replay ledger uses only core",
        "tree classes and the heavier-than relation are computed from the real blocks/states, never assumed"], _t.time() - t0, len(verdict.violations))
    return rc
