"""C10 -- A successful renter RPC is cryptographically bound, whatever the host does.
Leg M: Renter.tla -- the fault space (Catalog) and the acceptance rule, checked by TLC over all
fault plans against an abstract client.  Leg R: TLC exports every behaviour Init -> Start(rpc,
variant, plan) -> Deliver*; harness/renterx executes exactly these plans against the REAL client
functions of rhp/v4/rpc.go talking to a REAL honest rhp4.Server through a man in the middle that
decodes, corrupts (re-signing with the host key), re-encodes and forwards each host message, and
evaluates `bound` from ground truth.  Leg T: the recorded outcomes are validated by TLC against
RenterTrace.tla (membership in the fault space, acceptance rule, SuccessImpliesBound)."""
import os, json, time, random
import vlib
from vlib import log

PROP = "C10"
INFORMATIONAL = ("LatestRevision", "AccountBalance")
UNSERVABLE = ("ReadUnaligned", "FreeOutOfRange", "ReadInvalid", "RootsOutOfRange", "AppendEmpty")


def leg_m(wd, tier):
    rs = []
    for cfg in (["Renter_mc.cfg"] if tier == "quick" else ["Renter_mc.cfg", "Renter_mc3.cfg"]):
        r = vlib.run_tlc(wd, "Renter", cfg, workers=8, timeout=900)
        vlib.tlc_must_pass(r, "Renter fault space / acceptance rule (%s)" % cfg)
        log("  M: Renter (%s): %d distinct states, %d transitions, depth %d, %.1fs; SuccessImpliesBound, HonestSucceeds, WireNormalForm, ObeysRule, PlansAgree hold" %
            (cfg, r.distinct, r.generated, r.depth, r.wall))
        rs.append(r)
    return rs


def fault_key(f):
    if f["how"] == "random":
        return "%s.%s:random#%d" % (f["msg"], f["field"], f["k"])
    return "%s.%s:%s" % (f["msg"], f["field"], f["how"])


def case_key(c):
    return "%s/v%d%s/%s" % (c["rpc"], c["variant"], "" if c.get("samekey", True) else "dk", sorted(fault_key(f) for f in c["faults"]))


def cases_from_edges(edges, rng):
    """every path of the exported graph is one case: Start edge = (rpc, variant, plan, must, classes),
    last edge = outcome of the spec's abstract client"""
    paths = vlib.path_cover(edges, max_paths=None, rng=rng, max_len=12)
    cases = {}
    for p in paths:
        st = p[0]["act"]
        if st.get("op") != "Start":
            raise vlib.Infra("path does not begin with Start: %s" % json.dumps(p[0])[:300])
        last = p[-1]["to"]
        if last["outcome"] not in ("ok", "err"):
            raise vlib.Infra("path does not reach a terminal state: %s" % json.dumps(p[-1])[:300])
        faults = [{"msg": f["msg"], "field": f["field"], "how": f["how"], "k": f["k"]} for f in st["plan"]]
        faults.sort(key=fault_key)
        c = {"rpc": st["rpc"], "variant": st["variant"], "samekey": st["samekey"], "faults": faults, "must": st["must"],
             "model": last["outcome"], "info": st["rpc"] in INFORMATIONAL, "unservable": st["rpc"] in UNSERVABLE,
             "classes": {fault_key(f): f["class"] for f in st["classes"]}}
        cases[case_key(c)] = c
    return paths, [cases[k] for k in sorted(cases)]


def go_key(k):
    """renterx Case.Key() -> case_key(): 'rpc/v0/[a b]' -> "rpc/v0/['a', 'b']" """
    head, _, tail = k.partition("/[")
    return "%s/%s" % (head, sorted(x for x in tail.rstrip("]").split(" ") if x))


def flagged_keys(trace, res):
    keys = {case_key(m["replay"]["case"]) for m in res["mismatches"]}
    p = trace + ".flagged.json"
    if os.path.exists(p):
        keys |= {go_key(k) for k in (json.load(open(p)) or [])}
    return sorted(keys)


def leg_r(wd, tier, binary, verdict, stub="", cfg=None, only=None, tag=""):
    cfg = cfg or ("Renter_edges_quick.cfg" if tier == "quick" else "Renter_edges_thorough.cfg")
    r = vlib.run_tlc(wd, "MCRenter", cfg, workers=1, timeout=900)
    vlib.tlc_must_pass(r, "Renter edge export")
    nst, ned = vlib.graph_stats(r.edges)
    rng = random.Random(vlib.seed())
    paths, cases = cases_from_edges(r.edges, rng)
    covered = len({vlib.canon([e["from"], e["act"], e["to"]]) for p in paths for e in p})
    nstart = sum(1 for e in r.edges if e["act"].get("op") == "Start")
    if len(cases) != nstart:
        raise vlib.Infra("%d Start transitions but %d cases" % (nstart, len(cases)))
    if only:
        cases = [c for c in cases if only(c)]
    log("  R: Renter graph %d states / %d edges; %d paths = %d cases (%d honest, %d single, %d multi, %d random), cover %d edges" % (
        nst, ned, len(paths), len(cases), sum(1 for c in cases if not c["faults"]),
        sum(1 for c in cases if len(c["faults"]) == 1 and c["faults"][0]["how"] != "random"),
        sum(1 for c in cases if len(c["faults"]) > 1),
        sum(1 for c in cases if c["faults"] and c["faults"][0]["how"] == "random"), covered))
    inp = os.path.join(wd, "replay_in%s.json" % ("-" + tag if tag else ""))
    json.dump({"cases": cases, "stub": stub}, open(inp, "w"))
    trace = "rentertrace%s%s.ndjson" % ("-" + stub if stub else "", "-" + tag if tag else "")
    res = vlib.go_run(binary, "TestReplay", wd, env={"VERIF_IN": inp, "VERIF_TRACE": trace}, timeout=1500,
                      tag="TestReplay" + ("-" + stub if stub else "") + ("-" + tag if tag else ""))
    verdict.add_all(res["mismatches"])
    cnt = res["counts"]
    if res["evaluations"] != len(cases):
        raise vlib.Infra("harness executed %d of %d cases (see %s)" % (res["evaluations"], len(cases), res["log"]))
    if cnt.get("unknown_faults"):
        raise vlib.Infra("the harness does not implement %d enumerated faults: %s" % (cnt["unknown_faults"], res["notes"][:5]))
    infra = None
    if cnt.get("noop_unbind") and not stub:
        # reported by run() only if the run found no violation (a violation is the more important news)
        infra = "%d result-bearing corruptions had no effect on the wire: %s" % (cnt["noop_unbind"], res["notes"][:5])
    if cnt.get("not_dialed") and not stub:
        log("  R: note: %d servable cases ended without the client opening a stream" % cnt["not_dialed"])
    if cnt.get("unservable_refused_locally"):
        log("  R: %d unservable-input cases were refused by the client itself, without any exchange (correct)" % cnt["unservable_refused_locally"])
    log("  R: %d cases executed against the real client/server: %d ok, %d err, %d panic; %d corrupted exchanges rejected, "
        "%d corrupted-but-bound accepted, %d faults without effect (no-op or never read); %d mismatches, %.1fs" % (
            res["evaluations"], cnt.get("outcome_ok", 0), cnt.get("outcome_err", 0), cnt.get("outcome_panic", 0),
            cnt.get("corrupted_rejected", 0), cnt.get("corrupted_but_bound_accepted", 0), cnt.get("faults_noop_or_unseen", 0),
            len(res["mismatches"]), res["wall"]))
    return dict(states=nst, edges=ned, paths=len(paths), covered=covered, cases=len(cases), steps=res["evaluations"],
                distinct=res["distinct"], samples=res["samples"], counts=cnt, full=(covered == ned),
                trace=os.path.join(wd, trace), case_list=cases, cfg=cfg, notes=res.get("notes") or [], infra=infra,
                flagged=flagged_keys(os.path.join(wd, trace), res))


def trace_cfg(wd, cfg_edges):
    """RenterTrace reads the same constants as the edge export (so Plans is the same fault space)."""
    src = open(os.path.join(vlib.SPEC, "cfg", cfg_edges)).read()
    keep = []
    for line in src.splitlines():
        s = line.strip()
        if s.startswith(("SPECIFICATION", "VIEW", "ACTION_CONSTRAINT", "CHECK_DEADLOCK", "\\*")):
            continue
        keep.append(line)
    out = "SPECIFICATION TraceSpec\n" + "\n".join(keep) + "\nCONSTRAINT HWM\nINVARIANTS TypeOK SuccessImpliesBound HonestSucceeds WireNormalForm\nPOSTCONDITION TraceAccepted\nCHECK_DEADLOCK FALSE\n"
    p = os.path.join(wd, "RenterTrace_gen.cfg")
    open(p, "w").write(out)
    return p


def event_key(ev):
    return case_key({"rpc": ev["rpc"], "variant": ev["variant"], "samekey": ev.get("samekey", True), "faults": ev["faults"]})


def leg_t(wd, rr, verdict, tag="t", flagged=()):
    """TLC consumes every recorded case.  A rejected line is reported and dropped and the rest is validated
    again; after the first rejection the lines the harness itself has already reported (flagged) are
    dropped in one go, so that TLC's remaining rejections are the ones the harness did NOT see."""
    path = rr["trace"]
    cfgp = trace_cfg(wd, rr["cfg"])
    events = vlib.count_lines(path)
    flagged = set(flagged)
    rejected = 0; dropped = 0; states = 0; wall = 0.0
    for it in range(15):
        ok, r, consumed = vlib.validate_trace(wd, "RenterTrace", cfgp, path, timeout=1200, tag="%s_%d" % (tag, it))
        states += r.distinct; wall += r.wall
        if ok:
            break
        if consumed is None:
            raise vlib.Infra("trace validation broke (no high-water mark): %s\n%s" % (r.error, r.out[-2000:]))
        lines = open(path).read().splitlines()
        idx = consumed - 1 if r.violated else consumed
        if not (0 <= idx < len(lines)):
            raise vlib.Infra("cannot locate rejected trace line (hwm %s of %d): %s" % (consumed, len(lines), r.error))
        ev = json.loads(lines[idx])
        rejected += 1
        fs = "+".join(sorted("%s.%s:%s" % (f["msg"], f["field"], f["how"]) for f in ev["faults"])) or "honest"
        honest = not ev["eff"]
        kind = ("panic:" + ev.get("note", "") if ev["outcome"] == "panic" else
                "accepted-unbound" if ev["outcome"] == "ok" and not ev["bound"] and ev["rpc"] not in INFORMATIONAL else
                "request-not-normal-form" if not ev.get("wire", True) else
                "honest-failed" if honest and ev["outcome"] != "ok" else "accepted-must-reject")
        if event_key(ev) not in flagged:
            log("  T: TLC rejects a recorded outcome the harness did not flag: %s" % json.dumps(ev)[:300])
        verdict.add({"sig": "renter:%s:%s:%s" % (ev["rpc"], fs, kind),
                     "desc": "TLC rejects the recorded outcome %s (%s)" % (json.dumps(ev), r.violated or "no RenterTrace action explains it"),
                     "replay": {"kind": "case", "case": {"rpc": ev["rpc"], "variant": ev["variant"], "samekey": ev.get("samekey", True), "faults": ev["faults"],
                                                         "info": ev["rpc"] in INFORMATIONAL, "unservable": ev["rpc"] in UNSERVABLE,
                                                         "classes": {}, "must": "any"}}})
        keep = [l for i, l in enumerate(lines) if i != idx and event_key(json.loads(l)) not in flagged]
        dropped += len(lines) - len(keep) - 1
        open(path, "w").write("\n".join(keep) + ("\n" if keep else ""))
    else:
        log("  T: more than 15 rejected lines; the rest is not validated")
    log("  T: %d recorded outcomes: TLC validated %d against RenterTrace in %.1fs, rejected %d (+%d already reported by the harness)" %
        (events, events - rejected - dropped, wall, rejected, dropped))
    return dict(events=events, rejected=rejected, reported_by_harness=dropped, trace_states=states)


def run(tier):
    t0 = time.time()
    wd = vlib.workdir(PROP)
    verdict = vlib.Verdict(PROP)
    binary = vlib.go_build("renterx", wd)
    ms = leg_m(wd, tier)
    rr = leg_r(wd, tier, binary, verdict)
    tt = leg_t(wd, rr, verdict, flagged=rr["flagged"])
    if tier == "thorough":
        # second pass: all triples of faults on disjoint fields (one parameter variant)
        r3 = leg_r(wd, tier, binary, verdict, cfg="Renter_edges_triples.cfg", only=lambda c: len(c["faults"]) == 3, tag="triples")
        t3 = leg_t(wd, r3, verdict, tag="t3", flagged=r3["flagged"])
        for k in ("states", "edges", "paths", "covered", "cases", "steps", "distinct"):
            rr[k] += r3[k]
        rr["full"] = rr["full"] and r3["full"]
        for k, v in r3["counts"].items():
            rr["counts"][k] = rr["counts"].get(k, 0) + v
        rr["case_list"] += r3["case_list"]; rr["notes"] += r3["notes"]; rr["infra"] = rr["infra"] or r3["infra"]
        for k in ("events", "rejected", "reported_by_harness", "trace_states"):
            tt[k] += t3[k]
    rc = verdict.finish()
    if rc == 0 and rr.get("infra"):
        raise vlib.Infra(rr["infra"])
    cnt = rr["counts"]
    nontrivial = sum(1 for c in rr["case_list"] if c["faults"] and not c["info"])
    cov = {
        "states": sum(m.distinct for m in ms), "transitions": sum(m.generated for m in ms),
        "traces_validated_against_impl": tt["events"] - tt["rejected"] - tt["reported_by_harness"],
        "exhaustive": True,
        "samples": vlib.trim_samples(rr["samples"], 3),
        "model": {"module": "Renter", "cfg": ms[0].cmd.split("-config ")[1].split()[0].split("/")[-1],
                  "constants": "15 client functions + 5 unservable input classes; every fault plan of up to %d catalogue faults on distinct fields (+ random mutations)" % (2 if tier == "quick" else 3)},
        "replay": {k: rr[k] for k in ("states", "edges", "paths", "covered", "cases", "steps", "full")},
        "replay_outcomes": {k: v for k, v in cnt.items() if not k.startswith("rpc_")},
        "cases_per_rpc": {k[4:]: v for k, v in cnt.items() if k.startswith("rpc_")},
        "trace_validation": tt,
        "evaluations": rr["steps"] + tt["events"], "distinct_nontrivial": nontrivial,
        "rule": "R: one evaluation per TLC-enumerated case (rpc, parameter variant, fault plan) executed against the real client and server; "
                "distinct_nontrivial counts the cases with at least one fault on a bound (non-informational) RPC; "
                "T: every recorded outcome is one TLC-validated event",
        "notes": rr["notes"][:10],
    }
    vlib.write_evidence(PROP, tier, "model_checking", cov,
                        ["the host side is the repository's own rhp4.Server with testutil's EphemeralContractor/EphemeralSectorStore behind harness/memnet; the adversary is a man in the middle holding the HOST key",
                         "core's Merkle, encoding and signature primitives (go.sia.tech/core) are trusted; ground truth (sector bytes, roots, price table, keys) is owned by the harness",
                         "Blake2b/ed25519 are treated as ideal: a fault is 'unbinding' when it changes a result-bearing value",
                         "RPCLatestRevision and RPCAccountBalance return the host's claim verbatim (no binding claim in the statement): exercised for HonestSucceeds and absence of panics only",
                         "the contract is put into a canonical state before every case through the Contractor interface (the harness holds both keys)"],
                        time.time() - t0, len(verdict.violations))
    return rc


def replay(path):
    wd = vlib.workdir(PROP + "-replay")
    binary = vlib.go_build("renterx", wd)
    verdict = vlib.Verdict(PROP)
    mm = json.load(open(path))
    if mm.get("replay", {}).get("kind") != "case":
        log("not a C10 replay record")
        return 2
    res = vlib.go_run(binary, "TestReplayOne", wd, env={"VERIF_IN": path})
    verdict.add_all(res["mismatches"])
    log("replayed %s: %d mismatches" % (case_key(mm["replay"]["case"]), len(res["mismatches"])))
    return verdict.finish()


def selftest():
    """(1) TLC: an abstract client that forgets a check violates SuccessImpliesBound.  (2) replay against a
    lenient client stub (reports success whatever the host sent) must produce accepted-unbound mismatches for
    every RPC; a rejecting stub must fail HonestSucceeds.  (3) a good trace with one corrupted field is
    rejected by TLC."""
    wd = vlib.workdir(PROP + "-selftest")
    binary = vlib.go_build("renterx", wd)
    ok = True
    for cfg in ("Renter_dev_sig.cfg", "Renter_dev_data.cfg", "Renter_dev_unaligned.cfg"):
        x = vlib.run_tlc(wd, "MCRenter", cfg, workers=4, timeout=300)
        good = x.exit != 0 and x.violated == "SuccessImpliesBound"
        log("selftest 1 (%s: abstract client without the check violates SuccessImpliesBound): %s" % (cfg, "ok" if good else "FAILED"))
        ok = ok and good
    v = vlib.Verdict("C10-selftest"); v.findings = []
    leg_r(wd, "quick", binary, v, stub="lenient-client", only=lambda c: c["variant"] == 0)
    bound_rpcs = {"ReadSector", "WriteSector", "VerifySector", "SectorRoots", "AppendSectors", "FreeSectors", "FundAccounts", "ReplenishAccounts", "ReplenishPools",
                  "FormContract", "RenewContract", "RefreshFull", "RefreshPartial"}
    hit = {m["sig"].split(":")[1] for m in v.violations if m["sig"].endswith(("accepted-unbound", "accepted-must-reject"))}
    good = bound_rpcs <= hit
    log("selftest 2a (lenient client stub caught for every bound RPC: %d mismatches, missing %s): %s" % (len(v.violations), sorted(bound_rpcs - hit), "ok" if good else "FAILED"))
    ok = ok and good
    v = vlib.Verdict("C10-selftest"); v.findings = []
    leg_r(wd, "quick", binary, v, stub="rejecting-client", only=lambda c: c["variant"] == 0 and not c["faults"])
    failed = [m["sig"].split(":")[1] for m in v.violations if m["sig"].endswith("honest-failed")]
    good = len(set(failed)) == 15 and len(failed) == 25   # all but the unservable input classes; 10 of them in both key regimes
    log("selftest 2b (client that rejects everything fails HonestSucceeds for all 15 RPCs): %s" % ("ok" if good else "FAILED"))
    ok = ok and good
    # corrupted trace
    v = vlib.Verdict("C10-selftest"); v.findings = []
    rr = leg_r(wd, "quick", binary, v, only=lambda c: c["variant"] == 1)
    flagged = set(rr["flagged"])   # known findings of the unchanged tree: not part of the good trace
    lines = [l for l in open(rr["trace"]).read().splitlines() if event_key(json.loads(l)) not in flagged]
    muts = []
    def pick(pred, edit, what):
        for i, l in enumerate(lines):
            e = json.loads(l)
            if pred(e):
                edit(e); muts.append((i, e, what)); return
    def to(field, val):
        def f(e): e[field] = val
        return f
    pick(lambda e: e["outcome"] == "err" and e["eff"] and e["rpc"] == "ReadSector", to("outcome", "ok"),
         "err->ok on a corrupted read (bound=false)")
    pick(lambda e: e["outcome"] == "ok" and not e["eff"] and e["rpc"] == "FreeSectors", to("outcome", "err"),
         "ok->err on an honest exchange")
    def bad_field(e):
        e["faults"][0]["field"] = "NoSuchField"; e["eff"] = e["faults"]
    pick(lambda e: e["eff"] and e["rpc"] == "SectorRoots", bad_field, "fault outside the enumerated fault space")
    pick(lambda e: e["outcome"] == "err" and e["eff"] and e["rpc"] == "AppendSectors", to("outcome", "panic"),
         "err->panic")
    def flip_bound(e): e["bound"] = False
    pick(lambda e: e["outcome"] == "ok" and e["bound"] and e["rpc"] == "WriteSector", flip_bound, "bound true->false on a success")
    pick(lambda e: e["outcome"] == "ok" and e["wire"] and e["rpc"] == "FreeSectors", to("wire", False), "request on the wire not in normal form")
    for i, e, what in muts:
        l2 = list(lines); l2[i] = json.dumps(e, separators=(",", ":"))
        p = os.path.join(wd, "mut.ndjson"); open(p, "w").write("\n".join(l2) + "\n")
        v2 = vlib.Verdict("C10-selftest"); v2.findings = []
        t = leg_t(wd, dict(rr, trace=p), v2, tag="mut")
        good = t["rejected"] == 1
        log("selftest 3 (%s rejected by TLC): %s" % (what, "ok" if good else "FAILED"))
        ok = ok and good
    ok = ok and len(muts) == 6
    return 0 if ok else 2
