"""C15 -- Accounts and pools are a conserved ledger; service is paid before delivery.

Leg M: spec/Host.tla (family `accounts`): fund / replenish (accounts and pools) / attach / detach / read /
       write / verify / balance with every corruption class and aborts; CreditBacked, TransferCredited, DebitIsPrice,
       PaidBeforeService, InsufficientIsNoop, ReplenishToTarget, AttachNeedsSignature, NonNegative ... on the
       complete reachable state space up to the commit bound (balances at, below and above every cost).
Leg R: from every catalogue ledger state (own balance / attached pools at, just below and just above the real
       costs, both attachment orders, unattached pools) one exchange of every kind x every corruption class on the
       REAL host; reply, the Contractor / Sectors calls the host made (Debit before Read/Store) and all balances compared.
Leg T: random sessions over 3 accounts and 2 pools on the real host, one event per stream step with the recorded
       Contractor / Sectors calls and all balances, validated by TLC against HostTrace.tla."""
import time
import vlib
from vlib import log
import C09 as H

PROP = "C15"
ALLOW, COLL = 2000000, 3000000


def leg_m(wd, tier):
    if tier == "quick":
        cfgs = [("Host_accounts_quick.cfg", "Host/accounts 2 accounts x 1 pool, up to 2 commits"),
                ("Host_accounts_quick2.cfg", "Host/accounts 1 account x 2 pools, up to 2 commits")]
    else:
        cfgs = [("Host_accounts_full.cfg", "Host/accounts 2 accounts x 2 pools, up to 2 commits"),
                ("Host_accounts_thorough.cfg", "Host/accounts 2 x 2, up to 3 commits, all corruption classes")]
    return H.run_model(wd, cfgs)


def leg_r(wd, tier, binary, verdict, stub="", max_paths=None):
    # quick: a seeded sample, but always every attach / detach BATCH (entries next to no-op entries in every position)
    batch = lambda p: any((e["act"]["op"] in ("BeginAttach", "BeginDetach") and len(e["act"].get("b", [])) > 1) or e["act"]["op"] == "PartialWrite" for e in p)
    g, paths = H.export_paths(wd, "Host_accounts_edges.cfg", max_paths=max_paths or (3000 if tier == "quick" else None),
                              prefer=None if max_paths else batch)
    rr = H.run_replay(wd, binary, "accounts", paths, ALLOW, COLL, verdict, listable="none", stub=stub, shards=8)
    g.update(rr)
    return g


def leg_t(wd, tier, binary, verdict, stub=""):
    shards = 4 if tier == "quick" else 8
    env = {"VERIF_TRACES": 10 if tier == "quick" else 60, "VERIF_OPS": 60 if tier == "quick" else 120}
    d = H.run_driver(wd, binary, "accounts", shards, env, verdict, stub=stub)
    v = H.validate_traces(wd, d["files"], verdict)
    H.cleanup(d["files"])
    d.update(v)
    d["ovf"] = H.leg_overflow(wd, binary, verdict, stub=stub)
    d["gated"] = H.leg_gated(wd, binary, verdict, stub=stub)
    return d


def run(tier):
    t0 = time.time()
    wd = vlib.workdir(PROP)
    verdict = vlib.Verdict(PROP)
    binary = H.build(wd)
    ms = leg_m(wd, tier)
    rr = leg_r(wd, tier, binary, verdict)
    tt = leg_t(wd, tier, binary, verdict)
    rc = verdict.finish()
    tl = ms + [rr["tlc"]]
    cov = {
        "states": sum(m.distinct for m in tl) + tt["states"], "transitions": sum(m.generated for m in tl),
        "traces_validated_against_impl": tt["accepted"] + rr["replayed"],
        "exhaustive": bool(rr["full"]),
        "samples": vlib.trim_samples(rr["samples"] + tt["samples"], 3),
        "model": {"cfgs": [m.cmd.split()[-3].split("/")[-1] for m in ms],
                  "constants": "2 accounts x 2 pools, deposits / targets around every cost, every corruption class, aborts; complete reachable state space up to the commit bound"},
        "replay": {k: rr[k] for k in ("states", "edges", "paths", "covered", "replayed", "steps", "full", "mismatches")},
        "replay_graph": rr["histogram"],
        "trace_validation": {k: tt[k] for k in ("traces", "events", "accepted", "rejected", "suspect")},
        "driver_counts": tt["counts"],
        "scheduled_concurrency": {"histories": tt["gated"]["counts"].get("gated_histories", 0), "events": tt["gated"]["events"],
                                  "explained_in_lock_order": tt["gated"]["accepted"] - tt["gated"]["second_order"],
                                  "explained_in_other_order": tt["gated"]["second_order"], "unexplained": tt["gated"]["rejected"],
                                  "target_checks": tt["gated"]["counts"].get("gated_target_checks", 0)},
        "amount_overflow": {"traces": tt["ovf"]["traces"], "events": tt["ovf"]["events"], "accepted": tt["ovf"]["accepted"],
                            "rejected": tt["ovf"]["rejected"], "counts": tt["ovf"]["counts"]},
        "evaluations": rr["steps"] + tt["gated"]["events"] + tt["ovf"]["events"] + tt["events"], "distinct_nontrivial": rr["distinct"] + tt["traces"],
        "rule": "R: one evaluation per spec transition executed on the real host (reply, recorded Contractor/Sectors calls and all balances compared), "
                "distinct by (action, arguments, resulting state); T: one evaluation per recorded stream step validated by TLC, distinct by trace",
    }
    vlib.write_evidence(PROP, tier, "model_checking", cov, H.ASSUMPTIONS + [
        "attachments are not readable through the Contractor interface: they are observed through the debits they enable",
        "sequential RPCs (the property quantifies over sequences, not schedules); concurrency on one contract is C08's"],
        time.time() - t0, len(verdict.violations))
    return rc


def replay(path):
    return H.replay_record(path, PROP)


def selftest():
    """(1) the implementation-shaped replenish (duplicates overshoot) violates ReplenishToTarget in TLC;
    (2) replay against a contractor that serves without debiting finds mismatches;
    (3) a good trace with one altered balance is rejected by TLC."""
    wd = vlib.workdir(PROP + "-selftest")
    binary = H.build(wd)
    ok1 = H.must_fail(wd, "Host_accounts_dev_dup.cfg", "a deposit per listed account violates ReplenishToTarget in TLC")
    v = vlib.Verdict(PROP + "-selftest"); v.findings = []
    leg_r(wd, "quick", binary, v, stub="freedebit", max_paths=1500)
    ok2 = any(m["sig"].startswith("replay:") and ("read" in m["sig"] or "write" in m["sig"] or "verify" in m["sig"]) for m in v.violations)
    log("selftest (replay against a contractor that serves without debiting finds the divergence): %s" % ("ok" if ok2 else "FAILED"))
    ok3 = H.corrupted_trace_rejected(wd, binary, "accounts", {"VERIF_TRACES": 2, "VERIF_OPS": 40}, "acct")
    return 0 if ok1 and ok2 and ok3 else 2
