"""C03 -- Every durable commit point reopens to a consistent chain and catches up."""
import chainlib, chaintrace

def run(tier):
    return chainlib.run_family("C03", tier, "Chain_durable.cfg", "Chain_durable_edges.cfg",
                               {"quick": (1, 5), "thorough": (4, 6)}, extra=chaintrace.leg_t("C03"))
