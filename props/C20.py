"""C20 -- Seed phrases and derived keys round-trip exactly (/repo/wallet/seed.go).
Leg M: SeedMC.tla -- a scaled-down instance of the declarative encoding of Seed.tla checked
       exhaustively (definitions are inverse bijections, the statement holds for the specified codec,
       an implementation-shaped shift/mask model refines it) for several checksum functions.
Leg R: SeedGen.tla computes, at full size (128+4 bits, 11-bit words), the specified result of a list
       of calls (checksum nibbles supplied by hashlib here); the edges are replayed on the real codec.
Leg T: the Go driver records every call of the real functions on structured + random inputs;
       TLC validates every line against SeedTrace.tla; raw phrases are re-tokenised here."""
import os, json, random, time, hashlib, threading, concurrent.futures as cf
import vlib
from vlib import log

PROP = "C20"
CONTRACT = ("HarnessPacking", "CSFunctional")


# ------------------------------------------------------------------ the orchestrator's own arithmetic
# (third implementation, used only to BUILD inputs for Leg R; SeedGen's HarnessPacking/CSFunctional
# invariants reject the run if it is wrong)

def bits_of(b):
    return [(x >> (7 - j)) & 1 for x in b for j in range(8)]


def nib(b):
    n = hashlib.sha256(b).digest()[0] >> 4
    return [(n >> 3) & 1, (n >> 2) & 1, (n >> 1) & 1, n & 1]


def py_words(b):
    n = (int.from_bytes(b, "big") << 4) | (hashlib.sha256(b).digest()[0] >> 4)
    return [(n >> (11 * (11 - i))) & 2047 for i in range(12)]


def py_entropy(w):
    n = 0
    for x in w:
        n = n * 2048 + x
    return (n >> 4).to_bytes(16, "big")


def gen_calls(tier, rng):
    calls = []

    def enc(e):
        calls.append({"op": "Enc", "e": bits_of(e), "c": nib(e)})

    def dec(t):
        if len(t) == 12 and all(0 <= x < 2048 for x in t):
            e = py_entropy(t)
            calls.append({"op": "Dec", "t": list(t), "eb": bits_of(e), "c": nib(e)})
        else:
            calls.append({"op": "Dec", "t": list(t), "eb": [], "c": []})

    def battery(e, nvar, nmal):
        enc(e)
        w = py_words(e)
        dec(w)
        for v in (range(16) if nvar >= 16 else rng.sample(range(16), nvar)):
            dec(w[:11] + [(w[11] & ~15) | v])
        for _ in range(nmal):
            k = rng.randrange(5)
            j = rng.randrange(12)
            if k == 0:
                dec(w[:11])
            elif k == 1:
                dec(w + [rng.randrange(2048)])
            elif k == 2:
                dec(w[:j] + [-1] + w[j + 1:])
            elif k == 3:
                dec(w[:j] + w[j + 1:])
            else:
                u = list(w); u[j] = rng.randrange(2048); dec(u)

    quick = tier == "quick"
    # boundary calls; they are also the PROBES interleaved after every other call by the replay
    # harness (history independence: the reply is a function of the call alone)
    core = (bytes(16), b"\xff" * 16, b"\x7f" * 16, b"\x80" * 16)
    for e in core:                            # the most telling probes first: valid phrase, encode
        dec(py_words(e)); enc(e)
    for i in (0, 63, 64, 120, 121, 127):
        e = bytearray(16); e[i // 8] |= 1 << (7 - i % 8)
        dec(py_words(bytes(e))); enc(bytes(e))
    for e in core:                            # then every last-word variant
        w = py_words(e)
        for v in range(16):
            dec(w[:11] + [(w[11] & ~15) | v])
    nprobe = len(calls)
    battery(bytes(16), 0, 5)
    battery(b"\xff" * 16, 0, 5)
    battery(bytes(range(16)), 16, 5)          # BIP39-style test vector
    for i in range(128):
        e = bytearray(16); e[i // 8] |= 1 << (7 - i % 8)
        battery(bytes(e), 1, 0)
        if i < 127:
            e[(i + 1) // 8] |= 1 << (7 - (i + 1) % 8)
            battery(bytes(e), 1, 0)
    for _ in range(60 if quick else 1500):
        battery(rng.randbytes(16), 3 if quick else 16, 2)
    # boundary words and every position set to 0 / 2047 / a random value
    base = py_words(rng.randbytes(16))
    for pos in range(12):
        for v in [0, 1, 2046, 2047] + [rng.randrange(2048) for _ in range(4 if quick else 60)]:
            u = list(base); u[pos] = v
            dec(u)
            e = py_entropy(u); u[11] = (u[11] & ~15) | (hashlib.sha256(e).digest()[0] >> 4)
            dec(u)
    dec([0] * 12); dec([2047] * 12); dec([0] * 11 + [3]); dec([]); dec([0] * 24)
    return calls, nprobe


# ------------------------------------------------------------------ legs

def leg_m(wd, tier):
    cfg = "SeedMC_quick.cfg" if tier == "quick" else "SeedMC_mc.cfg"
    rs = []
    r = vlib.run_tlc(wd, "SeedMC", cfg, workers=8, timeout=900)
    vlib.tlc_must_pass(r, "Seed scaled-down instance " + cfg)
    log("  M: %s: %d distinct states, %d transitions, depth %d, %.1fs" % (cfg, r.distinct, r.generated, r.depth, r.wall))
    rs.append(r)
    if tier != "quick":
        r = vlib.run_tlc(wd, "SeedMC", "SeedMC_quick.cfg", workers=4, timeout=600)
        vlib.tlc_must_pass(r, "Seed scaled-down instance SeedMC_quick.cfg")
        log("  M: SeedMC_quick.cfg: %d distinct states, %d transitions, %.1fs" % (r.distinct, r.generated, r.wall))
        rs.append(r)
    return rs


def leg_r(wd, tier, binary, verdict, codec="real"):
    rng = random.Random(vlib.seed() * 7919 + 20)
    calls, nprobe = gen_calls(tier, rng)
    cp = os.path.join(wd, "calls.ndjson")
    with open(cp, "w") as f:
        for c in calls:
            f.write(json.dumps(c, separators=(",", ":")) + "\n")
    r = vlib.run_tlc(wd, "SeedGen", "SeedGen_edges.cfg", workers=1, timeout=900, env={"CALLS": cp})
    vlib.tlc_must_pass(r, "Seed full-size result computation (a failure of HarnessPacking/CSFunctional here means props/C20.py packs wrongly)")
    nst, ned = vlib.graph_stats(r.edges)
    paths = vlib.path_cover(r.edges, max_paths=None, rng=random.Random(vlib.seed()), max_len=60)
    covered = len({vlib.canon([e["from"], e["act"], e["to"]]) for p in paths for e in p})
    log("  R: SeedGen graph %d states / %d edges over %d calls (%.1fs); %d paths cover %d edges" %
        (nst, ned, len(calls), r.wall, len(paths), covered))
    if ned != 2 * len(calls):
        raise vlib.Infra("SeedGen exported %d edges for %d calls" % (ned, len(calls)))
    inp = os.path.join(wd, "replay_in.json")
    reply_of = {e["act"]["k"]: e for e in r.edges if e["act"]["op"] != "Reset"}
    probes = [{"k": k, "op": reply_of[k]["act"]["op"], "reply": reply_of[k]["reply"]} for k in range(1, nprobe + 1)]
    json.dump({"codec": codec, "calls": calls, "probes": probes,
               "paths": [[{"k": e["act"]["k"], "op": e["act"]["op"], "reply": e["reply"]} for e in p] for p in paths]},
              open(inp, "w"))
    res = vlib.go_run(binary, "TestReplay", wd, env={"VERIF_IN": inp}, timeout=900)
    verdict.add_all(res["mismatches"])
    log("  R: %d calls replayed on the real codec (%s), %d mismatches, %.1fs" %
        (res["evaluations"], json.dumps(res["counts"], sort_keys=True), len(res["mismatches"]), res["wall"]))
    return dict(states=nst, edges=ned, calls=len(calls), paths=len(paths), covered=covered, steps=res["evaluations"],
                distinct=res["distinct"], samples=res["samples"], full=(covered == ned), tlc=r)


def split_groups(path):
    """yield (start_line, lines) per Reset-delimited group"""
    cur = []; start = 0
    with open(path) as f:
        for i, line in enumerate(f):
            if line.startswith('{"op":"Reset"') and cur:
                yield start, cur
                cur = []; start = i
            cur.append(line)
    if cur:
        yield start, cur


def retokenise(path, windex):
    """Independent tokenisation of every recorded raw phrase (str.split on ASCII whitespace) against
    the token indices the harness logged by construction."""
    n = 0
    with open(path) as f:
        for i, line in enumerate(f):
            if not line.startswith(('{"op":"Dec"', '{"op":"Sfp"', '{"op":"New"')):
                continue
            ev = json.loads(line)
            raw = ev["raw"]
            t = [windex.get(tok, -1) for tok in raw.split()]
            if t != ev["t"]:
                raise vlib.Infra("harness tokenisation differs from str.split at %s:%d: %r -> %s vs %s" % (path, i, raw, t, ev["t"]))
            n += 1
    return n


def diagnose(wd, path, groups, bad, upto, tag):
    """Re-runs TLC with named invariants on the offending group (with the pinned first group as
    context) and returns the violated clause (None = the event is not even well-typed)."""
    start, lines = bad
    ctx = []
    if start != groups[0][0] and len(groups) > 1:
        ctx = list(groups[0][1]) + [groups[1][1][0]]          # first group + the Reset that pins it
        if start == groups[1][0]:
            ctx = list(groups[0][1])
    p = os.path.join(wd, "diag_%s.ndjson" % tag)
    with open(p, "w") as f:
        f.writelines(ctx)
        f.writelines(lines[:upto + 1])
    ok, r, consumed = vlib.validate_trace(wd, "SeedTrace", "SeedTrace_diag.cfg", p, timeout=300, tag="diag_" + tag)
    return r.violated, r, p


class Stop:
    """Shared between the shard validators: once `limit` groups have been rejected in total the
    remaining shards are not (re-)validated -- a broken codec is reported quickly."""
    def __init__(self, limit=6):
        self.limit = limit; self.n = 0; self.lock = threading.Lock()

    def hit(self):
        with self.lock:
            self.n += 1

    def reached(self):
        return self.n >= self.limit


def validate_file(wd, path, tag, verdict, codec="real", max_rej=3, stop=None):
    """TLC-validates one NDJSON shard; on rejection names the clause, reports the group, drops it
    and continues with the rest (at most max_rej rejections per shard; nothing more once `stop`
    says enough groups were rejected overall).  The shard file is REWRITTEN by this loop."""
    events = vlib.count_lines(path)
    rejected = 0; states = 0; clauses = []
    for it in range(max_rej):
        if stop is not None and stop.reached():
            log("  T: %s: not (re-)validated, %d groups were already rejected" % (tag, stop.n))
            break
        ok, r, consumed = vlib.validate_trace(wd, "SeedTrace", "SeedTrace.cfg", path, timeout=1500, tag="%s_%d" % (tag, it))
        states += r.distinct
        if ok:
            break
        if consumed is None:
            raise vlib.Infra("trace validation broke (no high-water mark): %s\n%s" % (r.error, r.out[-2000:]))
        groups = list(split_groups(path))
        bad = None
        for start, lines in groups:
            if start <= consumed < start + len(lines):
                bad = (start, lines)
        if bad is None:
            raise vlib.Infra("cannot locate failing event %d in %s" % (consumed, path))
        start, lines = bad
        ev = json.loads(lines[consumed - start])
        hdr = json.loads(lines[0])
        clause, dr, dpath = diagnose(wd, path, groups, bad, consumed - start, "%s_%d" % (tag, it))
        if clause is None:
            raise vlib.Infra("event %d of %s is rejected but violates no clause (ill-typed event?): %s\n%s" %
                             (consumed, path, json.dumps(ev)[:400], dr.out[-1500:]))
        if clause in CONTRACT:
            raise vlib.Infra("the HARNESS broke its side of the contract (%s) at event %d of %s: %s" %
                             (clause, consumed, path, json.dumps(ev)[:600]))
        rejected += 1; clauses.append(clause)
        if stop is not None:
            stop.hit()
        short = {k: v for k, v in ev.items() if k not in ("e", "eb", "d")}
        verdict.add({"sig": "trace:%s:%s:%s" % (ev.get("op"), clause, hdr.get("kind")),
                     "desc": "TLC rejects recorded call %d of group %s (%s): clause %s of Seed.tla is violated by %s" %
                             (consumed - start, hdr.get("g"), hdr.get("kind"), clause, json.dumps(short)[:700]),
                     "replay": {"kind": "trace", "codec": codec, "clause": clause,
                                "events": [json.loads(x) for x in lines[:consumed - start + 1]]}})
        with open(path, "w") as f:
            for s2, l2 in groups:
                if s2 != start:
                    f.writelines(l2)
    else:
        log("  T: %d groups of %s rejected; the rest is not validated" % (max_rej, tag))
    return events, rejected, states, clauses


TIERS = {
    "quick":    dict(VERIF_UNIFORM=120, VERIF_SWEEP=1, VERIF_SWEEPFIX=8, VERIF_PATTERN=256, VERIF_NEW=64, VERIF_SHARDS=8,
                     VERIF_NWS=3, VERIF_NMAL=3, VERIF_NKEY=3, VERIF_HIST=1),
    "thorough": dict(VERIF_UNIFORM=6000, VERIF_SWEEP=4, VERIF_SWEEPFIX=1, VERIF_PATTERN=4096, VERIF_NEW=2000, VERIF_SHARDS=16,
                     VERIF_NWS=8, VERIF_NMAL=8, VERIF_NKEY=4, VERIF_HIST=2),
}


def leg_t(wd, tier, binary, verdict, env=None, codec="real", workers=8, max_rej=3):
    e = dict(TIERS[tier])
    e.update(env or {})
    e["VERIF_CODEC"] = codec
    for f in os.listdir(wd):
        if f.startswith("seedtrace-"):
            os.remove(os.path.join(wd, f))
    res = vlib.go_run(binary, "TestDriver", wd, env=e, timeout=1800)
    verdict.add_all(res["mismatches"])
    files = sorted(f for f in os.listdir(wd) if f.startswith("seedtrace-") and f.endswith(".ndjson"))
    if res["exit"] != 0:
        # the driver stopped on a mismatch it reported itself (e.g. the word list is not BIP39 English)
        return dict(groups=0, events=0, rejected=0, samples=res["samples"], counts=res["counts"], trace_states=0,
                    distinct=res["distinct"], retokenised=0, clauses=[])
    windex = {w: i for i, w in enumerate(json.load(open(os.path.join(wd, "wordlist.json"))))}
    t0 = time.time()
    tot_ev = tot_rej = tot_states = tot_tok = 0
    clauses = []
    stop = Stop(max(2 * max_rej, 6))
    with cf.ThreadPoolExecutor(max_workers=workers) as ex:
        # 1. independent re-tokenisation on the pristine recordings (validate_file rewrites them)
        if codec == "real":
            for fu in [ex.submit(retokenise, os.path.join(wd, f), windex) for f in files]:
                tot_tok += fu.result()
        # 2. TLC validation; a failure of one shard must not lose what the others found
        futs = [ex.submit(validate_file, wd, os.path.join(wd, f), f.replace(".ndjson", ""), verdict, codec, max_rej, stop) for f in files]
        err = None
        for fu in futs:
            try:
                ev, rej, st, cl = fu.result()
                tot_ev += ev; tot_rej += rej; tot_states += st; clauses += cl
            except Exception as ex2:
                err = err or ex2
        if err is not None:
            raise err
    log("  T: %d groups / %d recorded calls of the real code (%s); TLC validated in %.1fs, %d groups rejected; %d raw phrases re-tokenised" %
        (res["traces"], tot_ev, json.dumps({k: v for k, v in res["counts"].items() if not k.startswith("group.")}, sort_keys=True),
         time.time() - t0, tot_rej, tot_tok))
    for f in files:
        try:
            os.remove(os.path.join(wd, f))
        except OSError:
            pass
    return dict(groups=res["traces"], events=tot_ev, rejected=tot_rej, samples=res["samples"], counts=res["counts"],
                trace_states=tot_states, distinct=res["distinct"], retokenised=tot_tok, clauses=clauses)


def run(tier):
    verdict = vlib.Verdict(PROP)
    try:
        return run_legs(tier, verdict)
    except Exception as ex:
        if not verdict.violations:
            raise
        # mismatches between spec and real code were already collected: report them (exit 1)
        log("  trouble after mismatches had been collected (%s: %s); reporting the mismatches" % (type(ex).__name__, str(ex)[:600]))
        return verdict.finish()


def run_legs(tier, verdict):
    t0 = time.time()
    wd = vlib.workdir(PROP)
    binary = vlib.go_build("seedx", wd)
    ms = leg_m(wd, tier)
    rr = leg_r(wd, tier, binary, verdict)
    tt = leg_t(wd, tier, binary, verdict)
    rc = verdict.finish()
    fam = {k[6:]: v for k, v in tt["counts"].items() if k.startswith("group.")}
    cov = {
        "states": sum(m.distinct for m in ms) + rr["tlc"].distinct + tt["trace_states"],
        "transitions": sum(m.generated for m in ms) + rr["tlc"].generated + tt["trace_states"],
        "traces_validated_against_impl": tt["groups"] - tt["rejected"] + rr["paths"],
        "exhaustive": False,
        "samples": vlib.trim_samples(tt["samples"] + rr["samples"], 3),
        "model": {"scaled_down_instances": [m.cmd.split("-config ")[1].split()[0].split("/")[-1] for m in ms],
                  "distinct_states": [m.distinct for m in ms],
                  "constants": "EB=8,CB=1,WB=3 with 5 checksum functions; thorough adds EB=10,CB=2,WB=4 with 3; every entropy, "
                               "every token sequence of length NW-1..NW+1 over the vocabulary plus an unknown token"},
        "replay": {k: rr[k] for k in ("states", "edges", "calls", "paths", "covered", "steps", "full")},
        "trace_validation": {"groups": tt["groups"], "events": tt["events"], "rejected": tt["rejected"],
                             "calls": {k: v for k, v in tt["counts"].items() if not k.startswith("group.")},
                             "families": fam, "raw_phrases_retokenised": tt["retokenised"], "trace_states": tt["trace_states"]},
        "evaluations": rr["steps"] + tt["events"], "distinct_nontrivial": rr["distinct"] + tt["distinct"],
        "rule": "one evaluation per call of the real code (Enc/Dec+SeedFromPhrase/New/Key) judged by TLC (Leg T: recorded event "
                "accepted by SeedTrace; Leg R: reply equal to the one computed by SeedGen); distinct by (operation, argument)",
    }
    vlib.write_evidence(PROP, tier, "model_checking", cov,
                        ["SHA-256, BLAKE2b and Ed25519 are uninterpreted: the harness supplies the SHA-256 nibble (crypto/sha256 / hashlib), "
                         "the spec only requires it to be a function; seeds and keys are only required to be deterministic and injective",
                         "2^128 entropies and 2048^12 phrases are sampled (uniform + every single-bit / adjacent-two-bit entropy + every value of "
                         "every word position + boundary words), not enumerated; exhaustive only for the scaled-down instances",
                         "the word list is identified as BIP39 English by two SHA-256 anchors that do not come from /repo",
                         "whitespace = ASCII space, \\t, \\n, \\r, \\v, \\f; token indices are logged by construction and re-tokenised by str.split",
                         "TLC and the Go runtime are trusted"], time.time() - t0, len(verdict.violations))
    return rc


def replay(path):
    wd = vlib.workdir(PROP + "-replay")
    binary = vlib.go_build("seedx", wd)
    mm = json.load(open(path))
    rp = mm.get("replay", {})
    verdict = vlib.Verdict(PROP)
    if rp.get("kind") == "path":
        inp = os.path.join(wd, "replay_in.json")
        json.dump(rp, open(inp, "w"))
        res = vlib.go_run(binary, "TestReplay", wd, env={"VERIF_IN": inp})
        verdict.add_all(res["mismatches"])
    elif rp.get("kind") == "trace":
        # re-issue the recorded calls on the real code, record again, validate with named clauses
        inp = os.path.join(wd, "reexec_in.json")
        json.dump({"codec": rp.get("codec", "real"), "events": rp["events"]}, open(inp, "w"))
        res = vlib.go_run(binary, "TestReexec", wd, env={"VERIF_IN": inp})
        verdict.add_all(res["mismatches"])
        p = os.path.join(wd, "seedtrace-reexec.ndjson")
        ok, r, consumed = vlib.validate_trace(wd, "SeedTrace", "SeedTrace_diag.cfg", p, timeout=300, tag="reexec")
        if not ok:
            if r.violated is None or r.violated in CONTRACT:
                raise vlib.Infra("re-executed trace rejected without a property clause: %s %s" % (r.violated, r.error))
            verdict.add({"sig": "trace:reexec:%s" % r.violated, "desc": "re-executed calls violate clause %s" % r.violated, "replay": rp})
        else:
            log("re-executed trace accepted by TLC (%s events)" % consumed)
    else:
        log("nothing to replay in %s" % path)
        return 2
    return verdict.finish()


def selftest():
    """Demonstrates the binding.  (1) Leg R against deliberately wrong codecs finds mismatches;
    (2) a good recording with one corrupted field is rejected by TLC (and a corrupted harness
    packing is recognised as a harness fault); (3) recordings of deliberately wrong codecs are
    rejected with the expected clause; (4) the implementation-shaped model with a named deviation
    violates the property in TLC."""
    wd = vlib.workdir(PROP + "-selftest")
    binary = vlib.go_build("seedx", wd)
    allok = True

    def new_verdict():
        v = vlib.Verdict("C20-selftest"); v.findings = []
        return v

    # 1. replay against wrong stubs
    for codec, want in (("stub-shift", "replay:Enc:words"), ("stub-nocheck", "replay:Dec:ok"), ("stub-count", "replay:Dec:ok")):
        v = new_verdict()
        leg_r(wd, "quick", binary, v, codec=codec)
        ok = any(m["sig"].startswith(want) for m in v.violations)
        log("selftest 1 (wrong codec %s detected by replay: %s): %s" % (codec, want, "ok" if ok else "FAILED"))
        allok = allok and ok
    # 2. corrupted recordings
    small = dict(VERIF_UNIFORM=6, VERIF_SWEEP=0, VERIF_PATTERN=8, VERIF_NEW=8, VERIF_SHARDS=1, VERIF_BITS=0, VERIF_HIST=0)
    v = new_verdict()
    tt = leg_t(wd, "quick", binary, v, env=small, workers=2)
    ok = tt["rejected"] == 0 and not v.violations and tt["events"] > 100
    log("selftest 2a (good recording accepted, %d events): %s" % (tt["events"], "ok" if ok else "FAILED"))
    allok = allok and ok

    def corrupt(name, pick, mutate, expect):
        vlib.go_run(binary, "TestDriver", wd, env=dict(TIERS["quick"], **small))
        p = os.path.join(wd, "seedtrace-00.ndjson")
        lines = open(p).read().splitlines()
        done = False
        for i, l in enumerate(lines):
            e = json.loads(l)
            if i > 40 and pick(e):
                mutate(e); lines[i] = json.dumps(e, separators=(",", ":")); done = True
                break
        open(p, "w").write("\n".join(lines) + "\n")
        v2 = new_verdict()
        try:
            _, rej, _, cl = validate_file(wd, p, "selftest_" + name.split()[0], v2, max_rej=2)
            good = done and rej >= 1 and expect in cl
            got = cl
        except vlib.Infra as ex:
            good = done and expect in CONTRACT and expect in str(ex)
            got = "Infra: " + str(ex)[:80]
        log("selftest 2b (corrupted %s rejected by TLC with %s; got %s): %s" % (name, expect, got, "ok" if good else "FAILED"))
        return good

    def flip_word(e): e["w"][5] ^= 1
    def flip_ok(e): e["ok"] = not e["ok"]; e["d"] = []
    def flip_dbit(e): e["d"][63] ^= 1
    def flip_key(e): e["k"] = ("0" if e["k"][0] != "0" else "1") + e["k"][1:]
    def flip_eb(e): e["eb"][64] ^= 1
    allok &= corrupt("Enc.w", lambda e: e["op"] == "Enc", flip_word, "EncCorrect")
    allok &= corrupt("Dec.ok", lambda e: e["op"] == "Dec" and e["ok"], flip_ok, "DecodesIffChecksum")
    allok &= corrupt("Dec.d", lambda e: e["op"] == "Dec" and e["ok"], flip_dbit, "DecodedEntropy")
    allok &= corrupt("Key.k", lambda e: e["op"] == "Key", flip_key, "SameArgsSameKey")
    allok &= corrupt("Dec.eb (harness packing)", lambda e: e["op"] == "Dec" and e["eb"], flip_eb, "HarnessPacking")
    # 3. recordings of wrong codecs
    for codec, wants in (("stub-shift", ("EncCorrect",)), ("stub-nocheck", ("DecodesIffChecksum",)),
                         ("stub-split", ("DecodesIffChecksum", "WhitespaceInvariant")), ("stub-count", ("MalformedRejected",)),
                         ("stub-key32", ("DistinctArgsDistinctKey",))):
        v = new_verdict()
        tt = leg_t(wd, "quick", binary, v, env=small, codec=codec, workers=2, max_rej=3)
        ok = tt["rejected"] >= 1 and any(c in wants for c in tt["clauses"])
        log("selftest 3 (recording of %s rejected, clauses %s): %s" % (codec, sorted(set(tt["clauses"])), "ok" if ok else "FAILED"))
        allok = allok and ok
    # 4. model-level deviations
    for dev, want in (("shift", ("EncCorrect",)), ("nocheck", ("DecodesIffChecksum", "ExactlyOneVariant")),
                      ("carry", ("DecodedEntropy", "DecodesIffChecksum", "RoundTrip"))):
        x = vlib.run_tlc(wd, "SeedMC", "SeedMC_dev_%s.cfg" % dev, workers=4, timeout=300)
        ok = x.exit != 0 and x.violated in want
        log("selftest 4 (SeedMC deviation %s violates %s in TLC; got %s): %s" % (dev, want, x.violated, "ok" if ok else "FAILED"))
        allok = allok and ok
    return 0 if allok else 2
