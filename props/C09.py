"""C09 -- Host sector-root state always matches the committed contract, even on aborts.

Leg M: spec/Host.tla (family `roots`, wrapper HostMC.tla) exhaustively: contracts of 0..4 (thorough: 0..5)
       sectors x every index list x every abort point x corrupted fields, RootsMatchRevision / AbortIsNoop /
       RootsOnlyWithCommit ...; the list-model lemma for the client API's normalised lists.
Leg R: TLC exports the one-exchange state graph; every path (Setup(n), Begin, [Deliver], [Round2], Finish|Abort)
       is executed on the REAL rhp4.Server + reference contractor through memnet with raw exchanges; after
       every step that leaves the contract lock free the LockV2Contract state is compared with the spec's.
Leg T: random append / free / sector-roots sessions (raw index lists, unknown roots, corrupted fields, aborts)
       on the real host, validated by TLC against HostTrace.tla; the client API free exhaustively against
       the list model.

This module also holds the machinery shared by the other two host-side properties (C15, C08)."""
import os, json, random, time, re, concurrent.futures as cf
import vlib
from vlib import log

PROP = "C09"
PKG = "hostx"


def build(wd):
    """The harness test binary (compiles /repo's working tree).  VERIF_HOSTX_BIN overrides it with a binary
    built against a scratch copy of /repo (used to try candidate repairs and mutants without touching /repo)."""
    return os.environ.get("VERIF_HOSTX_BIN") or vlib.go_build(PKG, wd)


# ------------------------------------------------------------------ shared: Leg M

def run_model(wd, cfgs, timeout=1500):
    """cfgs: list of (cfg, what).  Returns list of TLCResult."""
    out = []
    for cfg, what in cfgs:
        r = vlib.run_tlc(wd, "HostMC", cfg, workers=8, timeout=timeout)
        vlib.tlc_must_pass(r, what)
        log("  M: %s: %d distinct states, %d transitions, depth %d, %.1fs" % (what, r.distinct, r.generated, r.depth, r.wall))
        out.append(r)
    return out


def must_fail(wd, cfg, what, module="HostMC"):
    r = vlib.run_tlc(wd, module, cfg, workers=4, timeout=600)
    good = r.exit != 0 and (r.violated is not None or (r.error and "invariant" in r.error.lower()))
    log("selftest (%s): %s%s" % (what, "ok" if good else "FAILED", "" if good else " exit=%s violated=%s err=%s" % (r.exit, r.violated, r.error)))
    return good


# ------------------------------------------------------------------ shared: Leg R

def died(results):
    """A harness process that exits non-zero died on a harness-internal error (t.Fatal / panic): its results are
    partial, which is infrastructure trouble even if it had already recorded mismatches."""
    for r in results:
        if r.get("exit"):
            tail = open(r["log"], errors="replace").read()[-3000:]
            raise vlib.Infra("harness process died (exit %s):\n%s" % (r["exit"], tail))


def slim(e):
    return {"act": e["act"], "reply": e["reply"], "calls": e["calls"], "to": e["to"]}


def open_sessions(state):
    return [i + 1 for i, s in enumerate(state["sess"]) if s["round"] != 0]


REQUIRED_OPS = {
    "roots": ["BeginFree", "Round2Free", "BeginAppend", "Round2Append", "BeginRoots", "Deliver", "Finish", "Abort", "Truncated"],
    "accounts": ["BeginFund", "BeginRepl", "Round2Repl", "BeginAttach", "BeginDetach", "BeginRead", "BeginWrite", "BeginVerify", "BeginBalance",
                 "Deliver", "Finish", "Abort"],
    "revisions": ["BeginFree", "Round2Free", "BeginAppend", "Round2Append", "BeginRoots", "BeginLatest", "BeginFund", "BeginRepl", "Round2Repl",
                  "BeginRenew", "Round2Renew", "Deliver", "Finish", "Abort"],
}


def graph_histogram(edges, family):
    """Non-vacuity of the exported graph: every action of the family occurs, some exchanges commit, some are
    refused (a cfg whose alphabet lost an action or whose guards are never true must not pass silently)."""
    ops = {}
    commits = rejects = 0
    for e in edges:
        op = e["act"]["op"]
        ops[op] = ops.get(op, 0) + 1
        if e["to"]["rev"]["num"] > e["from"]["rev"]["num"] and op != "Setup":
            commits += 1
        if op == "Finish" and e["reply"]["k"] == "rej":
            rejects += 1
    missing = [o for o in REQUIRED_OPS.get(family, []) if o not in ops]
    if missing or not commits or not rejects:
        raise vlib.Infra("vacuous edge export for %s: missing actions %s, %d commits, %d refusals" % (family, missing, commits, rejects))
    return dict(ops=ops, commits=commits, rejects=rejects)


def export_paths(wd, cfg, max_paths=None, max_len=14, prefer=None):
    """Runs the edge-export cfg, builds an edge-covering path set and completes every path until no
    session is in flight (so that every reply is read and every lock released)."""
    r = vlib.run_tlc(wd, "HostMC", cfg, workers=1, timeout=1500)
    vlib.tlc_must_pass(r, "edge export " + cfg)
    nst, ned = vlib.graph_stats(r.edges)
    family = "roots" if "_roots_" in cfg else "accounts" if "_accounts_" in cfg else "revisions"
    hist = graph_histogram(r.edges, family)
    if nst != r.distinct:
        raise vlib.Infra("edge export %s: graph has %d states, TLC reports %d" % (cfg, nst, r.distinct))
    rng = random.Random(vlib.seed())
    paths = vlib.path_cover(r.edges, rng=rng, max_len=max_len)
    succ = {}
    for e in r.edges:
        succ.setdefault(vlib.canon(e["from"]), []).append(e)
    done = []
    for p in paths:
        p = list(p)
        for _ in range(12):
            st = p[-1]["to"]
            o = open_sessions(st)
            if not o:
                break
            nxt = None
            for want in ("Finish", "Deliver", "Abort"):
                for e in succ.get(vlib.canon(st), []):
                    if e["act"]["op"] == want and e["act"].get("s") in o:
                        nxt = e
                        break
                if nxt:
                    break
            if nxt is None:
                break
            p.append(nxt)
        done.append(p)
    covered = len({vlib.canon([e["from"], e["act"], e["to"]]) for p in done for e in p})
    total = len(done)
    if max_paths and len(done) > max_paths:
        rng.shuffle(done)
        if prefer:      # paths that must always be replayed come first, the sample fills the rest
            done.sort(key=lambda p: 0 if prefer(p) else 1)
            max_paths = max(max_paths, sum(1 for p in done if prefer(p)))
        done = done[:max_paths]
    log("  R: %s: graph %d states / %d edges; %d paths cover %d edges%s" %
        (cfg, nst, ned, total, covered, "" if len(done) == total else " (seeded sample of %d paths replayed)" % len(done)))
    return dict(states=nst, edges=ned, paths=total, covered=covered, full=(covered == ned and len(done) == total),
                tlc=r, replayed=len(done), histogram=hist), done


def run_replay(wd, binary, family, paths, allowance, collateral, verdict, listable="some", stub="", shards=6, tag="replay"):
    """Replays the paths on the real host in `shards` parallel harness processes."""
    if not paths:
        return dict(steps=0, distinct=0, samples=[], mismatches=0, wall=0.0, counts={})
    shards = max(1, min(shards, len(paths) // 8 or 1))
    chunks = [paths[i::shards] for i in range(shards)]
    t0 = time.time()

    def one(i):
        inp = os.path.join(wd, "%s_in_%d.json" % (tag, i))
        json.dump({"family": family, "allowance": allowance, "collateral": collateral, "listable": listable, "stub": stub,
                   "paths": [[slim(e) for e in p] for p in chunks[i]]}, open(inp, "w"))
        res = vlib.go_run(binary, "TestReplay", wd, env={"VERIF_IN": inp}, timeout=1500, tag="%s_%d" % (tag, i))
        os.remove(inp)
        return res
    with cf.ThreadPoolExecutor(max_workers=shards) as ex:
        rs = list(ex.map(one, range(shards)))
    died(rs)
    steps = sum(r["evaluations"] for r in rs)
    nmm = 0
    counts = {}
    samples = []
    for r in rs:
        verdict.add_all(r["mismatches"])
        nmm += len(r["mismatches"])
        samples += r["samples"]
        for k, v in r["counts"].items():
            counts[k] = counts.get(k, 0) + v
    log("  R: %d paths / %d steps replayed on the real host (%d processes), %d mismatches, %.1fs" %
        (len(paths), steps, shards, nmm, time.time() - t0))
    return dict(steps=steps, distinct=sum(r["distinct"] for r in rs), samples=samples, mismatches=nmm,
                wall=time.time() - t0, counts=counts)


# ------------------------------------------------------------------ shared: Leg T

def run_driver(wd, binary, family, shards, env, verdict, stub=""):
    t0 = time.time()

    def one(i):
        e = dict(env)
        e.update({"VERIF_FAMILY": family, "VERIF_SHARD": i})
        if stub:
            e["VERIF_STUB"] = stub
        return vlib.go_run(binary, "TestDriver", wd, env=e, timeout=1500, tag="driver_%s_%d" % (family, i))
    with cf.ThreadPoolExecutor(max_workers=shards) as ex:
        rs = list(ex.map(one, range(shards)))
    died(rs)
    files = [os.path.join(wd, "hosttrace-%s-%d.ndjson" % (family, i)) for i in range(shards)]
    counts = {}
    samples = []
    for r in rs:
        verdict.add_all(r["mismatches"])
        samples += r["samples"]
        for k, v in r["counts"].items():
            counts[k] = counts.get(k, 0) + v
    return dict(files=[f for f in files if os.path.exists(f)], traces=sum(r["traces"] for r in rs), counts=counts,
                samples=samples, evaluations=sum(r["evaluations"] for r in rs), distinct=sum(r["distinct"] for r in rs),
                mismatches=sum(len(r["mismatches"]) for r in rs), wall=time.time() - t0)


def split_traces(path):
    cur = []
    with open(path) as f:
        for line in f:
            if '"op":"Reset"' in line and cur:
                yield cur
                cur = []
            cur.append(line)
    if cur:
        yield cur


ARG_FIELDS = ("s", "idx", "secs", "pf", "cf", "sf", "tf", "rf", "af", "raw", "off", "len", "deps", "kind", "accs", "target", "b", "a", "sec", "units")


def trace_replay_record(lines, upto):
    """What is needed to re-execute a recorded trace on a fresh host: the initial contract and the actions."""
    hdr = json.loads(lines[0])
    acts = []
    for l in lines[1:upto + 1]:
        ev = json.loads(l)
        if ev["op"] in ("Lock", "Unlock", "Commit"):
            return {"kind": "calltrace", "tag": hdr.get("tag"), "events": [json.loads(x) for x in lines[:upto + 1]]}
        a = {"op": ev["op"]}
        for k in ARG_FIELDS:
            if k in ev:
                a[k] = ev[k]
        acts.append(a)
    return {"kind": "trace", "tag": hdr.get("tag"), "allowance": hdr["st"]["rout"], "collateral": hdr["st"]["coll"],
            "stored": hdr.get("stored", []), "acts": acts}


def event_sig(ev):
    return "trace:%s:%s:%s" % (ev.get("rpc") or ev.get("kind") or "-", ev.get("op"), ev.get("hint") or "state")


def tlc_trace(wd, lines, tag, cfg="HostTrace.cfg"):
    p = os.path.join(wd, "tv_%s.ndjson" % tag)
    with open(p, "w") as f:
        f.writelines(lines)
    ok, r, consumed = vlib.validate_trace(wd, "HostTrace", cfg, p, timeout=1200, tag="tv_" + tag)
    if not ok and consumed is None:
        raise vlib.Infra("trace validation broke (no high-water mark): %s\n%s" % (r.error, r.out[-2500:]))
    os.remove(p)
    for f in (os.path.join(wd, "tlc_tv_%s.out" % tag),):
        if ok and os.path.exists(f):
            os.remove(f)
    return ok, r, consumed


def validate_traces(wd, files, verdict, tag="t"):
    """TLC-validates the recorded traces.  Traces in which the harness itself already saw a divergence
    (an event carries a `hint`) are validated one by one, the rest in one TLC run per file; every rejected
    trace is reported (signature from the first event TLC cannot explain) and the others still count."""
    clean, suspect = [], []
    events = 0
    for fi, f in enumerate(files):
        grp = []
        for tr in split_traces(f):
            events += len(tr)
            if any('"hint"' in l for l in tr):
                suspect.append(tr)
            else:
                grp.append(tr)
        if grp:
            clean.append(grp)
    rejected = 0
    states = 0
    accepted = 0
    t0 = time.time()

    def report(tr, consumed, r):
        idx = min(consumed, len(tr) - 1)
        ev = json.loads(tr[idx])
        hdr = json.loads(tr[0])
        verdict.add({"sig": event_sig(ev),
                     "desc": "TLC cannot explain event %d of trace %s as a Host action: %s (invariant: %s)" %
                             (idx, hdr.get("tag"), json.dumps({k: v for k, v in ev.items() if k != "st"})[:500] + " st=" + json.dumps(ev.get("st"))[:400], r.violated),
                     "replay": trace_replay_record(tr, idx)})

    def check_group(gi_grp):
        gi, grp = gi_grp
        nonlocal_states = 0
        rej = []
        acc = 0
        for it in range(10):
            if not grp:
                break
            lines = [l for tr in grp for l in tr]
            ok, r, consumed = tlc_trace(wd, lines, "%s_g%d_%d" % (tag, gi, it))
            nonlocal_states += r.distinct
            if ok:
                acc += len(grp)
                break
            pos = 0
            for ti, tr in enumerate(grp):
                if pos <= consumed < pos + len(tr):
                    rej.append((tr, consumed - pos, r))
                    acc += ti          # the traces before it were consumed completely
                    grp = grp[ti + 1:]
                    break
                pos += len(tr)
            else:
                raise vlib.Infra("cannot locate failing event %d" % consumed)
        return acc, rej, nonlocal_states

    def check_one(i_tr):
        i, tr = i_tr
        ok, r, consumed = tlc_trace(wd, tr, "%s_s%d" % (tag, i))
        return ok, tr, consumed, r
    with cf.ThreadPoolExecutor(max_workers=8) as ex:
        for acc, rej, st in ex.map(check_group, enumerate(clean)):
            accepted += acc
            states += st
            for tr, consumed, r in rej:
                rejected += 1
                report(tr, consumed, r)
        for ok, tr, consumed, r in ex.map(check_one, enumerate(suspect)):
            states += r.distinct
            if ok:
                accepted += 1
            else:
                rejected += 1
                report(tr, consumed, r)
    log("  T: %d events in %d traces (%d flagged by the harness); TLC accepted %d, rejected %d, %.1fs" %
        (events, accepted + rejected, len(suspect), accepted, rejected, time.time() - t0))
    return dict(events=events, accepted=accepted, rejected=rejected, states=states, suspect=len(suspect))


def leg_overflow(wd, binary, verdict, stub=""):
    """The amount-overflow corruption class (shared by C08 and C15): every deposit list of length 2..4 over
    {MaxCurrency, MaxCurrency-1, 2^127, 2, 1} whose 128-bit sum overflows at the end, in the middle only, or exceeds
    the renter payout, and replenish targets near 2^128; all must be refused without any effect."""
    o = run_driver(wd, binary, "overflow", 1, {"VERIF_MAXLEN": 4}, verdict, stub=stub)
    v = validate_traces(wd, o["files"], verdict, tag="ovf")
    cleanup(o["files"])
    o.update(v)
    c = o["counts"]
    log("  T: amount overflow: %d deposit lists (%d overflow at the end, %d in the middle only, %d above the payout) + %d replenish requests, %d mismatches" %
        (sum(c.get("overflow_lists_" + k, 0) for k in ("ovfLast", "ovfMid", "tooBig")), c.get("overflow_lists_ovfLast", 0),
         c.get("overflow_lists_ovfMid", 0), c.get("overflow_lists_tooBig", 0), c.get("overflow_replenish", 0), o["mismatches"] + v["rejected"]))
    if not (c.get("overflow_lists_ovfLast") and c.get("overflow_lists_ovfMid") and c.get("overflow_lists_tooBig")):
        raise vlib.Infra("amount-overflow enumeration is vacuous: %s" % c)
    return o


def leg_gated(wd, binary, verdict, stub="", only=""):
    """The scheduled concurrent leg (C15, C08): renter A's RPC is parked at a chosen Contractor call, renter B's RPC on
    the same contract runs to completion meanwhile, then A goes on; RPC pairs x gate points are enumerated.  Every
    history must be a Host.tla behaviour in one of the two orders consistent with real time (primary: the order in
    which the recorder saw the two LockV2Contract calls); a history that neither order explains is a violation."""
    env = {"VERIF_GATED_ONLY": only} if only else {}
    o = run_driver(wd, binary, "gated", 1, env, verdict, stub=stub)
    prim = list(split_traces(o["files"][0]))
    altp = os.path.join(wd, "hosttrace-gatedalt-0.ndjson")
    alts = {}
    for tr in split_traces(altp):
        alts[json.loads(tr[0])["tag"].rsplit("/order=", 1)[0]] = tr
    t0 = time.time()
    rejected = []
    states = 0
    rest = prim
    for it in range(8):
        if not rest:
            break
        ok, r, consumed = tlc_trace(wd, [l for tr in rest for l in tr], "gated_%d" % it)
        states += r.distinct
        if ok:
            rest = []
            break
        pos = 0
        for ti, tr in enumerate(rest):
            if pos <= consumed < pos + len(tr):
                rejected.append((tr, consumed - pos, r))
                rest = rest[ti + 1:]
                break
            pos += len(tr)
    if rest:   # many rejections: one by one
        def one(i_tr):
            i, tr = i_tr
            ok, r, consumed = tlc_trace(wd, tr, "gated_r%d" % i)
            return ok, tr, consumed, r
        with cf.ThreadPoolExecutor(max_workers=8) as ex:
            for ok, tr, consumed, r in ex.map(one, enumerate(rest)):
                states += r.distinct
                if not ok:
                    rejected.append((tr, consumed, r))
    unexplained = 0

    def second(x):
        i, (tr, consumed, r) = x
        base = json.loads(tr[0])["tag"].rsplit("/order=", 1)[0]
        alt = alts.get(base)
        if alt is None:
            return base, tr, consumed, None
        ok, r2, c2 = tlc_trace(wd, alt, "gated_alt%d" % i)
        return base, tr, consumed, (ok, c2, alt)
    with cf.ThreadPoolExecutor(max_workers=8) as ex:
        for base, tr, consumed, res in ex.map(second, enumerate(rejected)):
            if res and res[0]:
                continue
            unexplained += 1
            ev = json.loads(tr[min(consumed, len(tr) - 1)])
            parts = base.split("/")       # gated/seedN/<a>@<gate>/<b>/pipelined=..
            verdict.add({"sig": "trace:gated:%s:%s" % (parts[2], parts[3]),
                         "desc": "concurrent history %s is not a Host behaviour in either order consistent with real time; first order stops at event %d: %s" %
                                 (base, consumed, json.dumps({k: v for k, v in ev.items() if k != "st"})[:500]),
                         "replay": {"kind": "gated", "only": "%s/%s/%s" % (parts[2], parts[3], "true" if parts[4].endswith("True") or parts[4].endswith("true") else "false")}})
    cleanup(o["files"] + [altp])
    c = o["counts"]
    log("  T: scheduled concurrency: %d histories (RPC pairs x gate points; %d gate points not reached), %d explained only by the second order, %d unexplained, %d target checks, %.1fs" %
        (c.get("gated_histories", 0), c.get("gated_not_reached", 0), len(rejected) - unexplained, unexplained, c.get("gated_target_checks", 0), time.time() - t0 + o["wall"]))
    if c.get("gated_histories", 0) < 50:
        raise vlib.Infra("scheduled concurrency leg is vacuous: %s" % c)
    o.update(dict(events=sum(len(t) for t in prim), accepted=len(prim) - unexplained, rejected=unexplained, states=states, second_order=len(rejected) - unexplained))
    return o


def cleanup(files):
    for f in files:
        try:
            os.remove(f)
        except OSError:
            pass


def replay_record(path, prop):
    """./check Cxx --replay f : re-executes a saved mismatch on a fresh real host."""
    wd = vlib.workdir(prop + "-replay")
    binary = build(wd)
    mm = json.load(open(path))
    verdict = vlib.Verdict(prop)
    rp = mm.get("replay") or {}
    kind = rp.get("kind")
    if kind == "path":
        res = vlib.go_run(binary, "TestReplayOne", wd, env={"VERIF_IN": path})
        verdict.add_all(res["mismatches"])
        log("  replayed %d steps on the real host, %d mismatches" % (res["evaluations"], len(res["mismatches"])))
    elif kind == "trace":
        res = vlib.go_run(binary, "TestReplayTrace", wd, env={"VERIF_IN": path})
        verdict.add_all(res["mismatches"])
        f = os.path.join(wd, "hosttrace-replay-0.ndjson")
        validate_traces(wd, [f], verdict, tag="rp")
    elif kind == "gated":
        leg_gated(wd, binary, verdict, only=rp.get("only", ""))
    elif kind == "clientfree":
        res = vlib.go_run(binary, "TestReplayClientFree", wd, env={"VERIF_IN": path})
        verdict.add_all(res["mismatches"])
    else:
        log("this record (%s) is re-run by the driver with the same VERIF_SEED: ./check %s" % (kind, prop))
        return 2
    return verdict.finish()


ASSUMPTIONS = [
    "reference Contractor / Sectors / Settings of testutil/host.go behind recording wrappers; real rhp4.Server; memnet instead of sockets",
    "initial contract states of the replay are installed through Contractor.ReviseV2Contract with a doubly signed revision",
    "amounts are shown to TLC in units of 4096 H (exactness flagged); costs from core's HostPrices.RPC*Cost are trusted",
    "TLC, the Go runtime, core's Merkle / signature primitives are trusted",
]


# ------------------------------------------------------------------ C09 proper

def leg_m(wd, tier):
    cfgs = [("Host_roots_quick.cfg", "Host/roots sizes 0..4")] if tier == "quick" else \
           [("Host_roots_thorough.cfg", "Host/roots sizes 0..5"), ("Host_roots_thorough2.cfg", "Host/roots two sessions racing for the lock, sizes 0..3")]
    cfgs.append(("Host_roots_lemma.cfg", "list-model lemma (client API lists), sizes 0..6"))
    return run_model(wd, cfgs)


def leg_r(wd, tier, binary, verdict, stub=""):
    cfg = "Host_roots_edges_quick.cfg" if tier == "quick" else "Host_roots_edges_thorough.cfg"
    g, paths = export_paths(wd, cfg)
    rr = run_replay(wd, binary, "roots", paths, 1000000000, 900000000, verdict, listable=("some" if tier == "quick" else "all"), stub=stub,
                    shards=8)
    g.update(rr)
    return g


def leg_t(wd, tier, binary, verdict, stub=""):
    shards = 4 if tier == "quick" else 8
    env = {"VERIF_TRACES": 6 if tier == "quick" else 40, "VERIF_OPS": 40 if tier == "quick" else 80}
    d = run_driver(wd, binary, "roots", shards, env, verdict, stub=stub)
    v = validate_traces(wd, d["files"], verdict)
    cleanup(d["files"])
    cenv = {"VERIF_MAXN": 4 if tier == "quick" else 5, "VERIF_MAXLEN": 3 if tier == "quick" else 5}
    c = run_driver(wd, binary, "clientfree", 1, cenv, verdict, stub=stub)
    cleanup(c["files"])
    log("  T: client API free: %d index lists (sizes 0..%d, any order, duplicates) against the list model, %d mismatches, %.1fs" %
        (c["counts"].get("clientfree_lists", 0), cenv["VERIF_MAXN"], c["mismatches"], c["wall"]))
    d.update(v)
    d["client"] = c
    return d


def run(tier):
    t0 = time.time()
    wd = vlib.workdir(PROP)
    verdict = vlib.Verdict(PROP)
    binary = build(wd)
    ms = leg_m(wd, tier)
    rr = leg_r(wd, tier, binary, verdict)
    tt = leg_t(wd, tier, binary, verdict)
    rc = verdict.finish()
    tl = [m for m in ms] + [rr["tlc"]]
    cov = {
        "states": sum(m.distinct for m in tl) + tt["states"], "transitions": sum(m.generated for m in tl),
        "traces_validated_against_impl": tt["accepted"] + rr["replayed"],
        "exhaustive": bool(rr["full"]),
        "samples": vlib.trim_samples(rr["samples"] + tt["samples"], 3),
        "model": {"cfgs": [m.cmd.split()[-3].split("/")[-1] for m in ms],
                  "constants": "contracts of 0..%d sectors, every index list over 0..size up to that length (any order, duplicates, out of range), "
                               "appends with unknown roots, every sector-roots range, abort at every round; complete reachable state space up to 2 commits" % (4 if tier == "quick" else 5)},
        "replay": {k: rr[k] for k in ("states", "edges", "paths", "covered", "replayed", "steps", "full", "mismatches")},
        "replay_graph": rr["histogram"],
        "replay_counts": rr["counts"],
        "trace_validation": {k: tt[k] for k in ("traces", "events", "accepted", "rejected", "suspect")},
        "client_api_lists": tt["client"]["counts"].get("clientfree_lists", 0),
        "driver_counts": tt["counts"],
        "evaluations": rr["steps"] + tt["events"] + tt["client"]["evaluations"],
        "distinct_nontrivial": rr["distinct"] + tt["traces"] + tt["client"]["distinct"],
        "rule": "R: one evaluation per spec transition executed on the real host (state compared through LockV2Contract whenever the lock is free), "
                "distinct by (action, arguments, resulting roots); T: one evaluation per recorded stream step validated by TLC, distinct by trace; "
                "client API: one evaluation per (size, raw index list)",
    }
    vlib.write_evidence(PROP, tier, "model_checking", cov, ASSUMPTIONS, time.time() - t0, len(verdict.violations))
    return rc


def replay(path):
    return replay_record(path, PROP)


def selftest():
    """(1) the implementation-shaped free breaks the invariants in TLC; (2) the lemma is not vacuous;
    (3) replay against a contractor that ignores new roots finds mismatches; (4) a good trace with one
    corrupted observation is rejected by TLC."""
    wd = vlib.workdir(PROP + "-selftest")
    binary = build(wd)
    ok1 = must_fail(wd, "Host_roots_dev_alias.cfg", "in-place free before the renter signs violates RootsMatchRevision in TLC")
    ok2 = must_fail(wd, "Host_roots_lemma_neg.cfg", "list-model lemma is false for unsorted index lists")
    v = vlib.Verdict(PROP + "-selftest"); v.findings = []
    g, paths = export_paths(wd, "Host_roots_edges_quick.cfg", max_paths=300)
    run_replay(wd, binary, "roots", paths, 1000000000, 900000000, v, listable="none", stub="keeproots", shards=4)
    ok3 = any(re.search(r":(roots|rootsmatch|commit)$", m["sig"]) for m in v.violations)
    log("selftest (replay against a contractor that ignores new roots finds the divergence): %s" % ("ok" if ok3 else "FAILED"))
    ok4 = corrupted_trace_rejected(wd, binary, "roots", {"VERIF_TRACES": 2, "VERIF_OPS": 25, "VERIF_GENTLE": 1}, "roots")
    return 0 if ok1 and ok2 and ok3 and ok4 else 2


def corrupted_trace_rejected(wd, binary, family, env, field):
    """Takes a trace TLC accepts, alters one recorded field, and expects TLC to reject it."""
    v = vlib.Verdict("selftest"); v.findings = []
    d = run_driver(wd, binary, family, 1, env, v)
    good = None
    for tr in split_traces(d["files"][0]):
        if not any('"hint"' in l for l in tr):
            ok, r, consumed = tlc_trace(wd, tr, "good")
            if ok:
                good = tr
                break
    cleanup(d["files"])
    if good is None:
        log("selftest (corrupted trace): no accepted trace to corrupt: FAILED")
        return False
    bad = list(good)
    done = False
    for i in range(len(bad) - 1, 0, -1):
        ev = json.loads(bad[i])
        if not ev.get("obs"):
            continue
        st = ev["st"]
        if field == "roots" and len(st["roots"]) >= 2 and st["roots"][0] != st["roots"][1]:
            st["roots"][0], st["roots"][1] = st["roots"][1], st["roots"][0]
        elif field == "acct" and any(x > 0 for x in st["acct"].values()):
            k = [k for k, x in st["acct"].items() if x > 0][0]
            st["acct"][k] -= 1
        elif field == "rout":
            st["rout"] += 1
        else:
            continue
        bad[i] = json.dumps(ev, separators=(",", ":")) + "\n"
        done = True
        break
    if not done:
        log("selftest (corrupted trace): nothing to corrupt: FAILED")
        return False
    ok, r, consumed = tlc_trace(wd, bad, "bad")
    good_ = (not ok) and consumed == i
    log("selftest (good %s trace accepted; same trace with one altered %s observation rejected at that event): %s" %
        (family, field, "ok" if good_ else "FAILED (ok=%s consumed=%s expected %d)" % (ok, consumed, i)))
    return good_
