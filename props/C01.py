"""C01 -- Best chain is always fully valid, heaviest-known, and never loses work."""
import chainlib, chaintrace

def run(tier):
    return chainlib.run_family("C01", tier, "Chain_core.cfg", "Chain_core_edges.cfg",
                               {"quick": (1, 5), "thorough": (5, 6)}, extra=chaintrace.leg_t("C01"))
