"""Leg T for the Chain properties: randomised histories on real nodes (harness/chainx TestDriver),
every recorded event validated by TLC against ChainTrace.tla (all Chain invariants evaluated in
every state of every recorded execution)."""
import os, json, time, concurrent.futures as cf
import vlib
from vlib import log

MODES = {"C01": "core", "C02": "ledger", "C03": "durable", "C04": "subs", "C19": "prune"}
SIZES = {  # (histories, min blocks, max blocks)
    "quick": {"core": (48, 20, 45), "ledger": (32, 20, 40), "durable": (32, 15, 35), "subs": (48, 20, 45), "prune": (48, 20, 40)},
    "thorough": {"core": (600, 30, 120), "ledger": (300, 30, 90), "durable": (300, 20, 70), "subs": (600, 30, 120), "prune": (600, 30, 100)},
}


def split_traces(path):
    cur = []; start = 0
    with open(path) as f:
        for i, line in enumerate(f):
            if line.startswith('{"op":"Reset"') and cur:
                yield start, cur
                cur = []; start = i
            cur.append(line)
    if cur:
        yield start, cur


def validate_shard(wd, prop, i, verdict, cfg="ChainTrace.cfg"):
    path = os.path.join(wd, "chaintrace-%d.ndjson" % i)
    trees = os.path.join(wd, "chaintrees-%d.json" % i)
    events = vlib.count_lines(path)
    if events == 0:
        return 0, 0, 0
    rejected = 0; states = 0
    for it in range(8):
        ok, r, consumed = vlib.validate_trace(wd, "ChainTrace", cfg, path, timeout=1800, tag="ct%d_%d" % (i, it), extra_env={"TREES": trees})
        states += r.distinct
        if ok:
            break
        if consumed is None:
            raise vlib.Infra("chain trace validation broke: %s\n%s" % (r.error, r.out[-3000:]))
        traces = list(split_traces(path))
        bad = None
        for start, lines in traces:
            if start <= consumed < start + len(lines) or (consumed == start + len(lines) and r.violated):
                bad = (start, lines)
        if bad is None:
            # an invariant failed in the last state of the file
            bad = traces[-1]
        start, lines = bad
        k = min(consumed - start, len(lines) - 1)
        ev = json.loads(lines[k])
        prev = json.loads(lines[max(k - 1, 0)])
        rejected += 1
        what = r.violated or "no Chain action explains the event"
        sig = "trace:%s:%s:%s" % (prop, ev.get("op"), (r.violated or "unexplained").split()[0])
        slim = lambda e: {k2: v for k2, v in e.items() if k2 in ("op", "batch", "b", "h", "ret", "mem", "best", "s", "from", "max", "rus", "aus", "err", "shadowOk", "stateOk", "detail")}
        verdict.add({"sig": sig,
                     "desc": "TLC rejects a recorded execution at event %d (%s) after %s: %s" % (k, json.dumps(slim(ev)), json.dumps(slim(prev)), what),
                     "replay": {"kind": "trace", "events": [slim(json.loads(x)) for x in lines[:k + 1]][-40:], "tlc": r.out[-1500:]}})
        with open(path, "w") as f:
            for s2, l2 in traces:
                if s2 != start:
                    f.writelines(l2)
        if vlib.count_lines(path) == 0:
            break
    return events, rejected, states


def leg_t(prop):
    mode = MODES[prop]

    def run(wd, binary, tier, verdict):
        nh, lo, hi = SIZES[tier][mode]
        shards = 12
        res = vlib.go_run(binary, "TestDriver", wd, env={"VERIF_MODE": mode, "VERIF_HISTORIES": nh, "VERIF_SHARDS": shards,
                                                         "VERIF_MIN_BLOCKS": lo, "VERIF_MAX_BLOCKS": hi}, timeout=3000, tag="driver")
        verdict.add_all(res["mismatches"])
        t0 = time.time()
        tot = rej = st = 0
        with cf.ThreadPoolExecutor(max_workers=12) as ex:
            futs = [ex.submit(validate_shard, wd, prop, i, verdict) for i in range(shards)]
            for fu in futs:
                e, r_, s = fu.result()
                tot += e; rej += r_; st += s
        conc = None
        if prop in ("C04", "C19"):
            # concurrent pollers + submitter (C19: + a pruner), ordered by the verif hook under Manager.mu
            nc = 16 if tier == "quick" else 200
            cres = vlib.go_run(binary, "TestConcurrent", wd, env={"VERIF_HISTORIES": nc, "VERIF_SHARDS": shards,
                                                                  "VERIF_CONC_PRUNE": "1" if prop == "C19" else "0"}, timeout=3000, tag="concurrent")
            verdict.add_all(cres["mismatches"])
            ctot = crej = 0
            with cf.ThreadPoolExecutor(max_workers=12) as ex:
                for e, r_, s in ex.map(lambda i: validate_shard(wd, prop, i, verdict), range(shards)):
                    ctot += e; crej += r_; st += s
            log("  T: concurrent: %d histories / %d events (%s); TLC validated, %d traces rejected" % (cres["traces"], ctot, json.dumps(cres.get("counts", {})), crej))
            conc = dict(histories=cres["traces"] - crej, events=ctot, rejected=crej, counts=cres.get("counts", {}))
            tot += ctot; rej += crej
        log("  T: mode %s: %d histories / %d events on real nodes (%d driver-level findings); TLC validated in %.1fs, %d traces rejected; counts %s" %
            (mode, res["traces"], tot, len(res["mismatches"]), time.time() - t0, rej, json.dumps(res.get("counts", {}))))
        for i in range(shards):
            for f in ("chaintrace-%d.ndjson" % i, "chaintrees-%d.json" % i):
                try:
                    os.remove(os.path.join(wd, f))
                except OSError:
                    pass
        return dict(traces=res["traces"] - rej, events=tot, rejected=rej, trace_states=st, mode=mode, samples=res["samples"],
                    driver_counts=res.get("counts", {}), blocks_per_history=[lo, hi], concurrent=conc)
    return run
