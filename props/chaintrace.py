"""Leg T for the Chain properties (placeholder until the driver exists)."""
def leg_t(prop):
    return None
