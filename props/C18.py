"""C18 -- Limits and shutdown are honoured under any schedule.
Leg M: spec/Limits.tla (RPC pipeline + thread group + Run; connection lifecycle; plain thread group) checked by
TLC over every interleaving for small constants, liveness StopReturns under fairness, and the implementation-shaped
AllowCheck/AddPeer split (DevCapCheckThenAct) shown to break PeerCaps.
Leg R: the eager (settled-state) graphs of the three families are replayed on the REAL syncer / threadgroup /
rhp4.Server, the gates being a blocking ChainManager, a PeerStore and an rhp4.Settings wrapper.
Leg T: randomised load with Close at a random moment, connection storms, wallet shutdown; every recorded run is
validated by TLC against spec/LimitsTrace.tla."""
import os, json, random, time, collections, concurrent.futures as cf
import vlib
from vlib import log

PROP = "C18"
PKG = "limitsx"

ENV_OPS = {"Arrive", "Disconnect", "CloseListener", "StopBegin", "ThAdd", "ThRefuse", "ThCheck", "AllowCheck", "Handshake",
           "Handle", "ThDone", "AddPeer"}
FAIL_OUT = {"lost", "rejected", "dropsub", "dropshut", "droppeer"}


# ------------------------------------------------------------------ Leg M

M_QUICK = [("Limits_rpc_quick.cfg", "RPC pipeline 2 peers x 2 RPCs, caps {1,2}x{0,1,2}"),
           ("Limits_rpc_live.cfg", "liveness StopReturns/RpcsSettle under fairness"),
           ("Limits_conn_mc.cfg", "connection lifecycle, caps re-checked at the insert (intended design)"),
           ("Limits_tg_mc.cfg", "plain thread group")]
M_THOROUGH = M_QUICK + [("Limits_rpc_mc3x2.cfg", "RPC pipeline 3 peers (two share a subnet) x 2 RPCs"),
                        ("Limits_rpc_mc2x3.cfg", "RPC pipeline 2 peers x 3 RPCs"),
                        ("Limits_rpc_disc.cfg", "RPC pipeline with peers hanging up at any moment")]
M_DEVS = [("Limits_conn_impl.cfg", "PeerCaps"),            # the code as it is: check-then-act
          ("Limits_rpc_dev_leak.cfg", "NoSlotLeak"),
          ("Limits_rpc_dev_drop.cfg", "BackPressureNotDrop"),
          ("Limits_tg_dev.cfg", None)]


def leg_m(wd, tier):
    cfgs = M_QUICK if tier == "quick" else M_THOROUGH
    out = []

    def one(cfg, what):
        r = vlib.run_tlc(wd, "MCLimits", cfg, workers=4 if tier == "quick" else 8, timeout=1500)
        vlib.tlc_must_pass(r, what)
        return cfg, what, r
    # quick: the four runs are small and run side by side; thorough: big runs one after the other
    with cf.ThreadPoolExecutor(max_workers=4 if tier == "quick" else 1) as ex:
        for cfg, what, r in ex.map(lambda cw: one(*cw), cfgs):
            log("  M: %s: %d distinct states, %d transitions, depth %d, %.1fs" % (what, r.distinct, r.generated, r.depth, r.wall))
            out.append(r)
    # the implementation-shaped connection lifecycle must violate PeerCaps in the model (design-level counterexample)
    r = vlib.run_tlc(wd, "MCLimits", "Limits_conn_cap.cfg", workers=2, timeout=600)
    if r.exit == 0 or r.violated != "PeerCaps":
        raise vlib.Infra("the implementation-shaped AllowCheck/AddPeer split was expected to violate PeerCaps in TLC, got exit=%s violated=%s\n%s"
                         % (r.exit, r.violated, r.out[-1500:]))
    log("  M: DevCapCheckThenAct (allowConnect counts, addPeer inserts later): TLC finds the PeerCaps counterexample (%d states)" % r.distinct)
    return out


# ------------------------------------------------------------------ eager graph -> macro steps

def macro_graph(edges):
    """edges of the eager graph -> (states, inits, macro) where macro[s] = list of (act, settled_to) and every
    state is a canon string.  A macro step is one environment/gate step followed by the internal steps up to the
    next settled state; the graph must be confluent (one settled state per macro step)."""
    def isenv(e):
        op = e["act"]["op"]
        if op == "Abort":
            return e["from"]["stop"] == "no"
        if op == "RemovePeer":          # the remote hangs up (internal when Run's teardown closed the transport)
            return not e["from"]["dead"][e["act"]["p"]]
        return op in ENV_OPS
    succ = collections.defaultdict(list)
    states = {}
    inits = []
    for e in edges:
        f = vlib.canon(e["from"]); t = vlib.canon(e["to"])
        if f not in states:
            states[f] = e["from"]
        if t not in states:
            states[t] = e["to"]
        if f != t:
            succ[f].append((e, t))
        if e["init"] and f not in inits:
            inits.append(f)
    settled = {s for s in states if all(isenv(e) for e, _ in succ[s])}
    cache = {}

    def closure(u):
        if u in cache:
            return cache[u]
        seen = {u}; stack = [u]; res = set()
        while stack:
            x = stack.pop()
            if x in settled:
                res.add(x); continue
            for e, t in succ[x]:
                if not isenv(e) and t not in seen:
                    seen.add(t); stack.append(t)
        cache[u] = res
        return res
    macro = []
    for s in states:          # insertion order = TLC's BFS order: the initial state's steps come first
        if s not in settled:
            continue
        for e, t in succ[s]:
            ts = closure(t)
            if len(ts) != 1:
                raise vlib.Infra("eager graph is not confluent after %s: %d settled successors" % (e["act"], len(ts)))
            macro.append({"from": states[s], "act": e["act"], "to": states[next(iter(ts))]})
    return states, inits, macro


def cover_by_config(macro, rng, max_len):
    """one vlib.path_cover per `lim` (each cap combination is a component with its own initial state)"""
    groups = collections.OrderedDict()
    for m in macro:
        groups.setdefault(vlib.canon(m["from"]["lim"]), []).append(m)
    out = []
    for k, es in groups.items():
        paths = vlib.path_cover(es, max_paths=None, rng=rng, max_len=max_len)
        out.append((json.loads(k), es, paths))
    return out


def rpc_obs(s):
    inside, answered, failed = [], [], []
    for p in sorted(s["st"]):
        for i, st in enumerate(s["st"][p]):
            name = "%s.%d" % (p, i + 1)
            o = s["out"][p][i]
            if st == "handling":
                inside.append(name)
            if o == "answered":
                answered.append(name)
            elif o in FAIL_OUT or ((s["peersClosed"] or not s["loopOn"][p]) and st != "new"):
                failed.append(name)
    return {"inside": sorted(inside), "answered": sorted(answered), "failed": sorted(failed),
            "closed": s["stop"] == "returned", "sub": {k: v for k, v in s["sub"].items() if v}}


def quiescent(s):
    return all(st in ("new", "final") for p in s["st"] for st in s["st"][p])


def sample_paths(paths, n, rng):
    if n is None or len(paths) <= n:
        return paths
    ps = list(paths)
    rng.shuffle(ps)
    return ps[:n]


def leg_r_rpc(wd, tier, binary, verdict, mutate=None):
    r = vlib.run_tlc(wd, "MCLimits", "Limits_rpc_edges.cfg", workers=1, timeout=900)
    vlib.tlc_must_pass(r, "Limits RPC edge export")
    states, inits, macro = macro_graph(r.edges)
    rng = random.Random(vlib.seed())
    groups = []
    npaths = nsteps = 0
    total_paths = 0
    per_group = 10 if tier == "quick" else None
    for lim, es, paths in cover_by_config(macro, rng, 40):
        total_paths += len(paths)
        paths = sample_paths(paths, per_group, rng)
        groups.append({"maxInflight": lim["maxInflight"], "maxSubnet": lim["maxSubnet"], "subnets": lim["sub"],
                       "nrpc": max(len(v) for v in es[0]["from"]["st"].values()),
                       "paths": [[{"act": e["act"], "obs": rpc_obs(e["to"]), "quiescent": quiescent(e["to"])} for e in p] for p in paths]})
        npaths += len(paths); nsteps += sum(len(p) for p in paths)
    log("  R/rpc: eager graph %d states / %d edges -> %d settled macro steps in %d cap configurations; %d of %d cover paths (%d steps) replayed"
        % (len(states), len(r.edges), len(macro), len(groups), npaths, total_paths, nsteps))
    inp = os.path.join(wd, "replay_rpc_in.json")
    json.dump({"groups": groups, "parallel": 8, "mutate": mutate or ""}, open(inp, "w"))
    res = vlib.go_run(binary, "TestReplayRPC", wd, env={"VERIF_IN": inp}, timeout=1500)
    if res["counts"].get("infra"):
        raise vlib.Infra("rpc replay could not set up %d paths: %s" % (res["counts"]["infra"], res.get("notes")))
    verdict.add_all(res["mismatches"])
    log("  R/rpc: %d steps on real syncers, %d mismatches, %.1fs" % (res["evaluations"], len(res["mismatches"]), res["wall"]))
    return dict(states=len(states), edges=len(r.edges), macro=len(macro), paths=npaths, cover_paths=total_paths, steps=res["evaluations"],
                distinct=res["distinct"], samples=res["samples"], tlc=r)


def conn_obs(s):
    return {"peers": sorted(c for c, v in s["conn"].items() if v in ("peer", "running")),
            "rejected": sorted(c for c, v in s["conn"].items() if v == "rejected"),
            "closed": s["stop"] == "returned",
            # Close has been called, nothing is held by the harness, and still it cannot return: only a peer that
            # Run's teardown did not close keeps the group alive (until the REMOTE hangs up)
            "stuck": s["stop"] in ("closed", "waiting") and all(v not in ("checked", "shaken") for v in s["conn"].values())}


def walk_macro(macro, lim_pred, ops):
    """follow the named environment/gate steps through the macro graph from the initial state whose lim satisfies
    lim_pred; returns the list of macro edges (used to replay TLC's own counterexample literally)"""
    by_from = collections.defaultdict(list)
    for m in macro:
        by_from[vlib.canon(m["from"])].append(m)
    cur = None
    for m in macro:
        if lim_pred(m["from"]["lim"]) and all(v == "idle" for v in m["from"]["conn"].values()) and m["from"]["stop"] == "no":
            cur = vlib.canon(m["from"]); break
    path = []
    for op, p in ops:
        nxt = [m for m in by_from[cur] if m["act"]["op"] == op and m["act"]["p"] == p]
        if not nxt:
            raise vlib.Infra("counterexample step %s(%s) has no macro edge" % (op, p))
        path.append(nxt[0]); cur = vlib.canon(nxt[0]["to"])
    return path


def tlc_counterexample_ops(out):
    """(op, arg) of every step of the error trace TLC printed"""
    import re
    ops = []
    for m in re.finditer(r'^State \d+: <(\w+)\("?([^")]*)"?\) line', out, re.M):
        ops.append((m.group(1), m.group(2)))
    return ops


def leg_r_conn(wd, tier, binary, verdict):
    r = vlib.run_tlc(wd, "MCLimits", "Limits_conn_edges.cfg", workers=1, timeout=900)
    vlib.tlc_must_pass(r, "Limits CONN edge export")
    states, inits, macro = macro_graph(r.edges)
    rng = random.Random(vlib.seed() + 1)
    groups = []
    npaths = total = 0
    per_group = 25 if tier == "quick" else None
    conns = sorted(macro[0]["from"]["conn"])
    mk = lambda p: [{"act": e["act"], "obs": conn_obs(e["to"])} for e in p]
    nstuck = sum(1 for m in macro if conn_obs(m["to"])["stuck"])
    for lim, es, paths in cover_by_config(macro, rng, 30):
        total += len(paths)
        paths = sample_paths(paths, per_group, rng)
        groups.append({"maxIn": lim["maxIn"], "conns": conns, "paths": [mk(p) for p in paths]})
        npaths += len(paths)
    # TLC's own PeerCaps counterexample (Limits_conn_impl.cfg), replayed literally, first path of its group
    cx = vlib.run_tlc(wd, "MCLimits", "Limits_conn_cap.cfg", workers=1, timeout=600, tag="conn_cx")
    ops = [(o, p) for o, p in tlc_counterexample_ops(cx.out) if o in ENV_OPS and p in conns]
    cxlim = None
    import re
    m = re.search(r"maxIn \|-> (-?\d+)", cx.out)
    if cx.violated == "PeerCaps" and ops and m:
        cxlim = int(m.group(1))
        path = walk_macro(macro, lambda l: l["maxIn"] == cxlim, ops)
        for g in groups:
            if g["maxIn"] == cxlim:
                g["paths"].insert(0, mk(path)); npaths += 1
        log("  R/conn: TLC's PeerCaps counterexample (maxIn=%d): %s" % (cxlim, " ".join("%s(%s)" % x for x in ops)))
    else:
        raise vlib.Infra("no PeerCaps counterexample to replay (violated=%s)" % cx.violated)
    log("  R/conn: eager graph %d states / %d edges -> %d macro steps in %d cap configurations; %d of %d cover paths replayed"
        % (len(states), len(r.edges), len(macro), len(groups), npaths, total))
    inp = os.path.join(wd, "replay_conn_in.json")
    json.dump({"groups": groups, "parallel": 8}, open(inp, "w"))
    res = vlib.go_run(binary, "TestReplayConn", wd, env={"VERIF_IN": inp}, timeout=1500)
    if res["counts"].get("infra"):
        raise vlib.Infra("conn replay could not set up %d paths: %s" % (res["counts"]["infra"], res.get("notes")))
    verdict.add_all(res["mismatches"])
    capx = sum(1 for m in res["mismatches"] if "inbound-cap-exceeded" in m["sig"])
    log("  R/conn: %d steps on real syncers, %d mismatches (%d x inbound cap exceeded), %.1fs" % (res["evaluations"], len(res["mismatches"]), capx, res["wall"]))
    return dict(states=len(states), edges=len(r.edges), macro=len(macro), paths=npaths, cover_paths=total, steps=res["evaluations"],
                distinct=res["distinct"], samples=res["samples"], cap_exceeded=capx, tlc=r)


def tg_obs(s):
    th = s["th"]
    return {"live": sorted(t for t, v in th.items() if v == "live"), "done": sorted(t for t, v in th.items() if v == "done"),
            "refused": sorted(t for t, v in th.items() if v == "refused"), "closed": s["stop"] == "returned"}


def leg_r_tg(wd, tier, binary, verdict, targets=None):
    r = vlib.run_tlc(wd, "MCLimits", "Limits_tg_edges.cfg", workers=1, timeout=600)
    vlib.tlc_must_pass(r, "Limits TG edge export")
    states, inits, macro = macro_graph(r.edges)
    rng = random.Random(vlib.seed() + 2)
    paths = vlib.path_cover(macro, max_paths=None, rng=rng, max_len=30)
    total = len(paths)
    paths = sample_paths(paths, 40 if tier == "quick" else None, rng)
    inp = os.path.join(wd, "replay_tg_in.json")
    json.dump({"threads": sorted(macro[0]["from"]["th"]), "targets": targets or [],
               "paths": [[{"act": e["act"], "obs": tg_obs(e["to"])} for e in p] for p in paths]}, open(inp, "w"))
    res = vlib.go_run(binary, "TestReplayTG", wd, env={"VERIF_IN": inp}, timeout=900)
    if res["counts"].get("infra"):
        raise vlib.Infra("tg replay could not set up %d paths: %s" % (res["counts"]["infra"], res.get("notes")))
    verdict.add_all(res["mismatches"])
    log("  R/tg: eager graph %d states / %d edges -> %d macro steps; %d of %d cover paths x %d targets (threadgroup, rhp4.Server): %d steps, %d mismatches, %.1fs"
        % (len(states), len(r.edges), len(macro), len(paths), total, res["counts"].get("targets", 0), res["evaluations"], len(res["mismatches"]), res["wall"]))
    return dict(states=len(states), edges=len(r.edges), macro=len(macro), paths=len(paths) * res["counts"].get("targets", 0), cover_paths=total,
                steps=res["evaluations"], distinct=res["distinct"], samples=res["samples"], tlc=r)


def run(tier):
    t0 = time.time()
    wd = vlib.workdir(PROP)
    verdict = vlib.Verdict(PROP)
    binary = vlib.go_build(PKG, wd)
    ms = leg_m(wd, tier)
    rr = leg_r_rpc(wd, tier, binary, verdict)
    rc = verdict.finish()
    return rc


def replay(path):
    return 2


def selftest():
    return 2
