"""C18 -- Limits and shutdown are honoured under any schedule.
Leg M: spec/Limits.tla (RPC pipeline + thread group + Run; connection lifecycle; plain thread group) checked by
TLC over every interleaving for small constants, liveness StopReturns under fairness, and the implementation-shaped
AllowCheck/AddPeer split (DevCapCheckThenAct) shown to break PeerCaps.
Leg R: the eager (settled-state) graphs of the three families are replayed on the REAL syncer / threadgroup /
rhp4.Server, the gates being a blocking ChainManager, a PeerStore and an rhp4.Settings wrapper.
Leg T: randomised load with Close at a random moment, connection storms, wallet shutdown; every recorded run is
validated by TLC against spec/LimitsTrace.tla."""
import os, json, random, time, collections, concurrent.futures as cf
import vlib
from vlib import log

PROP = "C18"
PKG = "limitsx"
# the box is shared with other builders: bound every JVM (TLC's default is a quarter of the RAM each)
HEAP_BIG = {"JAVA_TOOL_OPTIONS": "-Xss64m -Xmx6g"}
HEAP_SMALL = {"JAVA_TOOL_OPTIONS": "-Xss64m -Xmx2g"}
HEAP_TRACE = {"JAVA_TOOL_OPTIONS": "-Xss64m -Xmx2g -Dtlc2.tool.queue.IStateQueue=StateDeque"}

ENV_OPS = {"Arrive", "Disconnect", "CloseListener", "StopBegin", "Stop2Begin", "CancelParent", "ThAdd", "ThRefuse", "ThCheck", "AllowCheck", "Refuse", "Handshake",
           "Handle", "ThDone", "AddPeer"}
FAIL_OUT = {"lost", "rejected", "dropsub", "dropshut", "droppeer"}


# ------------------------------------------------------------------ implementation-shaped switches

SWITCHES = {"DevCapCheckThenAct": "C18-inbound-cap-check-then-act", "DevSweepOnce": "C18-close-blocked-by-unswept-peer"}


import threading
_CFG_LOCK = threading.Lock()
_CFG_DONE = {}


def impl_cfg(wd, name):
    """The cfgs that are bound to the REAL code (edge export for replay, trace validation) carry the model switches
    of the genuine defects: TRUE while the finding is open (the code is as it is), FALSE once it is recorded as
    fixed -- then the same replay/trace legs check the code against the intended design."""
    status = {f["id"]: f.get("status") for f in vlib.load_findings(PROP)}
    txt = open(os.path.join(vlib.SPEC, "cfg", name)).read()
    import re
    for sw, fid in SWITCHES.items():
        val = "TRUE" if status.get(fid, "open") == "open" else "FALSE"
        txt = re.sub(r"(%s\s*=\s*)(TRUE|FALSE)" % sw, r"\g<1>" + val, txt)
    out = os.path.join(wd, name)
    with _CFG_LOCK:                       # legs run in threads: write each cfg once, atomically
        if _CFG_DONE.get(out) != txt:
            tmp = out + ".tmp%d" % os.getpid()
            open(tmp, "w").write(txt)
            os.replace(tmp, out)
            _CFG_DONE[out] = txt
    return out


# ------------------------------------------------------------------ Leg M

M_QUICK = [("Limits_rpc_quick.cfg", "RPC pipeline 2 peers x 2 RPCs, maxInflight 1, maxSubnet {off,1,2}"),
           ("Limits_rpc_live.cfg", "liveness StopReturns/RpcsSettle under fairness, 1 peer x 3 RPCs"),
           ("Limits_conn_quick.cfg", "connection lifecycle, intended design (cap re-checked at the insert, no insert after the teardown), incl. liveness"),
           ("Limits_tg_mc.cfg", "plain thread group, incl. liveness")]
M_THOROUGH = [("Limits_rpc_mc.cfg", "RPC pipeline 2 peers x 2 RPCs, caps {1,2} x {off,1,2}"),
              ("Limits_rpc_live.cfg", "liveness StopReturns/RpcsSettle under fairness, 1 peer x 3 RPCs"),
              ("Limits_rpc_live2x2.cfg", "liveness StopReturns/RpcsSettle under fairness, 2 peers x 2 RPCs"),
              ("Limits_conn_mc.cfg", "connection lifecycle 3 in + 2 out, intended design, incl. liveness"),
              ("Limits_tg_mc.cfg", "plain thread group, incl. liveness"),
              ("Limits_rpc_disc.cfg", "RPC pipeline with peers hanging up at any moment"),
              ("Limits_rpc_mc3.cfg", "RPC pipeline 3 peers in one subnet (2+1+1 RPCs), subnet limit {1,2}"),
              ("Limits_rpc_mc2x3.cfg", "RPC pipeline 2 peers x 3 RPCs")]
M_DEVS = [("Limits_conn_cap.cfg", "PeerCaps"),             # the code as it is: check-then-act
          ("Limits_rpc_dev_leak.cfg", "NoSlotLeak"),
          ("Limits_rpc_dev_drop.cfg", "BackPressureNotDrop"),
          ("Limits_tg_dev.cfg", None),
          ("Limits_tg_dev2.cfg", "StopWaits"),
          ("Limits_tg_dev3.cfg", "TgAccounting"),
          ("Limits_tg_dev3live.cfg", "deadlock")]


def leg_m(wd, tier):
    cfgs = M_QUICK if tier == "quick" else M_THOROUGH
    out = []

    def one(cfg, what):
        r = vlib.run_tlc(wd, "MCLimits", cfg, workers=4 if tier == "quick" else 8, timeout=1500, env=HEAP_BIG)
        vlib.tlc_must_pass(r, what)
        return cfg, what, r
    # quick: the four runs are small and run side by side; thorough: big runs one after the other
    with cf.ThreadPoolExecutor(max_workers=4 if tier == "quick" else 1) as ex:
        for cfg, what, r in ex.map(lambda cw: one(*cw), cfgs):
            log("  M: %s: %d distinct states, %d transitions, depth %d, %.1fs" % (what, r.distinct, r.generated, r.depth, r.wall))
            out.append(r)
    # the implementation-shaped connection lifecycle must violate PeerCaps in the model (design-level counterexample)
    r = vlib.run_tlc(wd, "MCLimits", "Limits_conn_cap.cfg", workers=2, timeout=600, env=HEAP_SMALL)
    if r.exit == 0 or r.violated != "PeerCaps":
        raise vlib.Infra("the implementation-shaped AllowCheck/AddPeer split was expected to violate PeerCaps in TLC, got exit=%s violated=%s\n%s"
                         % (r.exit, r.violated, r.out[-1500:]))
    log("  M: DevCapCheckThenAct (allowConnect counts, addPeer inserts later): TLC finds the PeerCaps counterexample (%d states)" % r.distinct)
    r = vlib.run_tlc(wd, "MCLimits", "Limits_conn_sweep.cfg", workers=2, timeout=600, env=HEAP_SMALL)
    if r.exit == 0 or not (r.error and "Temporal propert" in r.error and "StopReturns" in r.error):
        raise vlib.Infra("the implementation-shaped teardown (peers closed once, addPeer inserts later) was expected to violate StopReturns in TLC, got exit=%s %s\n%s"
                         % (r.exit, r.error, r.out[-1500:]))
    log("  M: DevSweepOnce (Run closes the peers once, addPeer still inserts afterwards): TLC finds the StopReturns counterexample under fairness (%d states)" % r.distinct)
    return out


# ------------------------------------------------------------------ eager graph -> macro steps

def macro_graph(edges):
    """edges of the eager graph -> (states, inits, macro) where macro[s] = list of (act, settled_to) and every
    state is a canon string.  A macro step is one environment/gate step followed by the internal steps up to the
    next settled state; the graph must be confluent (one settled state per macro step)."""
    def isenv(e):
        op = e["act"]["op"]
        if op == "Abort":
            return e["from"]["stop"] == "no"
        if op == "RemovePeer":          # the remote hangs up (internal when Run's teardown closed the transport)
            return not e["from"]["dead"][e["act"]["p"]]
        return op in ENV_OPS
    succ = collections.defaultdict(list)
    states = {}
    inits = []
    for e in edges:
        f = vlib.canon(e["from"]); t = vlib.canon(e["to"])
        if f not in states:
            states[f] = e["from"]
        if t not in states:
            states[t] = e["to"]
        if f != t:
            succ[f].append((e, t))
        if e["init"] and f not in inits:
            inits.append(f)
    settled = {s for s in states if all(isenv(e) for e, _ in succ[s])}
    cache = {}

    def closure(u):
        if u in cache:
            return cache[u]
        seen = {u}; stack = [u]; res = set()
        while stack:
            x = stack.pop()
            if x in settled:
                res.add(x); continue
            for e, t in succ[x]:
                if not isenv(e) and t not in seen:
                    seen.add(t); stack.append(t)
        cache[u] = res
        return res
    macro = []
    for s in states:          # insertion order = TLC's BFS order: the initial state's steps come first
        if s not in settled:
            continue
        for e, t in succ[s]:
            ts = closure(t)
            if len(ts) != 1:
                raise vlib.Infra("eager graph is not confluent after %s: %d settled successors" % (e["act"], len(ts)))
            macro.append({"from": states[s], "act": e["act"], "to": states[next(iter(ts))]})
    return states, inits, macro


def need_ops(edges, ops, what):
    """vacuity guard: every action of the family must occur in the exported graph"""
    seen = {e["act"]["op"] for e in edges}
    if ops - seen:
        raise vlib.Infra("the %s graph never takes %s: the cfg is vacuous" % (what, sorted(ops - seen)))


def cover_by_config(macro, rng, max_len):
    """one vlib.path_cover per `lim` (each cap combination is a component with its own initial state)"""
    groups = collections.OrderedDict()
    for m in macro:
        groups.setdefault(vlib.canon(m["from"]["lim"]), []).append(m)
    out = []
    for k, es in groups.items():
        paths = vlib.path_cover(es, max_paths=None, rng=rng, max_len=max_len)
        out.append((json.loads(k), es, paths))
    return out


def rpc_obs(s):
    inside, answered, failed = [], [], []
    for p in sorted(s["st"]):
        for i, st in enumerate(s["st"][p]):
            name = "%s.%d" % (p, i + 1)
            o = s["out"][p][i]
            if st == "handling":
                inside.append(name)
            if o == "maybe":
                raise vlib.Infra("outcome 'maybe' in a settled state of the eager graph")
            if o == "answered":
                answered.append(name)
            elif o in FAIL_OUT or ((s["peersClosed"] or not s["loopOn"][p]) and st != "new"):
                failed.append(name)
    return {"inside": sorted(inside), "answered": sorted(answered), "failed": sorted(failed),
            "closed": s["stop"] == "returned", "closed2": s["stop2"] == "returned", "sub": {k: v for k, v in s["sub"].items() if v}}


def quiescent(s):
    return all(st in ("new", "final") for p in s["st"] for st in s["st"][p])


def sample_paths(paths, n, rng):
    if n is None or len(paths) <= n:
        return paths
    ps = list(paths)
    rng.shuffle(ps)
    return ps[:n]


def leg_r_rpc(wd, tier, binary, verdict, mutate=None):
    r = vlib.run_tlc(wd, "MCLimits", "Limits_rpc_edges.cfg", workers=1, timeout=900, env=HEAP_SMALL)
    vlib.tlc_must_pass(r, "Limits RPC edge export")
    states, inits, macro = macro_graph(r.edges)
    need_ops(r.edges, {"Arrive", "AcquirePeer", "AcquireSubnet", "DropSubnet", "Spawn", "TgAdd", "Handle", "HandleDone",
                       "ReleaseSubnet", "ReleasePeer", "LoopExit", "Abandon", "CloseListener", "StopBegin", "StopWait", "StopReturn",
                       "Stop2Begin", "Stop2Return", "ClosePeers", "RunExit"}, "RPC")
    rng = random.Random(vlib.seed())
    groups = []
    npaths = nsteps = 0
    total_paths = 0
    per_group = 10 if tier == "quick" else None
    # the other peer -> subnet map (nobody shares a subnet): same machinery, its own small graph
    r2 = vlib.run_tlc(wd, "MCLimits", "Limits_rpc_edges_split.cfg", workers=1, timeout=900, env=HEAP_SMALL)
    vlib.tlc_must_pass(r2, "Limits RPC edge export (split subnets)")
    states2, _, macro2 = macro_graph(r2.edges)
    covers = [(x, True) for x in cover_by_config(macro, rng, 40)] + [(x, False) for x in cover_by_config(macro2, rng, 40)]
    states = dict(states); states.update(states2); macro = macro + macro2
    for (lim, es, paths), shared in covers:
        total_paths += len(paths)
        overlap = [p for p in paths if any(e["act"]["op"] == "Stop2Begin" and rpc_obs(e["to"])["inside"] for e in p)]
        if shared and not overlap:
            raise vlib.Infra("no cover path calls Close a second time while a handler is inside")
        picked = sample_paths(paths, per_group, rng)
        if per_group is not None:
            picked = picked + [p for p in sample_paths(overlap, 3, rng) if p not in picked]
        paths = picked
        groups.append({"maxInflight": lim["maxInflight"], "maxSubnet": lim["maxSubnet"], "subnets": lim["sub"],
                       "nrpc": max(len(v) for v in es[0]["from"]["st"].values()),
                       "paths": [[{"act": e["act"], "obs": rpc_obs(e["to"]), "quiescent": quiescent(e["to"])} for e in p] for p in paths]})
        npaths += len(paths); nsteps += sum(len(p) for p in paths)
    log("  R/rpc: eager graph %d states / %d edges -> %d settled macro steps in %d cap configurations; %d of %d cover paths (%d steps) replayed"
        % (len(states), len(r.edges), len(macro), len(groups), npaths, total_paths, nsteps))
    inp = os.path.join(wd, "replay_rpc_in.json")
    json.dump({"groups": groups, "parallel": 8, "mutate": mutate or ""}, open(inp, "w"))
    res = vlib.go_run(binary, "TestReplayRPC", wd, env={"VERIF_IN": inp}, timeout=1500)
    if res["counts"].get("infra"):
        raise vlib.Infra("rpc replay could not set up %d paths: %s" % (res["counts"]["infra"], res.get("notes")))
    verdict.add_all(res["mismatches"])
    plans = {k[5:]: v for k, v in res["counts"].items() if k.startswith("plan_")}
    if res["counts"].get("alias_unavailable"):
        log("  R/rpc: loopback aliases cannot be bound on this machine: one address per subnet only")
    elif tier == "quick" and not (plans.get("net24") and plans.get("net16")):
        raise vlib.Infra("the replay never put distinct addresses into one configured subnet: %s" % plans)
    log("  R/rpc: %d steps on real syncers (peer->subnet map realised as %s), %d mismatches, %.1fs"
        % (res["evaluations"], ", ".join("%s x%d" % kv for kv in sorted(plans.items())), len(res["mismatches"]), res["wall"]))
    return dict(states=len(states), edges=len(r.edges) + len(r2.edges), macro=len(macro), paths=npaths, cover_paths=total_paths, steps=res["evaluations"],
                distinct=res["distinct"], samples=res["samples"], tlc=r, address_plans=plans)


def conn_obs(s):
    return {"peers": sorted(c for c, v in s["conn"].items() if v in ("peer", "running")),
            "rejected": sorted(c for c, v in s["conn"].items() if v == "rejected"),
            "closed": s["stop"] == "returned",
            # Close has been called, nothing is held by the harness, and still it cannot return: only a peer that
            # Run's teardown did not close keeps the group alive (until the REMOTE hangs up)
            "stuck": s["stop"] in ("closed", "waiting") and all(v not in ("checked", "shaken") for v in s["conn"].values())}


def walk_macro(macro, lim_pred, ops):
    """follow the named environment/gate steps through the macro graph from the initial state whose lim satisfies
    lim_pred; returns the list of macro edges (used to replay TLC's own counterexample literally)"""
    by_from = collections.defaultdict(list)
    for m in macro:
        by_from[vlib.canon(m["from"])].append(m)
    cur = None
    for m in macro:
        if lim_pred(m["from"]["lim"]) and all(v == "idle" for v in m["from"]["conn"].values()) and m["from"]["stop"] == "no":
            cur = vlib.canon(m["from"]); break
    path = []
    for op, p in ops:
        nxt = [m for m in by_from[cur] if m["act"]["op"] == op and m["act"]["p"] == p]
        if not nxt:
            raise vlib.Infra("counterexample step %s(%s) has no macro edge" % (op, p))
        path.append(nxt[0]); cur = vlib.canon(nxt[0]["to"])
    return path


def tlc_counterexample_ops(out):
    """(op, arg) of every step of the error trace TLC printed"""
    import re
    ops = []
    for m in re.finditer(r'^State \d+: <(\w+)\("?([^")]*)"?\) line', out, re.M):
        ops.append((m.group(1), m.group(2)))
    return ops


def leg_r_conn(wd, tier, binary, verdict):
    r = vlib.run_tlc(wd, "MCLimits", impl_cfg(wd, "Limits_conn_edges.cfg"), workers=1, timeout=900, tag="MCLimits_Limits_conn_edges", env=HEAP_SMALL)
    vlib.tlc_must_pass(r, "Limits CONN edge export")
    states, inits, macro = macro_graph(r.edges)
    need_ops(r.edges, {"AllowCheck", "Refuse", "Handshake", "AddPeer", "RunPeer", "RemovePeer", "Abort", "CloseListener", "StopBegin", "StopReturn",
                       "ClosePeers", "RunExit"}, "CONN")
    rng = random.Random(vlib.seed() + 1)
    groups = []
    npaths = total = 0
    per_group = 25 if tier == "quick" else None
    conns = sorted(macro[0]["from"]["conn"])
    mk = lambda p: [{"act": e["act"], "obs": conn_obs(e["to"])} for e in p]
    nstuck = sum(1 for m in macro if conn_obs(m["to"])["stuck"])
    for lim, es, paths in cover_by_config(macro, rng, 30):
        total += len(paths)
        paths = sample_paths(paths, per_group, rng)
        groups.append({"maxIn": lim["maxIn"], "conns": conns, "paths": [mk(p) for p in paths]})
        npaths += len(paths)
    # TLC's own PeerCaps counterexample (Limits_conn_impl.cfg), replayed literally, first path of its group
    cx = vlib.run_tlc(wd, "MCLimits", "Limits_conn_cap.cfg", workers=1, timeout=600, tag="conn_cx", env=HEAP_SMALL)
    ops = [(o, p) for o, p in tlc_counterexample_ops(cx.out) if o in ENV_OPS and p in conns]
    cxlim = None
    import re
    m = re.search(r"maxIn \|-> (-?\d+)", cx.out)
    cap_open = any(f["id"] == SWITCHES["DevCapCheckThenAct"] and f.get("status") == "open" for f in vlib.load_findings(PROP))
    if not cap_open:
        log("  R/conn: %s is recorded as fixed: replaying the intended design (cap re-checked at the insert)" % SWITCHES["DevCapCheckThenAct"])
    elif cx.violated == "PeerCaps" and ops and m:
        cxlim = int(m.group(1))
        path = walk_macro(macro, lambda l: l["maxIn"] == cxlim, ops)
        for g in groups:
            if g["maxIn"] == cxlim:
                g["paths"].insert(0, mk(path)); npaths += 1
        log("  R/conn: TLC's PeerCaps counterexample (maxIn=%d): %s" % (cxlim, " ".join("%s(%s)" % x for x in ops)))
    else:
        raise vlib.Infra("no PeerCaps counterexample to replay (violated=%s)" % cx.violated)
    log("  R/conn: eager graph %d states / %d edges -> %d macro steps in %d cap configurations; %d of %d cover paths replayed"
        % (len(states), len(r.edges), len(macro), len(groups), npaths, total))
    inp = os.path.join(wd, "replay_conn_in.json")
    json.dump({"groups": groups, "parallel": 8}, open(inp, "w"))
    res = vlib.go_run(binary, "TestReplayConn", wd, env={"VERIF_IN": inp}, timeout=1500)
    if res["counts"].get("infra"):
        raise vlib.Infra("conn replay could not set up %d paths: %s" % (res["counts"]["infra"], res.get("notes")))
    verdict.add_all(res["mismatches"])
    capx = res["counts"].get("cap_exceeded_paths", 0); blocked = res["counts"].get("close_blocked_paths", 0)
    other = [m for m in res["mismatches"] if "inbound-cap-exceeded" not in m["sig"] and "close-blocked-by-unswept-peer" not in m["sig"]]
    log("  R/conn: %d steps on real syncers; inbound cap exceeded on %d paths, Close blocked by an unswept peer on %d paths, %d other mismatches, %.1fs"
        % (res["evaluations"], capx, blocked, len(other), res["wall"]))
    return dict(states=len(states), edges=len(r.edges), macro=len(macro), paths=npaths, cover_paths=total, steps=res["evaluations"],
                distinct=res["distinct"], samples=res["samples"], cap_exceeded=capx, close_blocked=blocked, tlc=r)


def tg_obs(s):
    th = s["th"]
    return {"live": sorted(t for t, v in th.items() if v == "live"), "done": sorted(t for t, v in th.items() if v == "done"),
            "refused": sorted(t for t, v in th.items() if v == "refused"), "closed": s["stop"] == "returned",
            "closed2": s["stop2"] == "returned"}


def leg_r_tg(wd, tier, binary, verdict, targets=None):
    r = vlib.run_tlc(wd, "MCLimits", "Limits_tg_edges.cfg", workers=1, timeout=600, env=HEAP_SMALL)
    vlib.tlc_must_pass(r, "Limits TG edge export")
    states, inits, macro = macro_graph(r.edges)
    need_ops(r.edges, {"ThAdd", "ThRefuse", "ThDone", "StopBegin", "StopWait", "StopReturn", "Stop2Begin", "Stop2Return", "CancelParent"}, "TG")
    rng = random.Random(vlib.seed() + 2)
    paths = vlib.path_cover(macro, max_paths=None, rng=rng, max_len=30)
    total = len(paths)
    if not any(e["act"]["op"] == "Stop2Begin" and tg_obs(e["to"])["live"] for p in paths for e in p):
        raise vlib.Infra("no cover path calls Stop a second time while a member is live")
    ctx_threads = sorted({e["act"]["p"] for e in r.edges if e["act"]["op"] == "CancelParent"})
    # AddContext with a parent that is ALREADY cancelled, and with one cancelled while the thread is a member
    if not any(e["act"]["op"] in ("ThAdd", "ThCheck") and e["from"]["par"][e["act"]["p"]] == "cancelled" for p in paths for e in p) or \
       not any(e["act"]["op"] == "CancelParent" and e["from"]["th"][e["act"]["p"]] == "live" for p in paths for e in p):
        raise vlib.Infra("no cover path joins with an already cancelled parent context / cancels the parent of a live member")
    inp = os.path.join(wd, "replay_tg_in.json")
    json.dump({"threads": sorted(macro[0]["from"]["th"]), "ctxThreads": ctx_threads, "targets": targets or [],
               "paths": [[{"act": e["act"], "obs": tg_obs(e["to"])} for e in p] for p in paths]}, open(inp, "w"))
    res = vlib.go_run(binary, "TestReplayTG", wd, env={"VERIF_IN": inp}, timeout=900)
    if res["counts"].get("infra"):
        raise vlib.Infra("tg replay could not set up %d paths: %s" % (res["counts"]["infra"], res.get("notes")))
    verdict.add_all(res["mismatches"])
    log("  R/tg: eager graph %d states / %d edges -> %d macro steps; %d of %d cover paths x %d targets (threadgroup, rhp4.Server): %d steps, %d mismatches, %.1fs"
        % (len(states), len(r.edges), len(macro), len(paths), total, res["counts"].get("targets", 0), res["evaluations"], len(res["mismatches"]), res["wall"]))
    return dict(states=len(states), edges=len(r.edges), macro=len(macro), paths=len(paths) * res["counts"].get("targets", 0), cover_paths=total,
                steps=res["evaluations"], distinct=res["distinct"], samples=res["samples"], tlc=r)


# ------------------------------------------------------------------ Leg T

def split_traces(path):
    cur = []; start = 0
    with open(path) as f:
        for i, line in enumerate(f):
            if line.startswith('{"op":"Reset"') and cur:
                yield start, cur
                cur = []; start = i
            cur.append(line)
    if cur:
        yield start, cur


SKIPPED = []


def validate_file(wd, path, cfg, tag, verdict, max_iter=14, depth=0):
    """TLC-validates one NDJSON file; a rejected run is reported, dropped, and the rest re-validated"""
    events = vlib.count_lines(path)
    if events == 0:
        return 0, 0, 0, 0
    rejected = 0; states = 0; ntr = len(list(split_traces(path)))
    for it in range(max_iter):
        if vlib.count_lines(path) == 0:
            break
        try:
            ok, r, consumed = vlib.validate_trace(wd, "LimitsTrace", impl_cfg(wd, cfg), path, timeout=300 if depth == 0 else 120, tag="%s_%d" % (tag, it), extra_env=HEAP_TRACE)
        except vlib.Infra as ex:
            if "timeout" not in str(ex):
                raise
            traces = list(split_traces(path))
            if depth > 0 or len(traces) == 1:
                # one recorded run whose hidden-step search is too expensive for TLC: not validated, counted
                SKIPPED.append(tag)
                return events, rejected, states, ntr
            # find the expensive run: validate the runs of this file one by one
            for k, (_, lines) in enumerate(traces):
                sub = "%s.part%d" % (path, k)
                open(sub, "w").write("".join(lines))
                e2, r2, s2, _ = validate_file(wd, sub, cfg, "%s_p%d" % (tag, k), verdict, max_iter=2, depth=1)
                rejected += r2; states += s2
                os.remove(sub)
            return events, rejected, states, ntr
        states += r.distinct
        if ok:
            break
        if consumed is None:
            raise vlib.Infra("trace validation broke (no high-water mark): %s\n%s" % (r.error, r.out[-2000:]))
        traces = list(split_traces(path))
        bad = None
        for start, lines in traces:
            if start <= min(consumed, events - 1) < start + len(lines) or (consumed == start + len(lines) and bad is None and r.violated):
                bad = (start, lines)
        if bad is None:
            bad = traces[-1]
        start, lines = bad
        k = min(max(consumed - start, 0), len(lines) - 1)
        ev = json.loads(lines[k]); hdr = json.loads(lines[0])
        rejected += 1
        fam = hdr.get("fam")
        if r.violated:
            sig = "trace:%s:%s" % (fam, r.violated)
            desc = "recorded %s run %s: TLC finds invariant/property %s violated on a behaviour that explains the first %d lines" % (fam, hdr.get("tag"), r.violated, k + 1)
        else:
            sig = "trace:%s:%s:unexplained" % (fam, ev.get("op"))
            desc = "recorded %s run %s: no behaviour of Limits explains line %d: %s" % (fam, hdr.get("tag"), k, json.dumps(ev))
        verdict.add({"sig": sig, "desc": desc,
                     "replay": {"kind": "trace", "fam": fam, "lim": hdr.get("lim"), "events": [json.loads(x) for x in lines[:k + 1]]}})
        with open(path, "w") as f:
            for s2, l2 in traces:
                if s2 != start:
                    f.writelines(l2)
        events = vlib.count_lines(path)
    else:
        log("  T: more than %d rejected runs in %s; the rest is not validated" % (max_iter, tag))
    return events, rejected, states, ntr


def leg_t(wd, tier, binary, verdict, race_binary=None):
    env = {"VERIF_RPC_RUNS": 30 if tier == "quick" else 400, "VERIF_CONN_RUNS": 8 if tier == "quick" else 60,
           "VERIF_TG_RUNS": 16 if tier == "quick" else 200, "VERIF_WALLET_RUNS": 3 if tier == "quick" else 9,
           "VERIF_SHARDS": 2 if tier == "quick" else 10, "VERIF_PARALLEL": 6}
    res = vlib.go_run(binary, "TestDriver", wd, env=env, timeout=1500)
    if res["counts"].get("infra") and not res["mismatches"]:
        raise vlib.Infra("driver could not set up %d runs: %s" % (res["counts"]["infra"], res.get("notes")))
    verdict.add_all(res["mismatches"])
    c = res["counts"]
    if not (c.get("handlers") and c.get("answered") and c.get("failed")):
        raise vlib.Infra("the driver's load is vacuous: %s" % c)
    files = sorted(f for f in os.listdir(wd) if f.startswith("limtrace-") and f.endswith(".ndjson"))
    t0 = time.time()
    tot_ev = tot_rej = tot_states = tot_tr = 0
    with cf.ThreadPoolExecutor(max_workers=8) as ex:
        futs = []
        for f in files:
            cfg = "LimitsTrace_tg.cfg" if "-tg-" in f else "LimitsTrace_run.cfg"
            futs.append(ex.submit(validate_file, wd, os.path.join(wd, f), cfg, f.replace(".ndjson", ""), verdict))
        for fu in futs:
            ev, rej, st, ntr = fu.result()
            tot_ev += ev; tot_rej += rej; tot_states += st; tot_tr += ntr
    log("  T: %d recorded runs (%d RPCs sent, %d handlers gated, %d answered, %d refused/dropped) / %d events; TLC validated in %.1fs, %d runs rejected, %d driver-level mismatches"
        % (res["traces"], res["counts"].get("rpcs", 0), res["counts"].get("handlers", 0), res["counts"].get("answered", 0),
           res["counts"].get("failed", 0), res["counts"].get("events", 0), time.time() - t0, tot_rej, len(res["mismatches"])))
    if SKIPPED:
        log("  T: %d recorded runs were too expensive for TLC's hidden-step search and are NOT validated: %s" % (len(SKIPPED), SKIPPED))
        if len(SKIPPED) > max(1, res["traces"] // 20):
            raise vlib.Infra("too many recorded runs could not be validated within the TLC budget: %s" % SKIPPED)
    out = dict(traces=res["traces"] - len(SKIPPED), skipped_expensive=len(SKIPPED), events=res["counts"].get("events", 0), rejected=tot_rej, trace_states=tot_states,
               rpcs=res["counts"].get("rpcs", 0), handlers=res["counts"].get("handlers", 0), samples=res["samples"],
               distinct=res["distinct"], close_stuck_runs=res["counts"].get("close_stuck_runs", 0))
    for f in files:
        try:
            os.remove(os.path.join(wd, f))
        except OSError:
            pass
    # the cap race as probed (12 peers at once against a cap of 2) and the outbound cap
    st = vlib.go_run(binary, "TestCapStorm", wd, timeout=600)
    verdict.add_all(st["mismatches"])
    log("  T: 12 simultaneous inbound connections, WithMaxInboundPeers(2): %d admitted (staged), %d admitted (free-running)"
        % (st["counts"].get("storm_staged_inbound", 0), st["counts"].get("storm_free_inbound", 0)))
    ob = vlib.go_run(binary, "TestOutbound", wd, env={"VERIF_OUT_ROUNDS": 3 if tier == "quick" else 10}, timeout=600)
    if ob["counts"].get("outbound_vacuous"):
        log("  T: outbound cap never reached in %d rounds (vacuous rounds)" % ob["counts"]["outbound_vacuous"])
    verdict.add_all(ob["mismatches"])
    log("  T: outbound cap under 8 candidates, peerLoop every 15 ms, hang-ups: %d rounds, %d mismatches" % (ob["evaluations"], len(ob["mismatches"])))
    out["storm"] = {k: v for k, v in st["counts"].items()}
    out["outbound_rounds"] = ob["evaluations"]
    out["samples"] = out["samples"] + st["samples"]
    if race_binary:
        rres = vlib.go_run(race_binary, "TestDriver", wd, env=dict(env, VERIF_RPC_RUNS=60, VERIF_CONN_RUNS=20, VERIF_TG_RUNS=40, VERIF_WALLET_RUNS=0), timeout=1500, tag="TestDriverRace")
        races = open(rres["log"], errors="replace").read().count("WARNING: DATA RACE")
        verdict.add_all(rres["mismatches"])
        if races:
            verdict.add({"sig": "race:data-race", "desc": "%d data races reported by the race detector, see %s" % (races, rres["log"]), "replay": None})
        log("  T: race-detector build: %d runs, %d data races, %d mismatches" % (rres["traces"], races, len(rres["mismatches"])))
        out["race_runs"] = rres["traces"]
        for f in os.listdir(wd):
            if f.startswith("limtrace-") and f.endswith(".ndjson"):
                os.remove(os.path.join(wd, f))
    return out


def run(tier):
    t0 = time.time()
    wd = vlib.workdir(PROP)
    verdict = vlib.Verdict(PROP)
    binary = vlib.go_build(PKG, wd)
    race_binary = vlib.go_build(PKG, wd, race=True) if tier == "thorough" else None
    # the legs are independent: run them side by side (TLC for M, Go + TLC for R and T)
    with cf.ThreadPoolExecutor(max_workers=5) as ex:
        fm = ex.submit(leg_m, wd, tier)
        frr = ex.submit(leg_r_rpc, wd, tier, binary, verdict)
        frc = ex.submit(leg_r_conn, wd, tier, binary, verdict)
        frt = ex.submit(leg_r_tg, wd, tier, binary, verdict)
        ft = ex.submit(leg_t, wd, tier, binary, verdict, race_binary)
        ms, rr, rc_, rt, tt = fm.result(), frr.result(), frc.result(), frt.result(), ft.result()
    rc = verdict.finish()
    rs = [rr, rc_, rt]
    cov = {
        "states": sum(m.distinct for m in ms) + sum(x["tlc"].distinct for x in rs) + tt["trace_states"],
        "transitions": sum(m.generated for m in ms) + sum(x["tlc"].generated for x in rs),
        "traces_validated_against_impl": tt["traces"] - tt["rejected"] + sum(x["paths"] for x in rs),
        "exhaustive": True,
        "samples": vlib.trim_samples(rr["samples"][:1] + rc_["samples"][:1] + tt["samples"], 4),
        "model": {"runs": [{"cfg": m.cmd.split("-config ")[1].split()[0].split("/")[-1], "distinct": m.distinct, "generated": m.generated, "depth": m.depth} for m in ms],
                  "constants": "RPC family: 2 peers sharing a subnet x 2 RPCs, caps maxInflight x maxSubnet as listed per cfg (thorough adds 3x2, 2x3, hang-ups); "
                               "CONN family: 3 inbound + 1-2 outbound attempts, caps {0,1,2}; TG family: 4 threads; Close/Stop at every moment; complete reachable state spaces",
                  "deviations_shown_to_fail": ["DevCapCheckThenAct -> PeerCaps", "DevSweepOnce -> StopReturns (selftest/thorough)"]},
        "replay": {"rpc": {k: rr[k] for k in ("states", "edges", "macro", "paths", "cover_paths", "steps", "address_plans")},
                   "conn": {k: rc_[k] for k in ("states", "edges", "macro", "paths", "cover_paths", "steps", "cap_exceeded", "close_blocked")},
                   "tg": {k: rt[k] for k in ("states", "edges", "macro", "paths", "cover_paths", "steps")}},
        "trace_validation": {k: tt[k] for k in ("traces", "skipped_expensive", "events", "rejected", "trace_states", "rpcs", "handlers", "storm", "outbound_rounds", "close_stuck_runs")},
        "evaluations": sum(x["steps"] for x in rs) + tt["events"],
        "distinct_nontrivial": sum(x["distinct"] for x in rs) + tt["distinct"],
        "rule": "R: one evaluation per macro step (one environment/gate step + the internal steps up to the next settled state) executed on the real "
                "syncer / ThreadGroup / rhp4.Server, distinct by (limits, action, expected settled observation); T: one evaluation per recorded event, "
                "distinct by recorded run configuration; every event of every run is consumed by TLC (LimitsTrace.tla)",
        "known_findings_seen": dict(verdict.known),
    }
    vlib.write_evidence(PROP, tier, "model_checking", cov,
                        ["handlers are gated inside ChainManager.BlocksForHistory (RPC SendV2Blocks); other RPC types share the same runPeer path and are not driven",
                         "peers are raw gateway clients on loopback 127.x.y.z; the peer->subnet map is realised with IPv4 prefix lengths 32, 24 and 16 "
                         "(one shared address, distinct addresses in one /24 or /16, neighbouring addresses split by /32); IPv6 prefixes are not exercised (only ::1 is local)",
                         "settled-state replay: after each environment step the real system is given up to 10 s to reach the specification's settled state and must stay there for 12 ms",
                         "Syncer.Close is replayed as its two statements (listener close, ThreadGroup.Stop) so that schedules between them can be staged",
                         "explicit Syncer.Connect is not subject to the outbound cap (only peerLoop is); outbound cap checked by sampling, not stepped",
                         "TLC, the Go runtime/scheduler, go.sia.tech/mux and the loopback TCP stack are trusted"],
                        time.time() - t0, len(verdict.violations))
    return rc


def replay(path):
    wd = vlib.workdir(PROP + "-replay")
    binary = vlib.go_build(PKG, wd)
    mm = json.load(open(path))
    verdict = vlib.Verdict(PROP)
    kind = (mm.get("replay") or {}).get("kind")
    if kind in ("rpc-path", "conn-path", "tg-path", "storm"):
        res = vlib.go_run(binary, "TestReplayOne", wd, env={"VERIF_IN": path})
        verdict.add_all(res["mismatches"])
        log("replayed %s: %d mismatches" % (kind, len(res["mismatches"])))
        return verdict.finish()
    if kind == "trace":
        # re-validate the recorded prefix with TLC
        p = os.path.join(wd, "replay.ndjson")
        with open(p, "w") as f:
            for e in mm["replay"]["events"]:
                f.write(json.dumps(e, separators=(",", ":")) + "\n")
        cfg = "LimitsTrace_tg.cfg" if mm["replay"].get("fam") == "tg" else "LimitsTrace_run.cfg"
        ev, rej, st, ntr = validate_file(wd, p, cfg, "replay", verdict)
        log("re-validated the recorded run: %d rejected" % rej)
        return verdict.finish()
    log("this record is re-run by the driver with the same VERIF_SEED: ./check C18")
    return 2


def selftest():
    """Demonstrates the binding.  (1) replay against a wrong oracle / wrong stub must find mismatches; (2) recorded runs
    with one corrupted line must be rejected by TLC; (3) every named deviation must break its property in TLC."""
    wd = vlib.workdir(PROP + "-selftest")
    binary = vlib.go_build(PKG, wd)
    ok = True
    # 1a: the real syncer is configured with one more per-peer slot than the oracle assumes
    v = vlib.Verdict(PROP + "-selftest"); v.findings = []
    leg_r_rpc(wd, "quick", binary, v, mutate="oracle-cap")
    ok1 = any("extra-handler" in m["sig"] or "missing-handler" in m["sig"] for m in v.violations)
    log("selftest 1a (syncer configured with another limit than the oracle: replay diverges): %s" % ("ok" if ok1 else "FAILED"))
    # 1b: a thread group that admits members after Stop
    v = vlib.Verdict(PROP + "-selftest"); v.findings = []
    leg_r_tg(wd, "quick", binary, v, targets=["stub-lateadd"])
    ok1b = any("joined-after-stop" in m["sig"] or ":state" in m["sig"] for m in v.violations)
    log("selftest 1b (stub thread group that never refuses: replay diverges): %s" % ("ok" if ok1b else "FAILED"))
    # 2: corrupt recorded runs
    res = vlib.go_run(binary, "TestDriver", wd, env={"VERIF_RPC_RUNS": 30, "VERIF_CONN_RUNS": 0, "VERIF_TG_RUNS": 6, "VERIF_WALLET_RUNS": 1, "VERIF_SHARDS": 1, "VERIF_PARALLEL": 4})
    runp = os.path.join(wd, "limtrace-run-0.ndjson"); tgp = os.path.join(wd, "limtrace-tg-0.ndjson")
    good = [list(l) for _, l in split_traces(runp)]

    def check(name, lines, cfg, expect_reject=True):
        p = os.path.join(wd, "corrupt-%s.ndjson" % name)
        open(p, "w").write("".join(lines))
        vv = vlib.Verdict(PROP + "-selftest"); vv.findings = []
        _, rej, _, _ = validate_file(wd, p, cfg, "corrupt_" + name, vv)
        good_ = (rej >= 1) == expect_reject
        log("selftest 2 (%s): %s%s" % (name, "ok" if good_ else "FAILED", "" if not vv.violations else "  [" + vv.violations[0]["sig"] + "]"))
        return good_
    # a run with an Exit: delete it -> the handler count of that peer/subnet can only grow; with a later Enter it exceeds a cap
    # or Close returns with a handler inside (StopWaits)
    done = set()
    for tr in good:
        evs = [json.loads(x) for x in tr]
        ops = [e["op"] for e in evs]
        if "dropexit" not in done and "Exit" in ops and "StopReturn" in ops and ops.index("Exit") < ops.index("StopReturn"):
            i = ops.index("Exit")
            ok &= check("Exit line removed (Close returns with a handler inside)", tr[:i] + tr[i + 1:], "LimitsTrace_run.cfg"); done.add("dropexit")
        if "lateenter" not in done and "StopReturn" in ops and "Enter" in ops:
            i = ops.index("StopReturn"); j = ops.index("Enter")
            e = dict(evs[j]); e["r"] = 8
            a = dict(e); a["op"] = "Arrive"
            # an RPC that arrives and ENTERS a handler after Close returned
            lines = tr[:i + 1] + [json.dumps(dict(a, r=max(x["r"] for x in evs if x["op"] == "Arrive" and x["p"] == e["p"]) + 1), separators=(",", ":")) + "\n"]
            rr_ = json.loads(lines[-1])["r"]
            lines.append(json.dumps(dict(e, r=rr_), separators=(",", ":")) + "\n")
            if rr_ <= 8:
                ok &= check("handler entered after Close returned", lines, "LimitsTrace_run.cfg"); done.add("lateenter")
        if "quiesce" not in done and "Quiesce" in ops:
            i = ops.index("Quiesce"); e = dict(evs[i]); e["n"] = 1
            ok &= check("counter not back to zero at a quiescent point", tr[:i] + [json.dumps(e, separators=(",", ":")) + "\n"] + tr[i + 1:], "LimitsTrace_run.cfg"); done.add("quiesce")
        if "failed" not in done and "Answered" in ops and ops.index("Answered") < (ops.index("StopCall") if "StopCall" in ops else 10**9) \
                and "Disconnect" not in ops and json.loads(tr[0])["lim"]["maxSubnet"] <= 0:
            i = ops.index("Answered"); e = dict(evs[i]); e["op"] = "Failed"
            ok &= check("RPC dropped although the subnet limit is off and nothing shuts down", tr[:i] + [json.dumps(e, separators=(",", ":")) + "\n"] + tr[i + 1:], "LimitsTrace_run.cfg"); done.add("failed")
    for need in ("dropexit", "lateenter", "quiesce", "failed"):
        if need not in done:
            log("selftest 2: no recorded run suitable for corruption '%s' (try another VERIF_SEED)" % need); ok = False
    # accepted as recorded?
    ok &= check("unmodified runs are accepted", ["".join(t) for t in good], "LimitsTrace_run.cfg", expect_reject=False)
    tg = [list(l) for _, l in split_traces(tgp)]
    for tr in tg:
        evs = [json.loads(x) for x in tr]; ops = [e["op"] for e in evs]
        if "ThDone" in ops and "StopReturn" in ops and ops.index("ThDone") < ops.index("StopReturn") and any(e["op"] == "ThAdd" and e["ok"] for e in evs):
            # move StopReturn before the first ThDone of a live member
            i = ops.index("StopReturn"); j = ops.index("ThDone")
            lines = tr[:j] + [tr[i]] + tr[j:i] + tr[i + 1:]
            if "StopCall" in ops and ops.index("StopCall") < j:
                ok &= check("Stop returned while a member was live", lines, "LimitsTrace_tg.cfg"); break
    # 3: named deviations
    for cfg, want in M_DEVS + [("Limits_conn_sweep.cfg", "temporal")]:
        x = vlib.run_tlc(wd, "MCLimits", cfg, workers=4, timeout=600, env=HEAP_SMALL)
        if x.violated is None and x.error and "Temporal propert" in x.error:
            x.violated = "temporal"
        if x.violated is None and x.error and "Deadlock reached" in x.error:
            x.violated = "deadlock"        # a Stop that can never return
        good_ = x.exit != 0 and x.violated is not None and (want is None or x.violated == want)
        log("selftest 3 (%s: deviation breaks %s in TLC): %s" % (cfg, x.error if x.violated == "temporal" else x.violated, "ok" if good_ else "FAILED"))
        ok &= good_
    return 0 if ok and ok1 and ok1b else 2
