"""C16 -- Contract formation/renewal yields a confirmable contract or leaves no trace.
Leg M: Form.tla (renter and host processes, four messages, cut/corrupt/stop at every boundary,
       parameter validity, basis relation, confirmed/unconfirmed inputs, broadcast failure) checked
       exhaustively without deviations; the implementation-shaped variant for the invariants that survive.
Leg R: TLC enumerates every attempt descriptor (kind x validity x basis x inputs x fault) as a path;
       the harness executes each on two real nodes and compares calls, outcome and wallets/contractor.
Leg T: random sequences of attempts with runs of repeated failures on the real code, every observable
       call logged in real order, validated by TLC against FormTrace.tla."""
import os, json, random, re, time, concurrent.futures as cf
import vlib
from vlib import log

PROP = "C16"
# open finding id -> the named deviation of Form.tla that reproduces the implementation's behaviour
DEVS = {
    "C16-renew-dial-leak": "DevDialLeak",
    "C16-record-before-broadcast": "DevBcastFatal",
    "C16-rebase-fail-leak": "DevRebaseLeak",
    "C16-renew-altered-set": "DevNoIdCheck",
}
OPS = {"Start", "rFund", "dial", "rRelease", "rSend", "rRecv", "hRecv", "hFund", "hCheck", "hSend", "hPool",
       "hRecord", "hBcast", "hRelease", "End", "Mine"}


def dev_flags(all_off=False):
    open_ids = {f["id"] for f in vlib.load_findings(PROP) if f.get("status") == "open"}
    return {flag: (fid in open_ids and not all_off) for fid, flag in DEVS.items()}


def patched_cfg(wd, name, flags, extra=None):
    """copy of spec/cfg/<name> with the four Dev constants set from known_findings.json"""
    s = open(os.path.join(vlib.SPEC, "cfg", name)).read()
    for flag, on in flags.items():
        s, k = re.subn(r"(?m)^(\s*%s\s*=\s*)\w+" % flag, r"\g<1>%s" % ("TRUE" if on else "FALSE"), s)
        if k != 1:
            raise vlib.Infra("cfg %s has no constant %s" % (name, flag))
    for k, v in (extra or {}).items():
        s = re.sub(r"(?m)^(\s*%s\s*=\s*).*$" % k, lambda m: m.group(1) + v, s)
    p = os.path.join(wd, name)
    open(p, "w").write(s)
    return p


def leg_m(wd, tier, flags):
    jobs = [("design", "Form_quick.cfg" if tier == "quick" else "Form_mc.cfg", 6 if tier == "quick" else 8),
            ("implementation-shaped", patched_cfg(wd, "Form_impl_quick.cfg" if tier == "quick" else "Form_impl.cfg", flags), 2 if tier == "quick" else 4)]
    out = []
    with cf.ThreadPoolExecutor(max_workers=2) as ex:
        futs = [(what, cfg, ex.submit(vlib.run_tlc, wd, "MCForm", cfg, workers=w, timeout=1500)) for what, cfg, w in jobs]
        for what, cfg, fu in futs:
            r = fu.result()
            vlib.tlc_must_pass(r, "Form %s (%s)" % (what, os.path.basename(cfg)))
            log("  M: Form %s (%s): %d distinct states, %d transitions, depth %d, %.1fs" % (what, os.path.basename(cfg), r.distinct, r.generated, r.depth, r.wall))
            out.append(r)
    return out


def export_paths(wd, flags, extra=None, tag=None):
    cfg = patched_cfg(wd, "Form_edges.cfg", flags, extra)
    r = vlib.run_tlc(wd, "MCForm", cfg, workers=1, timeout=900, tag=tag)
    vlib.tlc_must_pass(r, "Form edge export")
    nst, ned = vlib.graph_stats(r.edges)
    paths = vlib.path_cover(r.edges, max_paths=None, rng=None, max_len=80)
    covered = len({vlib.canon([e["from"], e["act"], e["to"]]) for p in paths for e in p})
    ops = {e["act"]["lbl"]["op"] for e in r.edges}
    outcomes = {(e["to"]["out"]["r"], e["to"]["out"]["com"]) for e in r.edges if e["act"]["lbl"]["op"] == "End"}
    if not OPS <= ops:
        raise vlib.Infra("edge export never takes actions %s: the cfg is vacuous" % sorted(OPS - ops))
    if len(outcomes) < 3:
        raise vlib.Infra("edge export reaches only outcomes %s" % sorted(outcomes))
    if covered != ned:
        raise vlib.Infra("path cover misses edges (%d of %d)" % (covered, ned))
    return r, paths, nst, ned


def slim(p):
    return [{"act": e["act"], "to": {k: e["to"][k] for k in ("n", "rRes", "hRes", "hCon", "rCon", "dead", "net", "active", "out")}} for e in p]


def leg_r(wd, tier, binary, verdict, flags, stub=None, limit=None):
    r, paths, nst, ned = export_paths(wd, flags)
    rng = random.Random(vlib.seed())
    total = len(paths)
    rng.shuffle(paths)
    # thorough replays every descriptor.  quick replays every descriptor with accepted parameters
    # (all kinds x basis x input mode x fault), every "contract not confirmed yet" one, every
    # rejected-parameter class without a fault, and a seeded quarter of the remaining
    # rejected-parameter x early-fault combinations (`limit` is for the selftest)
    if tier == "quick" and not limit:
        def always(p):
            d = p[0]["act"]["d"]
            return d["pv"] in ("ok", "noelem") or d["fault"] == "none"
        must = [p for p in paths if always(p)]
        rest = [p for p in paths if not always(p)]
        paths = must + rest[:len(rest) // 4]
    if limit and len(paths) > limit:
        # a seeded sample that still contains every (kind, fault) and every (kind, pv) combination
        keep, rest, seen = [], [], set()
        for p in paths:
            d = p[0]["act"]["d"]
            keys = [k for k in ((d["kind"], d["fault"], d["basis"]), (d["kind"], d["pv"]), (d["kind"], d["basis"], d["inp"])) if k not in seen]
            seen.update(keys)
            (keep if keys else rest).append(p)
        paths = keep + rest[:max(0, limit - len(keep))]
    log("  R: Form graph %d states / %d edges = %d attempt descriptors; %d replayed" % (nst, ned, total, len(paths)))
    inp = os.path.join(wd, "replay_in.json")
    json.dump({"paths": [slim(p) for p in paths], "repeat": 3, "workers": 6, "stub": stub or ""}, open(inp, "w"))
    res = vlib.go_run(binary, "TestReplay", wd, env={"VERIF_IN": inp}, timeout=1500)
    verdict.add_all(res["mismatches"])
    log("  R: %d attempts executed on the real code (%d distinct descriptor/outcome), %d mismatches, %.1fs" %
        (res["evaluations"], res["distinct"], len(res["mismatches"]), res["wall"]))
    return dict(states=nst, edges=ned, descriptors=total, paths=len(paths), attempts=res["evaluations"], distinct=res["distinct"],
                samples=res["samples"], full=(len(paths) == total), tlc=r)


def split_traces(path):
    cur, start = [], 0
    with open(path) as f:
        for i, line in enumerate(f):
            if line.startswith('{"op":"Reset"') and cur:
                yield start, cur
                cur, start = [], i
            cur.append(line)
    if cur:
        yield start, cur


def validate_file(wd, path, tag, verdict, cfg):
    events = vlib.count_lines(path)
    rejected = states = 0
    for it in range(8):
        ok, r, consumed = vlib.validate_trace(wd, "FormTrace", cfg, path, timeout=1200, tag="%s_%d" % (tag, it))
        states += r.distinct
        if ok:
            break
        if consumed is None:
            raise vlib.Infra("trace validation broke (no high-water mark): %s\n%s" % (r.error, r.out[-2000:]))
        traces = list(split_traces(path))
        bad = [(s, ls) for s, ls in traces if s <= consumed < s + len(ls)]
        if not bad:
            raise vlib.Infra("cannot locate failing event %d" % consumed)
        start, lines = bad[0]
        ev = json.loads(lines[consumed - start])
        # the descriptor of the attempt the failing line belongs to
        desc = {}
        for l in lines[:consumed - start + 1]:
            e = json.loads(l)
            if e["op"] == "Start":
                desc = e["d"]
        rejected += 1
        verdict.add({"sig": "trace:%s:%s:tlc-%s" % (desc.get("kind"), desc.get("fault") if desc.get("fault") != "none" else "pv-" + str(desc.get("pv")), ev.get("op")),
                     "desc": "TLC rejects line %d of a trace (attempt %s): %s -- no Form action explains it (violated: %s)" %
                             (consumed - start, json.dumps(desc), json.dumps(ev), r.violated),
                     "replay": {"kind": "trace-events", "events": [json.loads(x) for x in lines[:consumed - start + 1]][-60:]}})
        with open(path, "w") as f:
            for s2, l2 in traces:
                if s2 != start:
                    f.writelines(l2)
        if not [1 for s2, _ in traces if s2 != start]:
            break
    return events, rejected, states


def leg_t(wd, tier, binary, verdict, flags, stub=None, ntraces=None):
    env = {"VERIF_TRACES": ntraces or (48 if tier == "quick" else 1500), "VERIF_TLEN": 20 if tier == "quick" else 30, "VERIF_SHARDS": 6}
    if stub:
        env["VERIF_STUB"] = stub
    res = vlib.go_run(binary, "TestDriver", wd, env=env, timeout=1500)
    verdict.add_all(res["mismatches"])
    cfg = patched_cfg(wd, "FormTrace.cfg", flags)
    files = sorted(f for f in os.listdir(wd) if f.startswith("formtrace-") and f.endswith(".ndjson"))
    t0 = time.time()
    tot_ev = tot_rej = tot_states = 0
    with cf.ThreadPoolExecutor(max_workers=6) as ex:
        futs = [ex.submit(validate_file, wd, os.path.join(wd, f), f.replace(".ndjson", ""), verdict, cfg) for f in files]
        for fu in futs:
            ev, rej, st = fu.result()
            tot_ev += ev; tot_rej += rej; tot_states += st
    log("  T: %d traces / %d attempts / %d events from the real code in %.1fs; TLC validated in %.1fs, %d traces rejected" %
        (res["traces"], res["evaluations"], tot_ev, res["wall"], time.time() - t0, tot_rej))
    return dict(traces=res["traces"], attempts=res["evaluations"], distinct=res["distinct"], events=tot_ev, rejected=tot_rej,
                samples=res["samples"], trace_states=tot_states)


def run(tier):
    t0 = time.time()
    wd = vlib.workdir(PROP)
    verdict = vlib.Verdict(PROP)
    flags = dev_flags()
    log("  deviations switched on from open findings: %s" % (sorted(k for k, v in flags.items() if v) or "none"))
    binary = vlib.go_build("formx", wd)
    with cf.ThreadPoolExecutor(max_workers=1) as ex:
        fm = ex.submit(leg_m, wd, tier, flags)   # TLC (JVM) and the Go harness do not compete for much
        rr = leg_r(wd, tier, binary, verdict, flags)
        tt = leg_t(wd, tier, binary, verdict, flags)
        ms = fm.result()
    rc = verdict.finish()
    tlcs = ms + [rr["tlc"]]
    cov = {
        "states": sum(m.distinct for m in tlcs) + tt["trace_states"], "transitions": sum(m.generated for m in tlcs),
        "traces_validated_against_impl": tt["traces"] - tt["rejected"] + rr["paths"],
        "exhaustive": rr["full"],
        "samples": vlib.trim_samples(rr["samples"][:2] + tt["samples"][:1], 3, 2500),
        "model": {"design_distinct_states": ms[0].distinct, "implementation_shaped_distinct_states": ms[1].distinct,
                  "constants": "4 kinds x 8 parameter classes x 4 basis relations x 2 input modes x 21 faults; %s attempts per behaviour with blocks in between; all interleavings of renter and host steps" % ("2" if tier == "quick" else "3"),
                  "deviations_on": sorted(k for k, v in flags.items() if v)},
        "replay": {k: rr[k] for k in ("states", "edges", "descriptors", "paths", "attempts", "full")},
        "trace_validation": {k: tt[k] for k in ("traces", "attempts", "events", "rejected", "trace_states")},
        "evaluations": rr["attempts"] + tt["attempts"], "distinct_nontrivial": rr["distinct"] + tt["distinct"],
        "rule": "one evaluation per RPC attempt executed on the two real nodes (R: one per TLC-enumerated descriptor, clean failures three times in a row; "
                "T: random sequences); distinct by (descriptor, renter result, host committed); every attempt is observed on both wallets "
                "(fundable set, SpendableOutputs, Balance), the contractor, and -- when the host broadcast -- a neutral pool and a mined block",
    }
    vlib.write_evidence(PROP, tier, "model_checking", cov,
                        ["an attempt that reached the host's successful broadcast counts as formed even if the renter never sees the final message (the statement is silent there); the host must then be consistent and the renter must have released",
                         "attempts start only when the previous broadcast set has been mined",
                         "reservations are observed through the public wallet API (fund until dry, release); the reference testutil contractor and wallet store stand in for a host's stores",
                         "transport is harness/memnet (no sockets); a stream cut is a closed pipe; corruption is one field per message",
                         "TLC and the Go runtime are trusted"], time.time() - t0, len(verdict.violations))
    return rc


def replay(path):
    wd = vlib.workdir(PROP + "-replay")
    binary = vlib.go_build("formx", wd)
    mm = json.load(open(path))
    verdict = vlib.Verdict(PROP)
    if mm.get("replay", {}).get("kind") == "path":
        res = vlib.go_run(binary, "TestReplayOne", wd, env={"VERIF_IN": path})
        verdict.add_all(res["mismatches"])
        return verdict.finish()
    log("trace replays are re-run by the driver with the same VERIF_SEED: VERIF_SEED=%s ./check C16" % mm.get("replay", {}).get("seed", vlib.seed()))
    return 2


def selftest():
    """(1) Leg R against a deliberately wrong renter wallet (ReleaseInputs does nothing) must find
    mismatches; (2) a good trace with one corrupted field must be rejected by TLC; (3) each named
    deviation must break the invariants in TLC; (4) with the deviations switched off the real code's
    known defects must surface as mismatches against the design."""
    wd = vlib.workdir(PROP + "-selftest")
    binary = vlib.go_build("formx", wd)
    flags = dev_flags()
    v = vlib.Verdict("C16-selftest"); v.findings = []
    leg_r(wd, "quick", binary, v, flags, stub="leakyrenter", limit=60)
    ok1 = any(m["sig"].endswith(":renter-reserved") and ":dial-fail:" not in m["sig"] for m in v.violations) and \
        any(m["sig"].endswith(":spec") for m in v.violations)
    log("selftest 1 (renter wallet that never releases is caught by replay, by the property check and against the spec): %s" % ("ok" if ok1 else "FAILED"))

    # (2) corrupted trace
    v2 = vlib.Verdict("C16-selftest"); v2.findings = []
    vlib.go_run(binary, "TestDriver", wd, env={"VERIF_TRACES": 2, "VERIF_TLEN": 12, "VERIF_SHARDS": 1})
    cfg = patched_cfg(wd, "FormTrace.cfg", flags)
    p = os.path.join(wd, "formtrace-0.ndjson")
    good = open(p).read().splitlines()
    _, rej0, _ = validate_file(wd, p, "selftest_good", v2, cfg)
    ok2 = rej0 == 0
    for what, mut in (("renter's release dropped", lambda e: e["op"] == "C" and e.get("c") == "rRelease"),
                      ("End.hheld flipped", lambda e: e["op"] == "End"),
                      ("hBcast result flipped", lambda e: e["op"] == "C" and e.get("c") == "hBcast")):
        lines = list(good)
        for i, l in enumerate(lines):
            e = json.loads(l)
            if mut(e):
                if e["op"] == "End":
                    e["hheld"] = not e["hheld"]; lines[i] = json.dumps(e, separators=(",", ":"))
                elif e.get("c") == "hBcast":
                    e["res"] = "err" if e["res"] == "ok" else "ok"; lines[i] = json.dumps(e, separators=(",", ":"))
                else:
                    del lines[i]
                break
        else:
            log("selftest 2: no line to mutate for '%s'" % what); ok2 = False; continue
        open(p, "w").write("\n".join(lines) + "\n")
        vv = vlib.Verdict("C16-selftest"); vv.findings = []
        _, rej, _ = validate_file(wd, p, "selftest_mut", vv, cfg)
        log("selftest 2 (%s -> TLC rejects the trace): %s" % (what, "ok" if rej >= 1 else "FAILED"))
        ok2 = ok2 and rej >= 1

    # (3) deviations break the design's invariants
    ok3 = True
    for cfgname in ("Form_dev_dial.cfg", "Form_dev_bcast.cfg", "Form_dev_rebase.cfg"):
        x = vlib.run_tlc(wd, "MCForm", cfgname, workers=4, timeout=300)
        good3 = x.exit != 0 and x.violated in ("FailureLeavesNoTrace", "NoExhaustion", "SuccessAgreement")
        log("selftest 3 (%s: deviation violates %s in TLC): %s" % (cfgname, x.violated, "ok" if good3 else "FAILED"))
        ok3 = ok3 and good3

    # (4) the design (no deviation) against the real code: open findings must show up as spec mismatches too
    ok4 = True
    if any(flags.values()):
        v4 = vlib.Verdict("C16-selftest"); v4.findings = []
        leg_r(wd, "quick", binary, v4, dev_flags(all_off=True), limit=120)
        ok4 = any(m["sig"].endswith(":spec") for m in v4.violations)
        log("selftest 4 (real code vs. the design without deviations: %d mismatches): %s" % (len(v4.violations), "ok" if ok4 else "FAILED"))
    return 0 if ok1 and ok2 and ok3 and ok4 else 2
