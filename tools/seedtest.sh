#!/bin/bash
# tools/seedtest.sh <seed-id> <property> [tier]   e.g. tools/seedtest.sh C01-a C01
# Runs ./check <property> against a scratch worktree of /repo HEAD with /verif/seeded/<seed-id>/patch.diff
# applied -- without touching /repo, /verif/.work or /verif/evidence.  Prints DETECTED / MISSED / INFRA.
set -u
seed=$1; prop=$2; tier=${3:-quick}
root=/tmp/seedrun/$seed-$prop-$$
rm -rf $root; mkdir -p $root
git -C /repo worktree add -q --detach $root/repo HEAD || exit 2
( cd $root/repo && git apply /verif/seeded/$seed/patch.diff ) || { echo "patch does not apply"; git -C /repo worktree remove --force $root/repo; exit 2; }
# hook files that are not committed yet
for f in $(cd /repo && git ls-files --others --exclude-standard | grep verif_ || true); do mkdir -p $root/repo/$(dirname $f); cp /repo/$f $root/repo/$f; done
cp -r /verif/harness $root/harness
sed -i "s#=> /repo#=> $root/repo#" $root/harness/go.mod
cd /verif
VERIF_HARNESS_DIR=$root/harness VERIF_REPO_DIR=$root/repo VERIF_WORK_ROOT=$root/work VERIF_EVIDENCE_DIR=$root/evidence \
  timeout 3600 ./check $prop --tier $tier > $root/out.log 2>&1
rc=$?
grep -E "VIOLATION|KNOWN-FINDING|INFRA|mismatch:" $root/out.log | cut -c1-400 | head -8
case $rc in
  1) echo "RESULT seed=$seed check=$prop tier=$tier DETECTED" ;;
  0) echo "RESULT seed=$seed check=$prop tier=$tier MISSED" ;;
  *) echo "RESULT seed=$seed check=$prop tier=$tier INFRA(rc=$rc)"; tail -5 $root/out.log | cut -c1-300 ;;
esac
git -C /repo worktree remove --force $root/repo
rm -rf $root/harness $root/work $root/evidence
exit 0
