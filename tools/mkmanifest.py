#!/usr/bin/env python3
"""Generates /verif/MANIFEST.json from the table below (single source of truth) and validates it
against /root/.vp/MANIFEST.schema.json when jsonschema is importable."""
import json, os, sys

VERIF = os.path.dirname(os.path.dirname(os.path.abspath(__file__)))
ALL = ["C%02d" % i for i in range(1, 21)]

# property -> dict(level, text, note, technique, design_ref)
CHECKS = {
 "C17": dict(
  level="model_checking",
  text="TLC decides the reference KV semantics and the implementation-shaped MemDB/CacheDB models (refinement of KV with reply equality) over their COMPLETE reachable state spaces (all operation sequences, not length-bounded); every transition of KV's state graph is replayed on the four real backends with state and reply compared after each action, and every interface call of exhaustive (all mutating-op sequences up to length L) and random long sessions on the real backends is validated by TLC against KVTrace.tla.",
  note="Trusted: TLC, bbolt, Go runtime. Bucket handles are re-fetched per operation; keys/values non-empty; Iter compared as a set. 'Chain store behaves the same whichever backend' is covered by C02/C03 drivers running DBStore over the backends.",
  technique="TLA+ spec (KV, KVMem, KVCache) + TLC exhaustive/refinement + edge-cover replay into real backends + TLC trace validation of recorded sessions",
  ref="5 C17"),
 "C01": dict(
  level='model_checking',
  text='TLC explores every submission order and batching (incl. duplicates, orphans, mixed-branch batches) of real, materialised fork trees containing every single-field block corruption class, with AddBlocks modelled step by step (header loop, weight gate, revert/apply steps, failure, rollback, flush): Linked, AllValid, MemIsTip, TipMovesOnlyIfHeavier, FailureIsNoop, WorkNeverLost, RollbackNeverFails, NeverPanics. Every transition of that graph is replayed on a real chain.Manager over DBStore (store operations, error class, best-chain index incl. entries above the tip, stored block/state records, tip state byte-equal to the independent linear replay) and randomised histories on 20-120 block trees are validated event by event by TLC.',
  note='Trusted: go.sia.tech/core (consensus validation, ApplyBlock/ApplyHeader, accumulator membership) and the independent linear-replay ledger built only on it; TLC; the Go runtime. Tree classes (ok/badhdr/badbody/future) and the SufficientlyHeavierThan relation are computed from the real blocks and states, never assumed. Bounds: Leg M/R trees of <= 6 blocks (quick 5) in three hardfork regimes plus scripted rollback shapes, batches <= 2; Leg T random trees of 20-120 blocks.',
  technique='TLA+ spec Chain.tla + TLC exhaustive on materialised fork trees; edge-cover replay of the TLC graph into the real Manager/DBStore with projection + property audits after every call; TLC trace validation (ChainTrace.tla) of randomised real executions',
  ref='5 C01 / Appendix A'),
 "C02": dict(
  level='model_checking',
  text="Chain.tla folds the element-level effect of every block (extracted from core's ApplyUpdate of the real blocks) exactly as db.go's applyElements/revertElements do (append / prepend / swap-remove of expiration lists, revert walking core's diffs in reverse); TLC checks LedgerSetsAlways on every reorg walk and reports the history-dependent expiration ORDER (LedgerIsFold) as a design-level counterexample. Replay compares the real buckets with the spec after every step, audits them against the independent ledger, and compares EVERY bucket of the store with a real linear twin fed the same best chain; the randomised driver does the twin comparison after every call on trees with all v1/v2 element-changing transaction kinds across the allow/require heights.",
  note='Trusted: go.sia.tech/core (consensus validation, ApplyBlock/ApplyHeader, accumulator membership) and the independent linear-replay ledger built only on it; TLC; the Go runtime. Tree classes (ok/badhdr/badbody/future) and the SufficientlyHeavierThan relation are computed from the real blocks and states, never assumed. Bounds: Leg M/R trees of <= 6 blocks (quick 5) in three hardfork regimes plus scripted rollback shapes, batches <= 2; Leg T random trees of 20-120 blocks. Known finding C02-expiry-order (open): expiration-list order and its consequence on later states; sets, elements, supplements and proofs are compared strictly.',
  technique='TLA+ spec Chain.tla + TLC exhaustive on materialised fork trees; edge-cover replay of the TLC graph into the real Manager/DBStore with projection + property audits after every call; TLC trace validation (ChainTrace.tla) of randomised real executions; bucket-level comparison with a linear twin',
  ref='5 C02'),
 "C03": dict(
  level='model_checking',
  text="Family durable: MidFlush after any individual apply/revert inside a reorg, EndFlush, Crash at any moment; TLC checks DurableConsistent (image linked, valid, ledger = fold of its own chain, tip is one the node had) and CommitOnlyAtBoundary. Replay forces the store's own commit at exactly the scripted points, stops the process inside AddBlocks, reopens the committed image with NewDBStore+NewManager and compares it with the spec; the driver commits after random block operations, reopens EVERY committed image of every history, audits it against the independent ledger and lets it catch up to the tip of the uninterrupted run.",
  note="Trusted: go.sia.tech/core (consensus validation, ApplyBlock/ApplyHeader, accumulator membership) and the independent linear-replay ledger built only on it; TLC; the Go runtime. Tree classes (ok/badhdr/badbody/future) and the SufficientlyHeavierThan relation are computed from the real blocks and states, never assumed. Bounds: Leg M/R trees of <= 6 blocks (quick 5) in three hardfork regimes plus scripted rollback shapes, batches <= 2; Leg T random trees of 20-120 blocks. Commit points are produced through the chain.Store interface (DBStore.Flush right after ApplyBlock/RevertBlock, the same sequence of DB operations DBStore performs when its size/time threshold fires). MemDB images; Bolt is covered by C17's backend equivalence.",
  technique='TLA+ spec Chain.tla + TLC exhaustive on materialised fork trees; edge-cover replay of the TLC graph into the real Manager/DBStore with projection + property audits after every call; TLC trace validation (ChainTrace.tla) of randomised real executions; crash/reopen of every committed image',
  ref='5 C03'),
 "C04": dict(
  level='model_checking',
  text='Family subs: Poll = UpdatesSince with chunk sizes {1,2,5} from every subscriber position incl. stale branches, interleaved with every submission; TLC checks Contiguous (bounded, reverts walk back parent by parent to the fork point, applies forward along the best chain, catches up when not truncated) and NotifyOnlyIfMoved/MovedImpliesNotify. Replay compares the returned block-id lists exactly; in the driver three subscribers fold the REAL updates (element diffs + UpdateElementProof) into shadow ledgers that must equal the independent ledger, with every proof verifying against the tip accumulator, whenever they catch up.',
  note='Trusted: go.sia.tech/core (consensus validation, ApplyBlock/ApplyHeader, accumulator membership) and the independent linear-replay ledger built only on it; TLC; the Go runtime. Tree classes (ok/badhdr/badbody/future) and the SufficientlyHeavierThan relation are computed from the real blocks and states, never assumed. Bounds: Leg M/R trees of <= 6 blocks (quick 5) in three hardfork regimes plus scripted rollback shapes, batches <= 2; Leg T random trees of 20-120 blocks. Concurrent polls racing AddBlocks are serialised by Manager.mu and are exercised only sequentially here.',
  technique='TLA+ spec Chain.tla + TLC exhaustive on materialised fork trees; edge-cover replay of the TLC graph into the real Manager/DBStore with projection + property audits after every call; TLC trace validation (ChainTrace.tla) of randomised real executions; shadow ledgers folded from the real update stream',
  ref='5 C04'),
 "C19": dict(
  level='model_checking',
  text="Family prune: Prune(h) for every height incl. beyond the tip, repeated, followed by every submission (incl. re-submission of pruned blocks) and reorgs around the boundary; TLC checks PruneOnlyOldBodies, AllValid, NeverPanics, FailureIsNoop, MinReorg. Replay and the driver compare MinReorgIndex, stored records and results with the spec; the driver runs an unpruned twin on the same submissions and requires equal tips/states unless the reorg's fork point lies below the reported minimum reorg index.",
  note='Trusted: go.sia.tech/core (consensus validation, ApplyBlock/ApplyHeader, accumulator membership) and the independent linear-replay ledger built only on it; TLC; the Go runtime. Tree classes (ok/badhdr/badbody/future) and the SufficientlyHeavierThan relation are computed from the real blocks and states, never assumed. Bounds: Leg M/R trees of <= 6 blocks (quick 5) in three hardfork regimes plus scripted rollback shapes, batches <= 2; Leg T random trees of 20-120 blocks. Finding C19-resubmit-pruned-block was repaired (fix commit 8158710); Chain_prune_dev.cfg keeps the deviation as a model-level self-test.',
  technique='TLA+ spec Chain.tla + TLC exhaustive on materialised fork trees; edge-cover replay of the TLC graph into the real Manager/DBStore with projection + property audits after every call; TLC trace validation (ChainTrace.tla) of randomised real executions; unpruned twin',
  ref='5 C19'),
 "C20": dict(
  level='model_checking',
  text='TLC checks the declarative bit-sequence definition of the 12-word encoding exhaustively on scaled-down instances (definitions are inverse bijections; an implementation-shaped shift/mask model refines it; named deviations are rejected). At full size TLC computes the specified result of structured and random calls which are replayed on the real codec, and every recorded call of encode/decode/SeedFromPhrase/NewSeedPhrase/KeyFromSeed (5*10^4 quick, 6*10^5 thorough: every single-bit and adjacent-two-bit entropy, every value of every word position, all 16 checksum variants, whitespace variants, 14 malformed kinds) is validated clause by clause against SeedTrace.tla.',
  note='2^128 entropies / 2048^12 phrases are sampled, not enumerated. SHA-256, BLAKE2b, Ed25519 are uninterpreted: the checksum nibble is supplied by the harness (crypto/sha256, hashlib) and cross-checked; seeds/keys only required deterministic and injective. Hook wallet/verif_export.go (build tag verif).',
  technique='TLA+ spec (Seed, SeedMC, SeedGen, SeedTrace) + exhaustive TLC on scaled-down instances + TLC-computed replies replayed into the real codec + TLC trace validation of recorded calls',
  ref='5 C20'),
 "C16": dict(
  level='model_checking',
  text="Form.tla models renter and host as two processes exchanging four messages with stop/cut/one-field corruption at every boundary, dial failure, broadcast failure, 8 parameter classes, 4 basis relations, confirmed/unconfirmed inputs; TLC explores all interleavings of 2 (quick) / 3 (thorough) attempts. All 2272 TLC-enumerated attempt descriptors are executed on two real nodes (real client functions, real rhp4.Server, real wallets) through the in-memory transport with a message-aware proxy; calls, outcome, both wallets' spendable sets and balances, contractor contents, a neutral pool's verdict and a mined block are compared with the spec and the statement is evaluated directly; random attempt sequences with repeated failures are validated by TLC against FormTrace.tla.",
  note="Point of no return = host's successful broadcast; a final message lost after it counts as formed-but-unacknowledged. testutil EphemeralContractor/EphemeralWalletStore stand in for host stores; in-memory transport; one fault per attempt. Open finding C16-record-before-broadcast; three findings repaired (fix commits 6bbeb19, 2d8c5ce, 1b6d022).",
  technique='TLA+ spec with named deviations + TLC exhaustive + replay of the full descriptor cover into real client/server/wallet code + TLC trace validation',
  ref='5 C16'),
 "C06": dict(
  level='model_checking',
  text='WalletLedger.tla folds, per block of fork trees of REAL blocks, what the block creates, spends and means as events for the wallet address (extracted with core only) exactly as revertChainUpdate/applyChainUpdate plus the store do, under every tip movement and every chunking (chunk sizes {1,2,3,5,7}, incl. chunks ending on a revert); TLC checks PosExact, UtxoExact, EventsExact, FlowBalance and liveness (Settles) and exhibits the two (repaired) event-keying deviations as design-level counterexamples. The full edge cover is replayed on a real Manager + SingleAddressWallet.UpdateChainState over EphemeralWalletStore with the complete wallet state compared and audited against the independent ledger (every proof verified, Balance() partition); randomised C02-style histories (20-120 blocks, the wallet address rotating through miner, payee, spender, v1/v2 contract party, siafund owner, claim address only, foundation address) are validated by TLC call by call.',
  note="Trusted: core, TLC, Go runtime. TLC sees currency values modulo 65521; the exact big-integer equations are checked in Go. Leg M/R trees <= 15 blocks x 3 personas x 3 regimes. Unique v1 window ends (expiry order is C02's open finding). Pool-dependent Balance parts compared only when the pool is empty. Findings C06-claim-event and C06-renewal-payee repaired (f91b530, 9a54029).",
  technique='TLA+ spec WalletLedger.tla + TLC exhaustive on materialised role trees; edge-cover replay with projection and property audits; TLC trace validation of randomised real executions; deviation probes',
  ref='5 C06 / 11.4'),
 "C07": dict(
  level='model_checking',
  text='TLC exhausts WalletFund.tla (permissive selection, exact success/failure) on small instances - <= 3 initial outputs, 2 requests, <= 2 ticks, three option sets incl. zero thresholds, every interleaving and every admissible selection - for Disjoint, Conservation, LiveValid, PoolValid, NoOrphanLocks, ViewsAgree, Eligible, FailReservesNothing, ReservationEnds. The edge cover of code-policy schedule graphs (quick: sample of 3 graphs; thorough: full cover of 6 graphs, 1.7*10^5 transitions) is replayed on the real SingleAddressWallet over a real chain.Manager with reply and all five views compared per step; every call of the replayed runs, of random sequential sessions and of concurrent (-race in thorough) sessions with 4-8 goroutines is validated by TLC against WalletFundTrace.tla, concurrent calls ordered by a stamp taken under sw.mu through the store wrapper.',
  note='Hastings-scale values; reservation periods realised with 400 ms units and measured windows (a run that misses its window is repeated, never judged); chain updates atomic w.r.t. wallet calls; cross-version unconfirmed parents modelled as rejected until confirmed; restart = fresh Manager + reload of broadcast sets. Four findings repaired (edcc4bc, 1870d4f, dfbacc0, 3b90962).',
  technique='TLA+ spec + TLC exhaustive; edge-cover replay with a policy refinement; TLC trace validation incl. exactly ordered concurrent traces; named-deviation self-tests',
  ref='5 C07 / 11.4'),
 "C10": dict(
  level='model_checking',
  text='TLC enumerates the complete fault space of Renter.tla (every catalogue corruption - flip, truncate, extend, swap from another exchange, other range/root, wrong count, re-sign - of every field of every host message of 11 renter RPCs plus 2 unservable input classes; singles quick, pairs/triples and 50 random byte mutations per message thorough) and checks the acceptance rule SuccessImpliesBound / HonestSucceeds against an abstract client; every enumerated plan is executed against the real client functions talking to a real honest rhp4.Server through a decoding, re-signing man in the middle holding the host key, with `bound` evaluated from harness-owned ground truth (sector bytes, roots, price table, keys); every recorded outcome is TLC-validated against RenterTrace.tla.',
  note="Trusted: core's Merkle/encoding/ed25519, TLC; hashes and signatures treated as ideal. RPCLatestRevision/RPCAccountBalance are informational (unauthenticated by design). In-memory transport. Three findings repaired (a430e65, 60c450d, ff651f4).",
  technique='TLA+ fault-space enumeration + exhaustive MITM replay into the real client/server + TLC trace validation',
  ref='5 C10 / 11.4'),
 "C09": dict(
  level='model_checking',
  text="TLC decides Host.tla (family roots) over the complete reachable state space for contracts of 0..5 sectors x every index list (any order, duplicates, out of range) x every abort round, two sessions racing for the contract lock, plus the client-API list-model lemma for sizes 0..6. Every transition of the one-exchange graph is executed on the real rhp4.Server with the reference contractor through raw exchanges built with core's encoders: after EVERY step (success, failure, abort at any round) the LockV2Contract state is compared (MetaRoot(roots) = revision root, count x SectorSize = Filesize, roots = list model), RPCSectorRoots over all sub-ranges verifies and every listed sector reads back. Random adversarial append/free sessions (unknown roots mixed in, aborts) and the exhaustive client-API free of all index lists are validated by TLC.",
  note="Trusted: TLC, Go runtime, core's Merkle and signature code. Initial states installed through Contractor.ReviseV2Contract; amounts in units of 4096 H; in-memory transport; the harness waits for the server-side stream close between RPCs (the reference contract lock is a try-lock released after the last response). Finding C09-free-sectors-alias repaired (6350cf0).",
  technique='TLA+ spec Host.tla + TLC exhaustive; edge-cover replay into the real rhp4.Server over the in-memory transport; TLC trace validation of recorded RPC-level and Contractor-call-level executions',
  ref='5 C09 / 11.4'),
 "C15": dict(
  level='model_checking',
  text='TLC decides Host.tla (family accounts) for 2 accounts x 2 pools with balances at, just below and just above every cost, up to 3 commits, every corruption class (CreditBacked, DebitIsPrice, PaidBeforeService, NonNegative, InsufficientIsNoop, ReplenishToTarget, AttachNeedsSignature). From 30 catalogue ledger states every fund/replenish/attach/detach/read/write/verify RPC x every corruption class is replayed on the real host with reply, the recorded Debit -> Read/Store call order (recording Contractor and Sectors wrappers, sequence numbers taken inside the wrapped call) and all balances compared; random sessions are validated by TLC.',
  note="Sequential RPCs; attachments are observable only through the debits they enable; core's RPC*Cost functions trusted. Finding C15-replenish-duplicates repaired (5215a1b).",
  technique='TLA+ spec Host.tla + TLC exhaustive; edge-cover replay into the real rhp4.Server over the in-memory transport; TLC trace validation of recorded RPC-level and Contractor-call-level executions',
  ref='5 C15 / 11.4'),
 "C08": dict(
  level='model_checking',
  text="TLC decides Host.tla (family revisions) for two and three renter sessions interleaved at every stream read/write, every revising RPC x every corruption class (bad challenge or revision signature, stale/future revision number, signature over another revision, expired/foreign/tampered price table, out-of-range parameters, replay, silence): RevMonotone, DoublySigned, Immutable, NoHostToRenter, PayoutSumConstant, ExactCharge, BadRequestIsNoop, SerialisedPerContract. The full edge cover is replayed on the real host; every committed revision is checked with core's signature verification over exactly that revision and consensus.ValidateV2Transaction against the on-chain element; sequences of 50-500 RPCs and 2-4 concurrent renter goroutines on one contract are validated by TLC from the recorded Contractor calls.",
  note='Renew/refresh economics belong to C16. The reference contractor re-verifies signatures, so a dropped server-side check shows up as a failed contractor call. Amounts kept below 2^31 in what TLC sees; Go-side arithmetic exact.',
  technique='TLA+ spec Host.tla + TLC exhaustive; edge-cover replay into the real rhp4.Server over the in-memory transport; TLC trace validation of recorded RPC-level and Contractor-call-level executions; per-commit signature and consensus oracles',
  ref='5 C08 / 11.4'),
 "C05": dict(
  level='model_checking',
  text="Pool.tla (family pool): submissions x blocks applied and reverted on fork trees that confirm, un-confirm and invalidate pooled transactions, with a fully permissive Revalidate (any prefix-valid pool over what was ever offered that contains the must-keep set): PrefixValid, Retention, NoInvention, Minable, RetentionSatisfiable; eviction with a small pool bound. On the real node, after EVERY reported pool: prefix-by-prefix validation with core on a fresh MidState of the independent ledger's tip state (every v2 proof checked against the tip accumulator independently of revalidatePool), a block mined from the pool (own assembly and coreutils.MineBlock) accepted by a copy of the node and a fresh linear twin, Go-side retention tracking; the thorough tier fills the pool to 20 M weight with 1 MB transactions.",
  note="Retention tracked for siacoin transactions without height-dependent validity; 'full' = 95 % of the weight limit; must-keep is transitively closed over pooled parents. Finding C05-ephemeral-child-dropped repaired (090729e). Concurrent pool access not driven.",
  technique='TLA+ spec Pool.tla + TLC exhaustive on abstract scenarios; stimulus edge cover of the TLC graph executed on a real Manager with concrete audits; TLC trace validation of every call; deviation probes',
  ref='5 C05 / 11.4'),
 "C13": dict(
  level='model_checking',
  text='Pool.tla (family rebase): every (from, to) pair of a fork tree x sets with confirmed, ephemeral and mixed parents x corruptions, MaxDist 3 in the model and 144 in the trace cfg (pairs at 143-146 on long branches): RebaseResult, RebaseErrors, ParentsFirst, BasisIsTip, TxSetErrors. On the real node every returned leaf index and Merkle proof is compared with the independent ledger at the target; corrupt proof / leaf index / proof length / basis must give an error and never a panic; caller-owned transactions are deep-compared before/after; contract revisions, expirations and storage proofs occur in the rebased sets.',
  note='from = to is returned as is and not judged; elements spent on the way are counted, not compared. Findings C13-ephemeral-input-rejected and C13-txset-stale-basis-parents repaired (090729e, f0cb28d).',
  technique='TLA+ spec Pool.tla + TLC exhaustive on abstract scenarios; stimulus edge cover of the TLC graph executed on a real Manager with concrete audits; TLC trace validation of every call; deviation probes',
  ref='5 C13 / 11.4'),
 "C14": dict(
  level='model_checking',
  text='Pool.tla (family contract): TLC explores every pool state x submitted set (every injective set <= 3 of a catalogue with a parent/child pair, a conflicting pair of each version, a v1 child; corruption at each position; unknown basis) x lookup of v1, v2, unpooled and unknown ids through both lookup functions, in a v1+v2 and a v2-only regime: Atomicity, KnownIffAllPooled, LookupExact. An edge cover of that graph and random histories are executed on a real Manager; every reply and reported pool is validated by TLC; atomicity and lookups are audited in Go; caller memory is deep-compared before/after and mutated afterwards, query results are mutated and reordered.',
  note='A not-self-contained all-pooled set may answer known or error (statement ambiguous). Findings C14-partial-add-on-pool-conflict and C14-lookup-shared-index repaired (8744436, 10ed288).',
  technique='TLA+ spec Pool.tla + TLC exhaustive on abstract scenarios; stimulus edge cover of the TLC graph executed on a real Manager with concrete audits; TLC trace validation of every call; deviation probes',
  ref='5 C14 / 11.4'),
 "C18": dict(
  level='model_checking',
  text="TLC decides Limits.tla over complete reachable state spaces for small constants with every interleaving and Close at every moment: the per-peer semaphore (blocking), the per-subnet counter (non-blocking, drop), the thread group and Run's teardown, and the connection lifecycle with AllowCheck, Handshake and AddPeer as separate steps; PerPeerCap, PerSubnetCap, NoSlotLeak, BackPressureNotDrop, PeerCaps, StopWaits, AddAfterStopRejected, deadlock freedom, liveness StopReturns/RpcsSettle under fairness; the two (repaired) implementation-shaped deviations are shown to break PeerCaps and StopReturns. Every transition of the settled-state graphs is replayed on real Syncers (handlers gated inside a blocking ChainManager wrapper, handshakes gated in PeerStore), ThreadGroup, rhp4.Server and SingleAddressWallet.Close with the observable state compared after each step and a goroutine inventory at the end; every event of randomised bursts (1-8 peers, Close at a random moment, -race in thorough) is validated by TLC against LimitsTrace.tla.",
  note='Trusted: TLC, Go scheduler, mux, loopback TCP. Only SendV2Blocks handlers are gated; subnets are /32 loopback; settled-state replay uses a 10 s deadline and a 12 ms stability window with one retry. Hook syncer/verif_export.go. Findings C18-inbound-cap-check-then-act and C18-close-blocked-by-unswept-peer repaired (7ef24f9, 98a7196).',
  technique='TLA+ spec Limits.tla + TLC exhaustive and liveness; eager-graph edge-cover replay with ChainManager/PeerStore/Settings/wallet-store gates; TLC trace validation with demand-driven hidden steps; race-detector run',
  ref='5 C18 / 11.4'),
 "C11": dict(
  level='model_checking',
  text='TLC decides Sync.tla (family byzantine): a victim, an honest peer and a Byzantine peer that answers every request with any element of the corruption catalogue and relays anything: AlwaysValid, WorkMonotone, ProvableMisbehaviourBanned, NoHonestBan, liveness HonestProgress with fairness on honest actions only. Macro-steps of its graph at the real constants are replayed on a real victim against a scripted gateway peer (core/gateway); 150 (quick) / 561 (thorough) scenarios run a real victim syncer with real honest peers and scripted Byzantine peers (56 corruption kinds, every position in a batch, v1 / v2-below-require / pre-validated regimes, both instant-sync checkpoint-binding attacks, colluding peers). After each scenario: process alive, work never decreased, best chain audited by a linear twin, honest heaviest tip reached within the deadline, Ban recorded for provable classes; all recorded ChainManager/PeerStore calls are TLC-validated.',
  note="Corruptions go through core/gateway's public API; insufficient work only possible above the final cut; a ban is required only for the classes the code treats as provable; deadlines >= 10x nominal with retries. Finding C11-outline-sidechain-parent repaired (6ac3149).",
  technique='TLA+ spec (SyncChain / Sync / SyncMC) + TLC safety and liveness; macro-step replay into a real syncer; TLC trace validation of recorded ChainManager / PeerStore logs; linear-twin audit; scripted Byzantine gateway peer; oracle classifying every crafted block',
  ref='5 C11 / 11.4'),
 "C12": dict(
  level='model_checking',
  text="TLC decides Sync.tla for 2-3 honest nodes over complete reachable state spaces of small trees: every admissible branch assignment, every connection order of line and triangle topologies, every interleaving, history sample and request split scaled to 2: best-chain validity and linkage, work monotonicity, no ban of an honest peer, and Convergence under weak fairness without state constraint. Bound to the code by replaying an edge cover of the graph at the real constants on a real syncer, and by 41 (quick) / 536 (thorough) real loopback networks at the real boundaries (2-5 nodes; fork depths 0,1,9,10,11,17,40,99,100,101,250; three hardfork configurations; checkpoint-bootstrapped nodes; line/star/ring/tailed-triangle topologies; every connection order; batch options and peer limits) with each node's best chain audited against a linear twin and every syncer->ChainManager / PeerStore call validated by TLC against SyncTrace.tla.",
  note='Premises: one tip sufficiently heavier than the others; tips re-announced (outline for v2 tips); final tip v2; checkpoints far enough below the forks. Findings repaired: 6ac3149, 209e097, e06d31d. Trusted: TLC, Go runtime, OS loopback TCP, the oracle.',
  technique='TLA+ spec (SyncChain / Sync / SyncMC) + TLC safety and liveness; macro-step replay into a real syncer; TLC trace validation of recorded ChainManager / PeerStore logs; linear-twin audit',
  ref='5 C12 / 11.4'),
}

NOT_APPLICABLE = {
}

HOOK_COMMITS = ["cdd4f9a", "e9c8015", "e8659e1", "aaf9cbf"]


def main():
    checks = []
    for pid in ALL:
        if pid not in CHECKS:
            continue
        c = CHECKS[pid]
        checks.append({
            "property_id": pid,
            "quick_cmd": "./check %s --tier quick" % pid,
            "thorough_cmd": "./check %s --tier thorough" % pid,
            "evidence_file": "/verif/evidence/%s.json" % pid,
            "replay_cmd_template": "./check %s --replay {path}" % pid,
            "engine": "tlc+go-harness",
            "level_claimed": {"category": c["level"], "text": c["text"], "design_ref": "DESIGN.md section " + c["ref"]},
            "level_note": c["note"],
            "technique": c["technique"],
        })
    na = [{"property_id": p, "reason": NOT_APPLICABLE.get(p, "check not built yet in this round; see DESIGN.md section 10 (build order)")}
          for p in ALL if p not in CHECKS]
    m = {
        "version": 1,
        "setup_cmd": "./tools/setup.sh",
        "hooks": {
            "guard": "verif",
            "enable": "go test -tags verif (the harness module replaces go.sia.tech/coreutils with /repo, so every check compiles /repo's working tree with the tag on)",
            "baseline_off_cmd": "cd /repo && GOFLAGS=-mod=mod go test -vet=off -count=1 ./...",
            "source_commits": HOOK_COMMITS,
            "add_only": True,
        },
        "engines": [
            {"name": "tlc+go-harness", "path": "/verif/check", "serves_properties": [c["property_id"] for c in checks],
             "kind_free_text": "explicit TLA+ specifications (spec/*.tla) checked by TLC; bound to the Go code by replaying TLC-generated behaviours into the real code and by TLC trace validation of executions recorded from the real code"},
        ],
        "checks": checks,
        "not_applicable": na,
        "notes": "Model-based verification with explicit TLA+ specifications; see DESIGN.md. Verdicts: exit 0 held / exit 1 VIOLATION / exit 2 infrastructure. known_findings.json lists genuine defects (open or fixed).",
    }
    p = os.path.join(VERIF, "MANIFEST.json")
    json.dump(m, open(p, "w"), indent=1)
    try:
        import jsonschema
        jsonschema.validate(m, json.load(open("/root/.vp/MANIFEST.schema.json")))
        print("MANIFEST.json valid (%d checks, %d not_applicable)" % (len(checks), len(na)))
    except ImportError:
        print("MANIFEST.json written (jsonschema not available)")


if __name__ == "__main__":
    main()
