#!/usr/bin/env python3
"""Generates /verif/MANIFEST.json from the table below (single source of truth) and validates it
against /root/.vp/MANIFEST.schema.json when jsonschema is importable."""
import json, os, sys

VERIF = os.path.dirname(os.path.dirname(os.path.abspath(__file__)))
ALL = ["C%02d" % i for i in range(1, 21)]

# property -> dict(level, text, note, technique, design_ref)
CHECKS = {
 "C17": dict(
  level="model_checking",
  text="TLC decides the reference KV semantics and the implementation-shaped MemDB/CacheDB models (refinement of KV with reply equality) over their COMPLETE reachable state spaces (all operation sequences, not length-bounded); every transition of KV's state graph is replayed on the four real backends with state and reply compared after each action, and every interface call of exhaustive (all mutating-op sequences up to length L) and random long sessions on the real backends is validated by TLC against KVTrace.tla.",
  note="Trusted: TLC, bbolt, Go runtime. Bucket handles are re-fetched per operation; keys/values non-empty; Iter compared as a set. 'Chain store behaves the same whichever backend' is covered by C02/C03 drivers running DBStore over the backends.",
  technique="TLA+ spec (KV, KVMem, KVCache) + TLC exhaustive/refinement + edge-cover replay into real backends + TLC trace validation of recorded sessions",
  ref="5 C17"),
}

NOT_APPLICABLE = {
}

HOOK_COMMITS = []


def main():
    checks = []
    for pid in ALL:
        if pid not in CHECKS:
            continue
        c = CHECKS[pid]
        checks.append({
            "property_id": pid,
            "quick_cmd": "./check %s --tier quick" % pid,
            "thorough_cmd": "./check %s --tier thorough" % pid,
            "evidence_file": "/verif/evidence/%s.json" % pid,
            "replay_cmd_template": "./check %s --replay {path}" % pid,
            "engine": "tlc+go-harness",
            "level_claimed": {"category": c["level"], "text": c["text"], "design_ref": "DESIGN.md section " + c["ref"]},
            "level_note": c["note"],
            "technique": c["technique"],
        })
    na = [{"property_id": p, "reason": NOT_APPLICABLE.get(p, "check not built yet in this round; see DESIGN.md section 10 (build order)")}
          for p in ALL if p not in CHECKS]
    m = {
        "version": 1,
        "setup_cmd": "./tools/setup.sh",
        "hooks": {
            "guard": "verif",
            "enable": "go test -tags verif (the harness module replaces go.sia.tech/coreutils with /repo, so every check compiles /repo's working tree with the tag on)",
            "baseline_off_cmd": "cd /repo && GOFLAGS=-mod=mod go test -vet=off -count=1 ./...",
            "source_commits": HOOK_COMMITS,
            "add_only": True,
        },
        "engines": [
            {"name": "tlc+go-harness", "path": "/verif/check", "serves_properties": [c["property_id"] for c in checks],
             "kind_free_text": "explicit TLA+ specifications (spec/*.tla) checked by TLC; bound to the Go code by replaying TLC-generated behaviours into the real code and by TLC trace validation of executions recorded from the real code"},
        ],
        "checks": checks,
        "not_applicable": na,
        "notes": "Model-based verification with explicit TLA+ specifications; see DESIGN.md. Verdicts: exit 0 held / exit 1 VIOLATION / exit 2 infrastructure. known_findings.json lists genuine defects (open or fixed).",
    }
    p = os.path.join(VERIF, "MANIFEST.json")
    json.dump(m, open(p, "w"), indent=1)
    try:
        import jsonschema
        jsonschema.validate(m, json.load(open("/root/.vp/MANIFEST.schema.json")))
        print("MANIFEST.json valid (%d checks, %d not_applicable)" % (len(checks), len(na)))
    except ImportError:
        print("MANIFEST.json written (jsonschema not available)")


if __name__ == "__main__":
    main()
