"""Shared machinery for /verif/check: TLC runs, edge export, path covers, Go harness runs,
trace validation, known findings, evidence.  Standard library only."""
import json, os, re, shutil, subprocess, sys, time, random, hashlib, glob

VERIF = os.path.dirname(os.path.dirname(os.path.abspath(__file__)))
SPEC = os.path.join(VERIF, "spec")
# The registered checks always use /verif/harness (replace => /repo), /verif/.work and
# /verif/evidence.  The overrides exist only for tools/seedtest.sh, which runs the same checks
# against a scratch worktree carrying a seeded defect without touching /repo or the evidence.
HARNESS = os.environ.get("VERIF_HARNESS_DIR", os.path.join(VERIF, "harness"))
WORK = os.environ.get("VERIF_WORK_ROOT", os.path.join(VERIF, ".work"))
EVID = os.environ.get("VERIF_EVIDENCE_DIR", os.path.join(VERIF, "evidence"))
REPO = os.environ.get("VERIF_REPO_DIR", "/repo")

GOENV = {
    "GOFLAGS": "-mod=mod", "GOPROXY": "off", "GOSUMDB": "off", "GOTOOLCHAIN": "local",
    "GONOSUMCHECK": "1", "GONOSUMDB": "*",
}
GO = "go1.26"


class Infra(Exception):
    """Infrastructure trouble: exit 2, never a violation."""


def log(*a):
    print(*a, flush=True)


def seed():
    try:
        return int(os.environ.get("VERIF_SEED", "1"))
    except ValueError:
        return 1


# ------------------------------------------------------------------ work dirs

def workdir(name):
    # one scratch directory per (check, tier): a quick and a thorough run of the same check may
    # run side by side without deleting each other's files
    tag = os.environ.get("VERIF_RUN_TAG", "")
    d = os.path.join(WORK, name + ("-" + tag if tag else ""))
    shutil.rmtree(d, ignore_errors=True)
    os.makedirs(d)
    return d


def spec_copy(wd, tag="x"):
    """TLC litters its working directory; run it in a scratch copy of spec/ (one per run, so
    that concurrent TLC runs never see a half-copied module)."""
    sd = os.path.join(wd, "spec_" + tag)
    shutil.rmtree(sd, ignore_errors=True)
    os.makedirs(sd)
    for f in glob.glob(os.path.join(SPEC, "*.tla")):
        shutil.copy(f, sd)
    return sd


# ------------------------------------------------------------------ TLC

class EdgeList:
    """Edges exported by TLC, kept as raw JSON text (a parsed edge is ~10x bigger) and parsed on
    access; behaves like a read-only list of dicts."""

    def __init__(self):
        self.raw = []

    def append_raw(self, text):
        self.raw.append(text)

    def __len__(self):
        return len(self.raw)

    def __bool__(self):
        return bool(self.raw)

    def __getitem__(self, i):
        if isinstance(i, slice):
            return [json.loads(x) for x in self.raw[i]]
        return json.loads(self.raw[i])

    def __iter__(self):
        for x in self.raw:
            yield json.loads(x)

    @staticmethod
    def split(text):
        """(from, middle, to) keys of one edge record {from, act, ..., to}.  TLC does not print the
        fields of (nested) records in a stable order, so the keys are digests of the canonical
        (sorted-keys) JSON, not raw substrings."""
        e = json.loads(text)
        h = lambda x: hashlib.md5(canon(x).encode()).digest()
        return h(e["from"]), h({k: v for k, v in e.items() if k not in ("from", "to")}), h(e["to"])


class TLCResult:
    def __init__(self):
        self.exit = None; self.out = ""; self.generated = 0; self.distinct = 0
        self.depth = 0; self.wall = 0.0; self.violated = None; self.error = None
        self.edges = EdgeList(); self.prints = []; self.cmd = ""

    def ok(self):
        return self.exit == 0


def run_tlc(wd, module, cfg, workers="8", timeout=600, env=None, extra=None, deque=False,
            tag=None, keep_out=False, edge_sink=None, xmx=None):
    tag = tag or (module + "_" + os.path.basename(cfg).replace(".cfg", ""))
    sd = spec_copy(wd, tag)
    md = os.path.join(wd, "md_" + tag)
    cfgp = cfg if os.path.isabs(cfg) else os.path.join(SPEC, "cfg", cfg)
    cmd = ["timeout", str(timeout), "tlc", "-workers", str(workers), "-metadir", md,
           "-config", cfgp] + (extra or []) + [module + ".tla"]
    e = dict(os.environ)
    jto = "-Xss64m"
    if xmx:
        jto += " -Xmx" + xmx
    if deque:
        jto += " -Dtlc2.tool.queue.IStateQueue=StateDeque"
    e["JAVA_TOOL_OPTIONS"] = jto
    if env:
        e.update(env)
    r = TLCResult(); r.cmd = " ".join(cmd)
    t0 = time.time()
    outp = os.path.join(wd, "tlc_" + tag + ".out")
    with open(outp, "w") as fo:
        p = subprocess.run(cmd, cwd=sd, env=e, stdout=fo, stderr=subprocess.STDOUT)
    r.wall = time.time() - t0
    r.exit = p.returncode
    gen = dist = 0
    with open(outp, errors="replace") as fi:
        tail = []
        for line in fi:
            if line.startswith('"EDGE '):
                try:
                    if edge_sink is not None:
                        edge_sink(json.loads(line)[5:])
                    else:
                        r.edges.append_raw(json.loads(line)[5:])
                except Exception as ex:
                    raise Infra("bad EDGE line: %s (%s)" % (line[:200], ex))
                continue
            if line.startswith('"OUT '):
                try:
                    r.prints.append(json.loads(json.loads(line)[4:]))
                except Exception as ex:
                    raise Infra("bad OUT line: %s (%s)" % (line[:200], ex))
                continue
            m = re.match(r"(\d+) states generated, (\d+) distinct states found", line)
            if m:
                gen, dist = int(m.group(1)), int(m.group(2))
            m = re.match(r"The depth of the complete state graph search is (\d+)", line)
            if m:
                r.depth = int(m.group(1))
            m = re.match(r"Error: Invariant (\S+) is violated", line)
            if m:
                r.violated = m.group(1)
            m = re.match(r"Error: Action property (.+?) is violated", line)
            if m:
                r.violated = m.group(1)
            if "Temporal properties were violated" in line:
                r.violated = r.violated or "temporal"
            if line.startswith("Error:") and r.error is None:
                r.error = line.strip()
            tail.append(line)
            if len(tail) > 400:
                tail.pop(0)
        r.out = "".join(tail)
    r.generated, r.distinct = gen, dist
    if not keep_out and r.exit == 0 and os.path.getsize(outp) > 5_000_000:
        os.remove(outp)
    shutil.rmtree(md, ignore_errors=True)
    shutil.rmtree(sd, ignore_errors=True)
    if r.exit == 124:
        raise Infra("TLC timeout after %ss: %s" % (timeout, r.cmd))
    return r


def tlc_must_pass(r, what):
    """Leg M verdict: a model-level failure is exit 2 (the model is wrong or the design is),
    never a VIOLATION by itself (DESIGN section 2)."""
    if r.exit != 0:
        raise Infra("TLC failed on %s (exit %s, violated=%s): %s\n%s" %
                    (what, r.exit, r.violated, r.error, r.out[-3000:]))
    if r.distinct < 1:
        raise Infra("TLC explored no states on %s" % what)


# ------------------------------------------------------------------ edge graph -> paths

def canon(x):
    return json.dumps(x, sort_keys=True, separators=(",", ":"))


def path_cover(edges, max_paths=None, rng=None, max_len=60, raw_out=False):
    """edges: list of {from, act, to}.  Returns a list of paths (each a list of edges) such that
    every distinct edge appears in at least one path that starts in the initial state (the `from`
    of the first edge printed by TLC's BFS).  States are keyed by the canonical JSON of the
    printed record, computed once per edge."""
    if not edges:
        return []
    sid = {}
    def ident(k):
        v = sid.get(k)
        if v is None:
            v = sid[k] = len(sid)
        return v
    E = []          # (from id, to id, edge index), distinct edges only
    seen_e = set()
    raw = edges.raw if isinstance(edges, EdgeList) else None
    for i in range(len(edges)):
        if raw is not None:
            fk, mk, tk = EdgeList.split(raw[i])
        else:
            e = edges[i]
            fk, mk, tk = canon(e["from"]), canon(e["act"]), canon(e["to"])
        f, t_ = ident(fk), ident(tk)
        k = (f, mk, t_)
        if k in seen_e:
            continue
        seen_e.add(k)
        E.append((f, t_, i))
    init = E[0][0]
    succ = {}
    for j, (f, t_, i) in enumerate(E):
        succ.setdefault(f, []).append(j)
    parent = {init: None}
    order = [init]
    for s in order:
        for j in succ.get(s, []):
            t_ = E[j][1]
            if t_ not in parent:
                parent[t_] = (s, j)
                order.append(t_)

    def prefix(s):
        p = []
        while parent[s] is not None:
            s0, j = parent[s]
            p.append(j); s = s0
        p.reverse()
        return p
    covered = [False] * len(E)
    todo = list(range(len(E)))
    if rng:
        rng.shuffle(todo)
    paths = []
    for j in todo:
        if covered[j] or E[j][0] not in parent:
            continue
        p = prefix(E[j][0]) + [j]
        for x in p:
            covered[x] = True
        cur = E[j][1]
        while len(p) < max_len:
            nxt = [x for x in succ.get(cur, []) if not covered[x]]
            if not nxt:
                break
            x = nxt[0] if not rng else rng.choice(nxt)
            p.append(x); covered[x] = True; cur = E[x][1]
        paths.append(p)
    if max_paths and len(paths) > max_paths:
        (rng or random.Random(1)).shuffle(paths)
        paths = paths[:max_paths]
    # edges are parsed (or handed out as raw JSON text with raw_out) only for the selected paths
    if raw_out and raw is not None:
        return [[raw[E[x][2]] for x in p] for p in paths]
    return [[edges[E[x][2]] for x in p] for p in paths]


def graph_stats(edges):
    states = set(); es = set()
    raw = edges.raw if isinstance(edges, EdgeList) else None
    for i in range(len(edges)):
        if raw is not None:
            fk, mk, tk = EdgeList.split(raw[i])
        else:
            e = edges[i]
            fk, mk, tk = canon(e["from"]), canon(e["act"]), canon(e["to"])
        states.add(fk); states.add(tk); es.add((fk, mk, tk))
    return len(states), len(es)


# ------------------------------------------------------------------ Go harness

def go_setup():
    """go.sum must match /repo's; the harness module replaces coreutils with /repo."""
    shutil.copy(os.path.join(REPO, "go.sum"), os.path.join(HARNESS, "go.sum"))


def go_build(pkg, wd, race=False):
    go_setup()
    e = dict(os.environ); e.update(GOENV)
    out = os.path.join(WORK, "bin", pkg.replace("/", "_") + (".race" if race else "") + ".test")
    os.makedirs(os.path.dirname(out), exist_ok=True)
    cmd = [GO, "test", "-tags", "verif", "-c", "-vet=off", "-o", out]
    if race:
        cmd.append("-race")
    cmd.append("./" + pkg)
    t0 = time.time()
    p = subprocess.run(cmd, cwd=HARNESS, env=e, stdout=subprocess.PIPE, stderr=subprocess.STDOUT, text=True)
    if p.returncode != 0:
        raise Infra("harness build failed (%s):\n%s" % (" ".join(cmd), p.stdout[-6000:]))
    log("  built %s in %.1fs" % (pkg, time.time() - t0))
    return out


def go_run(binary, test, wd, env=None, timeout=900, tag=None):
    """Runs one harness test function.  Protocol: the test reads VERIF_IN (json), writes
    VERIF_OUT (json: evaluations, distinct, mismatches[], samples[], ...)."""
    tag = tag or test
    outp = os.path.join(wd, "go_" + tag + ".json")
    logp = os.path.join(wd, "go_" + tag + ".log")
    e = dict(os.environ); e.update(GOENV)
    e["VERIF_OUT"] = outp
    e["VERIF_SEED"] = str(seed())
    e["VERIF_WORK"] = wd
    if env:
        e.update({k: str(v) for k, v in env.items()})
    cmd = ["timeout", str(timeout), binary, "-test.run", "^" + test + "$", "-test.v",
           "-test.timeout", str(timeout) + "s", "-test.count", "1"]
    t0 = time.time()
    with open(logp, "w") as fo:
        p = subprocess.run(cmd, cwd=wd, env=e, stdout=fo, stderr=subprocess.STDOUT)
    wall = time.time() - t0
    if not os.path.exists(outp):
        tail = open(logp, errors="replace").read()[-4000:]
        raise Infra("harness %s produced no result (exit %s):\n%s" % (test, p.returncode, tail))
    res = json.load(open(outp))
    res["wall"] = wall
    res["exit"] = p.returncode
    res["log"] = logp
    if p.returncode != 0 and not res.get("mismatches"):
        tail = open(logp, errors="replace").read()[-4000:]
        raise Infra("harness %s exited %s without recording a mismatch:\n%s" % (test, p.returncode, tail))
    return res


# ------------------------------------------------------------------ trace validation (Leg T)

def validate_trace(wd, module, cfg, trace_file, timeout=600, tag=None, extra_env=None):
    """Runs a Trace*.tla spec over an NDJSON file.  Accepted iff TLC exits 0 (POSTCONDITION on
    the high-water mark of consumed lines holds and no invariant failed).  Returns
    (accepted, TLCResult, consumed_lines)."""
    env = {"TRACE": trace_file}
    if extra_env:
        env.update(extra_env)
    r = run_tlc(wd, module, cfg, workers=1, timeout=timeout, env=env, deque=True, tag=tag, keep_out=True, xmx="3g")
    consumed = None
    m = re.search(r'"HWM", (\d+), "of", (\d+)', r.out)
    if m:
        consumed = int(m.group(1))
    return r.exit == 0, r, consumed


def count_lines(path):
    n = 0
    with open(path, "rb") as f:
        for _ in f:
            n += 1
    return n


# ------------------------------------------------------------------ known findings

def load_findings(prop):
    p = os.path.join(VERIF, "known_findings.json")
    if not os.path.exists(p):
        return []
    data = json.load(open(p))
    return [f for f in data.get("findings", []) if f.get("property") == prop]


class Verdict:
    """Collects mismatches, classifies against known findings, prints the verdict lines."""

    def __init__(self, prop):
        self.prop = prop
        self.findings = load_findings(prop)
        self.known = {}      # finding id -> count
        self.violations = []  # (sig, desc, replay)

    def add(self, mm):
        sig = mm.get("sig", "")
        for f in self.findings:
            if f.get("status") == "open" and re.search(f["signature"], sig):
                self.known[f["id"]] = self.known.get(f["id"], 0) + 1
                return
        self.violations.append(mm)

    def add_all(self, mms):
        for m in mms or []:
            self.add(m)

    def finish(self):
        for f in self.findings:
            if f.get("status") == "open" and f["id"] in self.known:
                log("KNOWN-FINDING: property=%s %s (%d occurrences this run)" %
                    (self.prop, f["what"], self.known[f["id"]]))
        if not self.violations:
            return 0
        rd = os.path.join(WORK, "replay")
        os.makedirs(rd, exist_ok=True)
        seen = set()
        n = 0
        for v in self.violations:
            key = v.get("sig", "") or canon(v)[:200]
            if key in seen:
                continue
            seen.add(key)
            n += 1
            if n > 10:
                break
            rp = os.path.join(rd, "%s-%d-%s.json" % (self.prop, seed(), hashlib.sha1(key.encode()).hexdigest()[:10]))
            json.dump(v, open(rp, "w"), indent=1, sort_keys=True)
            log("  mismatch: %s -- %s" % (v.get("sig"), str(v.get("desc"))[:600]))
            log("VIOLATION property=%s replay=%s" % (self.prop, rp))
        return 1


# ------------------------------------------------------------------ evidence

def write_evidence(prop, tier, level, coverage, assumptions, wall, violations):
    os.makedirs(EVID, exist_ok=True)
    ev = {
        "property_id": prop, "tier": tier, "seed": seed(), "level": level,
        "coverage": coverage, "assumptions": assumptions, "wall_s": round(wall, 2),
        "violations": violations,
    }
    p = os.path.join(EVID, prop + ".json")
    tmp = p + ".tmp"
    json.dump(ev, open(tmp, "w"), indent=1, sort_keys=True)
    os.replace(tmp, p)
    return p


def trim_samples(samples, n=3, maxlen=1500):
    out = []
    for s in samples[:n]:
        t = canon(s)
        if len(t) > maxlen:
            out.append(t[:maxlen] + "...")
        else:
            out.append(s)
    return out
