#!/bin/sh
# MANIFEST.setup_cmd: offline, from files on disk only.  Copies /repo's go.sum next to the
# harness go.mod (the harness module replaces go.sia.tech/coreutils with /repo) and warms the
# Go build cache by compiling every harness package with the `verif` tag.
set -e
cd "$(dirname "$0")/.."
export GOFLAGS=-mod=mod GOPROXY=off GOSUMDB=off GOTOOLCHAIN=local
cp /repo/go.sum harness/go.sum
mkdir -p .work/bin evidence
cd harness
for p in $(go1.26 list ./... 2>/dev/null | sed 's#^verifharness/##' | grep -v '^verifharness$'); do
  if ls $p/*_test.go >/dev/null 2>&1; then
    go1.26 test -tags verif -c -vet=off -o ../.work/bin/$(echo $p | tr / _).test ./$p || exit 1
  else
    go1.26 build -tags verif ./$p || exit 1
  fi
done
echo setup ok
