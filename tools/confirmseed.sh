#!/bin/bash
# tools/confirmseed.sh <seed-id> <out-dir>   e.g. tools/confirmseed.sh C01-c /tmp/seed/C01-c-out
# Confirms a seeded change in a fresh scratch worktree of /repo HEAD (never /repo itself):
#   (1) patch applies cleanly, (2) the repository's whole suite passes with it, (3) the demo fails with it,
#   (4) the demo passes without it.  On success packages /verif/seeded/<seed-id>/{patch.diff,demo_test.go,meta.json}.
set -u
id=$1; out=$2
export GOFLAGS=-mod=mod GOPROXY=off GOSUMDB=off GOTOOLCHAIN=local
wt=/tmp/seedverify/$id
rm -rf $wt; mkdir -p /tmp/seedverify
git -C /repo worktree add -q --detach $wt HEAD || exit 2
trap 'git -C /repo worktree remove --force '$wt' 2>/dev/null; rm -rf '$wt'' EXIT
base=$(git -C /repo rev-parse --short HEAD)
pkg=$(jq -r .demo_pkg $out/meta.json | sed 's#/$##; s#^\./##'); [ -z "$pkg" ] && pkg=.
run=$(jq -r .demo_run $out/meta.json)
log=/tmp/seedverify/$id.log; : > $log
cd $wt
git apply --check $out/patch.diff >>$log 2>&1 || { echo "CONFIRM $id FAIL: patch does not apply"; exit 1; }
git apply $out/patch.diff
conf=()
conf+=("git apply --check patch.diff on a fresh worktree of /repo $base -> ok")
suite_ok=0
for attempt in 1 2; do
  if go1.26 test -vet=off -count=1 ./... >>$log 2>&1; then suite_ok=1; break; fi
done
[ $suite_ok = 1 ] || { echo "CONFIRM $id FAIL: suite fails with the patch (see $log)"; exit 1; }
conf+=("patch applied, no demo file: GOFLAGS=-mod=mod go test -vet=off -count=1 ./... -> all packages ok (attempt $attempt)")
cp $out/demo_test.go $pkg/seed_demo_test.go
if go1.26 test -vet=off -count=1 -run "$run" ./$pkg/ >>$log 2>&1; then echo "CONFIRM $id FAIL: demo passes WITH the patch"; exit 1; fi
grep -q -- "--- FAIL" $log || { echo "CONFIRM $id FAIL: demo did not run to a test failure (build error?)"; tail -20 $log; exit 1; }
first=$(grep -m1 -A2 -- "--- FAIL" $log | tr '\n' ' ' | cut -c1-300)
conf+=("patch applied: go1.26 test -run '$run' ./$pkg/ -> FAIL ($first)")
git apply -R $out/patch.diff
okc=0
for k in 1 2 3; do go1.26 test -vet=off -count=1 -run "$run" ./$pkg/ >>$log 2>&1 && okc=$((okc+1)); done
[ $okc = 3 ] || { echo "CONFIRM $id FAIL: demo passes only $okc/3 times WITHOUT the patch"; exit 1; }
conf+=("patch reverted, demo kept: go1.26 test -run '$run' ./$pkg/ -> ok (3/3 runs)")
dst=/verif/seeded/$id
mkdir -p $dst
cp $out/patch.diff $out/demo_test.go $dst/
printf '%s\n' "${conf[@]}" | jq -R . | jq -s . > /tmp/seedverify/$id.conf.json
jq --arg id $id --arg base $base --slurpfile c /tmp/seedverify/$id.conf.json \
   '. + {id:$id, status:"confirmed", base_commit:$base, confirmed_by:$c[0]}' $out/meta.json > $dst/meta.json
rm -f /tmp/seedverify/$id.conf.json
echo "CONFIRM $id OK"
