----------------------------- MODULE MCChain -----------------------------
(* Model-checking / edge-export wrapper for Chain: the fork trees are read from the JSON file
   named by $TREES, written by the materialiser (harness/chainx TestGenTrees) from REAL blocks. *)
EXTENDS Chain, Json, IOUtils

TreesJ == JsonDeserialize(IOEnv.TREES)

ToSet(s) == {s[i] : i \in 1..Len(s)}
\* the trees are used as deserialised (a constant TLC evaluates once)
TreesC == TreesJ

SubsC == {"s1", "s2"}
LisC == {"r1", "r2"}   \* model checking / replay graph: two OnReorg listeners (OnPoolChange: Leg T)
NoSubs == {}

StateRec == [t |-> t, blk |-> blk, sta |-> sta, best |-> best, mem |-> mem, pc |-> pc, ret |-> ret,
             led |-> led, dur |-> dur, durbest |-> dur.best, subs |-> subs, notif |-> notif, lis |-> lis,
             minreorg |-> IF pc.k = "idle" THEN MinReorg ELSE 0]

EmitEdge == PrintT("EDGE " \o ToJson([from |-> StateRec, act |-> act', to |-> StateRec']))
=============================================================================
