----------------------------- MODULE MCChain -----------------------------
(* Model-checking / edge-export wrapper for Chain: the fork trees are read from the JSON file
   named by $TREES, written by the materialiser (harness/chainx TestGenTrees) from REAL blocks. *)
EXTENDS Chain, Json, IOUtils

TreesJ == JsonDeserialize(IOEnv.TREES)

\* JSON gives sequences; the spec wants sets for creates/spends
ToSet(s) == {s[i] : i \in 1..Len(s)}
FixEff(e) == [creates |-> ToSet(e.creates), spends |-> ToSet(e.spends), fc |-> e.fc]
FixTree(tr) == [tr EXCEPT !.eff = [b \in 1..tr.n |-> FixEff(tr.eff[b])]]
TreesC == [i \in 1..Len(TreesJ) |-> FixTree(TreesJ[i])]

SubsC == {"s1", "s2"}
NoSubs == {}

StateRec == [t |-> t, blk |-> blk, sta |-> sta, best |-> best, mem |-> mem, pc |-> pc, ret |-> ret,
             led |-> led, dur |-> dur, durbest |-> dur.best, subs |-> subs, notif |-> notif,
             minreorg |-> IF pc.k = "idle" THEN MinReorg ELSE 0]

EmitEdge == PrintT("EDGE " \o ToJson([from |-> StateRec, act |-> act', to |-> StateRec']))
=============================================================================
