------------------------------- MODULE KV -------------------------------
(***************************************************************************)
(* Reference semantics of the chain.DB / chain.DBBucket interface          *)
(* (chain/db.go:62-76) that every backend -- MemDB, CacheDB over any       *)
(* backend, BoltChainDB -- must implement (property C17).                  *)
(*                                                                         *)
(* Abstract state: `cur` is what the current session sees (all earlier     *)
(* writes and deletes, flushed or not), `dur` is the committed image       *)
(* (what Cancel returns to, what a crash would leave).  A bucket is a record *)
(* [ex, kv]: existence flag and a total function Keys -> Vals \cup {None}.*)
(*                                                                         *)
(* One action per interface method; `reply` is the method's result and is  *)
(* compared exactly with the implementation's reply in replay (Leg R) and  *)
(* trace validation (Leg T).  `act` only labels the transition (hidden by  *)
(* the VIEW in the cfg).                                                   *)
(***************************************************************************)
EXTENDS Naturals, FiniteSets, TLC

CONSTANTS Buckets, Keys, Vals

None == "none"      \* absent key

VARIABLES cur, dur, reply, act
vars == <<cur, dur, reply, act>>
view == <<cur, dur, reply>>
sview == <<cur, dur>>      \* edge export: replies live on the edges

\* a bucket is a record: ex = does it exist, kv = its content (all None when absent)
KVFun  == [Keys -> Vals \cup {None}]
EmptyKV == [k \in Keys |-> None]
Absent == [ex |-> FALSE, kv |-> EmptyKV]
EmptyB == [ex |-> TRUE, kv |-> EmptyKV]
BState == [ex : BOOLEAN, kv : KVFun]
DBState == [Buckets -> BState]

Pairs(kv) == {<<k, kv[k]>> : k \in {kk \in Keys : kv[kk] # None}}

TypeOK ==
    /\ cur \in DBState
    /\ dur \in DBState

Init ==
    /\ cur = [b \in Buckets |-> Absent]
    /\ dur = cur
    /\ reply = <<"init">>
    /\ act = [op |-> "Init"]

\* DB.CreateBucket(name): fails if the bucket exists, committed OR pending.
Create(b) ==
    /\ act' = [op |-> "Create", b |-> b]
    /\ IF ~cur[b].ex
         THEN cur' = [cur EXCEPT ![b] = EmptyB] /\ reply' = <<"ok">>
         ELSE cur' = cur /\ reply' = <<"exists">>
    /\ UNCHANGED dur

\* DB.Bucket(name): nil iff the bucket does not exist in the session view.
Open(b) ==
    /\ act' = [op |-> "Open", b |-> b]
    /\ reply' = IF ~cur[b].ex THEN <<"nil">> ELSE <<"bucket">>
    /\ UNCHANGED <<cur, dur>>

Put(b, k, v) ==
    /\ cur[b].ex
    /\ act' = [op |-> "Put", b |-> b, k |-> k, v |-> v]
    /\ cur' = [cur EXCEPT ![b].kv[k] = v]
    /\ reply' = <<"ok">>
    /\ UNCHANGED dur

Del(b, k) ==
    /\ cur[b].ex
    /\ act' = [op |-> "Del", b |-> b, k |-> k]
    /\ cur' = [cur EXCEPT ![b].kv[k] = None]
    /\ reply' = <<"ok">>
    /\ UNCHANGED dur

\* reads reflect ALL earlier writes and deletes of the session
Get(b, k) ==
    /\ cur[b].ex
    /\ act' = [op |-> "Get", b |-> b, k |-> k]
    /\ reply' = <<"val", cur[b].kv[k]>>
    /\ UNCHANGED <<cur, dur>>

\* iteration is compared as a set: no backend promises an order
Iter(b) ==
    /\ cur[b].ex
    /\ act' = [op |-> "Iter", b |-> b]
    /\ reply' = <<"set", Pairs(cur[b].kv)>>
    /\ UNCHANGED <<cur, dur>>

Flush ==
    /\ act' = [op |-> "Flush"]
    /\ dur' = cur
    /\ reply' = <<"ok">>
    /\ UNCHANGED cur

Cancel ==
    /\ act' = [op |-> "Cancel"]
    /\ cur' = dur
    /\ reply' = <<"ok">>
    /\ UNCHANGED dur

Next ==
    \/ \E b \in Buckets : Create(b) \/ Open(b) \/ Iter(b)
    \/ \E b \in Buckets, k \in Keys : Del(b, k) \/ Get(b, k)
    \/ \E b \in Buckets, k \in Keys, v \in Vals : Put(b, k, v)
    \/ Flush
    \/ Cancel

Spec == Init /\ [][Next]_vars

-----------------------------------------------------------------------------
(* Properties of the reference itself (sanity of the definition).          *)

\* durable image changes only at Flush
DurableOnlyAtFlush == [][dur' # dur => act'.op = "Flush"]_vars
\* Cancel discards exactly the unflushed changes
CancelRestores == [][act'.op = "Cancel" => cur' = dur]_vars
\* a bucket in the durable image is visible in the session unless... never removed
NoBucketRemoval == \A b \in Buckets : dur[b].ex => cur[b].ex
\* read-your-writes (action form): a Get right after Put/Del sees it
ReadYourWrites ==
    [][/\ act'.op = "Get" => reply' = <<"val", cur[act'.b].kv[act'.k]>>
       /\ act'.op = "Put" => cur'[act'.b].kv[act'.k] = act'.v
       /\ act'.op = "Del" => cur'[act'.b].kv[act'.k] = None]_vars
=============================================================================
