------------------------------- MODULE KVMem -------------------------------
(***************************************************************************)
(* Implementation-shaped model of chain.MemDB (chain/db.go:78-201): three  *)
(* maps `buckets` (committed), `puts`, `dels` (pending, per bucket; a nil  *)
(* Go map is `on = FALSE`).  Checked as a refinement of the reference KV   *)
(* (PROPERTY Refines) with per-operation reply equality, for ALL operation *)
(* sequences (the state space is finite).                                  *)
(*                                                                         *)
(* Named deviations reproduce the behaviour of the pinned tree before the  *)
(* "fix:" commits; with any of them TRUE, TLC reports that Refines fails:  *)
(*   DevRecreate          CreateBucket ignores a pending (unflushed) bucket*)
(*   DevIterMissesPending Iter walks only the committed map                *)
(***************************************************************************)
EXTENDS Naturals, FiniteSets, TLC

CONSTANTS Buckets, Keys, Vals, DevRecreate, DevIterMissesPending

None == "none"
VARIABLES buckets, puts, dels, reply, act
vars == <<buckets, puts, dels, reply, act>>
view == <<buckets, puts, dels, reply>>

EmptyKV == [k \in Keys |-> None]
NoMap   == [on |-> FALSE, kv |-> EmptyKV]
NoSet   == [on |-> FALSE, ks |-> {}]

Init ==
    /\ buckets = [b \in Buckets |-> [ex |-> FALSE, kv |-> EmptyKV]]
    /\ puts = [b \in Buckets |-> NoMap]
    /\ dels = [b \in Buckets |-> NoSet]
    /\ reply = <<"init">>
    /\ act = [op |-> "Init"]

\* MemDB.Bucket: nil iff all three maps are nil for the name
Present(b) == buckets[b].ex \/ puts[b].on \/ dels[b].on

\* MemDB.get
GetVal(b, k) ==
    IF puts[b].kv[k] # None THEN puts[b].kv[k]
    ELSE IF k \in dels[b].ks THEN None
    ELSE buckets[b].kv[k]

Create(b) ==
    /\ act' = [op |-> "Create", b |-> b]
    /\ IF buckets[b].ex \/ (~DevRecreate /\ (puts[b].on \/ dels[b].on))
         THEN reply' = <<"exists">> /\ UNCHANGED <<puts, dels>>
         ELSE /\ puts' = [puts EXCEPT ![b] = [on |-> TRUE, kv |-> EmptyKV]]
              /\ dels' = [dels EXCEPT ![b] = [on |-> TRUE, ks |-> {}]]
              /\ reply' = <<"ok">>
    /\ UNCHANGED buckets

Open(b) ==
    /\ act' = [op |-> "Open", b |-> b]
    /\ reply' = IF Present(b) THEN <<"bucket">> ELSE <<"nil">>
    /\ UNCHANGED <<buckets, puts, dels>>

\* MemDB.put: allocates puts[bucket] on first use; fails if the bucket is unknown
Put(b, k, v) ==
    /\ Present(b)
    /\ act' = [op |-> "Put", b |-> b, k |-> k, v |-> v]
    /\ IF ~puts[b].on /\ ~buckets[b].ex
         THEN reply' = <<"err">> /\ UNCHANGED <<puts, dels>>
         ELSE /\ puts' = [puts EXCEPT ![b] = [on |-> TRUE, kv |-> [@.kv EXCEPT ![k] = v]]]
              /\ dels' = [dels EXCEPT ![b].ks = @ \ {k}]
              /\ reply' = <<"ok">>
    /\ UNCHANGED buckets

Del(b, k) ==
    /\ Present(b)
    /\ act' = [op |-> "Del", b |-> b, k |-> k]
    /\ IF ~dels[b].on /\ ~buckets[b].ex
         THEN reply' = <<"err">> /\ UNCHANGED <<puts, dels>>
         ELSE /\ dels' = [dels EXCEPT ![b] = [on |-> TRUE, ks |-> @.ks \cup {k}]]
              /\ puts' = [puts EXCEPT ![b].kv[k] = None]
              /\ reply' = <<"ok">>
    /\ UNCHANGED buckets

Get(b, k) ==
    /\ Present(b)
    /\ act' = [op |-> "Get", b |-> b, k |-> k]
    /\ reply' = <<"val", GetVal(b, k)>>
    /\ UNCHANGED <<buckets, puts, dels>>

\* memBucket.Iter (fixed): pending puts, then committed entries neither overwritten nor deleted
IterSet(b) ==
    LET pend == IF DevIterMissesPending THEN {}
                ELSE {<<k, puts[b].kv[k]>> : k \in {kk \in Keys : puts[b].kv[kk] # None}}
        comm == {<<k, IF puts[b].kv[k] # None THEN puts[b].kv[k] ELSE buckets[b].kv[k]>> :
                   k \in {kk \in Keys : /\ buckets[b].kv[kk] # None
                                        /\ kk \notin dels[b].ks
                                        /\ (DevIterMissesPending \/ puts[b].kv[kk] = None)}}
    IN pend \cup comm

Iter(b) ==
    /\ Present(b)
    /\ act' = [op |-> "Iter", b |-> b]
    /\ reply' = <<"set", IterSet(b)>>
    /\ UNCHANGED <<buckets, puts, dels>>

\* MemDB.Flush: apply puts, then dels; a bucket with pending maps becomes committed
Flush ==
    /\ act' = [op |-> "Flush"]
    /\ buckets' = [b \in Buckets |->
          IF puts[b].on \/ dels[b].on
            THEN [ex |-> TRUE,
                  kv |-> [k \in Keys |-> IF puts[b].kv[k] # None THEN puts[b].kv[k]
                                         ELSE IF k \in dels[b].ks THEN None
                                         ELSE buckets[b].kv[k]]]
            ELSE buckets[b]]
    /\ puts' = [b \in Buckets |-> NoMap]
    /\ dels' = [b \in Buckets |-> NoSet]
    /\ reply' = <<"ok">>

Cancel ==
    /\ act' = [op |-> "Cancel"]
    /\ puts' = [b \in Buckets |-> NoMap]
    /\ dels' = [b \in Buckets |-> NoSet]
    /\ reply' = <<"ok">>
    /\ UNCHANGED buckets

Next ==
    \/ \E b \in Buckets : Create(b) \/ Open(b) \/ Iter(b)
    \/ \E b \in Buckets, k \in Keys : Del(b, k) \/ Get(b, k)
    \/ \E b \in Buckets, k \in Keys, v \in Vals : Put(b, k, v)
    \/ Flush
    \/ Cancel

Spec == Init /\ [][Next]_vars

-----------------------------------------------------------------------------
\* refinement mapping onto the reference
CurOf(b) == IF Present(b) THEN [ex |-> TRUE, kv |-> [k \in Keys |-> GetVal(b, k)]]
            ELSE [ex |-> FALSE, kv |-> EmptyKV]

Ref == INSTANCE KV WITH cur <- [b \in Buckets |-> CurOf(b)], dur <- buckets
Refines == Ref!Spec

\* a key is never both pending-put and pending-deleted; put/delete never fail on a live handle
Disjoint == \A b \in Buckets, k \in Keys : ~(puts[b].kv[k] # None /\ k \in dels[b].ks)
NoErr == reply # <<"err">>
=============================================================================
