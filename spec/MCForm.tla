------------------------------ MODULE MCForm ------------------------------
(* Model-checking / edge-export wrapper for Form (property C16). *)
EXTENDS Form, Json

\* (the exported state must not have a field called "act" or "to": tools/vlib.py splits the printed
\* edge record textually at those keys)
\* Leg R: one linear path per attempt descriptor -- host steps first (the real interleaving is not
\* controllable from the harness, and each party's own sequence does not depend on it).
Sched == (lbl'.op \in {"rFund", "dial", "rRelease", "rSend", "rRecv"}) => ~ENABLED HostNext

St == [n |-> n, d |-> d, rRes |-> rRes, hRes |-> hRes, hCon |-> hCon, rCon |-> rCon, dead |-> dead,
       pool |-> pool, net |-> net, mined |-> mined, active |-> act, out |-> out, rpc |-> rpc, hpc |-> hpc]
EmitEdge ==
    /\ Sched
    /\ PrintT("EDGE " \o ToJson([from |-> St, act |-> [lbl |-> lbl', d |-> d'], reply |-> out',
          to |-> [n |-> n', d |-> d', rRes |-> rRes', hRes |-> hRes', hCon |-> hCon', rCon |-> rCon', dead |-> dead',
                  pool |-> pool', net |-> net', mined |-> mined', active |-> act', out |-> out', rpc |-> rpc', hpc |-> hpc']]))
=============================================================================
