------------------------------- MODULE Chain -------------------------------
(***************************************************************************)
(* The chain manager of SiaFoundation/coreutils (chain/manager.go) over    *)
(* its KV-backed store (chain/db.go): fork tracking, reorgs with rollback, *)
(* the element ledger the store serves, durable commit points, pruning and *)
(* the subscriber update stream.  Properties C01, C02, C03, C04, C19.      *)
(*                                                                         *)
(* A fork tree is a CONSTANT record produced by the materialiser from REAL *)
(* blocks (harness/mat): per block its parent, height, the class computed  *)
(* with go.sia.tech/core (ok / badhdr / badbody / future), the relation    *)
(* SufficientlyHeavierThan between the real states, and the element-level  *)
(* effect of the block extracted from core's ApplyUpdate.  TLC explores    *)
(* every submission order/batching, every reorg walk, flush/crash point,   *)
(* prune height and subscriber poll on these trees; the explored graph is  *)
(* replayed on the real Manager/DBStore (Leg R), and executions of the     *)
(* real code on much larger random trees are validated against the same    *)
(* actions (ChainTrace.tla, Leg T).                                        *)
(*                                                                         *)
(* One action per critical step of the Go code (line numbers: pinned tree):*)
(*   Submit            header loop of AddBlocks (245-280) + weight gate    *)
(*   RevertStep        revertTip (385-395) + DBStore.RevertBlock           *)
(*   ApplyStep         applyTip (398-434) + DBStore.ApplyBlock             *)
(*   FailReorg         first failing step: start reorgTo(oldTip)           *)
(*   FinishReorg       end of reorgTo: Flush, notify listeners             *)
(*   MidFlush          the size/time based flush inside Apply/RevertBlock  *)
(*   Crash             process stops; the store reopens to the last commit *)
(*   Prune             PruneBlocks (538-551)                               *)
(*   Poll              UpdatesSince (555-597)                              *)
(***************************************************************************)
EXTENDS Integers, Sequences, FiniteSets, TLC

CONSTANTS
    Trees,              \* sequence of fork-tree records (see MCChain.tla)
    MaxBatch,           \* maximal length of a submitted batch
    Subs,               \* subscriber ids
    Lis,                \* ids of listeners that register / unregister OnReorg ("r..") or OnPoolChange ("p..") callbacks
    Chunks,             \* chunk sizes a subscriber may ask for
    EnableFlush,        \* family `durable`: MidFlush and Crash enabled
    EnablePrune,        \* family `prune`: Prune enabled
    EnableValidated,    \* AddValidatedV2Blocks enabled (pre-validated v2 blocks above the require height)
    DevResubmitPruned,  \* deviation (finding C19-resubmit-pruned): AddBlocks re-stores a pruned
                        \* best-chain block without supplement and overwrites its state
    DevExpiryPrepend    \* deviation (finding C02-expiry-order): a revert PREPENDS the restored
                        \* contract id to the expiration list (db.go:601-614)

VARIABLES
    t,      \* index of the tree (fixed after Init)
    blk,    \* Blocks bucket per block: "none" | "hdr" (pruned) | "body" (no supplement) | "supp"
    sta,    \* States bucket per block: "none" | "partial" (ApplyHeader) | "full" (ApplyBlock)
    best,   \* MainChain bucket: sequence of block ids, best[1] = genesis
    mem,    \* Manager.tipState (block id)
    pc,     \* position inside AddBlocks' reorg
    ret,    \* result of the last completed call
    led,    \* element buckets: [utxo, fc, exp]
    dur,    \* committed image [blk, sta, best, led]
    subs,   \* subscriber -> block id (0 = nothing yet)
    notif,  \* number of OnReorg notifications fired (the permanent listener every node has)
    lis,    \* dynamic listeners: -1 = not registered, n >= 0 = notifications received since registering
    seen,   \* history: every value mem has taken
    act     \* label of the last action (hidden by VIEW)

vars == <<t, blk, sta, best, mem, pc, ret, led, dur, subs, notif, lis, seen, act>>
view == <<t, blk, sta, best, mem, pc, ret, led, dur, subs, [l \in Lis |-> lis[l] >= 0]>>

-----------------------------------------------------------------------------
T        == Trees[t]
Nodes    == 1..T.n
Par(b)   == T.parent[b]
H(b)     == T.height[b]
Cls(b)   == T.cls[b]
Heavier(a, b) == T.heavier[a][b]
ReqH     == T.requireH          \* v2 require height of the tree's network
Eff(b)   == T.eff[b]            \* [creates, spends : sequences of element ids; fc : sequence of contract diffs]
Heights  == 0..T.maxH

\* ID twins.  A v2 block's ID covers only its header; the body is bound to it by the commitment,
\* which is checked when the block is APPLIED.  The materialiser therefore also produces nodes that
\* are a second BODY for the ID of another node (alias[x] = the node whose ID it shares; alias[b] = b
\* otherwise): same parent, height, header and weight, class "badbody".  The Blocks bucket is keyed
\* by ID, so at most one member of an ID class is stored at any time: blk[x] # "none" for at most
\* one x of a class, and that x is the stored body.  States, the best chain, subscribers and
\* reorg paths are keyed by ID, i.e. name the class representative K(b).
K(b)      == T.alias[b]
Class(c)  == {c} \cup {T.twins[c][i] : i \in 1..Len(T.twins[c])}    \* twins[c]: the other bodies of c's ID
Ver(bk, c) == IF \E x \in Class(c) : bk[x] # "none" THEN CHOOSE x \in Class(c) : bk[x] # "none" ELSE 0
StoreBody(bk, b, v) == [x \in Nodes |-> IF K(x) = K(b) THEN (IF x = b THEN v ELSE "none") ELSE bk[x]]

Tip == best[Len(best)]

RECURSIVE PathTo(_)
PathTo(b) == IF b = 1 THEN <<1>> ELSE Append(PathTo(Par(b)), b)

Rev(s) == [i \in 1..Len(s) |-> s[Len(s) + 1 - i]]

\* length of the common prefix of two paths from genesis
CommonLen(p, q) ==
    LET m == IF Len(p) < Len(q) THEN Len(p) ELSE Len(q)
        S == {k \in 0..m : \A i \in 1..k : p[i] = q[i]}
    IN CHOOSE k \in S : \A j \in S : j <= k

\* reorgPath(from, to): blocks to revert (tip first) and to apply (ancestor first)
RevertList(from, to) ==
    LET p == PathTo(from) k == CommonLen(p, PathTo(to)) IN Rev(SubSeq(p, k + 1, Len(p)))
ApplyList(from, to) ==
    LET q == PathTo(to) k == CommonLen(PathTo(from), q) IN SubSeq(q, k + 1, Len(q))

OnBest(b) == b # 0 /\ H(b) + 1 <= Len(best) /\ best[H(b) + 1] = b

-----------------------------------------------------------------------------
(* The element ledger (C02).  utxo: set of element ids (siacoin, siafund,  *)
(* v2 contracts never live in the v1 buckets).  fc: v1 contracts as a set  *)
(* of <<id, revisionNumber, windowEnd>>.  exp: per height the SEQUENCE of  *)
(* contract ids expiring there, maintained exactly as db.go does:          *)
(* append on apply, prepend on revert (deviation), swap-with-last delete.  *)

EmptyLed == [utxo |-> {}, fc |-> {}, exp |-> [h \in Heights |-> <<>>]]

SwapRemove(s, x) ==
    LET i == CHOOSE j \in 1..Len(s) : s[j] = x
        s2 == [s EXCEPT ![i] = s[Len(s)]]
    IN SubSeq(s2, 1, Len(s) - 1)

ExpDel(e, id, h)  == [e EXCEPT ![h] = SwapRemove(@, id)]
ExpApp(e, id, h)  == [e EXCEPT ![h] = Append(@, id)]
ExpPre(e, id, h)  == [e EXCEPT ![h] = IF DevExpiryPrepend THEN <<id>> \o @ ELSE Append(@, id)]

\* applyElements for the contract diffs, folded in diff order.  A diff is a record
\* [k |-> "new"|"rev"|"res", id, end (window end after), old (window end before), rev, prev]
RECURSIVE ApplyFC(_, _, _)
ApplyFC(l, ds, i) ==
    IF i > Len(ds) THEN l
    ELSE LET d == ds[i] IN
      IF d.k = "new" THEN
          ApplyFC([l EXCEPT !.fc = @ \cup {<<d.id, d.rev, d.end>>}, !.exp = ExpApp(@, d.id, d.end)], ds, i + 1)
      ELSE IF d.k = "rev" THEN
          ApplyFC([l EXCEPT !.fc = (@ \ {<<d.id, d.prev, d.old>>}) \cup {<<d.id, d.rev, d.end>>},
                            !.exp = IF d.end # d.old THEN ExpApp(ExpDel(@, d.id, d.old), d.id, d.end) ELSE @], ds, i + 1)
      ELSE \* resolved (storage proof or expiry)
          ApplyFC([l EXCEPT !.fc = @ \ {<<d.id, d.rev, d.end>>}, !.exp = ExpDel(@, d.id, d.end)], ds, i + 1)

\* revertElements walks core's RevertUpdate diffs, which are the apply diffs in REVERSE order
\* (consensus.RevertBlock reverses them); i counts down from Len(ds)
RECURSIVE RevertFC(_, _, _)
RevertFC(l, ds, i) ==
    IF i < 1 THEN l
    ELSE LET d == ds[i] IN
      IF d.k = "new" THEN
          RevertFC([l EXCEPT !.fc = @ \ {<<d.id, d.rev, d.end>>}, !.exp = ExpDel(@, d.id, d.end)], ds, i - 1)
      ELSE IF d.k = "rev" THEN
          RevertFC([l EXCEPT !.fc = (@ \ {<<d.id, d.rev, d.end>>}) \cup {<<d.id, d.prev, d.old>>},
                             !.exp = IF d.end # d.old THEN ExpPre(ExpDel(@, d.id, d.end), d.id, d.old) ELSE @], ds, i - 1)
      ELSE
          RevertFC([l EXCEPT !.fc = @ \cup {<<d.id, d.rev, d.end>>}, !.exp = ExpPre(@, d.id, d.end)], ds, i - 1)

\* creates / spends arrive as sequences (JSON arrays)
SeqSet(q) == {q[i] : i \in 1..Len(q)}
ApplyEff(l, b) ==
    LET e == Eff(b) l1 == [l EXCEPT !.utxo = (@ \ SeqSet(e.spends)) \cup SeqSet(e.creates)] IN ApplyFC(l1, e.fc, 1)
RevertEff(l, b) ==
    LET e == Eff(b) l1 == RevertFC(l, e.fc, Len(e.fc)) IN [l1 EXCEPT !.utxo = (@ \ SeqSet(e.creates)) \cup SeqSet(e.spends)]

\* the fold of a chain as a node that only ever applied it linearly computes it
RECURSIVE Fold(_, _)
Fold(chain, k) ==
    IF k = 0 THEN EmptyLed
    ELSE LET b == chain[k] l == Fold(chain, k - 1) IN IF H(b) <= ReqH THEN ApplyEff(l, b) ELSE l
FoldOf(chain) == Fold(chain, Len(chain))

SetsOf(l) == [utxo |-> l.utxo, fc |-> l.fc, exp |-> [h \in Heights |-> {l.exp[h][i] : i \in 1..Len(l.exp[h])}]]

-----------------------------------------------------------------------------
Idle == [k |-> "idle", rev |-> <<>>, app |-> <<>>, old |-> 0, rb |-> FALSE, stepped |-> FALSE]
Image == [blk |-> blk, sta |-> sta, best |-> best, led |-> led]

Init ==
    /\ t \in 1..Len(Trees)
    /\ blk = [b \in 1..Trees[t].n |-> IF b = 1 THEN "supp" ELSE "none"]
    /\ sta = [b \in 1..Trees[t].n |-> IF b = 1 THEN "full" ELSE "none"]
    /\ best = <<1>>
    /\ mem = 1
    /\ pc = Idle
    /\ ret = "ok"
    /\ led = ApplyEff(EmptyLed, 1)
    /\ dur = [blk |-> blk, sta |-> sta, best |-> best, led |-> led]
    /\ subs = [s \in Subs |-> 0]
    /\ notif = 0
    /\ lis = [l \in Lis |-> -1]
    /\ seen = {1}
    /\ act = [op |-> "Init"]

\* ---- AddBlocks: header loop.  Returns [cs, blk, sta, err].
RECURSIVE HdrLoop(_, _, _, _, _)
HdrLoop(batch, i, cs, bk, st) ==
    IF i > Len(batch) THEN [cs |-> cs, blk |-> bk, sta |-> st, err |-> "ok"]
    ELSE LET b == batch[i] c == K(b) v == Ver(bk, c) IN
      IF v # 0 /\ (bk[v] = "supp" \/ (~DevResubmitPruned /\ bk[v] = "hdr" /\ st[c] = "full"))
        THEN HdrLoop(batch, i + 1, c, bk, st)                 \* already have this block (ID)
      ELSE IF Par(b) # cs /\ st[Par(b)] = "none"
        THEN [cs |-> cs, blk |-> bk, sta |-> st, err |-> "missingparent"]
      ELSE IF Cls(b) = "future"
        THEN [cs |-> cs, blk |-> bk, sta |-> st, err |-> "future"]
      ELSE IF Cls(b) = "badhdr"
        THEN [cs |-> cs, blk |-> bk, sta |-> st, err |-> "invalid"]
      \* stored (again): the LAST body received for an ID that was never applied replaces the
      \* earlier one -- a poisoned body is healed by an honest re-delivery
      ELSE HdrLoop(batch, i + 1, c, StoreBody(bk, b, "body"), [st EXCEPT ![c] = "partial"])

Batches == UNION {[1..k -> Nodes \ {1}] : k \in 1..MaxBatch}

Submit(batch) ==
    /\ pc.k = "idle"
    /\ act' = [op |-> "Submit", batch |-> batch]
    /\ LET r == HdrLoop(batch, 1, mem, blk, sta) IN
       /\ blk' = r.blk
       /\ sta' = r.sta
       /\ IF r.err # "ok" THEN ret' = r.err /\ pc' = Idle
          ELSE IF Heavier(r.cs, mem)
            THEN /\ pc' = [k |-> "reorg", rev |-> RevertList(mem, r.cs), app |-> ApplyList(mem, r.cs), old |-> mem, rb |-> FALSE, stepped |-> FALSE]
                 /\ ret' = "pending"
            ELSE ret' = "ok" /\ pc' = Idle
    /\ UNCHANGED <<t, best, mem, led, dur, subs, notif, lis, seen>>

\* ---- AddValidatedV2Blocks (313-359): the caller (the syncer's instant sync) has validated the
\* blocks; they are stored with an EMPTY v1 supplement and the caller's states, then the weight gate
\* is applied to the last one.  Callable only for valid v2 blocks above the require height (an
\* empty supplement is wrong for anything else).  A non-v2 block is refused AFTER the earlier
\* blocks of the batch were stored.
RECURSIVE ValLoop(_, _, _, _)
ValLoop(batch, i, bk, st) ==
    IF i > Len(batch) THEN [blk |-> bk, sta |-> st, err |-> "ok"]
    ELSE LET b == batch[i] IN
      IF ~T.v2[b] THEN [blk |-> bk, sta |-> st, err |-> "notv2"]
      \* the caller's state is stored as is: the harness supplies the linear ledger's state for a
      \* block of a valid chain and the header-derived one for a (header-valid) descendant of an
      \* invalid block -- a caller that "validated" on top of a block the manager never validated
      ELSE ValLoop(batch, i + 1, StoreBody(bk, b, "supp"), [st EXCEPT ![b] = IF T.valid[b] THEN "full" ELSE "partial"])

ValBatches == {q \in Batches : \A i \in 1..Len(q) : /\ Cls(q[i]) = "ok" /\ H(q[i]) > ReqH /\ K(q[i]) = q[i]
                                                      /\ (T.valid[q[i]] \/ ~T.valid[Par(q[i])])
                                                      /\ (i > 1 => Par(q[i]) = q[i - 1])}

SubmitValidated(batch) ==
    /\ pc.k = "idle"
    /\ act' = [op |-> "SubmitV", batch |-> batch]
    /\ IF sta[Par(batch[1])] = "none"
         THEN ret' = "missingparent" /\ pc' = Idle /\ UNCHANGED <<blk, sta>>
         ELSE LET r == ValLoop(batch, 1, blk, sta) last == batch[Len(batch)] IN
              /\ blk' = r.blk
              /\ sta' = r.sta
              /\ IF r.err # "ok" THEN ret' = r.err /\ pc' = Idle
                 ELSE IF Heavier(last, mem)
                   THEN /\ pc' = [k |-> "reorg", rev |-> RevertList(mem, last), app |-> ApplyList(mem, last), old |-> mem, rb |-> FALSE, stepped |-> FALSE]
                        /\ ret' = "pending"
                   ELSE ret' = "ok" /\ pc' = Idle
    /\ UNCHANGED <<t, best, mem, led, dur, subs, notif, lis, seen>>

\* ---- revertTip
CanRevert == blk[mem] \in {"body", "supp"} /\ sta[Par(mem)] # "none"

RevertStep ==
    /\ pc.k = "reorg" /\ pc.rev # <<>> /\ CanRevert /\ blk[mem] = "supp"
    /\ act' = [op |-> "Revert", b |-> mem]
    /\ best' = SubSeq(best, 1, Len(best) - 1)
    /\ mem' = Par(mem)
    /\ led' = IF H(Par(mem)) <= ReqH THEN RevertEff(led, mem) ELSE led
    /\ pc' = [pc EXCEPT !.rev = Tail(@), !.stepped = TRUE]
    /\ seen' = seen \cup {Par(mem)}
    /\ UNCHANGED <<t, blk, sta, ret, dur, subs, notif, lis>>

\* ---- applyTip
\* b is an ID (class representative); the body validated is the one stored for it
ApplyOK(b) == LET v == Ver(blk, b) IN v # 0 /\ blk[v] \in {"body", "supp"} /\ (blk[v] = "body" => Cls(v) = "ok")

ApplyStep ==
    /\ pc.k = "reorg" /\ pc.rev = <<>> /\ pc.app # <<>>
    /\ LET b == Head(pc.app) IN
       /\ ApplyOK(b)
       /\ act' = [op |-> "Apply", b |-> b]
       /\ blk' = [blk EXCEPT ![Ver(blk, b)] = "supp"]
       /\ sta' = [sta EXCEPT ![b] = "full"]
       /\ best' = Append(best, b)
       /\ mem' = b
       /\ led' = IF H(b) <= ReqH THEN ApplyEff(led, b) ELSE led
       /\ pc' = [pc EXCEPT !.app = Tail(@), !.stepped = TRUE]
       /\ seen' = seen \cup {b}
    /\ UNCHANGED <<t, ret, dur, subs, notif, lis>>

\* ---- a step of the reorg fails: missing/pruned block on revert, missing or invalid block on
\* apply.  First failure: reorgTo(oldTip) is started from the CURRENT tip.  A failure while
\* rolling back leaves the manager wherever it is ("failed to revert failed reorg").
StepFails ==
    \/ pc.rev # <<>> /\ ~CanRevert
    \/ pc.rev = <<>> /\ pc.app # <<>> /\ ~ApplyOK(Head(pc.app))

FailReorg ==
    /\ pc.k = "reorg" /\ StepFails
    /\ act' = [op |-> "Fail"]
    /\ IF pc.rb
         THEN pc' = Idle /\ ret' = "rollbackfailed"
         ELSE /\ pc' = [k |-> "reorg", rev |-> RevertList(mem, pc.old), app |-> ApplyList(mem, pc.old), old |-> pc.old, rb |-> TRUE, stepped |-> FALSE]
              /\ ret' = "pending"
    /\ UNCHANGED <<t, blk, sta, best, mem, led, dur, subs, notif, lis, seen>>

\* nil supplement dereference in revertTip (blk = "body" on the best chain): the process dies
\* part-way through the reorg.  Reachable only with DevResubmitPruned.
PanicStep ==
    /\ pc.k = "reorg" /\ pc.rev # <<>> /\ CanRevert /\ blk[mem] = "body"
    /\ act' = [op |-> "Panic"]
    /\ ret' = "panic" /\ pc' = Idle
    /\ UNCHANGED <<t, blk, sta, best, mem, led, dur, subs, notif, lis, seen>>

\* ---- end of reorgTo: store.Flush(); on success the listeners are notified
FinishReorg ==
    /\ pc.k = "reorg" /\ pc.rev = <<>> /\ pc.app = <<>>
    /\ act' = [op |-> "Finish", rb |-> pc.rb]
    /\ dur' = Image
    /\ ret' = IF pc.rb THEN "reorgfailed" ELSE "ok"
    /\ notif' = IF pc.rb THEN notif ELSE notif + 1
    \* every callback registered at this moment is called once (OnReorg and OnPoolChange alike)
    /\ lis' = IF pc.rb THEN lis ELSE [l \in Lis |-> IF lis[l] >= 0 THEN lis[l] + 1 ELSE -1]
    /\ pc' = Idle
    /\ UNCHANGED <<t, blk, sta, best, mem, led, subs, seen>>

\* ---- C03: the size/time flush can fire after any individual apply or revert
MidFlush ==
    /\ EnableFlush
    /\ pc.k = "reorg" /\ pc.stepped       \* right after an individual apply or revert
    /\ act' = [op |-> "MidFlush"]
    /\ dur' = Image                          \* idempotent: a second commit changes nothing
    /\ UNCHANGED <<t, blk, sta, best, mem, pc, ret, led, subs, notif, lis, seen>>

\* the process stops at any moment; NewDBStore + NewManager on the committed image
Crash ==
    /\ EnableFlush
    /\ act' = [op |-> "Crash"]
    /\ blk' = dur.blk /\ sta' = dur.sta /\ best' = dur.best /\ led' = dur.led
    /\ mem' = dur.best[Len(dur.best)]
    /\ pc' = Idle /\ ret' = "ok"
    /\ subs' = [s \in Subs |-> 0]
    /\ lis' = [l \in Lis |-> -1]          \* callbacks live in the process
    /\ UNCHANGED <<t, dur, notif, seen>>

\* ---- C19: PruneBlocks(h): walk down from h-1 on the best chain while a body exists
RECURSIVE PruneFrom(_, _)
PruneFrom(bk, k) ==      \* k = height
    IF k < 0 \/ k + 1 > Len(best) THEN bk
    ELSE LET b == best[k + 1] IN
      IF bk[b] \notin {"body", "supp"} THEN bk ELSE PruneFrom([bk EXCEPT ![b] = "hdr"], k - 1)

Prune(h) ==
    /\ EnablePrune /\ pc.k = "idle"
    /\ act' = [op |-> "Prune", h |-> h]
    /\ blk' = IF h - 1 + 1 > Len(best) THEN blk ELSE PruneFrom(blk, h - 1)
    /\ ret' = "ok"
    /\ UNCHANGED <<t, sta, best, mem, pc, led, dur, subs, notif, lis, seen>>

\* MinReorgIndex: walk back from the tip while the block below has a body
RECURSIVE MinReorgFrom(_)
MinReorgFrom(k) ==       \* k = index into best
    IF k = 1 THEN 1
    ELSE IF blk[best[k - 1]] \in {"body", "supp"} THEN MinReorgFrom(k - 1) ELSE k
MinReorg == best[MinReorgFrom(Len(best))]

\* ---- C04: UpdatesSince(index, max).  Returns [rus, aus, idx, err].
RECURSIVE PollLoop(_, _, _, _)
PollLoop(i, n, rus, aus) ==
    IF i = mem \/ n = 0 THEN [rus |-> rus, aus |-> aus, idx |-> i, err |-> "ok"]
    ELSE IF i # 0 /\ ~OnBest(i)
      THEN IF blk[i] = "supp" /\ sta[Par(i)] # "none"
             THEN PollLoop(Par(i), n - 1, Append(rus, i), aus)
             ELSE [rus |-> <<>>, aus |-> <<>>, idx |-> i, err |-> "missing"]
      ELSE LET j == IF i = 0 THEN 1 ELSE best[H(i) + 2] IN
           IF blk[j] = "supp" /\ (j = 1 \/ sta[Par(j)] # "none")
             THEN PollLoop(j, n - 1, rus, Append(aus, j))
             ELSE [rus |-> <<>>, aus |-> <<>>, idx |-> i, err |-> "missing"]

Poll(s, max) ==
    /\ pc.k = "idle"
    /\ LET r == PollLoop(subs[s], max, <<>>, <<>>) IN
       /\ act' = [op |-> "Poll", s |-> s, max |-> max, rus |-> r.rus, aus |-> r.aus, err |-> r.err]
       /\ subs' = IF r.err = "ok" THEN [subs EXCEPT ![s] = r.idx] ELSE subs
       /\ ret' = r.err
    /\ UNCHANGED <<t, blk, sta, best, mem, pc, led, dur, notif, lis, seen>>

\* ---- read-only queries the syncer relies on (History 160-184, Headers 189-206,
\* BlocksForHistory 213-241); pure functions of the state, compared exactly in trace validation
HistHeight(i) ==
    LET tipH == Len(best) - 1
        off  == IF i < 10 THEN i ELSE 7 + 2 ^ (i - 8)
    IN IF off > tipH THEN 0 ELSE tipH - off
HistoryIds == [i \in 1..32 |-> best[HistHeight(i - 1) + 1]]

\* Headers(b, max): error unless b is on the best chain; else the next min(max, remaining) ids
HeadersOf(b, max) ==
    IF ~OnBest(b) THEN [err |-> "notbest", ids |-> <<>>, rem |-> 0]
    ELSE LET tipH == Len(best) - 1
             n == IF max < tipH - H(b) THEN max ELSE tipH - H(b)
         IN [err |-> "ok", ids |-> SubSeq(best, H(b) + 2, H(b) + 1 + n), rem |-> tipH - (H(b) + n)]

\* BlocksForHistory(hist, max): attach point = first id of hist that has a state and is on the best
\* chain (else genesis); error if a needed body is pruned
AttachOf(hist) ==
    LET S == {i \in 1..Len(hist) : hist[i] # 0 /\ sta[hist[i]] # "none" /\ OnBest(hist[i])}
    IN IF S = {} THEN 0 ELSE H(hist[CHOOSE i \in S : \A j \in S : i <= j])
BlocksOf(hist, max) ==
    LET a == AttachOf(hist)
        tipH == Len(best) - 1
        n == IF max < tipH - a THEN max ELSE tipH - a
        ids == SubSeq(best, a + 2, a + 1 + n)
    IN IF \E i \in 1..Len(ids) : blk[ids[i]] \notin {"body", "supp"}
         THEN [err |-> "missing", ids |-> <<>>, rem |-> 0]
         ELSE [err |-> "ok", ids |-> ids, rem |-> tipH - (a + n)]

\* ---- OnReorg / OnPoolChange (manager.go 117-158): register a callback, get its cancel function
Subscribe(l) ==
    /\ pc.k = "idle" /\ lis[l] = -1
    /\ act' = [op |-> "Sub", s |-> l]
    /\ lis' = [lis EXCEPT ![l] = 0]
    /\ UNCHANGED <<t, blk, sta, best, mem, pc, ret, led, dur, subs, notif, seen>>
Unsubscribe(l) ==
    /\ pc.k = "idle" /\ lis[l] >= 0
    /\ act' = [op |-> "Unsub", s |-> l]
    /\ lis' = [lis EXCEPT ![l] = -1]
    /\ UNCHANGED <<t, blk, sta, best, mem, pc, ret, led, dur, subs, notif, seen>>

Next ==
    \/ \E l \in Lis : Subscribe(l) \/ Unsubscribe(l)
    \/ \E batch \in Batches : Submit(batch)
    \/ (EnableValidated /\ \E batch \in ValBatches : SubmitValidated(batch))
    \/ RevertStep \/ ApplyStep \/ FailReorg \/ PanicStep \/ FinishReorg
    \/ MidFlush \/ Crash
    \/ \E h \in 0..(T.maxH + 2) : Prune(h)
    \/ \E s \in Subs, m \in Chunks : Poll(s, m)

Spec == Init /\ [][Next]_vars

-----------------------------------------------------------------------------
(* C01 *)
LinkedSeq(c) == c[1] = 1 /\ \A i \in 2..Len(c) : Par(c[i]) = c[i - 1]
AllValidIn(c, bk, st) == \A i \in 1..Len(c) : Cls(c[i]) = "ok" /\ st[c[i]] = "full" /\ bk[c[i]] \in {"supp", "hdr"}

TypeOK ==
    /\ blk \in [Nodes -> {"none", "hdr", "body", "supp"}]
    /\ sta \in [Nodes -> {"none", "partial", "full"}]
    /\ mem \in Nodes
Linked   == LinkedSeq(best)
AllValid == AllValidIn(best, blk, sta)
MemIsTip == mem = Tip
\* rolling back never fails, the manager never dies inside a reorg
RollbackNeverFails == ret # "rollbackfailed"
NeverPanics == ret # "panic"

\* across a whole AddBlocks call: the tip moves only to a sufficiently heavier block, an error
\* leaves best chain and tip exactly as they were
CallEnds == pc.k = "reorg" /\ pc'.k = "idle" /\ act'.op # "Crash"
TipMovesOnlyIfHeavier == [][CallEnds /\ mem' # pc.old => Heavier(mem', pc.old) /\ ret' = "ok"]_vars
FailureIsNoop == [][CallEnds /\ ret' # "ok" => mem' = pc.old /\ best' = PathTo(pc.old)]_vars
HeaderLoopMovesNothing == [][act'.op \in {"Submit", "SubmitV"} => best' = best /\ mem' = mem /\ led' = led]_vars
WorkNeverLost == [][CallEnds => (mem' = pc.old \/ Heavier(mem', pc.old))]_vars
\* a submission whose adoption would need a non-ok block ends in an error
ErrIffNeeded == [][CallEnds /\ ~pc.rb /\ ret' = "ok" => \A i \in 1..Len(best') : Cls(best'[i]) = "ok"]_vars

\* ID twins: after an accepted header loop the body stored for an ID that was never applied is the
\* LAST one received (so an honest re-delivery heals a poisoned body); an applied or pruned ID keeps
\* the body it was validated with
LastBodyWins ==
    [][act'.op = "Submit" /\ ret' \in {"ok", "pending"} =>
        \A i \in 1..Len(act'.batch) :
            (\A j \in (i + 1)..Len(act'.batch) : K(act'.batch[j]) # K(act'.batch[i])) =>
                LET b == act'.batch[i] v == Ver(blk', K(b)) IN
                v # 0 /\ (v = b \/ (v = Ver(blk, K(b)) /\ blk[v] \in {"supp", "hdr"}))]_vars
AtMostOneBodyPerID == \A c \in Nodes : T.twins[c] # <<>> => Cardinality({x \in Class(c) : blk[x] # "none"}) <= 1

(* C02 *)
LedgerSetsAreFold == pc.k = "idle" => SetsOf(led) = SetsOf(FoldOf(best))
LedgerIsFold      == pc.k = "idle" => led = FoldOf(best)          \* incl. expiration ORDER
LedgerSetsAlways  == SetsOf(led) = SetsOf(FoldOf(best))           \* also between the steps of a reorg

(* C03 *)
DurableConsistent ==
    /\ LinkedSeq(dur.best)
    /\ AllValidIn(dur.best, dur.blk, dur.sta)
    /\ SetsOf(dur.led) = SetsOf(FoldOf(dur.best))
    /\ dur.best[Len(dur.best)] \in seen
CommitOnlyAtBoundary == [][dur' # dur => act'.op \in {"Finish", "MidFlush", "Init"}]_vars

(* C04 *)
Contiguous ==
    [][act'.op = "Poll" /\ act'.err = "ok" =>
        LET rus == act'.rus aus == act'.aus from == subs[act'.s] IN
        /\ Len(rus) + Len(aus) <= act'.max
        /\ (rus # <<>> => rus[1] = from /\ \A i \in 2..Len(rus) : rus[i] = Par(rus[i - 1]))
        /\ (aus # <<>> => /\ \A i \in 2..Len(aus) : Par(aus[i]) = aus[i - 1]
                          /\ (IF rus # <<>> THEN Par(aus[1]) = Par(rus[Len(rus)])
                              ELSE (from = 0 /\ aus[1] = 1) \/ (from # 0 /\ Par(aus[1]) = from))
                          /\ OnBest(aus[Len(aus)]))
        /\ (Len(rus) + Len(aus) < act'.max => subs'[act'.s] = mem)]_vars
NotifyOnlyIfMoved == [][notif' # notif /\ act'.op # "Init" => CallEnds /\ mem' # pc.old /\ notif' = notif + 1]_vars
MovedImpliesNotify == [][CallEnds /\ mem' # pc.old /\ ret' = "ok" => notif' = notif + 1]_vars
\* the same for every callback registered at the time, whatever registrations and cancellations
\* happened before; a cancelled or not yet registered callback is never called
ListenersNotified ==
    [][CallEnds /\ mem' # pc.old /\ ret' = "ok" => \A l \in Lis : lis[l] >= 0 => lis'[l] = lis[l] + 1]_vars
ListenersOnlyIfMoved ==
    [][\A l \in Lis : (lis[l] >= 0 /\ lis'[l] >= 0 /\ lis'[l] # lis[l]) => (CallEnds /\ mem' # pc.old /\ lis'[l] = lis[l] + 1)]_vars
CancelOnlyOwn ==
    [][act'.op \in {"Sub", "Unsub"} => \A l \in Lis : l # act'.s => lis'[l] = lis[l]]_vars
\* liveness (C04): a subscriber that keeps polling reaches the manager's tip again and again,
\* whatever submissions and (failed) reorgs keep happening: the tip moves only finitely often (it only
\* moves to something heavier) and every poll walks towards it.  Strong fairness on Poll because
\* reorgs disable it temporarily; weak fairness on the steps of a started reorg.
FairSpec ==
    /\ Spec
    /\ WF_vars(RevertStep \/ ApplyStep \/ FailReorg \/ FinishReorg)
    /\ \A s \in Subs : SF_vars(\E m \in Chunks : Poll(s, m))
CatchUp == \A s \in Subs : []<>(subs[s] = mem)

\* the history sample always starts at the tip and only names best-chain blocks
HistoryOnBest == pc.k = "idle" => HistoryIds[1] = Tip /\ \A i \in 1..32 : OnBest(HistoryIds[i])

(* C19 *)
PruneOnlyOldBodies ==
    [][act'.op = "Prune" =>
        /\ sta' = sta /\ best' = best /\ mem' = mem
        /\ \A b \in Nodes : blk'[b] # blk[b] =>
              /\ blk'[b] = "hdr" /\ OnBest(b) /\ H(b) < act'.h]_vars
NeedsPrunedIsError == NeverPanics
=============================================================================
