---------------------------- MODULE RenterTrace ----------------------------
(***************************************************************************)
(* Trace validation for Renter (property C10): every outcome recorded by   *)
(* harness/renterx from the REAL client functions -- one NDJSON line       *)
(*   {op:"Case", rpc, variant, faults:[{msg,field,how,k}], eff:[...],      *)
(*    samekey, outcome, bound, wire}                                                *)
(* per executed case -- must be a member of the fault space of Renter.tla  *)
(* (Plans), obey its acceptance rule (Allowed, applied to the faults that  *)
(* actually changed the bytes on the wire: eff) and satisfy the invariants *)
(* SuccessImpliesBound / HonestSucceeds / WireNormalForm / TypeOK, which TLC *)
(* evaluates on the recorded (outcome, bound).  `bound` is ground truth    *)
(* computed by the harness.                                                *)
(***************************************************************************)
EXTENDS Renter, Json, IOUtils

Log == ndJsonDeserialize(IOEnv.TRACE)
N == Len(Log)

VARIABLE l          \* next line to consume
tvars == <<vars, l>>

Ev == Log[l]
ToSet(seq) == {[msg |-> seq[i].msg, field |-> seq[i].field, how |-> seq[i].how, k |-> seq[i].k] : i \in DOMAIN seq}

TraceInit == Init /\ l = 1

TCase ==
    /\ l <= N
    /\ Ev.op = "Case"
    /\ Ev.rpc \in RPCs
    /\ Ev.variant \in VariantsOf(Ev.rpc)
    /\ LET p == ToSet(Ev.faults)
           e == ToSet(Ev.eff)
       IN  /\ Ev.samekey \in KeyRegimes(Ev.rpc) /\ RegimeOK(Ev.samekey, p)
           /\ InPlans(Ev.rpc, p)            \* the case is one TLC enumerated (= p \in Plans(Ev.rpc))
           /\ e \subseteq p
           /\ Ev.outcome \in Allowed(Ev.rpc, e)   \* ok | err only: a panic is never explained
           /\ rpc' = Ev.rpc /\ variant' = Ev.variant /\ samekey' = Ev.samekey /\ plan' = e
           /\ pos' = Len(Msgs(Ev.rpc))
           /\ outcome' = Ev.outcome
           /\ bound' = Ev.bound
           /\ wire' = Ev.wire
           /\ act' = [op |-> "Case"]
    /\ l' = l + 1

TraceNext == TCase
TraceSpec == TraceInit /\ [][TraceNext]_tvars

\* high-water mark of consumed lines (needs -workers 1)
ASSUME TLCSet(1, 0)
HWM == TLCSet(1, IF l - 1 > TLCGet(1) THEN l - 1 ELSE TLCGet(1))
TraceAccepted ==
    /\ PrintT(<<"HWM", TLCGet(1), "of", N>>)
    /\ TLCGet(1) = N
=============================================================================
