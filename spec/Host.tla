-------------------------------- MODULE Host --------------------------------
(***************************************************************************)
(* The RHP4 host (rhp/v4/server.go) with the reference Contractor / Sectors *)
(* of testutil/host.go, for one contract, seen from the wire:              *)
(*                                                                         *)
(*   C09  sector roots always match the committed contract, even on aborts *)
(*   C15  accounts and pools are a conserved ledger; paid before delivery  *)
(*   C08  only doubly-signed, monotone, value-conserving revisions         *)
(*                                                                         *)
(* Every handler is split at its stream reads / writes.  A session goes    *)
(*   round 0  idle                                                         *)
(*   Begin*   the host has read the request, processed it and is WRITING   *)
(*            its first message: round 1 (a non-final response, more to    *)
(*            come) or round 3 (the final message: result or error)        *)
(*   Deliver  the renter reads the non-final response: round 2, the host   *)
(*            waits for the renter's signature (or, if it already failed   *)
(*            -- cannot pay -- round 3 with an error)                      *)
(*   Round2*  the renter's signature arrives; the host verifies, COMMITS   *)
(*            and is writing the final message: round 3                    *)
(*   Finish   the renter reads the final message: idle                     *)
(*   Abort    the renter hangs up in round 1, 2 or 3                       *)
(* Single-round RPCs (fund, sector roots, read, write, ...) commit inside  *)
(* Begin* and go straight to round 3.  The contract lock (a try-lock) is   *)
(* held from a successful Begin* until the handler returns, i.e. until     *)
(* Finish / Abort, or until the handler fails.                             *)
(*                                                                         *)
(* The renter is the environment: for every field a handler checks it      *)
(* sends the honest value ("ok") or a member of a corruption class.  Money *)
(* is in harness units (4096 H), prices are the constants P*.              *)
(***************************************************************************)
EXTENDS Integers, Sequences, FiniteSets, TLC

CONSTANTS
    Sessions,          \* session ids (positive integers)
    Accounts, Pools,   \* account / pool names (disjoint sets of strings)
    PFree,             \* price of freeing one sector
    PStorB, PIngr, PCollB, \* append: storage per new sector per block of remaining duration (rev.dur), ingress per batch,
                       \* risked collateral per new sector per block
    PRoots,            \* sector roots RPC (up to 128 roots)
    PEgr,              \* read of up to 4 KiB
    PWstor, PIngr4k,   \* write: temp storage, ingress per 4 KiB
    PVerify,           \* verify sector
    RenewDist, RefreshDist, \* a renewal / refresh is accepted only while the proof height is at least this many
                       \* blocks away (the new / existing proof height must leave the minimum contract duration)
    DevFreeAlias,      \* named deviation (finding C09-free-sectors-alias, fixed in 6350cf0; self-test only): free swaps in place
    DevReplDup         \* named deviation (open finding C15-replenish-duplicates; self-test only): duplicates overshoot

VARIABLES
    rev,      \* latest committed revision of the contract
    sigs,     \* the revision value each signature covers: [r |-> ..., h |-> ...]
    roots,    \* sector roots the contractor holds for the contract (sequence of sector ids)
    stored,   \* sector ids in the sector store
    acct,     \* account balances
    pool,     \* pool balances
    pex,      \* pools that exist (credited at least once)
    att,      \* account -> sequence of attached pools (attachment order)
    lock,     \* 0 or the session holding the contract lock
    tipd,     \* TIME: chain tip height minus the contract's proof height.  A revision can be confirmed only while
              \* tipd < 0; from tipd = 0 on every revising request is too late and must change nothing
    olds,     \* the contracts this one was renewed / refreshed from, frozen: sequence of [rev, roots]
              \* (after a renewal `rev` / `roots` are those of the RENEWAL; the host still holds the old ones)
    sess,     \* per session: what the host handler is doing
    act, reply, calls   \* bookkeeping: last action, what the renter read, contractor/sector calls made

data  == <<rev, sigs, roots, stored, acct, pool, pex, att, olds, tipd>>
vars  == <<rev, sigs, roots, stored, acct, pool, pex, att, lock, olds, tipd, sess, act, reply, calls>>
view  == <<rev, sigs, roots, stored, acct, pool, pex, att, lock, olds, tipd, sess>>

-----------------------------------------------------------------------------
(* helpers *)

Min(a, b) == IF a < b THEN a ELSE b
Max(a, b) == IF a > b THEN a ELSE b

RECURSIVE SumSeq(_)
SumSeq(s) == IF s = <<>> THEN 0 ELSE Head(s) + SumSeq(Tail(s))

Range(s) == {s[i] : i \in DOMAIN s}
NoDup(s) == \A i, j \in DOMAIN s : i # j => s[i] # s[j]

Rep(k, n, l) == [k |-> k, n |-> n, l |-> l]
RejR   == Rep("rej", 0, <<>>)
OkR    == Rep("ok", 0, <<>>)
AbortR == Rep("abort", 0, <<>>)
NoneR  == Rep("none", 0, <<>>)

NoDep == <<>>
IdleS == [rpc |-> "idle", round |-> 0, pend |-> NoneR, fail |-> FALSE, late |-> FALSE,
          nroots |-> <<>>, k |-> 0, g |-> 0, cost |-> 0, coll |-> 0, deps |-> NoDep, kind |-> "none", target |-> 0]

Pay(r, cost, coll) == [r EXCEPT !.num = @ + 1, !.rout = @ - cost, !.hout = @ + cost, !.missed = @ - coll]
CanPay(r, cost, coll) == r.rout >= cost /\ r.missed >= coll

(* free sectors exactly as server.go does it: for the i-th index n (i from 0)
   roots[n] := roots[len - i - 1], sequentially and in place; then truncate *)
RECURSIVE Swaps(_, _, _, _)
Swaps(arr, idx, i, n) ==
    IF i > Len(idx) THEN arr
    ELSE Swaps([arr EXCEPT ![idx[i] + 1] = arr[n - (i - 1)]], idx, i + 1, n)
InPlace(rs, idx) == Swaps(rs, idx, 1, Len(rs))
FreeResult(rs, idx) == SubSeq(InPlace(rs, idx), 1, Len(rs) - Len(idx))
ValidIdx(idx, n) == NoDup(idx) /\ \A i \in DOMAIN idx : idx[i] >= 0 /\ idx[i] < n

(* the simple list model of the property: swap-remove from the end, one index at a time *)
RECURSIVE ListFree(_, _, _)
ListFree(rs, idx, i) ==
    IF i > Len(idx) THEN rs
    ELSE ListFree(SubSeq([rs EXCEPT ![idx[i] + 1] = rs[Len(rs)]], 1, Len(rs) - 1), idx, i + 1)

SortedDesc(idx) == \A i \in 1..(Len(idx) - 1) : idx[i] > idx[i + 1]

(* accounts *)
RECURSIVE Credit(_, _, _)
Credit(bal, deps, i) ==       \* balances after applying deposits i.. in order
    IF i > Len(deps) THEN bal
    ELSE Credit([bal EXCEPT ![deps[i].a] = @ + deps[i].n], deps, i + 1)
RECURSIVE CreditReplies(_, _, _)
CreditReplies(bal, deps, i) ==  \* the balance reported after each deposit
    IF i > Len(deps) THEN <<>>
    ELSE LET b == [bal EXCEPT ![deps[i].a] = @ + deps[i].n]
         IN <<b[deps[i].a]>> \o CreditReplies(b, deps, i + 1)
Amounts(deps) == [i \in DOMAIN deps |-> deps[i].n]

RECURSIVE PoolSum(_, _)
PoolSum(pb, pl) == IF pl = <<>> THEN 0 ELSE pb[Head(pl)] + PoolSum(pb, Tail(pl))
Drawable(a) == acct[a] + PoolSum(pool, att[a])

RECURSIVE Drain(_, _, _)
Drain(pb, pl, rem) ==
    IF pl = <<>> \/ rem = 0 THEN pb
    ELSE LET p == Head(pl)
             t == Min(pb[p], rem)
         IN Drain([pb EXCEPT ![p] = @ - t], Tail(pl), rem - t)

TotalBal == LET RECURSIVE S(_, _)
                S(f, D) == IF D = {} THEN 0 ELSE LET x == CHOOSE y \in D : TRUE IN f[x] + S(f, D \ {x})
            IN S(acct, Accounts) + S(pool, Pools)

RemoveFirst(s, x) ==
    IF \E i \in DOMAIN s : s[i] = x
    THEN LET i == CHOOSE j \in DOMAIN s : s[j] = x /\ \A k \in 1..(j - 1) : s[k] # x
         IN SubSeq(s, 1, i - 1) \o SubSeq(s, i + 1, Len(s))
    ELSE s

Unlock(s) == IF lock = s THEN 0 ELSE lock
Revisable == tipd < 0
\* a revising handler is refused while another one holds the try-lock, and once the proof window has opened
Locked == lock # 0 \/ ~Revisable

-----------------------------------------------------------------------------
(* session plumbing *)

Idle(s) == sess[s].rpc = "idle"

\* the handler has finished (result or error) and is writing its final message
Final(s, rpc, r) == sess' = [sess EXCEPT ![s] = [IdleS EXCEPT !.rpc = rpc, !.round = 3, !.pend = r]]

Reject(s, rpc) ==
    /\ Final(s, rpc, RejR)
    /\ calls' = <<>>
    /\ reply' = NoneR
    /\ UNCHANGED <<data, lock>>

Deliver(s) ==
    /\ sess[s].round = 1
    /\ act' = [op |-> "Deliver", s |-> s]
    /\ reply' = sess[s].pend
    /\ calls' = <<>>
    /\ IF sess[s].fail
       THEN sess' = [sess EXCEPT ![s].round = 3, ![s].pend = RejR] /\ lock' = Unlock(s)
       ELSE sess' = [sess EXCEPT ![s].round = 2] /\ UNCHANGED lock
    /\ UNCHANGED data

Finish(s) ==
    /\ sess[s].round = 3
    /\ act' = [op |-> "Finish", s |-> s]
    /\ reply' = sess[s].pend
    /\ calls' = <<>>
    /\ sess' = [sess EXCEPT ![s] = IdleS]
    /\ lock' = Unlock(s)
    /\ UNCHANGED data

\* the renter hangs up (or the connection drops) while a handler is in flight: NOTHING changes
Abort(s) ==
    /\ sess[s].round \in {1, 2, 3}
    /\ act' = [op |-> "Abort", s |-> s]
    /\ reply' = AbortR
    /\ calls' = <<>>
    /\ sess' = [sess EXCEPT ![s] = IdleS]
    /\ lock' = Unlock(s)
    /\ UNCHANGED data

\* the renter sends its round-2 message to a handler that has already failed (it is writing its
\* error and no longer listening): nothing happens
Ignored(s) ==
    /\ sess[s].round = 3
    /\ act' = [op |-> "Ignored", s |-> s]
    /\ reply' = NoneR
    /\ calls' = <<>>
    /\ UNCHANGED <<data, lock, sess>>

\* blocks are mined (between exchanges): only time passes
Mine(n) ==
    /\ \A s \in DOMAIN sess : Idle(s)
    /\ n > 0
    /\ tipd' = tipd + n
    /\ act' = [op |-> "Mine", n |-> n]
    /\ reply' = NoneR
    /\ calls' = <<>>
    /\ UNCHANGED <<rev, sigs, roots, stored, acct, pool, pex, att, olds, lock, sess>>

\* a write-sector upload abandoned INSIDE the message body: a valid request, then only part of the announced
\* data (part 0: none, 1: one byte, 2: half, 3: all but one byte), then the stream is closed.  Nothing may
\* change: no debit (a debit is the price of a write that is then carried out), nothing stored.
PartialWrite(s, a, units, part) ==
    /\ Idle(s)
    /\ act' = [op |-> "PartialWrite", s |-> s, a |-> a, units |-> units, part |-> part]
    /\ reply' = AbortR
    /\ calls' = <<>>
    /\ UNCHANGED <<data, lock, sess>>

\* a request that never arrives completely (cut after the RPC id / in the middle)
Truncated(s) ==
    /\ Idle(s)
    /\ act' = [op |-> "Truncated", s |-> s]
    /\ reply' = AbortR
    /\ calls' = <<>>
    /\ UNCHANGED <<data, lock, sess>>

-----------------------------------------------------------------------------
(* RPCFreeSectors  (server.go handleRPCFreeSectors) *)

BeginFree(s, idx, pf, cf) ==
    /\ Idle(s)
    /\ act' = [op |-> "BeginFree", s |-> s, idx |-> idx, pf |-> pf, cf |-> cf]
    /\ IF Locked \/ cf # "ok" \/ pf # "ok" \/ ~ValidIdx(idx, rev.size) \/ ~ValidIdx(idx, Len(roots))
       THEN Reject(s, "free")
       ELSE LET arr == InPlace(roots, idx)
                nr  == SubSeq(arr, 1, Len(roots) - Len(idx))
            IN /\ sess' = [sess EXCEPT ![s] = [IdleS EXCEPT !.rpc = "free", !.round = 1,
                              !.pend = Rep("resp", Len(nr), <<>>), !.nroots = nr, !.k = Len(idx),
                              !.cost = PFree * Len(idx)]]
               /\ lock' = s
               /\ roots' = IF DevFreeAlias THEN arr ELSE roots
               /\ calls' = <<>>
               /\ reply' = NoneR
               /\ UNCHANGED <<rev, sigs, stored, acct, pool, pex, att, olds, tipd>>

Round2Free(s, sf) ==
    /\ sess[s].rpc = "free" /\ sess[s].round = 2
    /\ act' = [op |-> "Round2Free", s |-> s, sf |-> sf, cost |-> sess[s].cost]
    /\ reply' = NoneR
    /\ IF sf = "ok" /\ CanPay(rev, sess[s].cost, 0)
       THEN /\ rev' = [Pay(rev, sess[s].cost, 0) EXCEPT !.size = Len(sess[s].nroots), !.commit = sess[s].nroots]
            /\ sigs' = [r |-> rev', h |-> rev']
            /\ roots' = sess[s].nroots
            /\ sess' = [sess EXCEPT ![s].round = 3, ![s].pend = OkR]
            /\ calls' = <<"RV">>
            /\ UNCHANGED <<stored, acct, pool, pex, att, olds, tipd, lock>>
       ELSE /\ sess' = [sess EXCEPT ![s].round = 3, ![s].pend = RejR]
            /\ lock' = Unlock(s)
            /\ calls' = <<>>
            /\ UNCHANGED data

-----------------------------------------------------------------------------
(* RPCAppendSectors *)

Flags(secs) == [i \in DOMAIN secs |-> IF secs[i] \in stored THEN 1 ELSE 0]
Accepted(secs) == SelectSeq(secs, LAMBDA x : x \in stored)

BeginAppend(s, secs, pf, cf) ==
    /\ Idle(s)
    /\ act' = [op |-> "BeginAppend", s |-> s, secs |-> secs, pf |-> pf, cf |-> cf]
    /\ IF pf # "ok" \/ secs = <<>> \/ Locked \/ cf # "ok"
       THEN Reject(s, "append")
       ELSE LET acc  == Accepted(secs)
                k    == Len(acc)
                room == rev.cap - rev.size
                g    == IF k > room THEN k - room ELSE 0
                cost == g * PStorB * rev.dur + (IF g > 0 THEN PIngr ELSE 0)
                coll == g * PCollB * rev.dur
            IN /\ sess' = [sess EXCEPT ![s] = [IdleS EXCEPT !.rpc = "append", !.round = 1,
                              !.pend = Rep("resp", k, Flags(secs)), !.nroots = roots \o acc, !.k = k, !.g = g,
                              !.cost = cost, !.coll = coll, !.fail = ~CanPay(rev, cost, coll)]]
               /\ lock' = s
               /\ calls' = <<>>
               /\ reply' = NoneR
               /\ UNCHANGED data

Round2Append(s, sf) ==
    /\ sess[s].rpc = "append" /\ sess[s].round = 2
    /\ act' = [op |-> "Round2Append", s |-> s, sf |-> sf, cost |-> sess[s].cost]
    /\ reply' = NoneR
    /\ IF sf = "ok"
       THEN /\ rev' = [Pay(rev, sess[s].cost, sess[s].coll) EXCEPT !.size = @ + sess[s].k, !.cap = @ + sess[s].g,
                          !.commit = sess[s].nroots]
            /\ sigs' = [r |-> rev', h |-> rev']
            /\ roots' = sess[s].nroots
            /\ sess' = [sess EXCEPT ![s].round = 3, ![s].pend = OkR]
            /\ calls' = <<"RV">>
            /\ UNCHANGED <<stored, acct, pool, pex, att, olds, tipd, lock>>
       ELSE /\ sess' = [sess EXCEPT ![s].round = 3, ![s].pend = RejR]
            /\ lock' = Unlock(s)
            /\ calls' = <<>>
            /\ UNCHANGED data

-----------------------------------------------------------------------------
(* RPCSectorRoots (single round), RPCLatestRevision *)

BeginRoots(s, off, len, pf, sf) ==
    /\ Idle(s)
    /\ act' = [op |-> "BeginRoots", s |-> s, off |-> off, len |-> len, pf |-> pf, sf |-> sf, cost |-> PRoots]
    /\ IF Locked \/ pf # "ok" \/ len <= 0 \/ off < 0 \/ off > rev.size \/ len > rev.size - off
          \/ ~CanPay(rev, PRoots, 0) \/ sf # "ok"
       THEN Reject(s, "roots")
       ELSE /\ rev' = Pay(rev, PRoots, 0)
            /\ sigs' = [r |-> rev', h |-> rev']
            /\ Final(s, "roots", Rep("ok", len, SubSeq(roots, off + 1, off + len)))
            /\ lock' = s
            /\ calls' = <<"RV">>
            /\ reply' = NoneR
            /\ UNCHANGED <<roots, stored, acct, pool, pex, att, olds, tipd>>

BeginLatest(s) ==
    /\ Idle(s)
    /\ act' = [op |-> "BeginLatest", s |-> s]
    /\ IF lock # 0
       THEN Reject(s, "latest")
       ELSE /\ Final(s, "latest", Rep("ok", rev.num, <<0, IF Revisable THEN 1 ELSE 0>>))
            /\ calls' = <<>>
            /\ reply' = NoneR
            /\ UNCHANGED <<data, lock>>

-----------------------------------------------------------------------------
(* RPCFundAccounts (single round), RPCReplenishAccounts / RPCReplenishPools *)

ValidDeps(deps) == deps # <<>> /\ \A i \in DOMAIN deps : deps[i].n > 0

\* af: class of the deposit AMOUNTS.  "ok": the amounts deps[i].n.  Otherwise the renter sends amounts
\* near the top of the 128-bit range (the harness builds them): "ovfLast" the sum overflows at its last
\* addition, "ovfMid" a partial sum overflows but the last addition does not (the wrapped total would be
\* small), "tooBig" no overflow but more than the renter payout.  All of them: error, nothing changes.
BeginFund(s, deps, sf, af) ==
    /\ Idle(s)
    /\ LET total == SumSeq(Amounts(deps))
       IN /\ act' = [op |-> "BeginFund", s |-> s, deps |-> deps, sf |-> sf, af |-> af, cost |-> total]
          /\ IF af # "ok" \/ ~ValidDeps(deps) \/ Locked \/ ~CanPay(rev, total, 0) \/ sf # "ok"
             THEN Reject(s, "fund")
             ELSE /\ rev' = Pay(rev, total, 0)
                  /\ sigs' = [r |-> rev', h |-> rev']
                  /\ acct' = Credit(acct, deps, 1)
                  /\ Final(s, "fund", Rep("ok", total, CreditReplies(acct, deps, 1)))
                  /\ lock' = s
                  /\ calls' = <<"CA">>
                  /\ reply' = NoneR
                  /\ UNCHANGED <<roots, stored, pool, pex, att, olds, tipd>>

Bal(kind) == IF kind = "accts" THEN acct ELSE pool

\* the deposits the host computes: max(target - balance, 0) per listed account, from the
\* balances at request time.  With duplicates in the list this overshoots the target
\* (deviation DevReplDup); the specification proper deposits once per account.
ReplDeps(kind, accs, target) ==
    [i \in DOMAIN accs |->
        [a |-> accs[i],
         n |-> IF ~DevReplDup /\ \E j \in 1..(i - 1) : accs[j] = accs[i] THEN 0
               ELSE Max(target - Bal(kind)[accs[i]], 0)]]

\* af: class of the TARGET.  "ok": target.  "ovfLast" / "ovfMid": a target near the top of the 128-bit
\* range over several (distinct) accounts, so that the sum of the deposits overflows: error, nothing changes.
BeginRepl(s, kind, accs, target, cf, af) ==
    /\ Idle(s)
    /\ act' = [op |-> "BeginRepl", s |-> s, kind |-> kind, accs |-> accs, target |-> target, cf |-> cf, af |-> af]
    /\ IF af # "ok" \/ accs = <<>> \/ target <= 0 \/ Locked \/ cf # "ok"
       THEN Reject(s, "repl")
       ELSE LET deps == ReplDeps(kind, accs, target)
                sum  == SumSeq(Amounts(deps))
            IN /\ IF sum = 0
                  THEN Final(s, "repl", Rep("resp", 0, Amounts(deps)))
                  ELSE sess' = [sess EXCEPT ![s] = [IdleS EXCEPT !.rpc = "repl", !.round = 1, !.kind = kind,
                                   !.pend = Rep("resp", sum, Amounts(deps)), !.deps = deps, !.cost = sum, !.target = target,
                                   !.fail = ~CanPay(rev, sum, 0)]]
               /\ lock' = s
               /\ calls' = <<>>
               /\ reply' = NoneR
               /\ UNCHANGED data

Round2Repl(s, sf) ==
    /\ sess[s].rpc = "repl" /\ sess[s].round = 2
    /\ act' = [op |-> "Round2Repl", s |-> s, sf |-> sf, cost |-> sess[s].cost, kind |-> sess[s].kind,
               accs |-> [i \in DOMAIN sess[s].deps |-> sess[s].deps[i].a]]
    /\ reply' = NoneR
    \* sf = "dedup": the renter signs for the total over the DISTINCT listed accounts (first reported deposit of
    \* each) instead of the sum of all reported deposits: the same revision, as a repeated account reports 0
    /\ IF sf \in {"ok", "dedup"}
       THEN /\ rev' = Pay(rev, sess[s].cost, 0)
            /\ sigs' = [r |-> rev', h |-> rev']
            /\ IF sess[s].kind = "accts"
               THEN acct' = Credit(acct, sess[s].deps, 1) /\ UNCHANGED <<pool, pex>>
               ELSE /\ pool' = Credit(pool, sess[s].deps, 1)
                    /\ pex' = pex \cup {sess[s].deps[i].a : i \in DOMAIN sess[s].deps}
                    /\ UNCHANGED acct
            /\ sess' = [sess EXCEPT ![s].round = 3, ![s].pend = OkR]
            /\ calls' = <<IF sess[s].kind = "accts" THEN "CA" ELSE "CP">>
            /\ UNCHANGED <<roots, stored, att, olds, tipd, lock>>
       ELSE /\ sess' = [sess EXCEPT ![s].round = 3, ![s].pend = RejR]
            /\ lock' = Unlock(s)
            /\ calls' = <<>>
            /\ UNCHANGED data

-----------------------------------------------------------------------------
(* pools: attach / detach.  An entry is [a, p, by, vf]: account, pool, who signed, and the
   validity class of the entry ("ok", "expired", "wronghost") *)

RECURSIVE ApplyAttach(_, _, _)
ApplyAttach(at, b, i) ==
    IF i > Len(b) THEN at
    ELSE ApplyAttach(IF b[i].p \in Range(at[b[i].a]) THEN at ELSE [at EXCEPT ![b[i].a] = Append(@, b[i].p)], b, i + 1)

RECURSIVE ApplyDetach(_, _, _)
ApplyDetach(at, b, i) ==
    IF i > Len(b) THEN at
    ELSE ApplyDetach([at EXCEPT ![b[i].a] = RemoveFirst(@, b[i].p)], b, i + 1)

AttachAuth(e) == e.vf = "ok" /\ e.by = e.p                    \* the pool's key, this host, unexpired
DetachAuth(e) == e.vf = "ok" /\ (e.by = e.p \/ e.by = e.a)    \* the pool's or the account's key

BeginAttach(s, b) ==
    /\ Idle(s)
    /\ act' = [op |-> "BeginAttach", s |-> s, b |-> b]
    /\ IF b = <<>> \/ (\E i \in DOMAIN b : ~AttachAuth(b[i]))
       THEN Reject(s, "attach")
       ELSE IF \E i \in DOMAIN b : b[i].p \notin pex      \* the contractor refuses the whole batch
            THEN /\ Final(s, "attach", RejR)
                 /\ calls' = <<"AT-">>
                 /\ reply' = NoneR
                 /\ UNCHANGED <<data, lock>>
            ELSE /\ att' = ApplyAttach(att, b, 1)
                 /\ Final(s, "attach", OkR)
                 /\ calls' = <<"AT">>
                 /\ reply' = NoneR
                 /\ UNCHANGED <<rev, sigs, roots, stored, acct, pool, pex, olds, tipd, lock>>

BeginDetach(s, b) ==
    /\ Idle(s)
    /\ act' = [op |-> "BeginDetach", s |-> s, b |-> b]
    /\ IF b = <<>> \/ (\E i \in DOMAIN b : ~DetachAuth(b[i]))
       THEN Reject(s, "detach")
       ELSE /\ att' = ApplyDetach(att, b, 1)
            /\ Final(s, "detach", OkR)
            /\ calls' = <<"DT">>
            /\ reply' = NoneR
            /\ UNCHANGED <<rev, sigs, roots, stored, acct, pool, pex, olds, tipd, lock>>

-----------------------------------------------------------------------------
(* paid services: read / write / verify sector, account balance.
   tf: account token class, pf: price table class; both must be "ok" *)

Debit(a, cost) ==
    LET t == Min(acct[a], cost)
    IN /\ acct' = [acct EXCEPT ![a] = @ - t]
       /\ pool' = Drain(pool, att[a], cost - t)

\* the service is refused before any debit (calls = <<>>), refused by the debit (<<"D-">>),
\* or paid and then carried out (<<"D+", what>>)
Service(s, rpc, a, cost, precond, what, r) ==
    IF ~precond
    THEN Reject(s, rpc)
    ELSE IF Drawable(a) < cost
         THEN /\ Final(s, rpc, RejR)
              /\ calls' = <<"D-">>
              /\ reply' = NoneR
              /\ UNCHANGED <<data, lock>>
         ELSE /\ Debit(a, cost)
              /\ Final(s, rpc, r)
              /\ calls' = <<"D+", what>>
              /\ reply' = NoneR
              /\ UNCHANGED <<rev, sigs, roots, pex, att, olds, tipd, lock>>

BeginRead(s, a, sec, units, tf, pf) ==
    /\ Idle(s)
    /\ act' = [op |-> "BeginRead", s |-> s, a |-> a, sec |-> sec, units |-> units, tf |-> tf, pf |-> pf, cost |-> units * PEgr]
    /\ Service(s, "read", a, units * PEgr, tf = "ok" /\ pf = "ok" /\ units > 0 /\ sec \in stored, "R", Rep("ok", units, <<sec>>))
    /\ UNCHANGED stored

BeginVerify(s, a, sec, tf, pf) ==
    /\ Idle(s)
    /\ act' = [op |-> "BeginVerify", s |-> s, a |-> a, sec |-> sec, tf |-> tf, pf |-> pf, cost |-> PVerify]
    /\ Service(s, "verify", a, PVerify, tf = "ok" /\ pf = "ok" /\ sec \in stored, "R", Rep("ok", 0, <<sec>>))
    /\ UNCHANGED stored

BeginWrite(s, a, sec, units, tf, pf) ==
    /\ Idle(s)
    /\ LET cost == PWstor + units * PIngr4k
       IN /\ act' = [op |-> "BeginWrite", s |-> s, a |-> a, sec |-> sec, units |-> units, tf |-> tf, pf |-> pf, cost |-> cost]
          /\ Service(s, "write", a, cost, tf = "ok" /\ pf = "ok" /\ units > 0, "S", Rep("ok", units, <<sec>>))
          /\ stored' = IF sess'[s].pend.k = "ok" THEN stored \cup {sec} ELSE stored

BeginBalance(s, a) ==
    /\ Idle(s)
    /\ act' = [op |-> "BeginBalance", s |-> s, a |-> a]
    /\ Final(s, "balance", Rep("ok", acct[a], <<>>))
    /\ calls' = <<>>
    /\ reply' = NoneR
    /\ UNCHANGED <<data, lock>>

-----------------------------------------------------------------------------
(* renew / refresh.  The request carries the allowance A and collateral C of the new contract.  When the
   host has verified the renter's signatures it calls RenewV2Contract: the old contract is final from then on
   (frozen in `olds`: the host still holds it and its roots must keep matching its last revision), and the
   RENEWAL -- revision 0, the same roots -- is the contract every later request works on.  The property is
   silent on the economics of a renewal (C16): the renter payout and the missed host value follow the
   request, the other fields (x: valid host payout, total collateral, heights, duration) are the host's. *)

NewRev(r, kind, A, C, x) ==
    [num |-> 0,
     rout |-> IF kind = "refresh" THEN r.rout + A ELSE A,
     hout |-> x.hout,
     missed |-> IF kind = "refresh" THEN r.missed + C ELSE C,
     coll |-> x.coll,
     size |-> r.size,
     cap |-> IF kind = "renew" THEN r.size ELSE r.cap,
     commit |-> r.commit,
     ph |-> x.ph, eh |-> x.eh, dur |-> x.dur, rk |-> r.rk, hk |-> r.hk]

\* rf: class of the renewal request.  "ok"; "bad": parameters the host refuses at once; "poolbad": everything
\* the host checks itself is fine but the renter's transaction parts are invalid for the transaction pool only
\* (a renter input that does not exist / is already spent): the exchange goes on and must fail at the end --
\* like a corrupted renter INPUT signature in round 2 (sf = "badinput") -- with NOTHING changed.
BeginRenew(s, kind, pf, cf, rf, A, C) ==
    /\ Idle(s)
    /\ act' = [op |-> "BeginRenew", s |-> s, kind |-> kind, pf |-> pf, cf |-> cf, rf |-> rf, na |-> A, nc |-> C]
    /\ IF pf # "ok" \/ Locked \/ tipd > -(IF kind = "renew" THEN RenewDist ELSE RefreshDist) \/ cf # "ok" \/ rf \notin {"ok", "poolbad"}
       THEN Reject(s, "renew")
       ELSE /\ sess' = [sess EXCEPT ![s] = [IdleS EXCEPT !.rpc = "renew", !.round = 1, !.kind = kind, !.pend = Rep("resp", 0, <<>>),
                                                       !.cost = A, !.coll = C, !.late = (rf = "poolbad")]]
            /\ lock' = s
            /\ calls' = <<>>
            /\ reply' = NoneR
            /\ UNCHANGED data

Round2Renew(s, sf, x) ==
    /\ sess[s].rpc = "renew" /\ sess[s].round = 2
    /\ act' = [op |-> "Round2Renew", s |-> s, sf |-> sf, kind |-> sess[s].kind]
    /\ reply' = NoneR
    /\ IF sf = "ok" /\ ~sess[s].late
       THEN /\ x.hout >= 0 /\ x.coll >= 0 /\ x.dur > 0
            /\ olds' = Append(olds, [rev |-> rev, roots |-> roots])
            /\ rev' = NewRev(rev, sess[s].kind, sess[s].cost, sess[s].coll, x)
            /\ sigs' = [r |-> rev', h |-> rev']
            /\ sess' = [sess EXCEPT ![s].round = 3, ![s].pend = OkR]
            /\ calls' = <<"RN">>
            /\ tipd' = tipd - (x.ph - rev.ph)      \* time is counted against the proof height of the renewal
            /\ UNCHANGED <<roots, stored, acct, pool, pex, att, lock>>
       ELSE /\ sess' = [sess EXCEPT ![s].round = 3, ![s].pend = RejR]
            /\ lock' = Unlock(s)
            /\ calls' = <<>>
            /\ UNCHANGED data

-----------------------------------------------------------------------------
(* Properties.  State invariants first. *)

\* C09
RootsMatchRevision ==      \* for EVERY contract the host holds: the current one and the ones it was renewed from
    /\ rev.commit = roots /\ rev.size = Len(roots) /\ rev.size <= rev.cap
    /\ \A i \in DOMAIN olds : olds[i].rev.commit = olds[i].roots /\ olds[i].rev.size = Len(olds[i].roots)
\* a replaced contract is final: nothing ever changes its revision or its roots
OldsFrozen == [][\A i \in DOMAIN olds : i \in DOMAIN olds' /\ olds'[i] = olds[i]]_vars
Readable == Range(roots) \subseteq stored

\* C08
DoublySigned == sigs.r = rev /\ sigs.h = rev
SerialisedPerContract ==
    /\ lock \in Sessions \cup {0}
    /\ \A s \in Sessions : (sess[s].round \in {1, 2} /\ sess[s].rpc \in {"free", "append", "repl", "renew"}) => lock = s
SolventContract == rev.rout >= 0 /\ rev.missed >= 0 /\ rev.missed <= rev.hout

\* C15
NonNegative == (\A a \in Accounts : acct[a] >= 0) /\ (\A p \in Pools : pool[p] >= 0)
AttachedExist == \A a \in Accounts : Range(att[a]) \subseteq pex /\ NoDup(att[a])

(* Action properties ([][A]_vars): relations between consecutive states. *)

Renewal == act'.op = "Round2Renew"      \* the step that replaces the contract by its renewal
Committed == rev' # rev /\ ~Renewal

\* C08: every committed revision ...
\* TIME: once the proof window has opened nothing is ever committed (no revision could be confirmed any more)
TooLateIsNoop  == [][tipd >= 0 /\ act'.op # "Mine" => UNCHANGED <<rev, sigs, roots, stored, acct, pool, pex, att, olds>> \/ act'.op \in {"BeginRead", "BeginWrite", "BeginVerify", "BeginAttach", "BeginDetach"}]_vars
RevMonotone    == [][Committed => rev'.num > rev.num]_vars
Immutable      == [][Renewal \/ (rev'.rk = rev.rk /\ rev'.hk = rev.hk /\ rev'.ph = rev.ph /\ rev'.eh = rev.eh /\ rev'.coll = rev.coll /\ rev'.dur = rev.dur)]_vars
PayoutSumConstant == [][Renewal \/ rev'.rout + rev'.hout = rev.rout + rev.hout]_vars
NoHostToRenter == [][Renewal \/ (rev'.rout <= rev.rout /\ rev'.hout >= rev.hout /\ rev'.missed <= rev.missed /\ rev'.cap >= rev.cap)]_vars
ExactCharge    == [][Committed => rev.rout - rev'.rout = act'.cost]_vars
SignedCommit   == [][Committed => sigs'.r = rev' /\ sigs'.h = rev']_vars
CommitHoldsLock == [][Committed => (lock' = act'.s /\ lock \in {0, act'.s})]_vars
Flawed(a) ==
    \/ ("pf" \in DOMAIN a /\ a.pf # "ok") \/ ("cf" \in DOMAIN a /\ a.cf # "ok")
    \/ ("sf" \in DOMAIN a /\ a.sf \notin {"ok", "dedup"}) \/ ("tf" \in DOMAIN a /\ a.tf # "ok")
    \/ ("rf" \in DOMAIN a /\ a.rf # "ok") \/ ("af" \in DOMAIN a /\ a.af # "ok")
BadRequestIsNoop == [][Flawed(act') => UNCHANGED data]_vars

\* C09: whatever happens, an abort / failure / hang-up is a no-op, and roots change only with a commit
AbortIsNoop == [][act'.op \in {"Abort", "Truncated", "PartialWrite", "Deliver", "Finish", "Ignored"} => UNCHANGED data]_vars
RootsOnlyWithCommit == [][roots' # roots => (Committed /\ rev'.commit = roots')]_vars
RenewalKeepsRoots == [][Renewal /\ rev' # rev => (rev'.num = 0 /\ rev'.commit = rev.commit /\ roots' = roots /\ sigs'.r = rev' /\ sigs'.h = rev' /\ lock = act'.s)]_vars

\* C15
CreditBacked ==
    [][TotalBal' > TotalBal =>
          /\ act'.op \in {"BeginFund", "Round2Repl"}
          /\ TotalBal' - TotalBal = rev.rout - rev'.rout
          /\ rev'.num > rev.num /\ sigs'.r = rev']_vars
TransferCredited ==
    [][(Committed /\ act'.op \in {"BeginFund", "Round2Repl"}) => TotalBal' - TotalBal = rev.rout - rev'.rout]_vars
DebitIsPrice ==
    [][TotalBal' < TotalBal =>
          /\ act'.op \in {"BeginRead", "BeginWrite", "BeginVerify"}
          /\ TotalBal - TotalBal' = act'.cost
          /\ calls' = <<"D+", IF act'.op = "BeginWrite" THEN "S" ELSE "R">>]_vars
PaidBeforeService ==
    [][(\E i \in DOMAIN calls' : calls'[i] \in {"R", "S"}) =>
          /\ Len(calls') = 2 /\ calls'[1] = "D+"
          /\ TotalBal - TotalBal' = act'.cost]_vars
InsufficientIsNoop ==
    [][(act'.op \in {"BeginRead", "BeginWrite", "BeginVerify"} /\ Drawable(act'.a) < act'.cost) =>
          /\ UNCHANGED data
          /\ sess'[act'.s].pend = RejR
          /\ \A i \in DOMAIN calls' : calls'[i] \notin {"R", "S", "D+"}]_vars
ReplenishToTarget ==      \* sequential sessions only (balances at request time = balances at commit time)
    [][(act'.op = "Round2Repl" /\ Committed) =>
          \A i \in DOMAIN act'.accs :
             LET a == act'.accs[i]
             IN IF act'.kind = "accts" THEN acct'[a] = Max(acct[a], sess[act'.s].target)
                ELSE pool'[a] = Max(pool[a], sess[act'.s].target)]_vars
AttachNeedsSignature ==
    [][att' # att =>
          \/ (act'.op = "BeginAttach" /\ \A i \in DOMAIN act'.b : AttachAuth(act'.b[i]))
          \/ (act'.op = "BeginDetach" /\ \A i \in DOMAIN act'.b : DetachAuth(act'.b[i]))]_vars
ServiceOnlyStores == [][stored' # stored => (act'.op = "BeginWrite" /\ calls' = <<"D+", "S">>)]_vars

-----------------------------------------------------------------------------
(* the list-model lemma of C09 (checked over all small contracts in its own cfg):
   for index lists as the client API sends them (sorted descending, distinct) the server's
   in-place procedure (i) equals swap-remove-from-the-end on a plain list, (ii) frees exactly
   the requested sectors and (iii) leaves every other surviving position untouched *)
FreesExactly(rs, idx) ==
    LET res == FreeResult(rs, idx)
    IN /\ Range(res) = Range(rs) \ {rs[idx[i] + 1] : i \in DOMAIN idx}
       /\ \A j \in DOMAIN res : (j - 1) \notin Range(idx) => res[j] = rs[j]
ListModelOver(n, Good(_)) ==
    \A m \in 0..n :
       LET rs == [i \in 1..m |-> i]
           Lists(k) == {idx \in [1..k -> 0..(m - 1)] : Good(idx)}
       IN \A k \in 0..m : \A idx \in Lists(k) :
             FreeResult(rs, idx) = ListFree(rs, idx, 1) /\ FreesExactly(rs, idx)
ListModelUpTo(n) == ListModelOver(n, SortedDesc)
\* NOT a theorem (self-test): for distinct indices in arbitrary order a sector that was not
\* requested is lost, which is why the client normalises and why the raw-renter legs only
\* require RootsMatchRevision
ListModelAnyOrderUpTo(n) == ListModelOver(n, NoDup)
=============================================================================
