------------------------------- MODULE HostMC -------------------------------
(***************************************************************************)
(* Model-checking / edge-export wrapper for Host (properties C09, C15,     *)
(* C08): the adversarial-renter environment.  For every field a handler    *)
(* checks the renter sends the honest value or a member of a corruption    *)
(* class; it may hang up at any round.  One module, three cfg families     *)
(* (Family = "roots" | "accounts" | "revisions").                          *)
(***************************************************************************)
EXTENDS Host, Json

CONSTANTS
    Family,
    InitSizes,        \* initial contract sizes (sectors 1..n stored and committed)
    NSectors,         \* sectors 1..NSectors are in the store initially
    UnknownSector,    \* a sector id that is never stored
    NewSector,        \* the sector id a write produces
    Allowance, Collateral, CPrice,   \* the formed contract, in units
    MaxNum,           \* bound on the revision number (CONSTRAINT)
    MaxIdxLen,        \* longest index list offered to free
    Edges,            \* TRUE: Leg R export -- one initial state, Setup action, one exchange per session
    PF, CF, SF, TF,   \* corruption classes offered (price table, challenge, signature, account token)
    Amts,          \* deposit amounts / targets offered
    Signers,          \* who may sign an attachment besides the right key
    RenewKinds,       \* {"renew", "refresh", "refreshpartial"} or a subset
    MaxExchanges,     \* Leg R export: exchanges started per path
    Dur,              \* remaining duration (blocks) of the formed contract
    TipChoices        \* Leg R export: chain tip heights a path is set up at, as (tip - proof height + 2)
                      \* (0: two blocks early, 1: the last block a revision can be made in, 2: exactly the proof
                      \* height, 3: past it, 147: past the expiration); a cfg cannot hold negative numbers

VARIABLES phase,      \* "setup" | "run"
          left        \* Leg R export: exchanges that may still be started
mcvars == <<vars, phase, left>>
mcview == <<view, phase, left>>

Formed(n) == [num |-> 0, rout |-> Allowance, hout |-> Collateral + CPrice, missed |-> Collateral,
              coll |-> Collateral, size |-> n, cap |-> n, commit |-> [i \in 1..n |-> i],
              ph |-> 100, eh |-> 244, dur |-> Dur, rk |-> "rk", hk |-> "hk"]

Start(n) ==
    /\ rev = Formed(n)
    /\ sigs = [r |-> rev, h |-> rev]
    /\ roots = [i \in 1..n |-> i]
    /\ stored = 1..NSectors
    /\ acct = [a \in Accounts |-> 0]
    /\ pool = [p \in Pools |-> 0]
    /\ pex = {}
    /\ att = [a \in Accounts |-> <<>>]
    /\ lock = 0
    /\ olds = <<>>
    /\ tipd = -2
    /\ sess = [s \in Sessions |-> IdleS]
    /\ act = [op |-> "Init"]
    /\ reply = NoneR
    /\ calls = <<>>

MCInit ==
    IF Edges THEN Start(0) /\ phase = "setup" /\ left = MaxExchanges
    ELSE (\E n \in InitSizes : Start(n)) /\ phase = "run" /\ left = 0

(* Leg R only: bring a fresh real contract to n sectors and (accounts family) install a ledger
   state -- account / pool balances and attachments -- through the Contractor interface *)
Costs == {PVerify, PWstor + PIngr4k}
Led(b, q1, q2, at) == [b |-> b, q1 |-> q1, q2 |-> q2, at |-> at]
OwnAmts == {0, PEgr, 2 * PEgr, 2 * PEgr + 1} \cup UNION {{c - 1, c, c + 1} : c \in Costs}
Ledgers ==
    IF Family = "accounts" /\ Edges
    THEN {Led(b, 0, 0, <<>>) : b \in OwnAmts}
         \cup UNION {{Led(c - 1, 0, 0, <<"p1">>), Led(c - 1, 1, 0, <<"p1">>), Led(c - 2, 1, 1, <<"p1", "p2">>),
                      Led(0, c, 0, <<"p1">>), Led(0, c - 1, 0, <<"p1">>), Led(0, c - 1, 5, <<"p1", "p2">>),
                      Led(0, c - 1, 5, <<"p2", "p1">>), Led(0, c, 0, <<>>), Led(1, c, 7, <<"p2", "p1">>)} : c \in Costs}
    ELSE {Led(0, 0, 0, <<>>)}

Setup(n, L, t) ==
    /\ phase = "setup"
    /\ phase' = "run"
    /\ rev' = Formed(n)
    /\ sigs' = [r |-> rev', h |-> rev']
    /\ roots' = [i \in 1..n |-> i]
    /\ IF L = Led(0, 0, 0, <<>>)
       THEN UNCHANGED <<acct, pool, pex, att>>
       ELSE /\ acct' = [acct EXCEPT !["a1"] = L.b]
            /\ pool' = [pool EXCEPT !["p1"] = L.q1, !["p2"] = L.q2]
            /\ pex' = {p \in Pools : pool'[p] > 0} \cup Range(L.at)
            /\ att' = [att EXCEPT !["a1"] = L.at]
    /\ act' = [op |-> "Setup", n |-> n, t |-> t]
    /\ reply' = NoneR
    /\ calls' = <<>>
    /\ tipd' = t
    /\ UNCHANGED <<stored, lock, olds, sess, left>>

-----------------------------------------------------------------------------
(* what the renter may send *)

IdxChoices == UNION {[1..k -> 0..rev.size] : k \in 0..Min(MaxIdxLen, rev.size + 1)}
U == UnknownSector
SecChoices == {<<>>, <<1>>, <<2, 1>>, <<U>>, <<U, 2>>, <<1, U, 1>>}
OffLen == (0..(rev.size + 1)) \X (0..(rev.size + 1))

OneDep == {<<[a |-> a, n |-> n]>> : a \in Accounts, n \in Amts}
DepChoices ==
    OneDep \cup {<<>>}
    \cup {<<[a |-> a, n |-> 0]>> : a \in Accounts}
    \cup {<<[a |-> a1, n |-> n], [a |-> a2, n |-> n]>> : a1 \in Accounts, a2 \in Accounts, n \in {CHOOSE x \in Amts : TRUE}}

AccLists(S) == {<<>>} \cup {<<a>> : a \in S} \cup {<<a, b>> : a \in S, b \in S}
Targets == Amts \cup {0}

Entry(a, p, by, vf) == [a |-> a, p |-> p, by |-> by, vf |-> vf]
VF == {"ok", "expired", "wronghost"}
AttachChoices ==
    {<<>>}
    \cup {<<Entry(a, p, by, vf)>> : a \in Accounts, p \in Pools, by \in (Accounts \cup Pools \cup Signers), vf \in VF}
    \cup {<<Entry(a, p, p, "ok"), Entry(a, q, q, "ok")>> : a \in Accounts, p \in Pools, q \in Pools}
    \cup {<<Entry(a, p, p, "ok"), Entry(a, q, "x", "ok")>> : a \in Accounts, p \in Pools, q \in Pools}
DetachChoices ==
    {<<>>}
    \cup {<<Entry(a, p, by, vf)>> : a \in Accounts, p \in Pools, by \in (Accounts \cup Pools \cup Signers), vf \in VF}
    \* batches: every entry takes effect on its own, also next to entries that are no-ops (never attached,
    \* already detached) in any position, or not at all if one entry is not authorised
    \cup {<<Entry(a, p, p, "ok"), Entry(b, q, q, "ok")>> : a \in Accounts, b \in Accounts, p \in Pools, q \in Pools}
    \cup {<<Entry(a, p, a, "ok"), Entry(b, q, "x", "ok")>> : a \in Accounts, b \in Accounts, p \in Pools, q \in Pools}

ReadUnits == {0, 1, 2}
SecIds == {1, UnknownSector}
\* token / price-table classes: at most one corrupted field per request
TP == {<<tf, "ok">> : tf \in TF} \cup {<<"ok", pf>> : pf \in PF}

-----------------------------------------------------------------------------

RootsBegin(s) ==
    \/ \E idx \in IdxChoices, pf \in PF, cf \in CF : BeginFree(s, idx, pf, cf)
    \/ \E secs \in SecChoices, pf \in PF, cf \in CF : BeginAppend(s, secs, pf, cf)
    \/ \E ol \in OffLen : BeginRoots(s, ol[1], ol[2], "ok", "ok")
RootsRound2(s) ==
    \/ \E sf \in SF : Round2Free(s, sf)
    \/ \E sf \in SF : Round2Append(s, sf)

\* amounts near the top of the 128-bit range (the harness builds the real lists)
AFund == {"ovfLast", "ovfMid", "tooBig"}
ARepl == {"ovfLast", "ovfMid"}
AnyAcc == CHOOSE a \in Accounts : TRUE
AnyPool == CHOOSE p \in Pools : TRUE
OvfDeps == <<[a |-> AnyAcc, n |-> 1], [a |-> AnyAcc, n |-> 1], [a |-> AnyAcc, n |-> 1]>>
OvfBegin(s) ==
    \/ \E af \in AFund : BeginFund(s, OvfDeps, "ok", af)
    \/ \E af \in ARepl : BeginRepl(s, "accts", <<AnyAcc>>, 1, "ok", af)
    \/ \E af \in ARepl : BeginRepl(s, "pools", <<AnyPool>>, 1, "ok", af)

AccountsBegin(s) ==
    \/ OvfBegin(s)
    \/ \E deps \in DepChoices, sf \in SF : BeginFund(s, deps, sf, "ok")
    \/ \E accs \in AccLists(Accounts), t \in Targets, cf \in CF : BeginRepl(s, "accts", accs, t, cf, "ok")
    \/ \E accs \in AccLists(Pools), t \in Targets, cf \in CF : BeginRepl(s, "pools", accs, t, cf, "ok")
    \/ \E b \in AttachChoices : BeginAttach(s, b)
    \/ \E b \in DetachChoices : BeginDetach(s, b)
    \/ \E a \in Accounts, sec \in SecIds, u \in ReadUnits, tp \in TP : BeginRead(s, a, sec, u, tp[1], tp[2])
    \/ \E a \in Accounts, sec \in SecIds, tp \in TP : BeginVerify(s, a, sec, tp[1], tp[2])
    \/ \E a \in Accounts, u \in {0, 1}, tp \in TP : BeginWrite(s, a, NewSector, u, tp[1], tp[2])
    \/ \E a \in Accounts : BeginBalance(s, a)
    \/ \E a \in Accounts, part \in 0..3 : PartialWrite(s, a, 1, part)
AccountsRound2(s) == \E sf \in SF \cup {"dedup"} : Round2Repl(s, sf)

\* the host's part of a renewal (model checking: one plausible choice; the property is silent on it)
XOf(kind, C) ==
    [hout |-> IF kind = "refresh" THEN rev.hout + C + CPrice ELSE C + CPrice,
     coll |-> IF kind = "refresh" THEN rev.coll + C ELSE C,
     ph |-> IF kind = "renew" THEN rev.ph + 10 ELSE rev.ph,
     eh |-> IF kind = "renew" THEN rev.eh + 10 ELSE rev.eh,
     dur |-> IF kind = "renew" THEN rev.dur + 10 ELSE rev.dur]

RevisionsBegin(s) ==
    \/ \E idx \in {<<>>, <<0>>, <<1, 0>>, <<0, 0>>, <<rev.size>>}, pf \in PF, cf \in CF : BeginFree(s, idx, pf, cf)
    \/ \E secs \in {<<1>>, <<U, 2>>}, pf \in PF, cf \in CF : BeginAppend(s, secs, pf, cf)
    \/ \E ol \in {<<0, 1>>, <<1, 1>>, <<0, 0>>, <<1, rev.size>>}, pf \in PF, sf \in SF : BeginRoots(s, ol[1], ol[2], pf, sf)
    \/ BeginLatest(s)
    \/ OvfBegin(s)
    \/ \E deps \in OneDep, sf \in SF : BeginFund(s, deps, sf, "ok")
    \/ \E a \in Accounts, t \in Amts, cf \in CF : BeginRepl(s, "accts", <<a>>, t, cf, "ok")
    \/ \E p \in Pools, t \in Amts, cf \in CF : BeginRepl(s, "pools", <<p>>, t, cf, "ok")
    \* an account / pool listed more than once is topped up (and paid for) once
    \* (replay export only: in model checking the accounts family covers it)
    \/ Edges /\ \E t \in Amts : BeginRepl(s, "pools", <<AnyPool, AnyPool, AnyPool>>, t, "ok", "ok")
    \/ Edges /\ \E t \in Amts : BeginRepl(s, "accts", <<AnyAcc, AnyAcc>>, t, "ok", "ok")
    \/ \E kind \in RenewKinds, pf \in PF, cf \in CF, rf \in {"ok", "bad", "poolbad"} : BeginRenew(s, kind, pf, cf, rf, Allowance, Collateral)
RevisionsRound2(s) ==
    \/ \E sf \in SF : Round2Free(s, sf)
    \/ \E sf \in SF : Round2Append(s, sf)
    \/ \E sf \in SF \cup {"dedup"} : Round2Repl(s, sf)
    \/ \E sf \in SF \cup {"badinput"} : Round2Renew(s, sf, XOf(sess[s].kind, sess[s].coll))

\* Leg R, second renter: a few honest requests racing the first renter's exchange
SmallBegin(s) ==
    \/ BeginFund(s, <<[a |-> CHOOSE a \in Accounts : TRUE, n |-> 1]>>, "ok", "ok")
    \/ BeginFree(s, <<0>>, "ok", "ok")
    \/ BeginAppend(s, <<1>>, "ok", "ok")
    \/ BeginRoots(s, 0, 1, "ok", "ok")
    \/ BeginLatest(s)
    \/ BeginRepl(s, "accts", <<CHOOSE a \in Accounts : TRUE>>, 2, "ok", "ok")

\* Leg R near the deadline (tip at proof height - 1, exactly at it, past it, past the expiration): one honest
\* request of every kind
HonestBegin(s) ==
    \/ BeginFund(s, <<[a |-> AnyAcc, n |-> 1]>>, "ok", "ok")
    \/ BeginRepl(s, "accts", <<AnyAcc>>, 2, "ok", "ok")
    \/ BeginRepl(s, "pools", <<AnyPool>>, 2, "ok", "ok")
    \/ BeginFree(s, <<0>>, "ok", "ok")
    \/ BeginAppend(s, <<1>>, "ok", "ok")
    \/ BeginRoots(s, 0, 1, "ok", "ok")
    \/ BeginLatest(s)
    \/ \E kind \in RenewKinds : BeginRenew(s, kind, "ok", "ok", "ok", Allowance, Collateral)

FamilyBegin(s) ==
    CASE Edges /\ tipd > -2 -> HonestBegin(s)
      [] Family = "roots" -> RootsBegin(s)
      [] Family = "accounts" -> AccountsBegin(s)
      [] Family = "revisions" -> RevisionsBegin(s)
      [] OTHER -> FALSE
FamilyRound2(s) ==
    CASE Family = "roots" -> RootsRound2(s)
      [] Family = "accounts" -> AccountsRound2(s)
      [] Family = "revisions" -> RevisionsRound2(s)
      [] OTHER -> FALSE

First == CHOOSE s \in Sessions : \A t \in Sessions : s <= t

\* model checking: every session may start anything, any number of times.
\* Leg R export: at most MaxExchanges exchanges; the first renter starts first with the full
\* adversarial alphabet, the others race it with a few honest requests.
StartOK(s) == ~Edges \/ (left > 0 /\ (s = First <=> left = MaxExchanges))
BeginOf(s) == IF Edges /\ s # First THEN SmallBegin(s) ELSE (Truncated(s) \/ FamilyBegin(s))

MCNext ==
    \/ (\E n \in InitSizes, L \in Ledgers, t \in {x - 2 : x \in TipChoices} : Setup(n, L, t))
    \* model checking: time passes between exchanges, from "early" to exactly the proof height to past it
    \/ /\ phase = "run" /\ ~Edges /\ Family = "revisions"
       /\ (IF tipd < 0 THEN Mine(-tipd) ELSE tipd < 1 /\ Mine(1))
       /\ UNCHANGED <<phase, left>>
    \/ /\ phase = "run"
       /\ UNCHANGED phase
       /\ \E s \in Sessions :
            \/ (Deliver(s) \/ Finish(s) \/ Abort(s) \/ FamilyRound2(s)) /\ UNCHANGED left
            \/ /\ Idle(s)
               /\ StartOK(s)
               /\ BeginOf(s)
               /\ left' = IF Edges THEN left - 1 ELSE left

MCSpec == MCInit /\ [][MCNext]_mcvars

\* the commit budget counts the commits on the replaced contract, the renewal itself and the commits on the
\* renewal; at most one renewal
Commits == IF olds = <<>> THEN rev.num ELSE olds[1].rev.num + 1 + rev.num
Bound == Commits <= MaxNum /\ Len(olds) <= 1

\* Leg R export: every explored transition as one JSON line (ACTION_CONSTRAINT)
Proj(r, rt, st, ac, po, px, at, lk, rn, se, ph, lf, td) ==
    [tipd |-> td, rev |-> r, roots |-> rt, stored |-> st, acct |-> ac, pool |-> po, pex |-> px, att |-> at,
     lock |-> lk, olds |-> rn, sess |-> se, phase |-> ph, left |-> lf]
EmitEdge ==
    PrintT("EDGE " \o ToJson([
        from |-> Proj(rev, roots, stored, acct, pool, pex, att, lock, olds, sess, phase, left, tipd),
        act |-> act', reply |-> reply', calls |-> calls',
        to |-> Proj(rev', roots', stored', acct', pool', pex', att', lock', olds', sess', phase', left', tipd')]))

\* the list-model lemma as a (state-independent) invariant, for its own cfg
ListModelLemma == ListModelUpTo(MaxIdxLen)
ListModelAnyOrder == ListModelAnyOrderUpTo(MaxIdxLen)
=============================================================================
