------------------------------ MODULE HostTrace ------------------------------
(***************************************************************************)
(* Trace validation for Host (properties C09, C15, C08; Leg T).  Every     *)
(* event recorded from the REAL host must be explainable as the Host       *)
(* action of the same name with exactly the logged arguments, reply,       *)
(* contractor / sector-store calls and (whenever the contract lock is      *)
(* free, so that LockV2Contract can be used to look) post-state.           *)
(*                                                                         *)
(* The NDJSON file ($TRACE) concatenates many traces separated by Reset    *)
(* events that install the initial state of the next trace.               *)
(*                                                                         *)
(* Two vocabularies:                                                       *)
(*   RPC level   (sequential drivers): Begin* / Deliver / Round2* /        *)
(*               Finish / Abort / Truncated, one event per stream step     *)
(*   call level  (concurrent driver, 2-4 renter goroutines on one          *)
(*               contract): Lock / Commit / Unlock, one event per call the *)
(*               server makes on the recording Contractor, in the order of *)
(*               the recorder's sequence numbers                           *)
(***************************************************************************)
EXTENDS Host, Json, IOUtils

Log == ndJsonDeserialize(IOEnv.TRACE)
N == Len(Log)

VARIABLES l,       \* next line to consume
          holder   \* call level: lock epoch holding the contract lock (0 = free)
tvars == <<vars, l, holder>>

Ev == Log[l]
Step(op) == l <= N /\ Ev.op = op /\ l' = l + 1

RevOf(r) == [num |-> r.num, rout |-> r.rout, hout |-> r.hout, missed |-> r.missed, coll |-> r.coll,
             size |-> r.size, cap |-> r.cap, commit |-> r.roots, ph |-> r.ph, eh |-> r.eh, dur |-> r.dur, rk |-> r.rk, hk |-> r.hk]

ToSet(seq) == {seq[i] : i \in DOMAIN seq}

\* what the harness observed after the step (only while no handler holds the contract lock):
\* the contractor's roots, the revision's scalars, flags computed with core
\*   match  MetaRoot(roots) = FileMerkleRoot and len(roots) * SectorSize = Filesize
\*   sigs   both signatures verify over exactly the latest revision
\*   exact  every amount is a whole number of units
\*   chain  a revision transaction built from it is acceptable to consensus
PostOK ==
    IF Ev.obs
    THEN /\ Ev.st.match /\ Ev.st.sigs /\ Ev.st.exact /\ Ev.st.chain
         /\ roots' = Ev.st.roots
         /\ rev' = RevOf(Ev.st)
         /\ acct' = Ev.st.acct
         /\ pool' = Ev.st.pool
         /\ att' = Ev.st.att
         /\ ~Ev.st.renewed
         /\ tipd' = Ev.st.tipd
         /\ Ev.st.others      \* every contract this one was renewed from is still exactly as it was frozen
         /\ lock' = 0
    ELSE TRUE

\* events of concurrent histories carry "nocalls": the calls of two handlers running at the same time cannot be
\* attributed to one of them
Same == reply' = Ev.reply /\ ("nocalls" \in DOMAIN Ev \/ calls' = Ev.calls) /\ PostOK

TraceInit ==
    /\ l = 1
    /\ holder = 0
    /\ rev = [num |-> 0, rout |-> 0, hout |-> 0, missed |-> 0, coll |-> 0, size |-> 0, cap |-> 0, commit |-> <<>>,
              ph |-> 0, eh |-> 0, dur |-> 1, rk |-> "rk", hk |-> "hk"]
    /\ sigs = [r |-> rev, h |-> rev]
    /\ roots = <<>>
    /\ stored = {}
    /\ acct = [a \in Accounts |-> 0]
    /\ pool = [p \in Pools |-> 0]
    /\ pex = {}
    /\ att = [a \in Accounts |-> <<>>]
    /\ lock = 0
    /\ olds = <<>>
    /\ tipd = -2
    /\ sess = [s \in Sessions |-> IdleS]
    /\ act = [op |-> "Init"]
    /\ reply = NoneR
    /\ calls = <<>>

TReset ==
    /\ Step("Reset")
    /\ Ev.st.match /\ Ev.st.sigs /\ Ev.st.exact /\ Ev.st.others
    /\ Ev.up = [free |-> PFree, storb |-> PStorB, ingr |-> PIngr, collb |-> PCollB, roots |-> PRoots, egr4k |-> PEgr,
                wstor |-> PWstor, ingr4k |-> PIngr4k, verify |-> PVerify]
    /\ rev' = RevOf(Ev.st)
    /\ sigs' = [r |-> rev', h |-> rev']
    /\ roots' = Ev.st.roots
    /\ stored' = ToSet(Ev.stored)
    /\ acct' = Ev.st.acct
    /\ pool' = Ev.st.pool
    /\ pex' = ToSet(Ev.pex)
    /\ att' = Ev.att
    /\ lock' = 0
    /\ holder' = 0
    /\ olds' = <<>>
    /\ tipd' = Ev.tipd
    /\ sess' = [s \in Sessions |-> IdleS]
    /\ act' = [op |-> "Reset"]
    /\ reply' = NoneR
    /\ calls' = <<>>

(* RPC level *)
RPC(A) == A /\ Same /\ UNCHANGED holder

TMine      == Step("Mine")      /\ RPC(Mine(Ev.n))
TDeliver   == Step("Deliver")   /\ RPC(Deliver(Ev.s))
TFinish    == Step("Finish")    /\ RPC(Finish(Ev.s))
TAbort     == Step("Abort")     /\ RPC(Abort(Ev.s))
TTruncated == Step("Truncated") /\ RPC(Truncated(Ev.s))
TPartialWrite == Step("PartialWrite") /\ RPC(PartialWrite(Ev.s, Ev.a, Ev.units, Ev.part))
\* a block confirming an EARLIER fully signed revision of the contract is mined and applied to the contractor
\* (the chain subscriber): time passes, nothing else -- the host's latest revision never goes backwards
TConfirm   == Step("Confirm")   /\ RPC(Mine(1))
TBeginFree    == Step("BeginFree")    /\ RPC(BeginFree(Ev.s, Ev.idx, Ev.pf, Ev.cf))
TRound2Free   == Step("Round2Free")   /\ (RPC(Round2Free(Ev.s, Ev.sf)) \/ RPC(Ignored(Ev.s)))
TBeginAppend  == Step("BeginAppend")  /\ RPC(BeginAppend(Ev.s, Ev.secs, Ev.pf, Ev.cf))
TRound2Append == Step("Round2Append") /\ (RPC(Round2Append(Ev.s, Ev.sf)) \/ RPC(Ignored(Ev.s)))
TBeginRoots   == Step("BeginRoots")   /\ RPC(BeginRoots(Ev.s, Ev.off, Ev.len, Ev.pf, Ev.sf))
TBeginLatest  == Step("BeginLatest")  /\ RPC(BeginLatest(Ev.s))
TBeginFund    == Step("BeginFund")    /\ RPC(BeginFund(Ev.s, Ev.deps, Ev.sf, Ev.af))
TBeginRepl    == Step("BeginRepl")    /\ RPC(BeginRepl(Ev.s, Ev.kind, Ev.accs, Ev.target, Ev.cf, Ev.af))
TRound2Repl   == Step("Round2Repl")   /\ (RPC(Round2Repl(Ev.s, Ev.sf)) \/ RPC(Ignored(Ev.s)))
TBeginAttach  == Step("BeginAttach")  /\ RPC(BeginAttach(Ev.s, Ev.b))
TBeginDetach  == Step("BeginDetach")  /\ RPC(BeginDetach(Ev.s, Ev.b))
TBeginRead    == Step("BeginRead")    /\ RPC(BeginRead(Ev.s, Ev.a, Ev.sec, Ev.units, Ev.tf, Ev.pf))
TBeginVerify  == Step("BeginVerify")  /\ RPC(BeginVerify(Ev.s, Ev.a, Ev.sec, Ev.tf, Ev.pf))
TBeginWrite   == Step("BeginWrite")   /\ RPC(BeginWrite(Ev.s, Ev.a, Ev.sec, Ev.units, Ev.tf, Ev.pf))
TBeginBalance == Step("BeginBalance") /\ RPC(BeginBalance(Ev.s, Ev.a))
TBeginRenew   == Step("BeginRenew")   /\ RPC(BeginRenew(Ev.s, Ev.kind, Ev.pf, Ev.cf, Ev.rf, Ev.na, Ev.nc))
TRound2Renew  == Step("Round2Renew")  /\ (RPC(Round2Renew(Ev.s, Ev.sf, Ev.x)) \/ RPC(Ignored(Ev.s)))

(* call level (concurrent renters).  The recorder sees, in one total order:
     Lock(ok, epoch)   LockV2Contract granted (ok) or refused
     Commit(epoch..)   ReviseV2Contract / Credit*WithContract with the revision handed over, what
                       the harness (using core) found about it, and the priced cost of the request
                       of the goroutine whose signature it carries
     Unlock(epoch)     the unlock function of that lock epoch                                     *)
Quiet == UNCHANGED <<sess, reply, calls>>

TLock ==
    /\ Step("Lock")
    /\ act' = [op |-> "Lock", s |-> Ev.epoch]
    /\ IF Ev.ok
       THEN holder = 0 /\ holder' = Ev.epoch           \* SerialisedPerContract: granted only when free
       ELSE holder # 0 /\ holder' = holder             \* the loser is refused (allowed); never refused when free
    /\ UNCHANGED data /\ UNCHANGED lock /\ Quiet

TUnlock ==
    /\ Step("Unlock")
    /\ act' = [op |-> "Unlock", s |-> Ev.epoch]
    /\ holder = Ev.epoch
    /\ holder' = 0
    /\ UNCHANGED data /\ UNCHANGED lock /\ Quiet

\* a commit: the revision handed to the contractor must be the current one paid forward by
\* exactly the priced cost of a request some renter really signed (matched = the harness found
\* that request), doubly signed, and with roots that hash to it
TCommit ==
    /\ Step("Commit")
    /\ act' = [op |-> "Commit", s |-> Ev.epoch, cost |-> Ev.cost, kind |-> Ev.kind]
    /\ holder = Ev.epoch /\ holder # 0                 \* commits only under the lock
    /\ Ev.matched /\ Ev.st.sigs /\ Ev.st.match /\ Ev.st.exact /\ Ev.st.chain
    /\ CanPay(rev, Ev.cost, Ev.collat)
    /\ rev' = [Pay(rev, Ev.cost, Ev.collat) EXCEPT !.size = Ev.st.size, !.cap = Ev.st.cap, !.commit = Ev.st.roots]
    /\ rev' = RevOf(Ev.st)
    /\ Ev.st.size <= Ev.st.cap /\ Ev.st.cap >= rev.cap
    /\ sigs' = [r |-> rev', h |-> rev']
    /\ roots' = Ev.st.roots
    /\ acct' = Ev.st.acct
    /\ pool' = Ev.st.pool
    /\ TotalBal' - TotalBal = (IF Ev.kind \in {"CA", "CP"} THEN Ev.cost ELSE 0)
    /\ UNCHANGED <<stored, pex, att, olds, tipd, lock, holder>> /\ Quiet

TraceNext ==
    \/ TReset \/ TMine \/ TConfirm \/ TPartialWrite \/ TDeliver \/ TFinish \/ TAbort \/ TTruncated
    \/ TBeginFree \/ TRound2Free \/ TBeginAppend \/ TRound2Append \/ TBeginRoots \/ TBeginLatest
    \/ TBeginFund \/ TBeginRepl \/ TRound2Repl \/ TBeginAttach \/ TBeginDetach
    \/ TBeginRead \/ TBeginVerify \/ TBeginWrite \/ TBeginBalance
    \/ TBeginRenew \/ TRound2Renew
    \/ TLock \/ TUnlock \/ TCommit

TraceSpec == TraceInit /\ [][TraceNext]_tvars

\* high-water mark of consumed lines (needs -workers 1)
ASSUME TLCSet(1, 0)
HWM == TLCSet(1, IF l - 1 > TLCGet(1) THEN l - 1 ELSE TLCGet(1))
TraceAccepted ==
    /\ PrintT(<<"HWM", TLCGet(1), "of", N>>)
    /\ TLCGet(1) = N
=============================================================================
