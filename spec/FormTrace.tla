------------------------------ MODULE FormTrace ------------------------------
(***************************************************************************)
(* Trace validation for Form (property C16, Leg T).  The NDJSON file       *)
(* ($TRACE) holds, per attempt executed on the real renter and host code:  *)
(*   Start  the descriptor                                                 *)
(*   C      one line per observable call of either party, in the order it  *)
(*          really happened: rFund dial rRelease (renter's wallet and      *)
(*          transport), hFund hPool hRecord hBcast hRelease (the host's    *)
(*          wallet, pool, contractor)                                      *)
(*   End    what was observed afterwards on both wallets and the contractor*)
(*   Mine   a block with whatever reached the network                      *)
(* Every line must be explainable as the Form action with that label and   *)
(* result; message passing and checks (labels in Silent) are not logged    *)
(* and may happen between any two lines.  Traces are separated by Reset.   *)
(***************************************************************************)
EXTENDS Form, Json, IOUtils

Log == ndJsonDeserialize(IOEnv.TRACE)
N == Len(Log)

VARIABLE l          \* next line to consume
tvars == <<vars, l>>

Ev == Log[l]
Consume(op) == l <= N /\ Ev.op = op /\ l' = l + 1

TraceInit == Init /\ l = 1

TReset ==
    /\ Consume("Reset")
    /\ rpc = "idle"
    /\ n' = 0 /\ d' = NoDesc /\ rpc' = "idle" /\ hpc' = "idle"
    /\ up' = <<>> /\ down' = <<>> /\ link' = "down"
    /\ rRes' = {} /\ hRes' = {} /\ hCon' = {0} /\ rCon' = {0} /\ dead' = {} /\ pool' = {} /\ net' = {} /\ mined' = {0}
    /\ act' = 0
    /\ out' = [r |-> "none", com |-> FALSE]
    /\ snap' = [rRes |-> {}, hRes |-> {}, hCon |-> {0}, dead |-> {}, act |-> 0]
    /\ streak' = [k |-> 0, rRes |-> {}, hRes |-> {}]
    /\ lbl' = Lbl("Init", "ok")

TStart == Consume("Start") /\ RStart(Ev.d)

TCall ==
    /\ Consume("C")
    /\ (RenterNext \/ HostNext)
    /\ lbl'.op = Ev.c /\ lbl'.res = Ev.res

\* unlogged steps
TSilent ==
    /\ l <= N /\ l' = l
    /\ (RenterNext \/ HostNext)
    /\ lbl'.op \in Silent

TEnd ==
    /\ Consume("End")
    /\ End
    /\ out.r = Ev.r /\ out.com = Ev.com
    /\ (n \in hRes) = Ev.hheld /\ (n \in rRes) = Ev.rheld
    /\ (n \in hCon) = Ev.hrec
    /\ (snap.act \in dead) = Ev.actdead

TMine == Consume("Mine") /\ Mine /\ Cardinality(net) = Ev.k

TraceNext == TReset \/ TStart \/ TCall \/ TSilent \/ TEnd \/ TMine
TraceSpec == TraceInit /\ [][TraceNext]_tvars

\* high-water mark of consumed lines (needs -workers 1)
ASSUME TLCSet(1, 0)
HWM == TLCSet(1, IF l - 1 > TLCGet(1) THEN l - 1 ELSE TLCGet(1))
TraceAccepted ==
    /\ PrintT(<<"HWM", TLCGet(1), "of", N>>)
    /\ TLCGet(1) = N
=============================================================================
