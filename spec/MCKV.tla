------------------------------ MODULE MCKV ------------------------------
(* Model-checking / edge-export wrapper for KV (property C17). *)
EXTENDS KV, Json, Sequences

\* Printed once per explored transition (evaluated as ACTION_CONSTRAINT);
\* tools/vlib.py collects the lines and builds the edge-covering path set.
EmitEdge ==
    PrintT("EDGE " \o ToJson([from |-> [cur |-> cur, dur |-> dur],
                              act |-> act', reply |-> reply',
                              to |-> [cur |-> cur', dur |-> dur']]))
=============================================================================
