------------------------------ MODULE SeedTrace ------------------------------
(***************************************************************************)
(* Leg T of C20: validates calls recorded from the REAL wallet functions   *)
(* (encodeBIP39Phrase, decodeBIP39Phrase, SeedFromPhrase, NewSeedPhrase,   *)
(* KeyFromSeed) at full size (EB = 128, CB = 4, WB = 11).  Every NDJSON    *)
(* line ($TRACE) is one call with its arguments and results; it is bound   *)
(* to the corresponding call action of Seed, which computes the specified  *)
(* result and judges every clause of the property.  Reset starts a new     *)
(* group (histories emptied; `pin` keeps the finished group as P).         *)
(*                                                                         *)
(* StrictSpec (bulk): a call that breaks a clause has no successor, TLC    *)
(* stops consuming and the POSTCONDITION fails; the high-water mark is the *)
(* offending line.  TraceSpec + INVARIANTS (diagnosis of the offending     *)
(* group only): names the clause.                                          *)
(*                                                                         *)
(* Event fields.  Enc: e (entropy bits), c (harness SHA-256 nibble bits),  *)
(* wf, w (indices of the returned words).  Dec: t (token indices, -1 =     *)
(* not a list word), eb/c (harness packing of t and its nibble; [] if t is *)
(* not 12 list words), ok, d (decoded entropy bits), sok, s (SeedFromPhrase*)
(* result, hex).  New: t, eb, c, canon.  Key: s, i (decimal string), k, a. *)
(* Sfp (SeedFromPhrase alone): t, eb, c, sok, s.  Var: t.  Reset: pin.     *)
(***************************************************************************)
EXTENDS Seed, Json, IOUtils

Log == ndJsonDeserialize(IOEnv.TRACE)
N   == Len(Log)

VARIABLE l          \* next line to consume
tvars == <<svars, l>>
tview == l          \* the state is a function of the position in the log: fingerprint only that

Ev == Log[l]
Step(op) == l <= N /\ Ev.op = op /\ l' = l + 1

SuppliedOK(t, eb, c) == IF WellFormed(t) THEN eb \in Ent /\ c \in CSum ELSE eb = <<>> /\ c = <<>>

TReset == Step("Reset") /\ ResetCall(Ev.pin)
TEnc   == /\ Step("Enc") /\ Ev.e \in Ent /\ Ev.c \in CSum
          /\ EncCall(Ev.e, Ev.c, [wf |-> Ev.wf, w |-> Ev.w])
TDec   == /\ Step("Dec") /\ SuppliedOK(Ev.t, Ev.eb, Ev.c)
          /\ DecCall(Ev.t, Ev.eb, Ev.c, [ok |-> Ev.ok, d |-> Ev.d], [ok |-> Ev.sok, s |-> Ev.s])
TSfp   == /\ Step("Sfp") /\ SuppliedOK(Ev.t, Ev.eb, Ev.c)
          /\ SfpCall(Ev.t, Ev.eb, Ev.c, [ok |-> Ev.sok, s |-> Ev.s])
TNew   == /\ Step("New") /\ SuppliedOK(Ev.t, Ev.eb, Ev.c)
          /\ NewCall(Ev.t, Ev.eb, Ev.c, Ev.canon)
TKey   == Step("Key") /\ KeyCall(Ev.s, Ev.i, <<Ev.k, Ev.a>>)
TVar   == Step("Var") /\ VarCall(Ev.t)

TraceNext == TReset \/ TEnc \/ TDec \/ TSfp \/ TNew \/ TKey \/ TVar

TraceInit  == Init /\ l = 1
TraceSpec  == TraceInit /\ [][TraceNext]_tvars
StrictSpec == TraceInit /\ [][TraceNext /\ Contract' /\ Property']_tvars

\* high-water mark of consumed lines (needs -workers 1)
ASSUME TLCSet(1, 0)
HWM == TLCSet(1, IF l - 1 > TLCGet(1) THEN l - 1 ELSE TLCGet(1))
TraceAccepted ==
    /\ PrintT(<<"HWM", TLCGet(1), "of", N>>)
    /\ TLCGet(1) = N
=============================================================================
