---------------------------- MODULE WalletLedger ----------------------------
(***************************************************************************)
(* Property C06: the single-address wallet's ledger (wallet/update.go:     *)
(* UpdateChainState / applyChainUpdate / revertChainUpdate over a          *)
(* SingleAddressStore, reference store testutil/wallet.go) equals the      *)
(* chain's truth for its address across reorgs, in any chunking of the     *)
(* update stream.                                                          *)
(*                                                                         *)
(* The chain side is the fork tree of Chain.tla restricted to what a       *)
(* subscriber can see: the manager's tip moves from one valid block to a   *)
(* sufficiently heavier valid block (Adopt = a completed AddBlocks call of *)
(* Chain.tla, whatever happened inside it), and the stream is Chain.tla's  *)
(* Poll action = Manager.UpdatesSince (chain/manager.go:555-597) on a      *)
(* store that was never pruned.                                            *)
(*                                                                         *)
(* A tree is a CONSTANT record produced by the materialiser from REAL      *)
(* blocks (harness/mat + harness/walletledx/oracle.go, using only          *)
(* go.sia.tech/core): parent, height, validity, the heavier relation of    *)
(* the real states and, per block b, FOR ONE ADDRESS (the wallet's):       *)
(*   wc[b]  outputs created paying the address                             *)
(*          <<id, value, maturity height, leaf index>>                     *)
(*   ws[b]  outputs of the address spent          (same tuples)            *)
(*   we[b]  events [id, in, out, tag]                                      *)
(* Values are residues modulo P (TLC integers are 32 bit; sums commute     *)
(* with the reduction, the exact equation is checked on the real wallet).  *)
(* Event tags: "both" -- demanded by the property and produced by the rule *)
(* of wallet/update.go; "ideal:x" -- demanded by the property (the created *)
(* output pays the address) but not produced by that rule; "impl:x" --     *)
(* produced by the rule although the output pays somebody else.  x names   *)
(* the deviation: "claim" (siafund claim keyed on the siafund owner, and   *)
(* only inside transactions that move the wallet's siacoins) and "renewal" *)
(* (v2 renewal payouts keyed on the contract's renter/host address while   *)
(* the final outputs may pay any address).                                 *)
(*                                                                         *)
(* The manager option of the world is part of the tree record: pinMode     *)
(* ("" or the permutation chain.WithExpiringContractOrder pins) and pin[b],*)
(* the order of the v1 contracts expiring in block b.  The accumulator is  *)
(* below the abstraction; what the option decides at this level is the     *)
(* LEAF INDEX of every missed-proof output of such a block, and the leaf   *)
(* indices in wc/ws are those of the pinned order (computed by the ledger  *)
(* that applies the block with exactly that order).  A wallet fed an       *)
(* update computed with another order stores other leaf indices: the state *)
(* comparison of Leg R / Leg T rejects it; that every stored proof verifies*)
(* at the tip is the audited boolean of the harness (ProofsVerify).        *)
(*                                                                         *)
(* One action per call of the real code:                                   *)
(*   Adopt(to)    AddBlocks made `to` the tip                              *)
(*   Chunk(max)   rus, aus := UpdatesSince(wTip, max);                     *)
(*                store.UpdateChainState(UpdateChainState(tx, rus, aus))   *)
(*                = ChunkRevert over rus, then ChunkApply over aus.        *)
(* Chunk boundaries are arbitrary: a chunk may end on a revert, leaving    *)
(* the wallet on a block that is on neither the old nor the new best chain.*)
(* wTip is the index the stream left the wallet at (kept by the caller).   *)
(***************************************************************************)
EXTENDS Integers, Sequences, FiniteSets, FiniteSetsExt, TLC

CONSTANTS
    Trees,              \* sequence of tree records (MCWalletLedger.tla reads them from $TREES)
    Chunks,             \* chunk sizes the caller may ask for
    P,                  \* modulus of the value abstraction
    DevClaimEvent,      \* deviation (finding C06-claim-event): claim events follow the rule of update.go
    DevRenewalPayee     \* deviation (finding C06-renewal-payee): v2 renewal payout events follow update.go

VARIABLES
    t,          \* index of the tree (fixed after Init)
    mem,        \* the manager's tip (block id)
    wTip,       \* block the update stream left the wallet at (0 = nothing processed yet)
    wUtxo,      \* the store's unspent outputs: set of <<id, value, maturity, leaf index>>
    wEv,        \* the store's events: set of <<event id, block, in, out>>
    wOk,        \* FALSE once the reference store would have panicked (spent output absent, duplicate)
    act         \* label of the last action (hidden by VIEW)

vars == <<t, mem, wTip, wUtxo, wEv, wOk, act>>
view == <<t, mem, wTip, wUtxo, wEv, wOk>>

-----------------------------------------------------------------------------
T       == Trees[t]
Nodes   == 1..T.n
Par(b)  == T.parent[b]
H(b)    == T.height[b]
Valid(b) == T.valid[b]
Heavier(a, b) == T.heavier[a][b]

RECURSIVE PathTo(_)
PathTo(b) == IF b = 1 THEN <<1>> ELSE Append(PathTo(Par(b)), b)

\* the ancestor of x at height h (x itself if it is not higher)
RECURSIVE AncAt(_, _)
AncAt(x, h) == IF H(x) <= h THEN x ELSE AncAt(Par(x), h)

Best == PathTo(mem)
OnBest(b) == b # 0 /\ H(b) <= H(mem) /\ AncAt(mem, H(b)) = b

\* ---- what a block means for the wallet address
Live(tag) ==
    \/ tag = "both"
    \/ tag = "ideal:claim"   /\ ~DevClaimEvent
    \/ tag = "impl:claim"    /\ DevClaimEvent
    \/ tag = "ideal:renewal" /\ ~DevRenewalPayee
    \/ tag = "impl:renewal"  /\ DevRenewalPayee
Demanded(tag) == tag \in {"both", "ideal:claim", "ideal:renewal"}

\* the tree record keeps JSON sequences; they are turned into sets where they are used (per block)
SeqSet(s)  == {s[i] : i \in 1..Len(s)}
Creates(b) == SeqSet(T.wc[b])
Spends(b)  == SeqSet(T.ws[b])
EvOf(b)    == {<<e.id, b, e.in, e.out>> : e \in {x \in SeqSet(T.we[b]) : Live(x.tag)}}        \* what the wallet records
EvDue(b)   == {<<e.id, b, e.in, e.out>> : e \in {x \in SeqSet(T.we[b]) : Demanded(x.tag)}}    \* what the property demands

Ids(S) == {e[1] : e \in S}

\* ---- revertChainUpdate (update.go:317-345) + WalletRevertIndex: drop what the block created,
\* re-create what it spent, delete the events carrying the reverted index
ChunkRevert(w, b) ==
    [utxo |-> (w.utxo \ Creates(b)) \cup Spends(b),
     ev   |-> {e \in w.ev : e[2] # b},
     ok   |-> w.ok]

\* ---- applyChainUpdate (update.go:288-314) + WalletApplyIndex: delete spent (must exist), add
\* created (must be new), append the block's events
ChunkApply(w, b) ==
    [utxo |-> (w.utxo \ Spends(b)) \cup Creates(b),
     ev   |-> w.ev \cup EvOf(b),
     ok   |-> w.ok /\ Spends(b) \subseteq w.utxo /\ Ids(Creates(b)) \cap Ids(w.utxo \ Spends(b)) = {}]

RECURSIVE FoldRevert(_, _, _)
FoldRevert(w, rus, i) == IF i > Len(rus) THEN w ELSE FoldRevert(ChunkRevert(w, rus[i]), rus, i + 1)
RECURSIVE FoldApply(_, _, _)
FoldApply(w, aus, i) == IF i > Len(aus) THEN w ELSE FoldApply(ChunkApply(w, aus[i]), aus, i + 1)

EmptyW == [utxo |-> {}, ev |-> {}, ok |-> TRUE]

\* the chain's truth for the address on the chain ending at block b: what a wallet that only ever
\* applied that chain linearly holds
Truth(b) == IF b = 0 THEN EmptyW ELSE FoldApply(EmptyW, PathTo(b), 1)
\* the events the property demands on that chain
RECURSIVE DueOn(_, _)
DueOn(p, i) == IF i > Len(p) THEN {} ELSE EvDue(p[i]) \cup DueOn(p, i + 1)

-----------------------------------------------------------------------------
\* ---- UpdatesSince(index, max): revert until on the best chain, then apply (manager.go:555-597)
RECURSIVE PollLoop(_, _, _, _)
PollLoop(i, n, rus, aus) ==
    IF i = mem \/ n = 0 THEN [rus |-> rus, aus |-> aus, idx |-> i]
    ELSE IF i # 0 /\ ~OnBest(i)
      THEN PollLoop(Par(i), n - 1, Append(rus, i), aus)
      ELSE LET j == IF i = 0 THEN 1 ELSE AncAt(mem, H(i) + 1) IN PollLoop(j, n - 1, rus, Append(aus, j))

Init ==
    /\ t \in 1..Len(Trees)
    /\ mem = 1
    /\ wTip = 0
    /\ wUtxo = {} /\ wEv = {} /\ wOk = TRUE
    /\ act = [op |-> "Init"]

\* a completed AddBlocks call moved the tip (Chain.tla: TipMovesOnlyIfHeavier)
Adopt(to) ==
    /\ to # mem /\ Valid(to) /\ Heavier(to, mem)
    /\ mem' = to
    /\ act' = [op |-> "Adopt", to |-> to]
    /\ UNCHANGED <<t, wTip, wUtxo, wEv, wOk>>

Chunk(max) ==
    /\ wTip # mem
    /\ LET r  == PollLoop(wTip, max, <<>>, <<>>)
           w1 == FoldRevert([utxo |-> wUtxo, ev |-> wEv, ok |-> wOk], r.rus, 1)
           w2 == FoldApply(w1, r.aus, 1) IN
       /\ act' = [op |-> "Chunk", max |-> max, rus |-> r.rus, aus |-> r.aus]
       /\ wTip' = r.idx
       /\ wUtxo' = w2.utxo /\ wEv' = w2.ev /\ wOk' = w2.ok
    /\ UNCHANGED <<t, mem>>

Next ==
    \/ \E to \in Nodes : Adopt(to)
    \/ \E m \in Chunks : Chunk(m)

Spec == Init /\ [][Next]_vars
FairSpec == Spec /\ WF_vars(\E m \in Chunks : Chunk(m))

-----------------------------------------------------------------------------
Mod(x) == ((x % P) + P) % P
SumVal(S)  == FoldSet(LAMBDA e, acc : (acc + e[2]) % P, 0, S)
SumFlow(S) == FoldSet(LAMBDA e, acc : Mod(acc + e[3] - e[4]), 0, S)

TypeOK ==
    /\ mem \in Nodes /\ Valid(mem)
    /\ wTip \in Nodes \cup {0}
    /\ wTip # 0 => Valid(wTip)

\* the reference store never meets a spent output it does not hold or a created one it already has
NeverPanics == wOk

\* wherever the stream left the wallet -- on the best chain or, after a chunk that ended on a
\* revert, beside it -- the ledger is the truth of the chain ending there: nothing left over from
\* reverted blocks, nothing missing, maturity heights and values included
PosExact ==
    LET tr == Truth(wTip) IN wUtxo = tr.utxo /\ wEv = tr.ev

\* the outputs of one chain occupy distinct leaves of its accumulator (and the world's pin lists,
\* where present, are orders of two or more contracts without repetition)
LeavesDistinct == \A x, y \in wUtxo : x[4] = y[4] => x = y
PinShape == \A b \in Nodes : LET p == T.pin[b] IN
    Len(p) # 1 /\ (Len(p) > 0 => T.pinMode # "") /\ \A i, j \in 1..Len(p) : p[i] = p[j] => i = j

AtTip == wTip = mem
\* C06 proper, at wTip = tip
UtxoExact   == AtTip => wUtxo = Truth(mem).utxo
EventsExact == AtTip => wEv = DueOn(Best, 1)
FlowBalance == AtTip => SumFlow(wEv) = SumVal(wUtxo)
\* the same equation wherever the wallet stands
FlowBalanceEverywhere == wTip # 0 => SumFlow(wEv) = SumVal(wUtxo)

\* the oracle's own data: the demanded events of any chain balance its unspent outputs
TruthBalances == wTip # 0 => SumFlow(DueOn(PathTo(wTip), 1)) = SumVal(Truth(wTip).utxo)

\* action properties
ChunkShape ==
    [][act'.op = "Chunk" =>
        LET rus == act'.rus aus == act'.aus IN
        /\ Len(rus) + Len(aus) <= act'.max /\ Len(rus) + Len(aus) > 0
        /\ (rus # <<>> => rus[1] = wTip /\ \A i \in 2..Len(rus) : rus[i] = Par(rus[i - 1]))
        /\ (aus # <<>> => OnBest(aus[Len(aus)]) /\ \A i \in 2..Len(aus) : Par(aus[i]) = aus[i - 1])
        /\ wTip' = (IF aus # <<>> THEN aus[Len(aus)] ELSE Par(rus[Len(rus)]))
        /\ (Len(rus) + Len(aus) < act'.max => wTip' = mem)
        \* nothing of a reverted block survives the chunk unless the chunk re-applied that very block
        /\ \A e \in wEv' : e[2] \in {rus[i] : i \in 1..Len(rus)} => e[2] \in {aus[i] : i \in 1..Len(aus)}]_vars
AdoptMovesNoWallet == [][act'.op = "Adopt" => wUtxo' = wUtxo /\ wEv' = wEv /\ wTip' = wTip]_vars

\* liveness: the tip can only move finitely often (each Adopt is to a strictly heavier block), so a
\* caller that keeps synchronising settles on it
Settles == <>[](wTip = mem)
=============================================================================
