------------------------------ MODULE SeedGen ------------------------------
(***************************************************************************)
(* Leg R of C20: the full-size Seed spec (EB = 128, CB = 4, WB = 11)       *)
(* COMPUTES the specified result of a list of calls ($CALLS, NDJSON:       *)
(* Enc{e,c} / Dec{t,eb,c}; c is the SHA-256 nibble computed by the         *)
(* orchestrator, eb its own packing of t).  The graph is a star: from idle *)
(* any listed call may happen, then the spec returns to idle.  Every       *)
(* transition is printed as an EDGE; tools/vlib.path_cover turns them into *)
(* paths that the Go harness replays on the real codec, comparing replies. *)
(***************************************************************************)
EXTENDS Seed, Json, IOUtils

Calls == ndJsonDeserialize(IOEnv.CALLS)

VARIABLE at         \* 0 = idle, k = call k has just been made
gvars == <<svars, at>>
gview == at

GDo(k) ==
    /\ at = 0 /\ at' = k
    /\ LET a == Calls[k] IN
        \/ /\ a.op = "Enc"
           /\ EncCall(a.e, a.c, [wf |-> TRUE, w |-> Words(a.e, a.c)])
        \/ /\ a.op = "Dec"
           /\ LET r == DecReply(a.t, IF WellFormed(a.t) THEN (a.eb :> a.c) ELSE <<>>)
              IN  DecCall(a.t, a.eb, a.c, [ok |-> r.ok, d |-> r.e], [ok |-> r.ok, s |-> r.e])
GRet == at # 0 /\ at' = 0 /\ ResetCall(FALSE)

GInit == Init /\ at = 0
GNext == (\E k \in 1..Len(Calls) : GDo(k)) \/ GRet
GSpec == GInit /\ [][GNext]_gvars

Reply == IF call'.op = "Enc" THEN [w |-> call'.exp, contract |-> call'.csOk]
         ELSE IF call'.op = "Dec" THEN [ok |-> call'.exp.ok, e |-> call'.exp.e, wf |-> call'.wf,
                                        contract |-> call'.packOk /\ call'.csOk]
         ELSE [contract |-> TRUE]
EmitEdge ==
    PrintT("EDGE " \o ToJson([from |-> [at |-> at], act |-> [k |-> at', op |-> call'.op],
                              reply |-> Reply, to |-> [at |-> at']]))
=============================================================================
