--------------------------- MODULE MCWalletFund ---------------------------
(* Model-checking / edge-export wrapper for WalletFund (property C07).     *)
EXTENDS WalletFund, Json, Sequences

\* ---- option records (cfg): default-like, all-zero, tiny, threshold-zero
CfgDefault == [dt |-> 30, mi |-> 30, md |-> 10, rt |-> 2]
CfgZero    == [dt |-> 0,  mi |-> 0,  md |-> 0,  rt |-> 0]
CfgTiny    == [dt |-> 2,  mi |-> 3,  md |-> 1,  rt |-> 1]
CfgDt0     == [dt |-> 0,  mi |-> 30, md |-> 10, rt |-> 1]
CfgsM      == {CfgDefault, CfgZero, CfgTiny}
CfgsR      == {CfgDefault, CfgZero, CfgTiny, CfgDt0}
CfgsOne    == {CfgTiny}

O(v, m) == [v |-> v, m |-> m]
\* ---- initial wallets: id -> [v, m] (sequences are functions 1..n)
WalletsSmall == { <<O(3, 0)>>, <<O(1, 0), O(2, 0)>>, <<O(2, 0), O(3, 1)>> }
WalletsQuick == { <<O(3, 0)>>, <<O(1, 0), O(2, 0)>>, <<O(1, 0), O(2, 0), O(3, 0)>>, <<O(2, 0), O(3, 1)>> }
WalletsFull  == { <<>>, <<O(3, 0)>>, <<O(1, 0), O(2, 0)>>, <<O(1, 0), O(2, 0), O(3, 0)>>,
                  <<O(1, 0), O(2, 0), O(2, 0), O(4, 0)>>, <<O(2, 0), O(3, 1)>>, <<O(2, 0), O(1, 2), O(3, 0)>> }

\* ---- JSON projection of a state and of what the public API shows in it
SJ == [cfg |-> cfg, now |-> now, nid |-> nextId, ntx |-> nextTx, lag |-> lag,
       owned |-> {[id |-> i, v |-> owned[i].v, m |-> owned[i].m] : i \in DOMAIN owned},
       locked |-> {[id |-> i, e |-> locked[i]] : i \in DOMAIN locked},
       txs |-> {[tid |-> t, ver |-> txs[t].ver, st |-> txs[t].st, ins |-> txs[t].ins, made |-> txs[t].made,
                 out |-> txs[t].out, fee |-> txs[t].fee, exp |-> txs[t].exp, bl |-> txs[t].bl, rec |-> txs[t].rec] : t \in TxIds}]
OJ == [sp |-> BalSpendable, conf |-> BalConfirmed, imm |-> BalImmature, unc |-> BalUnconfirmed,
       list |-> ListSpendable]

\* Printed once per explored transition (evaluated as ACTION_CONSTRAINT)
EmitEdge ==
    PrintT("EDGE " \o ToJson([from |-> SJ, act |-> act', reply |-> reply', to |-> SJ', obs |-> OJ']))

-----------------------------------------------------------------------------
(* Leg R schedule generator.  PolicyNext resolves the permissive choices of Fund /
   Redistribute / Split the way the code intends to (wallet.go:332-403, 745-757, 912-957:
   largest first, then bounded defrag of the smallest leftovers), so that the exported graph
   has one edge per (state, call).  Every PolicyNext step IS a Next step (it instantiates the
   same action with one admissible descriptor); the real wallet may legitimately answer with
   another admissible selection (ties), which the replay notices and then leaves to TLC trace
   validation against the permissive specification. *)

Big(S)   == CHOOSE x \in S : \A y \in S : Val(y) < Val(x) \/ (Val(y) = Val(x) /\ x <= y)
Small(S) == CHOOSE x \in S : \A y \in S : Val(y) > Val(x) \/ (Val(y) = Val(x) /\ x <= y)
RECURSIVE PickLargest(_, _)        \* largest first until the sum reaches need
PickLargest(S, need) ==
    IF need <= 0 \/ S = {} THEN {} ELSE LET x == Big(S) IN {x} \cup PickLargest(S \ {x}, need - Val(x))
RECURSIVE PickOver(_, _)           \* largest first until the sum EXCEEDS want (or S is used up)
PickOver(S, want) ==
    IF want < 0 \/ S = {} THEN {} ELSE LET x == Big(S) IN {x} \cup PickOver(S \ {x}, want - Val(x))
RECURSIVE PickSmallest(_, _)
PickSmallest(S, k) ==
    IF k <= 0 \/ S = {} THEN {} ELSE LET x == Small(S) IN {x} \cup PickSmallest(S \ {x}, k - 1)

PolicySel(amt, unc) ==
    LET c == PickLargest(ConfMust, amt)
        short == amt - SumV(c)
        rest == ConfMust \ c
        k == Cardinality(c)
    IN IF short > 0 THEN c \cup (IF unc THEN PickLargest(UncMust, short) ELSE {})
       ELSE IF Cardinality(rest) > cfg.dt /\ k < cfg.mi
            THEN c \cup PickSmallest(rest, MinOf(cfg.md, cfg.mi - k))
            ELSE c

PolicyFund ==
    \E ver \in {1, 2}, unc \in BOOLEAN : \E amt \in FundAmts(unc) :
        \/ FundZero(ver, amt, unc)
        \/ FundFail(ver, amt, unc)
        \/ LET sel == PolicySel(amt, unc) IN
              /\ amt > 0 /\ SumV(Must(unc)) >= amt
              /\ FundOK(ver, amt, unc, [tid |-> nextTx, ver |-> ver, ins |-> sel, out |-> amt, fee |-> 0, bl |-> lag,
                                        made |-> ChangeOf(SumV(sel) - amt, nextId)])

\* wallet.go:731-794: one transaction per batch of at most Batch wanted outputs, each taking
\* the largest remaining candidates until they EXCEED the batch's need; the first batch that
\* cannot be funded ends the call (error if it is the first batch, partial success otherwise)
RECURSIVE PolicyBatches(_, _, _, _, _)
PolicyBatches(cand, outs, amt, tid, id) ==
    IF outs <= 0 THEN {}
    ELSE LET k == MinOf(outs, Batch)
             sel == PickOver(cand, k * amt)
         IN IF SumV(sel) < k * amt THEN {}
            ELSE {RedistDesc(tid, sel, k, amt, id)}
                 \cup PolicyBatches(cand \ sel, outs - k, amt, tid + 1, id + NewIds(sel, k, amt))

PolicyRedist ==
    \E n \in RedistNs, amt \in RedistAmts :
        \/ RedistNone(n, amt, 0)
        \/ RedistFail(n, amt, 0)
        \/ LET D == PolicyBatches(ConfMust \ SameMust(amt), n - Cardinality(SameMust(amt)), amt, nextTx, nextId)
           IN /\ D # {}
              /\ RedistOK(n, amt, 0, D)

PolicySplit ==
    \E n \in SplitNs, mn \in SplitMins :
        LET above == AboveMust(mn)
            i == Big(above)
            r == n - Cardinality(above) + 1
            v == Val(i) - SplitFee
            per == v \div r
            can == /\ SplitArgsOK(n, mn) /\ above # {} /\ Cardinality(above) < n
                   /\ v > 0 /\ per >= mn
                   /\ (IF i \in DOMAIN owned THEN TRUE ELSE MakerVer(i) = 2)
        IN \/ SplitNone(n, mn) /\ above # {} /\ Val(Big(above)) > SplitFee
           \/ SplitErr(n, mn) /\ ~can /\ ~(SplitArgsOK(n, mn) /\ Cardinality(above) >= n /\ Val(Big(above)) > SplitFee)
           \/ can /\ SplitOK(n, mn, [tid |-> nextTx, ver |-> 2, ins |-> {i}, out |-> 0, fee |-> SplitFee, bl |-> lag,
                                     made |-> {[id |-> nextId + j - 1, v |-> per] : j \in 1..(r - 1)}
                                              \cup {[id |-> nextId + r - 1, v |-> v - per * (r - 1)]}])

PolicyNext ==
    \/ PolicyFund
    \/ PolicyRedist
    \/ PolicySplit
    \/ \E t \in TxIds : Release(t) \/ \E pre \in BOOLEAN : BcastAcc(t, pre) \/ BcastRej(t, pre)
    \/ Tick
    \/ Mine
    \/ \E x \in Rewards : Reward(x, nextId)
    \/ Restart
    \/ \E k \in Lags : LagBegin(k)
    \/ CatchUp

PolicySpec == Init /\ [][PolicyNext]_vars
\* ticks beyond the reservation period show nothing new
BoundR == Bound /\ now <= cfg.rt
WalletsR1 == { <<O(3, 0)>>, <<O(1, 0), O(2, 0)>> }
WalletsR2 == { <<O(2, 0), O(3, 1)>>, <<O(2, 0), O(1, 2), O(3, 0)>> }
WalletsR3 == { <<O(1, 0), O(2, 0), O(3, 0)>>, <<O(1, 0), O(2, 0), O(2, 0), O(4, 0)>> }
CfgsR2    == {CfgTiny, CfgDt0}
\* multi-batch Redistribute(11, 2): both batches funded / second batch dropped with a non-empty
\* but insufficient remainder (partial success) / first batch not fundable
WalletsMB == { <<O(21, 0), O(3, 0)>>, <<O(21, 0), O(1, 0)>>, <<O(21, 0), O(1, 0), O(1, 0), O(1, 0)>>, <<O(5, 0), O(1, 0)>> }
WalletsMBm == { <<O(2, 0), O(1, 0)>>, <<O(1, 0), O(1, 0), O(2, 0)>>, <<O(3, 0)>> }
WalletsMBq == { <<O(2, 0), O(1, 0)>>, <<O(3, 0)>> }
CfgsMB    == {CfgDefault, CfgTiny}

=============================================================================
