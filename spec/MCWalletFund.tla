--------------------------- MODULE MCWalletFund ---------------------------
(* Model-checking / edge-export wrapper for WalletFund (property C07).     *)
EXTENDS WalletFund, Json, Sequences

\* ---- option records (cfg): default-like, all-zero, tiny, threshold-zero
CfgDefault == [dt |-> 30, mi |-> 30, md |-> 10, rt |-> 2]
CfgZero    == [dt |-> 0,  mi |-> 0,  md |-> 0,  rt |-> 0]
CfgTiny    == [dt |-> 2,  mi |-> 3,  md |-> 1,  rt |-> 1]
CfgDt0     == [dt |-> 0,  mi |-> 30, md |-> 10, rt |-> 1]
CfgsM      == {CfgDefault, CfgZero, CfgTiny}
CfgsR      == {CfgDefault, CfgZero, CfgTiny, CfgDt0}
CfgsOne    == {CfgTiny}

O(v, m) == [v |-> v, m |-> m]
\* ---- initial wallets: id -> [v, m] (sequences are functions 1..n)
WalletsSmall == { <<O(3, 0)>>, <<O(1, 0), O(2, 0)>>, <<O(2, 0), O(3, 1)>> }
WalletsQuick == { <<O(3, 0)>>, <<O(1, 0), O(2, 0)>>, <<O(1, 0), O(2, 0), O(3, 0)>>, <<O(2, 0), O(3, 1)>> }
WalletsFull  == { <<>>, <<O(3, 0)>>, <<O(1, 0), O(2, 0)>>, <<O(1, 0), O(2, 0), O(3, 0)>>,
                  <<O(1, 0), O(2, 0), O(2, 0), O(4, 0)>>, <<O(2, 0), O(3, 1)>>, <<O(2, 0), O(1, 2), O(3, 0)>> }

\* ---- JSON projection of a state and of what the public API shows in it
SJ == [cfg |-> cfg, now |-> now, nid |-> nextId, ntx |-> nextTx,
       owned |-> {[id |-> i, v |-> owned[i].v, m |-> owned[i].m] : i \in DOMAIN owned},
       locked |-> {[id |-> i, e |-> locked[i]] : i \in DOMAIN locked},
       txs |-> {[tid |-> t, ver |-> txs[t].ver, st |-> txs[t].st, ins |-> txs[t].ins, made |-> txs[t].made,
                 out |-> txs[t].out, fee |-> txs[t].fee, exp |-> txs[t].exp] : t \in TxIds}]
OJ == [sp |-> BalSpendable, conf |-> BalConfirmed, imm |-> BalImmature, unc |-> BalUnconfirmed,
       list |-> ListSpendable, cm |-> ConfMust, um |-> UncMust,
       live |-> {t \in TxIds : Live(t)}, canb |-> {t \in TxIds : CanBroadcast(t)}]

\* Printed once per explored transition (evaluated as ACTION_CONSTRAINT)
EmitEdge ==
    PrintT("EDGE " \o ToJson([from |-> SJ, act |-> act', reply |-> reply', to |-> SJ', obs |-> OJ']))
=============================================================================
