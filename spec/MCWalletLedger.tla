-------------------------- MODULE MCWalletLedger --------------------------
(* Model-checking / edge-export wrapper for WalletLedger (property C06): the abstract trees are
   read from the JSON file named by $TREES, written by harness/walletledx TestGenTrees from REAL
   blocks; one abstract tree per (real tree, wallet persona). *)
EXTENDS WalletLedger, Json, IOUtils

TreesJ == JsonDeserialize(IOEnv.TREES)

TreesC == TreesJ

StateRec == [t |-> t, mem |-> mem, wTip |-> wTip, utxo |-> wUtxo, ev |-> wEv, ok |-> wOk]

EmitEdge == PrintT("EDGE " \o ToJson([from |-> StateRec, act |-> act', to |-> StateRec']))
=============================================================================
