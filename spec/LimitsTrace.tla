----------------------------- MODULE LimitsTrace -----------------------------
(***************************************************************************)
(* Trace validation for Limits (property C18, Leg T).  Every run recorded  *)
(* from the real syncer / thread group / rhp4.Server / wallet must be a    *)
(* behaviour of Limits: each logged line is one Limits action (same guard, *)
(* same effect), and between two lines the specification may take the      *)
(* INTERNAL steps the harness cannot see (slot acquisition and release,    *)
(* loop exits, Run's teardown, addPeer's insert ...).  $TRACE concatenates *)
(* runs; a Reset line installs the run's limits and subnets.               *)
(*                                                                         *)
(* What is logged where (all hook-free):                                   *)
(*   Arrive   by the client BEFORE it writes the stream                    *)
(*   Enter    inside ChainManager.BlocksForHistory (the handler is a       *)
(*            member of the group and holds both slots)      = TgAdd       *)
(*   Exit     in the same call just BEFORE it returns        = Handle      *)
(*   Answered / Failed by the client AFTER it read the response / error    *)
(*   StopCall before Close()/Stop() is called; StopReturn after it returned*)
(*   Stop2Call / Stop2Return the same for a second, overlapping call       *)
(*   AllowCheck in PeerStore.Banned (under s.mu), Handshake in             *)
(*            PeerStore.AddPeer (before the insert), Refused/Rejected/     *)
(*            Hangup by the remote                                         *)
(*   ThAdd{ok} after ThreadGroup.Add returned / at the handler gate,       *)
(*   ThDone   before done() / before the gated handler returns             *)
(*   Quiesce{n} when nothing is in flight: n = sum of the real per-subnet  *)
(*            counters (must be what the specification says: 0)            *)
(* Each placement is on the permissive side: an acquisition is logged      *)
(* after it happened and a release before it happens, so a run of correct  *)
(* code is always explainable; see DESIGN.md section 9.                    *)
(*                                                                         *)
(* Hidden steps are explored by TLC, demand driven (rules N1-N3 below).    *)
(***************************************************************************)
EXTENDS Limits, Json, IOUtils, Sequences

Log == ndJsonDeserialize(IOEnv.TRACE)
N == Len(Log)

VARIABLES
    l,          \* next line to consume
    stopCalled, \* a StopCall line has been consumed: Close's statements may run
    stop2Called,\* a Stop2Call line has been consumed: the second, overlapping Close/Stop may take the lock
    hung        \* connection attempts whose remote has hung up
tvars == <<vars, l, stopCalled, stop2Called, hung>>

Ev == Log[l]
More == l <= N
Step(op) == More /\ Ev.op = op /\ l' = l + 1

PeerIdx == [p1 |-> 1, p2 |-> 2, p3 |-> 3, p4 |-> 4, p5 |-> 5, p6 |-> 6, p7 |-> 7, p8 |-> 8]
ConnOps == {"AllowCheck", "Refused", "Rejected", "Handshake", "Hangup"}

\* ---------------------------------------------------------------- which hidden steps may run before line l
(* Hidden steps are DEMAND DRIVEN.  A hidden step that commutes with the next line can be postponed, so:       *)
(*  N1  if the next line can be taken now, no hidden step is taken before it (lines whose RESULT is not logged  *)
(*      -- the connection family -- are the exception);                                                        *)
(*  N2  otherwise only steps in the dependency cone of that line: for Enter(p,r)/Failed(p,r) the loop of p up   *)
(*      to r, a slot release when that loop is blocked on the semaphore or stands at a full subnet counter,     *)
(*      acquisitions by the other peers of the subnet when a drop needs the counter to be full, and Close's     *)
(*      statements; for StopReturn what brings the WaitGroup to zero; for Quiesce everything that is left.      *)
(*  N3  steps that commute with each other are taken in one canonical order (peers by index; RPCs of one peer   *)
(*      in the same post-handler stage by number).                                                              *)
SameSubnet(q, p) == SubnetOn /\ SubnetOf(q) = SubnetOf(p)
SubFull(p) == SubnetOn /\ sub[SubnetOf(p)] >= lim.maxSubnet
AtSubnetCheck(p) == \E x \in RpcIds : st[p][x] = "gotpeer"
Blocked(p) == loopOn[p] /\ InLoop(p) = {} /\ Arrived(p) # {} /\ sem[p] >= lim.maxInflight
NeedsLoop(p, r) == st[p][r] \in {"arrived", "gotpeer", "gotsub"}
First(q, r) == \A r2 \in RpcIds : r2 < r => st[q][r2] # st[q][r]

LaterOk(t) == \E j \in (l + 1)..N : /\ Log[j].op = "ThAdd" /\ Log[j].p = t /\ Log[j].ok
                                     /\ \A i \in l..j : Log[i].op # "Reset"
JoinPending == \E t \in Threads : th[t] = "idle" /\ LaterOk(t)
\* (lclosed: Run's teardown may already have closed this peer's transport)
FailedNow(p, r) == out[p][r] \in FailOutcomes \/ lclosed \/ gone[p] \/ ~loopOn[p]
QuietNow == Quiescent /\ (\A s \in Subnets : sub[s] = 0) /\ (\A p \in Peers : sem[p] = 0)
LineEnabled ==
    CASE Ev.op = "Enter"      -> st[Ev.p][Ev.r] = "spawned" /\ stop = "no"
      [] Ev.op = "Failed"     -> FailedNow(Ev.p, Ev.r)
      [] Ev.op = "StopReturn" -> G_StopReturn
      [] Ev.op = "Stop2Return" -> G_Stop2Return
      [] Ev.op = "Quiesce"    -> QuietNow
      [] Ev.op = "ThAdd"      -> (Ev.ok <=> stop = "no")
      [] Ev.op \in ConnOps    -> FALSE
      [] OTHER                -> TRUE

\* the steps of peer p's loop and what may have to happen for them, towards RPC r being spawned or dropped
TowardsRpc(p, r) ==
    /\ NeedsLoop(p, r)
    /\ \/ AcquirePeer(p) \/ AcquireSubnet(p) \/ Spawn(p)
       \/ (Blocked(p) /\ \E x \in RpcIds : First(p, x) /\ (HandleDone(p, x) \/ ReleaseSubnet(p, x) \/ ReleasePeer(p, x)))
       \/ (AtSubnetCheck(p) /\ SubFull(p) /\
             \E q \in Peers, x \in RpcIds : SameSubnet(q, p) /\ First(q, x) /\ (HandleDone(q, x) \/ ReleaseSubnet(q, x)))
       \/ (AtSubnetCheck(p) /\ SubnetOn /\ ~SubFull(p) /\
             \E q \in Peers \ {p} : SameSubnet(q, p) /\
                 \/ AcquirePeer(q) \/ AcquireSubnet(q) \/ Spawn(q)
                 \/ (Blocked(q) /\ \E x \in RpcIds : First(q, x) /\ (HandleDone(q, x) \/ ReleaseSubnet(q, x) \/ ReleasePeer(q, x))))

\* what the WaitGroup waits for: handlers leaving, busy loops finishing their RPC, loops returning
TgEnabled(q) == G_AcquireSubnet(q) \/ G_Spawn(q) \/ G_LoopExit(q) \/ \E x \in RpcIds : G_HandleDone(q, x)
TowardsStopReturn ==
    \E q \in Peers :
        /\ \A q2 \in Peers : PeerIdx[q2] < PeerIdx[q] => ~TgEnabled(q2)
        /\ \/ AcquireSubnet(q) \/ Spawn(q) \/ LoopExit(q)
           \/ \E x \in RpcIds : First(q, x) /\ HandleDone(q, x)

HiddenEnabledPeer(q) ==
    \/ G_AcquirePeer(q) \/ G_AcquireSubnet(q) \/ G_Spawn(q) \/ G_LoopExit(q)
    \/ \E r \in RpcIds : (G_TgAdd(q, r) /\ stop # "no") \/ G_HandleDone(q, r) \/ G_ReleaseSubnet(q, r)
                          \/ G_ReleasePeer(q, r) \/ G_Abandon(q, r)
TowardsQuiet ==
    \E q \in Peers :
        /\ \A q2 \in Peers : PeerIdx[q2] < PeerIdx[q] => ~HiddenEnabledPeer(q2)
        /\ \/ AcquirePeer(q) \/ AcquireSubnet(q) \/ Spawn(q) \/ LoopExit(q)
           \/ \E r \in RpcIds :
                \/ (stop # "no" /\ TgAdd(q, r)) \/ Abandon(q, r)
                \/ (First(q, r) /\ (HandleDone(q, r) \/ ReleaseSubnet(q, r) \/ ReleasePeer(q, r)))

HiddenRpc ==
    /\ More /\ ~LineEnabled
    /\ UNCHANGED <<l, stopCalled, stop2Called, hung>>
    /\ \/ Ev.op = "Enter" /\ stop = "no" /\ TowardsRpc(Ev.p, Ev.r)
       \/ Ev.op = "Failed" /\ \/ TowardsRpc(Ev.p, Ev.r)
                              \/ (stop # "no" /\ st[Ev.p][Ev.r] = "spawned" /\ TgAdd(Ev.p, Ev.r))
                              \/ LoopExit(Ev.p)
       \/ Ev.op \in {"StopReturn", "Stop2Return"} /\ TowardsStopReturn
       \/ Ev.op = "Quiesce" /\ TowardsQuiet

\* Close's two statements, Run's teardown, Stop's wait: once Close has been called
HiddenStop ==
    /\ More /\ stopCalled /\ ~LineEnabled
    /\ ~(Ev.op = "ThAdd" /\ stop = "no" /\ JoinPending)
    /\ Ev.op \in {"Failed", "StopReturn", "Stop2Return", "Quiesce", "ThAdd"} \cup ConnOps
    /\ UNCHANGED <<l, stopCalled, stop2Called, hung>>
    /\ CloseListener \/ StopBegin \/ StopWait \/ ClosePeers \/ RunExit \/ (stop2Called /\ Stop2Begin)

\* connection lifecycle: the insert, runPeer's start and the removal are not visible
HiddenConn ==
    /\ More /\ (Ev.op \in ConnOps \/ (Ev.op \in {"StopReturn", "Stop2Return"} /\ ~LineEnabled))
    /\ UNCHANGED <<l, stopCalled, stop2Called, hung>>
    /\ \E c \in Conns :
         \/ AddPeer(c) \/ RunPeer(c)
         \/ ((hung[c] \/ dead[c]) /\ RemovePeer(c))
         \/ ((hung[c] \/ stop # "no") /\ Abort(c))

\* ---------------------------------------------------------------- logged lines
Skip == UNCHANGED vars

TReset ==
    /\ Step("Reset")
    /\ stopCalled' = FALSE /\ stop2Called' = FALSE
    /\ hung' = [c \in Conns |-> FALSE]
    /\ lim' = [maxInflight |-> Ev.lim.maxInflight, maxSubnet |-> Ev.lim.maxSubnet, maxIn |-> Ev.lim.maxIn,
               maxOut |-> Ev.lim.maxOut, sub |-> [p \in Peers |-> Ev.lim.sub[p]]]
    /\ st' = [p \in Peers |-> [r \in RpcIds |-> "new"]]
    /\ out' = [p \in Peers |-> [r \in RpcIds |-> "none"]]
    /\ sem' = [p \in Peers |-> 0]
    /\ sub' = [s \in Subnets |-> 0]
    /\ loopOn' = [p \in Peers |-> PeerIdx[p] <= Ev.n]          \* the run uses peers p1..pn
    /\ gone' = [p \in Peers |-> FALSE]
    /\ runLive' = IF WithRun THEN 1 ELSE 0
    /\ tgLive' = Ev.n + runLive'
    /\ stop' = "no" /\ stop2' = "idle" /\ peersClosed' = FALSE /\ lclosed' = FALSE
    /\ dead' = [c \in Conns |-> FALSE]
    /\ conn' = [c \in Conns |-> "idle"]
    /\ th' = [t \in Threads |-> "idle"]
    /\ par' = [t \in Threads |-> "live"]
    /\ act' = Lbl("Init", "", 0)

TArrive == Step("Arrive") /\ Arrive(Ev.p, Ev.r) /\ UNCHANGED <<stopCalled, stop2Called, hung>>
TEnter  == Step("Enter") /\ TgAdd(Ev.p, Ev.r) /\ st'[Ev.p][Ev.r] = "handling" /\ UNCHANGED <<stopCalled, stop2Called, hung>>
TExit   == Step("Exit") /\ Handle(Ev.p, Ev.r) /\ UNCHANGED <<stopCalled, stop2Called, hung>>
TAnswered == Step("Answered") /\ out[Ev.p][Ev.r] \in {"answered", "maybe"} /\ Skip /\ UNCHANGED <<stopCalled, stop2Called, hung>>
\* the client saw the stream die: the RPC was dropped/refused/lost, or the whole transport is gone
TFailed ==
    /\ Step("Failed")
    /\ FailedNow(Ev.p, Ev.r)
    /\ Skip /\ UNCHANGED <<stopCalled, stop2Called, hung>>
TDisconnect == Step("Disconnect") /\ Disconnect(Ev.p) /\ UNCHANGED <<stopCalled, stop2Called, hung>>
TQuiesce ==
    /\ Step("Quiesce")
    /\ QuietNow
    /\ Ev.n = 0            \* the real counters, read through the hook
    /\ Skip /\ UNCHANGED <<stopCalled, stop2Called, hung>>

\* Close() is about to be called.  In an RPC run its first statement (the listener's close) is taken at once:
\* it commutes with everything an RPC run logs (it only makes later lines easier to explain); in a connection
\* run it decides whether an attempt is still accepted, so there it stays a hidden step.
TStopCall ==
    /\ Step("StopCall") /\ stopCalled' = TRUE /\ UNCHANGED <<stop2Called, hung>>
    /\ IF Ev.fam = "rpc" /\ G_CloseListener THEN CloseListener ELSE Skip
TStopReturn == Step("StopReturn") /\ StopReturn /\ UNCHANGED <<stopCalled, stop2Called, hung>>
\* a second Close()/Stop() on the same object, called while the first may still be waiting (logged before the
\* call / after it returned, like the first); which of the two closes the channel is not visible and immaterial
TStop2Call == Step("Stop2Call") /\ stop2Called' = TRUE /\ Skip /\ UNCHANGED <<stopCalled, hung>>
TStop2Return == Step("Stop2Return") /\ Stop2Return /\ UNCHANGED <<stopCalled, stop2Called, hung>>

\* A successful Add is logged AFTER it happened (when Add has returned / when the handler reaches the gate), so
\* its line may come after the line of a refusal that really happened later.  Before a refusal line forces the
\* group closed, every thread whose "ok" line is still to come in this run joins (it did join before the close).
HiddenJoin ==
    /\ More /\ Ev.op = "ThAdd" /\ ~Ev.ok /\ stop = "no"
    /\ UNCHANGED <<l, stopCalled, stop2Called, hung>>
    /\ \E t \in Threads : th[t] = "idle" /\ LaterOk(t) /\ ThAdd(t)
TThAdd ==
    /\ Step("ThAdd")
    /\ \/ ThAdd(Ev.p) /\ th'[Ev.p] = (IF Ev.ok THEN "live" ELSE "refused")
       \/ Ev.ok /\ th[Ev.p] = "live" /\ Skip        \* joined above
    /\ UNCHANGED <<stopCalled, stop2Called, hung>>
\* the parent context handed to AddContext is cancelled (logged before cancel() is called)
TCancelParent == Step("CancelParent") /\ CancelParent(Ev.p) /\ UNCHANGED <<stopCalled, stop2Called, hung>>
TThDone == Step("ThDone") /\ ThDone(Ev.p) /\ UNCHANGED <<stopCalled, stop2Called, hung>>

TAllowCheck == Step("AllowCheck") /\ AllowCheck(Ev.p) /\ UNCHANGED <<stopCalled, stop2Called, hung>>
\* the listener did not take the connection at all
TRefused == Step("Refused") /\ Refuse(Ev.p) /\ UNCHANGED <<stopCalled, stop2Called, hung>>
\* the syncer closed the connection before the handshake
TRejected == Step("Rejected") /\ conn[Ev.p] = "rejected" /\ Skip /\ UNCHANGED <<stopCalled, stop2Called, hung>>
THandshake == Step("Handshake") /\ Handshake(Ev.p) /\ UNCHANGED <<stopCalled, stop2Called, hung>>
THangup == Step("Hangup") /\ hung' = [hung EXCEPT ![Ev.p] = TRUE] /\ Skip /\ UNCHANGED <<stopCalled, stop2Called>>

TraceInit == Init /\ l = 1 /\ stopCalled = FALSE /\ stop2Called = FALSE /\ hung = [c \in Conns |-> FALSE]

TraceNext ==
    \/ TReset \/ TArrive \/ TEnter \/ TExit \/ TAnswered \/ TFailed \/ TDisconnect \/ TQuiesce
    \/ TStopCall \/ TStopReturn \/ TStop2Call \/ TStop2Return \/ TCancelParent \/ TThAdd \/ TThDone
    \/ TAllowCheck \/ TRefused \/ TRejected \/ THandshake \/ THangup
    \/ HiddenRpc \/ HiddenStop \/ HiddenConn \/ HiddenJoin

TraceSpec == TraceInit /\ [][TraceNext]_tvars

tview == <<view, l, stopCalled, stop2Called, hung>>

\* high-water mark of consumed lines (needs -workers 1)
ASSUME TLCSet(1, 0)
HWM == TLCSet(1, IF l - 1 > TLCGet(1) THEN l - 1 ELSE TLCGet(1))
TraceAccepted ==
    /\ PrintT(<<"HWM", TLCGet(1), "of", N>>)
    /\ TLCGet(1) = N
=============================================================================
