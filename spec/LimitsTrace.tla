----------------------------- MODULE LimitsTrace -----------------------------
(***************************************************************************)
(* Trace validation for Limits (property C18, Leg T).  Every run recorded  *)
(* from the real syncer / thread group / rhp4.Server / wallet must be a    *)
(* behaviour of Limits: each logged line is one Limits action (same guard, *)
(* same effect), and between two lines the specification may take the      *)
(* INTERNAL steps the harness cannot see (slot acquisition and release,    *)
(* loop exits, Run's teardown, addPeer's insert ...).  $TRACE concatenates *)
(* runs; a Reset line installs the run's limits and subnets.               *)
(*                                                                         *)
(* What is logged where (all hook-free):                                   *)
(*   Arrive   by the client BEFORE it writes the stream                    *)
(*   Enter    inside ChainManager.BlocksForHistory (the handler is a       *)
(*            member of the group and holds both slots)      = TgAdd       *)
(*   Exit     in the same call just BEFORE it returns        = Handle      *)
(*   Answered / Failed by the client AFTER it read the response / error    *)
(*   StopCall before Close()/Stop() is called; StopReturn after it returned*)
(*   AllowCheck in PeerStore.Banned (under s.mu), Handshake in             *)
(*            PeerStore.AddPeer (before the insert), Refused/Rejected/     *)
(*            Hangup by the remote                                         *)
(*   ThAdd{ok} after ThreadGroup.Add returned / at the handler gate,       *)
(*   ThDone   before done() / before the gated handler returns             *)
(*   Quiesce{n} when nothing is in flight: n = sum of the real per-subnet  *)
(*            counters (must be what the specification says: 0)            *)
(* Each placement is on the permissive side: an acquisition is logged      *)
(* after it happened and a release before it happens, so a run of correct  *)
(* code is always explainable; see DESIGN.md section 9.                    *)
(*                                                                         *)
(* Hidden steps are explored by TLC, restricted (soundly AND completely)   *)
(* to those that can matter for the next line: a step of peer q commutes   *)
(* with every line that concerns neither q nor q's subnet, releases of     *)
(* RPCs of one peer that are in the same stage are interchangeable, and    *)
(* before StopReturn / Quiesce only the end state matters.                 *)
(***************************************************************************)
EXTENDS Limits, Json, IOUtils, Sequences

Log == ndJsonDeserialize(IOEnv.TRACE)
N == Len(Log)

VARIABLES
    l,          \* next line to consume
    stopCalled, \* a StopCall line has been consumed: Close's statements may run
    hung        \* connection attempts whose remote has hung up
tvars == <<vars, l, stopCalled, hung>>

Ev == Log[l]
More == l <= N
Step(op) == More /\ Ev.op = op /\ l' = l + 1

PeerIdx == [p1 |-> 1, p2 |-> 2, p3 |-> 3, p4 |-> 4, p5 |-> 5, p6 |-> 6, p7 |-> 7, p8 |-> 8]
PerPeerOps == {"Arrive", "Enter", "Exit", "Answered", "Failed", "Disconnect"}
GlobalOps == {"StopReturn", "Quiesce"}

\* ---------------------------------------------------------------- which hidden steps may run before line l
SameSubnet(q, p) == SubnetOn /\ SubnetOf(q) = SubnetOf(p)
HiddenEnabledPeer(q) ==
    \/ G_AcquirePeer(q) \/ G_AcquireSubnet(q) \/ G_Spawn(q) \/ G_LoopExit(q)
    \/ \E r \in RpcIds : (G_TgAdd(q, r) /\ stop # "no") \/ G_HandleDone(q, r) \/ G_ReleaseSubnet(q, r)
                          \/ G_ReleasePeer(q, r) \/ G_Abandon(q, r)
Relevant(q) ==
    /\ More
    /\ \/ Ev.op \in PerPeerOps /\ (q = Ev.p \/ SameSubnet(q, Ev.p))
       \/ Ev.op \in GlobalOps /\ \A q2 \in Peers : PeerIdx[q2] < PeerIdx[q] => ~HiddenEnabledPeer(q2)
\* RPCs of one peer in the same post-handler stage are interchangeable: the smallest goes first
First(q, r) == \A r2 \in RpcIds : r2 < r => st[q][r2] # st[q][r]

HiddenRpc ==
    /\ UNCHANGED <<l, stopCalled, hung>>
    /\ \E q \in Peers :
         /\ Relevant(q)
         /\ \/ AcquirePeer(q) \/ AcquireSubnet(q) \/ Spawn(q) \/ LoopExit(q)
            \/ \E r \in RpcIds :
                 \/ (stop # "no" /\ TgAdd(q, r))
                 \/ (First(q, r) /\ (HandleDone(q, r) \/ ReleaseSubnet(q, r) \/ ReleasePeer(q, r)))
                 \/ Abandon(q, r)

\* Close's two statements, Run's teardown, Stop's wait: once Close has been called
HiddenStop ==
    /\ More /\ stopCalled
    /\ UNCHANGED <<l, stopCalled, hung>>
    /\ CloseListener \/ StopBegin \/ StopWait \/ ClosePeers \/ RunExit

\* connection lifecycle: the insert, runPeer's start and the removal are not visible
HiddenConn ==
    /\ More
    /\ UNCHANGED <<l, stopCalled, hung>>
    /\ \E c \in Conns :
         \/ AddPeer(c) \/ RunPeer(c)
         \/ ((hung[c] \/ dead[c]) /\ RemovePeer(c))
         \/ ((hung[c] \/ stop # "no") /\ Abort(c))

\* ---------------------------------------------------------------- logged lines
Skip == UNCHANGED vars

TReset ==
    /\ Step("Reset")
    /\ stopCalled' = FALSE
    /\ hung' = [c \in Conns |-> FALSE]
    /\ lim' = [maxInflight |-> Ev.lim.maxInflight, maxSubnet |-> Ev.lim.maxSubnet, maxIn |-> Ev.lim.maxIn,
               maxOut |-> Ev.lim.maxOut, sub |-> [p \in Peers |-> Ev.lim.sub[p]]]
    /\ st' = [p \in Peers |-> [r \in RpcIds |-> "new"]]
    /\ out' = [p \in Peers |-> [r \in RpcIds |-> "none"]]
    /\ sem' = [p \in Peers |-> 0]
    /\ sub' = [s \in Subnets |-> 0]
    /\ loopOn' = [p \in Peers |-> PeerIdx[p] <= Ev.n]          \* the run uses peers p1..pn
    /\ gone' = [p \in Peers |-> FALSE]
    /\ runLive' = IF WithRun THEN 1 ELSE 0
    /\ tgLive' = Ev.n + runLive'
    /\ stop' = "no" /\ peersClosed' = FALSE /\ lclosed' = FALSE
    /\ dead' = [c \in Conns |-> FALSE]
    /\ conn' = [c \in Conns |-> "idle"]
    /\ th' = [t \in Threads |-> "idle"]
    /\ act' = Lbl("Init", "", 0)

TArrive == Step("Arrive") /\ Arrive(Ev.p, Ev.r) /\ UNCHANGED <<stopCalled, hung>>
TEnter  == Step("Enter") /\ TgAdd(Ev.p, Ev.r) /\ st'[Ev.p][Ev.r] = "handling" /\ UNCHANGED <<stopCalled, hung>>
TExit   == Step("Exit") /\ Handle(Ev.p, Ev.r) /\ UNCHANGED <<stopCalled, hung>>
TAnswered == Step("Answered") /\ out[Ev.p][Ev.r] = "answered" /\ Skip /\ UNCHANGED <<stopCalled, hung>>
\* the client saw the stream die: the RPC was dropped/refused/lost, or the whole transport is gone
TFailed ==
    /\ Step("Failed")
    /\ out[Ev.p][Ev.r] \in FailOutcomes \/ peersClosed \/ gone[Ev.p] \/ ~loopOn[Ev.p]
    /\ Skip /\ UNCHANGED <<stopCalled, hung>>
TDisconnect == Step("Disconnect") /\ Disconnect(Ev.p) /\ UNCHANGED <<stopCalled, hung>>
TQuiesce ==
    /\ Step("Quiesce")
    /\ Quiescent
    /\ \A s \in Subnets : sub[s] = 0
    /\ Ev.n = 0            \* the real counters, read through the hook
    /\ Skip /\ UNCHANGED <<stopCalled, hung>>

TStopCall == Step("StopCall") /\ stopCalled' = TRUE /\ Skip /\ UNCHANGED hung
TStopReturn == Step("StopReturn") /\ StopReturn /\ UNCHANGED <<stopCalled, hung>>

TThAdd ==
    /\ Step("ThAdd") /\ ThAdd(Ev.p)
    /\ th'[Ev.p] = IF Ev.ok THEN "live" ELSE "refused"
    /\ UNCHANGED <<stopCalled, hung>>
TThDone == Step("ThDone") /\ ThDone(Ev.p) /\ UNCHANGED <<stopCalled, hung>>

TAllowCheck == Step("AllowCheck") /\ AllowCheck(Ev.p) /\ UNCHANGED <<stopCalled, hung>>
\* the listener did not take the connection at all
TRefused == Step("Refused") /\ AllowCheck(Ev.p) /\ conn'[Ev.p] = "rejected" /\ UNCHANGED <<stopCalled, hung>>
\* the syncer closed the connection before the handshake
TRejected == Step("Rejected") /\ conn[Ev.p] = "rejected" /\ Skip /\ UNCHANGED <<stopCalled, hung>>
THandshake == Step("Handshake") /\ Handshake(Ev.p) /\ UNCHANGED <<stopCalled, hung>>
THangup == Step("Hangup") /\ hung' = [hung EXCEPT ![Ev.p] = TRUE] /\ Skip /\ UNCHANGED stopCalled

TraceInit == Init /\ l = 1 /\ stopCalled = FALSE /\ hung = [c \in Conns |-> FALSE]

TraceNext ==
    \/ TReset \/ TArrive \/ TEnter \/ TExit \/ TAnswered \/ TFailed \/ TDisconnect \/ TQuiesce
    \/ TStopCall \/ TStopReturn \/ TThAdd \/ TThDone
    \/ TAllowCheck \/ TRefused \/ TRejected \/ THandshake \/ THangup
    \/ HiddenRpc \/ HiddenStop \/ HiddenConn

TraceSpec == TraceInit /\ [][TraceNext]_tvars

tview == <<view, l, stopCalled, hung>>

\* high-water mark of consumed lines (needs -workers 1)
ASSUME TLCSet(1, 0)
HWM == TLCSet(1, IF l - 1 > TLCGet(1) THEN l - 1 ELSE TLCGet(1))
TraceAccepted ==
    /\ PrintT(<<"HWM", TLCGet(1), "of", N>>)
    /\ TLCGet(1) = N
=============================================================================
