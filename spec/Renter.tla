------------------------------- MODULE Renter -------------------------------
(***************************************************************************)
(* Property C10: a successful renter RPC is cryptographically bound,       *)
(* whatever the host does (renter client functions of rhp/v4/rpc.go).      *)
(*                                                                         *)
(* An exchange is the sequence of host->renter messages of one RPC         *)
(* (Msgs).  The host delivers each message honestly or corrupted; a        *)
(* corruption is a fault [msg, field, how] out of the Catalog, which IS    *)
(* the fault space of the property's quantifier ("each field flipped,      *)
(* truncated, extended, swapped with a value from another exchange, proofs *)
(* for a different range or root, wrong lengths and counts, re-signed with *)
(* the host key").  A behaviour chooses an RPC, a parameter variant and a  *)
(* fault plan (a set of at most MaxFaults faults on distinct fields, or    *)
(* one of NRandom seeded byte-level mutations of one message) and then     *)
(* steps an abstract client through the messages.  TLC enumerates the      *)
(* plans; the Go harness (harness/renterx) executes exactly these plans    *)
(* against the real client and an honest real server behind a man in the   *)
(* middle, and evaluates `bound` from ground truth.                        *)
(*                                                                         *)
(* Each Catalog entry carries the class of the fault w.r.t. the statement: *)
(*   unbind   the fault alters a RESULT-BEARING value (the bytes, the      *)
(*            root, the leaf, the roots, the new Merkle root, the host     *)
(*            signature, the amount charged beyond the bound): a success   *)
(*            cannot be bound, so the call MUST return an error;           *)
(*   evidence the fault alters only evidence (proof hashes, lengths,       *)
(*            counts): the statement is silent, the call may fail or (if   *)
(*            the result is still bound) succeed;                          *)
(*   neutral  bytes nobody reads (trailing garbage, surplus hashes);       *)
(*   coherent the host lies consistently INSIDE what the statement allows  *)
(*            (refuses a sector and proves the smaller append; tops up by  *)
(*            the full target) and signs what the renter derives;          *)
(*   info     fields of the informational RPCs and unauthenticated host    *)
(*            claims (balances): no binding claim;                         *)
(*   random   seeded byte-level mutation: anything may happen.             *)
(*                                                                         *)
(* Acceptance rule (MustOf / SuccessImpliesBound / HonestSucceeds):        *)
(*   no fault            => the call succeeds (and is bound) -- unless the *)
(*                          request cannot be served (Unservable input     *)
(*                          classes: an error, with or without an          *)
(*                          exchange, is the correct outcome);             *)
(*   some unbind fault   => the call returns an error;                     *)
(*   always              outcome = ok => bound        (bound: ground truth)*)
(*   never               a panic (outcome is ok or err).                   *)
(***************************************************************************)
EXTENDS Naturals, Sequences, FiniteSets, TLC

CONSTANTS
    RPCs,          \* the client functions explored
    Variants,      \* parameter variants (ranges, counts, tree shapes) chosen by the harness
    ReadVariants,  \* ... of ReadSector (more: whole-sector reads, zero-tailed sectors, ranges across the tail)
    LifeVariants,  \* ... of the contract lifecycle RPCs (each case forms, confirms and renews a contract of its own)
    MaxFaults,     \* size of a fault plan: 1 = all single corruptions, 2 = + all pairs, ...
    NRandom,       \* random byte-level mutations per message
    DevUnchecked   \* <<rpc, field>> pairs the abstract client forgets to verify ({} = the client as intended;
                   \* the selftest cfgs switch single checks off and TLC must find SuccessImpliesBound violated)

\* host -> renter messages of each exchange, in order
Msgs(r) ==
    CASE r = "ReadSector"        -> <<"resp", "data">>     \* RPCReadSectorResponse, then DataLength raw bytes
      [] r = "ReadUnaligned"     -> <<"resp", "data">>     \* RPCReadSector with an offset that is not leaf-aligned
      [] r = "ReadInvalid"       -> <<"resp", "data">>     \* ... with a range the request validation refuses (empty, unaligned end, beyond the sector)
      [] r = "RootsOutOfRange"   -> <<"resp">>             \* RPCSectorRoots with a range beyond the contract's sectors (or empty)
      [] r = "AppendEmpty"       -> <<"resp", "sig">>      \* RPCAppendSectors with no roots
      [] r = "WriteSector"       -> <<"resp">>
      [] r = "VerifySector"      -> <<"resp">>
      [] r = "SectorRoots"       -> <<"resp">>
      [] r = "AppendSectors"     -> <<"resp", "sig">>      \* ...Response, (renter signs), ...ThirdResponse
      [] r = "FreeSectors"       -> <<"resp", "sig">>
      [] r = "FreeOutOfRange"    -> <<"resp", "sig">>      \* RPCFreeSectors with an index beyond the contract's sectors
      [] r = "FundAccounts"      -> <<"resp">>
      [] r = "ReplenishAccounts" -> <<"resp", "sig">>
      [] r = "ReplenishPools"    -> <<"resp", "sig">>
      [] r = "LatestRevision"    -> <<"resp">>
      [] r \in {"FormContract", "RenewContract", "RefreshFull", "RefreshPartial"}
                                 -> <<"inputs", "final">>  \* host inputs, (renter signs), basis + finalized transaction set
      [] r = "AccountBalance"    -> <<"resp">>

\* client functions that return the host's answer verbatim: the statement makes no claim
Informational == {"LatestRevision", "AccountBalance"}

\* input classes that cannot be served: a read whose offset is not a multiple of the 64-byte leaf (the
\* request validation of core only wants offset+length aligned); a free of a sector index the contract
\* does not have.  An honest (reference) host refuses them, so HonestSucceeds does not apply: the only
\* correct outcome is an error -- returned by the client itself without any exchange (rpc.go since the
\* fix commits ff651f4 / 60c450d), or after the host's refusal.  A host could answer them all the same
\* (fault resp.All:otherRange): a client that dials and accepts such an answer violates the property.
\* Further edges of the argument validation: a read range that is empty / ends unaligned / leaves the
\* sector, a roots range that is empty / leaves the contract (both refused by the client itself), an
\* append of nothing (sent; the honest host refuses).
Unservable == {"ReadUnaligned", "FreeOutOfRange", "ReadInvalid", "RootsOutOfRange", "AppendEmpty"}

\* the contract lifecycle: RPCFormContract, RPCRenewContract, RPCRefreshContract{Full,Partial}Rollover
Lifecycle == {"FormContract", "RenewContract", "RefreshFull", "RefreshPartial"}
Renewing  == Lifecycle \ {"FormContract"}
\* the fields of the (new) contract the final message carries
ContractFields == {"Capacity", "Filesize", "FileMerkleRoot", "ProofHeight", "ExpirationHeight", "RenterOutputValue",
                   "RenterOutputAddress", "HostOutputValue", "HostOutputAddress", "MissedHostValue", "TotalCollateral",
                   "RenterPublicKey", "HostPublicKey", "RevisionNumber"}
RenewalFields == {"FinalRenterOutput", "FinalHostOutput", "RenterRollover", "HostRollover"}

AllRPCs == Lifecycle \cup {"ReadUnaligned", "FreeOutOfRange", "ReadInvalid", "RootsOutOfRange", "AppendEmpty", "ReadSector", "WriteSector", "VerifySector", "SectorRoots", "AppendSectors", "FreeSectors",
            "FundAccounts", "ReplenishAccounts", "ReplenishPools", "LatestRevision", "AccountBalance"}

Swap == "swapFromOtherExchange"
Lists == {"flip", "truncate", "extend"}
Other == {Swap, "otherRange", "otherRoot"}

\* E(r, m, f, hows, c): Catalog entries for field f of message m of RPC r
E(r, m, f, hows, c) == {[rpc |-> r, msg |-> m, field |-> f, how |-> h, class |-> c] : h \in hows}

\* the raw encoding of a message: cut short (stream closed) or followed by garbage
RawLast(r, m)  == E(r, m, "Raw", {"truncate"}, "evidence") \cup E(r, m, "Raw", {"extend"}, "neutral")
RawInner(r, m) == E(r, m, "Raw", {"truncate"}, "evidence") \cup E(r, m, "Raw", {"extend"}, "unbind")
\* "transportKey": the answering host signs what the renter expects -- with the key of its TRANSPORT
\* identity.  Only in the world where that key is not the contract's host key (samekey = FALSE); the
\* returned revision must verify under ITS OWN HostPublicKey.
HostSig(r, m)  == E(r, m, "HostSignature", {"flip", Swap, "resign", "transportKey"}, "unbind")

Catalog ==
    \* ---- read: range proof over exactly DataLength streamed bytes (rpc.go:496-505)
         E("ReadSector", "resp", "Proof", Lists \cup Other \cup {"wrongCount"}, "evidence")
    \cup E("ReadSector", "resp", "DataLength", {"flip", "truncate", "extend", "wrongCount"}, "evidence")
    \cup E("ReadSector", "resp", "All", Other, "unbind")   \* a consistent answer -- for another range / sector
    \cup E("ReadSector", "resp", "All", {"wrongCount"}, "unbind")   \* altered bytes under an EMPTY proof
    \cup RawInner("ReadSector", "resp")
    \cup E("ReadSector", "data", "Bytes", {"flip", "truncate"} \cup Other, "unbind")
    \cup E("ReadSector", "data", "Bytes", {"extend"}, "neutral")
    \* the host declares the honest DataLength (and proof) but CLOSES THE STREAM EARLY: after a leaf-aligned
    \* prefix (at the end of the sector's non-zero bytes where the range has a zero tail), inside a leaf,
    \* after the first leaf, before the last leaf.  Read: ok => the bytes delivered to the caller's writer
    \* are exactly the requested range -- a prefix never is.
    \cup E("ReadSector", "data", "Stream", {"cutLeaf", "cutMid", "cutFirstLeaf", "cutLastLeaf"}, "unbind")
    \* ---- read at an unaligned offset: the host answers with the enclosing leaf-aligned range and its
    \*      (valid) proof -- more and other bytes than the caller asked for
    \cup E("ReadUnaligned", "resp", "All", {"otherRange"}, "unbind")
    \* ---- free of a sector the contract does not have: the host answers with a valid proof of the OLD
    \*      root for the in-range part of the request and some new root; nothing can be "the requested change"
    \cup E("FreeOutOfRange", "resp", "All", {"otherRange"}, "unbind")
    \* ---- the other argument edges: the host answers all the same (some leaf with its proof; some roots
    \*      with proof and signature; an empty append with a signature over the unchanged root)
    \cup E("ReadInvalid", "resp", "All", {"otherRange"}, "unbind")
    \cup E("RootsOutOfRange", "resp", "All", {"otherRange"}, "unbind")
    \cup E("AppendEmpty", "resp", "All", {"asSent"}, "coherent")
    \* ---- write: root computed locally and compared (rpc.go:540-560)
    \cup E("WriteSector", "resp", "Root", {"flip", Swap, "otherRoot"}, "unbind")
    \cup RawLast("WriteSector", "resp")
    \* ---- verify: leaf proof against the requested root at the locally drawn index (rpc.go:569-587)
    \cup E("VerifySector", "resp", "Proof", Lists \cup Other \cup {"wrongCount"}, "evidence")
    \cup E("VerifySector", "resp", "Leaf", {"flip", Swap, "otherRoot"}, "unbind")
    \cup E("VerifySector", "resp", "Leaf", {"otherRange"}, "evidence")   \* another leaf of the SAME sector
    \cup E("VerifySector", "resp", "All", {Swap, "otherRoot", "wrongCount"}, "unbind")
    \cup E("VerifySector", "resp", "All", {"otherRange"}, "evidence")
    \cup RawLast("VerifySector", "resp")
    \* ---- roots: range proof against the renter's own Merkle root; host signature (rpc.go:1021-1033)
    \cup E("SectorRoots", "resp", "Proof", Lists \cup Other \cup {"wrongCount"}, "evidence")
    \cup E("SectorRoots", "resp", "Roots", Lists \cup Other \cup {"wrongCount"}, "unbind")
    \cup HostSig("SectorRoots", "resp")
    \cup E("SectorRoots", "resp", "All", Other \cup {"wrongCount"}, "unbind")
    \cup RawLast("SectorRoots", "resp")
    \* ---- append: accepted count, append proof, recomputed revision, host signature (rpc.go:677-714)
    \cup E("AppendSectors", "resp", "Accepted", {"flip"}, "unbind")
    \cup E("AppendSectors", "resp", "Accepted", {"truncate", "extend", "wrongCount"}, "evidence")
    \cup E("AppendSectors", "resp", "Accepted", {"resign"}, "coherent")
    \cup E("AppendSectors", "resp", "SubtreeRoots", {"flip", "truncate", Swap, "otherRoot", "wrongCount"}, "evidence")
    \cup E("AppendSectors", "resp", "All", {"wrongCount"}, "unbind")   \* another root under an EMPTY proof
    \cup E("AppendSectors", "resp", "SubtreeRoots", {"extend"}, "neutral")
    \cup E("AppendSectors", "resp", "NewMerkleRoot", {"flip", Swap, "otherRoot", "resign"}, "unbind")
    \cup RawInner("AppendSectors", "resp")
    \cup HostSig("AppendSectors", "sig")
    \cup RawLast("AppendSectors", "sig")
    \* ---- free: diff proof against the renter's own root, recomputed revision, host signature (rpc.go:619-650)
    \cup E("FreeSectors", "resp", "OldSubtreeHashes", Lists \cup {Swap, "otherRoot", "wrongCount"}, "evidence")
    \cup E("FreeSectors", "resp", "OldLeafHashes", Lists \cup {Swap, "otherRoot", "wrongCount"}, "evidence")
    \cup E("FreeSectors", "resp", "NewMerkleRoot", {"flip", Swap, "otherRange", "otherRoot"}, "unbind")
    \cup E("FreeSectors", "resp", "All", {"otherRange", "wrongCount"}, "unbind")
    \* the host serves the index list AS SENT, without the honest host's validation (duplicates, order):
    \* valid diff proof and signature for swap-with-tail applied once per index received.  For a client
    \* that sends the normal form (distinct, descending) this IS the honest answer.
    \cup E("FreeSectors", "resp", "All", {"asSent"}, "coherent")   \* a complete proof -- for freeing other sectors
    \cup RawInner("FreeSectors", "resp")
    \cup HostSig("FreeSectors", "sig")
    \cup RawLast("FreeSectors", "sig")
    \* ---- fund: balance count, host signature over the recomputed revision (rpc.go:751-756)
    \cup E("FundAccounts", "resp", "Balances", {"flip", Swap}, "info")       \* unauthenticated host claim
    \cup E("FundAccounts", "resp", "Balances", {"truncate", "extend", "wrongCount"}, "evidence")
    \cup HostSig("FundAccounts", "resp")
    \cup RawLast("FundAccounts", "resp")
    \* ---- replenish: per-deposit <= target, total <= target x accounts, host signature (rpc.go:797-842, 876-922)
    \cup UNION {   E(r, "resp", "Deposits", {"flip", "wrongCount"}, "unbind")
              \cup E(r, "resp", "Deposits", {"truncate", "extend", Swap}, "evidence")
              \cup E(r, "resp", "Deposits", {"resign"}, "coherent")
              \cup RawInner(r, "resp")
              \cup HostSig(r, "sig")
              \cup RawLast(r, "sig") : r \in {"ReplenishAccounts", "ReplenishPools"}}
    \* ---- contract lifecycle: the FINAL message tampered with one field at a time while the honest
    \*      signatures are replayed.  Binding: "id-bound" -- the field is covered by the ID of the contract
    \*      transaction, which the renter compares with the transaction it negotiated; "signature-bound" --
    \*      the host signatures are verified against hashes of the negotiated contract / renewal.  The
    \*      returned revision must BE the negotiated one, field by field, with a valid host signature.
    \cup UNION {   UNION {E(r, "final", f, {"flip"}, "unbind") : f \in ContractFields}               \* id-bound
              \cup E(r, "final", "RenterOutputValue", {"resign"}, "unbind")    \* allowance moved to the host, re-signed by it
              \cup E(r, "final", "MinerFee", {"flip"}, "unbind")                                    \* id-bound
              \cup E(r, "final", "SiacoinInputs", {"truncate"}, "unbind")
              \cup E(r, "final", "SiacoinOutputs", {"extend"}, "unbind")
              \cup E(r, "final", "ContractHostSignature", {"flip", Swap, "transportKey"}, "unbind")                  \* signature-bound
              \cup E(r, "final", "ContractRenterSignature", {"flip"}, "info")   \* the renter's own signature: not re-checked
              \cup E(r, "final", "TransactionSet", {"truncate", "wrongCount"}, "evidence")
              \cup E(r, "final", "TransactionSet", {"extend"}, "info")          \* parents are the pool's business
              \cup E(r, "final", "Basis", {"flip"}, "info")
              \cup RawLast(r, "final")
              \cup E(r, "inputs", "HostInputs", {"truncate", "wrongCount"}, "evidence")
              \cup RawInner(r, "inputs") : r \in Lifecycle}
    \cup UNION {   UNION {E(r, "final", f, {"flip"}, "unbind") : f \in RenewalFields}                \* id-bound
              \cup E(r, "final", "ParentID", {"flip"}, "unbind")
              \cup E(r, "final", "Resolution", {"otherRoot"}, "unbind")         \* another kind of resolution
              \cup E(r, "final", "RenewalHostSignature", {"flip", Swap, "transportKey"}, "unbind")                   \* signature-bound
              \cup E(r, "final", "RenewalRenterSignature", {"flip"}, "info") : r \in Renewing}
    \cup E("FormContract", "final", "FileContracts", {"extend"}, "unbind")      \* a second contract rides along
    \* ---- informational
    \cup E("LatestRevision", "resp", "Contract", {"flip", Swap, "resign"}, "info")
    \cup E("LatestRevision", "resp", "Revisable", {"flip"}, "info")
    \cup E("LatestRevision", "resp", "Renewed", {"flip"}, "info")
    \cup E("LatestRevision", "resp", "Raw", {"truncate"}, "evidence")
    \cup E("LatestRevision", "resp", "Raw", {"extend"}, "neutral")
    \cup E("AccountBalance", "resp", "Balance", {"flip"}, "info")
    \cup E("AccountBalance", "resp", "Raw", {"truncate"}, "evidence")
    \cup E("AccountBalance", "resp", "Raw", {"extend"}, "neutral")

\* what the client functions verify (field granularity), read off rpc.go
Checked ==
       {<<"ReadSector", f>> : f \in {"Proof", "DataLength", "Bytes", "Stream", "All", "Raw"}}   \* Stream: the byte count
  \cup {<<"ReadInvalid", "All">>, <<"RootsOutOfRange", "All">>}
  \cup {<<"ReadUnaligned", "All">>, <<"FreeOutOfRange", "All">>}   \* the client refuses these requests itself (before dialing)
  \cup {<<"WriteSector", f>> : f \in {"Root", "Raw"}}
  \cup {<<"VerifySector", f>> : f \in {"Proof", "Leaf", "All", "Raw"}}
  \cup {<<"SectorRoots", f>> : f \in {"Proof", "Roots", "HostSignature", "All", "Raw"}}
  \cup {<<"AppendSectors", f>> : f \in {"Accepted", "SubtreeRoots", "NewMerkleRoot", "All", "HostSignature", "Raw"}}
  \cup {<<"FreeSectors", f>> : f \in {"OldSubtreeHashes", "OldLeafHashes", "NewMerkleRoot", "All", "HostSignature", "Raw"}}
  \cup {<<"FundAccounts", f>> : f \in {"Balances", "HostSignature", "Raw"}}
  \cup {<<r, f>> : r \in {"ReplenishAccounts", "ReplenishPools"}, f \in {"Deposits", "HostSignature", "Raw"}}
  \cup {<<"LatestRevision", "Raw">>, <<"AccountBalance", "Raw">>}
  \* lifecycle: transaction ID comparison + host signature checks + structural checks of the final set
  \cup {<<r, f>> : r \in Lifecycle, f \in ContractFields \cup RenewalFields \cup
            {"MinerFee", "SiacoinInputs", "SiacoinOutputs", "FileContracts", "ParentID", "Resolution", "TransactionSet",
             "ContractHostSignature", "RenewalHostSignature", "HostInputs", "Raw"}}

-----------------------------------------------------------------------------
\* World parameter: is the peer key of the transport the renter dials (TransportClient.PeerKey) the
\* host key of the contract?  FALSE: a separate / rotated transport identity, a pooled connection, the
\* contract of host A presented over a transport to B.  Explored for every RPC that returns a
\* host-signed revision; in that world the plans are the honest exchange and the signature faults.
SigRPCs   == {"SectorRoots", "AppendSectors", "FreeSectors", "FundAccounts", "ReplenishAccounts", "ReplenishPools"} \cup Lifecycle
SigFields == {"HostSignature", "ContractHostSignature", "RenewalHostSignature"}
KeyRegimes(r) == IF r \in SigRPCs THEN BOOLEAN ELSE {TRUE}
RegimeOK(k, p) == /\ ~k => \A f \in p : f.field \in SigFields
                  /\ k => \A f \in p : f.how # "transportKey"

VariantsOf(r) == IF r = "ReadSector" THEN ReadVariants ELSE IF r \in Lifecycle THEN LifeVariants ELSE Variants
Cat(r) == {c \in Catalog : c.rpc = r}
F(c) == [msg |-> c.msg, field |-> c.field, how |-> c.how, k |-> 0]
MsgSet(r) == {Msgs(r)[i] : i \in DOMAIN Msgs(r)}
RawField(r, m) == IF r \in {"ReadSector", "ReadUnaligned", "ReadInvalid"} /\ m = "data" THEN "Bytes" ELSE "Raw"

\* Two faults of one plan must write disjoint parts of the exchange: distinct fields, where the
\* composite faults write several fields ("All": every field of the message -- for a read also the
\* data that follows; the coherent append lie: the proof and the root as well; a coherent answer
\* for another number of roots: the proof as well).  "Raw" acts on the encoding and composes with all.
Wide(c, d) ==
    \/ c.field = "All" /\ d.msg = c.msg /\ d.field # "Raw"
    \/ c.rpc = "ReadSector" /\ c.field = "All" /\ d.msg = "data"
    \/ c.rpc = "AppendSectors" /\ c.field = "Accepted" /\ c.how = "resign" /\ d.msg = c.msg /\ d.field \in {"SubtreeRoots", "NewMerkleRoot"}
    \/ c.rpc = "SectorRoots" /\ c.field = "Roots" /\ c.how = "wrongCount" /\ d.msg = c.msg /\ d.field = "Proof"
Conflict(c, d) == <<c.msg, c.field>> = <<d.msg, d.field>> \/ Wide(c, d) \/ Wide(d, c)

Singles(r) == {{F(c)} : c \in Cat(r)}
PairsC(r)  == UNION {{{c, d} : d \in {x \in Cat(r) : ~Conflict(c, x)}} : c \in Cat(r)}
TriplesC(r) == UNION {{p \cup {e} : e \in {x \in Cat(r) : \A g \in p : ~Conflict(g, x)}} : p \in PairsC(r)}
Pairs(r)   == {{F(c) : c \in p} : p \in PairsC(r)}
Triples(r) == {{F(c) : c \in p} : p \in TriplesC(r)}
Randoms(r) == IF r \in Unservable THEN {} ELSE
              {{[msg |-> m, field |-> RawField(r, m), how |-> "random", k |-> k]} : m \in MsgSet(r), k \in 1..NRandom}

Plans(r) == {{}} \cup Singles(r)
                 \cup (IF MaxFaults >= 2 THEN Pairs(r) ELSE {})
                 \cup (IF MaxFaults >= 3 THEN Triples(r) ELSE {})
                 \cup Randoms(r)

\* Membership in Plans(r) as a predicate (what trace validation evaluates per recorded case; Leg M
\* checks that it agrees with the generator: PlansAgree, and ASSUME PlansExact below).
Entry(r, f) == CHOOSE c \in Cat(r) : c.msg = f.msg /\ c.field = f.field /\ c.how = f.how
InCat(r, f) == f.k = 0 /\ \E c \in Cat(r) : c.msg = f.msg /\ c.field = f.field /\ c.how = f.how
InPlans(r, p) ==
    \/ p = {}
    \/ \E f \in p : p = {f} /\ f.how = "random" /\ f.msg \in MsgSet(r) /\ f.field = RawField(r, f.msg) /\ f.k \in 1..NRandom
    \/ /\ Cardinality(p) <= (IF MaxFaults > 3 THEN 3 ELSE MaxFaults) /\ Cardinality(p) >= 1
       /\ \A f \in p : InCat(r, f)
       /\ \A f, g \in p : f # g => ~Conflict(Entry(r, f), Entry(r, g))

ClassOf(r, f) ==
    IF f.how = "random" THEN "random"
    ELSE (CHOOSE c \in Cat(r) : c.msg = f.msg /\ c.field = f.field /\ c.how = f.how).class

Unbinds(r, p) == \E f \in p : ClassOf(r, f) = "unbind"

\* the acceptance rule applied to the REAL outcome (Leg R, Leg T)
MustOf(r, p) == IF p = {} THEN (IF r \in Unservable THEN "any" ELSE "ok")
                ELSE IF Unbinds(r, p) /\ r \notin Informational THEN "err"
                ELSE "any"
Allowed(r, p) == CASE MustOf(r, p) = "ok" -> {"ok"} [] MustOf(r, p) = "err" -> {"err"} [] OTHER -> {"ok", "err"}

\* the abstract client: rejects a message iff a field it verifies was altered in a way that matters
Detected(r, f) == /\ <<r, f.field>> \in Checked \ DevUnchecked
                  /\ ClassOf(r, f) \in {"unbind", "evidence", "random"}

-----------------------------------------------------------------------------
\* wire: the request the client put on the wire is the NORMAL FORM of the caller's arguments (free:
\* the distinct indices in descending order; everything else: the arguments as given).  TRUE while
\* nothing was sent.  The abstract client always normalises; the recorded value comes from the request
\* bytes the man in the middle captured.
VARIABLES rpc, variant, samekey, plan, pos, outcome, bound, wire, act
vars == <<rpc, variant, samekey, plan, pos, outcome, bound, wire, act>>
view == <<rpc, variant, samekey, plan, pos, outcome, bound, wire>>

Init ==
    /\ rpc = "none" /\ variant = 0 /\ plan = {} /\ pos = 0
    /\ outcome = "idle" /\ bound = FALSE /\ wire = TRUE /\ samekey = TRUE
    /\ act = [op |-> "Init"]

Start(r, v, k, p) ==
    /\ outcome = "idle"
    /\ rpc' = r /\ variant' = v /\ plan' = p /\ pos' = 1
    /\ RegimeOK(k, p)
    /\ outcome' = "running" /\ bound' = FALSE /\ wire' = TRUE /\ samekey' = k
    /\ act' = [op |-> "Start", rpc |-> r, variant |-> v, samekey |-> k, plan |-> p, must |-> MustOf(r, p),
               classes |-> {[msg |-> f.msg, field |-> f.field, how |-> f.how, k |-> f.k, class |-> ClassOf(r, f)] : f \in p}]

\* the host delivers message `pos` (with the planned faults); the abstract client checks it
Deliver ==
    /\ outcome = "running"
    /\ LET m  == Msgs(rpc)[pos]
           fs == {f \in plan : f.msg = m}
       IN  /\ act' = [op |-> "Deliver", msg |-> m, faults |-> fs]
           /\ IF (\E f \in fs : Detected(rpc, f)) \/ (rpc \in Unservable /\ plan = {})   \* the honest host refuses
                THEN outcome' = "err" /\ UNCHANGED <<pos, bound>>
                ELSE IF pos = Len(Msgs(rpc))
                       THEN /\ outcome' = "ok"
                            /\ bound' = ~Unbinds(rpc, plan)   \* ground truth of the statement
                            /\ UNCHANGED pos
                       ELSE pos' = pos + 1 /\ UNCHANGED <<outcome, bound>>
    /\ UNCHANGED <<rpc, variant, samekey, plan, wire>>

Next ==
    \/ \E r \in RPCs : \E v \in VariantsOf(r) : \E k \in KeyRegimes(r) : \E p \in Plans(r) : Start(r, v, k, p)
    \/ Deliver

Spec == Init /\ [][Next]_vars

-----------------------------------------------------------------------------
TypeOK ==
    /\ rpc \in RPCs \cup {"none"}
    /\ outcome \in {"idle", "running", "ok", "err"}     \* never a panic
    /\ bound \in BOOLEAN /\ wire \in BOOLEAN /\ samekey \in BOOLEAN
    /\ Cardinality(plan) <= IF MaxFaults > 1 THEN MaxFaults ELSE 1

\* C10: a call that reports success is bound (the informational RPCs make no claim)
SuccessImpliesBound == (outcome = "ok" /\ rpc \notin Informational) => bound

\* what goes on the wire is the normal form of the arguments (an honest host refuses anything else,
\* a dishonest one can serve it as sent: see FreeSectors resp.All:asSent)
WireNormalForm == wire

\* ... and the check cannot pass by the client rejecting everything
HonestSucceeds == (outcome \in {"ok", "err"} /\ plan = {} /\ rpc \notin Unservable) => outcome = "ok"

\* the abstract client obeys the acceptance rule it is judged by
ObeysRule == outcome \in {"ok", "err"} => outcome \in Allowed(rpc, plan)

\* the membership predicate agrees with the generator of the fault space
PlansAgree == outcome # "idle" => InPlans(rpc, plan)
SmallRPCs == {"WriteSector", "FundAccounts", "LatestRevision", "AccountBalance"} \cap RPCs
PlansExact == \A r \in SmallRPCs : {p \in SUBSET {F(c) : c \in Cat(r)} : InPlans(r, p)} \cup Randoms(r) = Plans(r)
ASSUME PlansExact

\* catalogue sanity: every (rpc, msg, field, how) has exactly one class; messages exist
CatalogOK ==
    /\ \A c \in Catalog : c.rpc \in AllRPCs /\ c.msg \in MsgSet(c.rpc)
    /\ \A c, d \in Catalog : (c.rpc = d.rpc /\ c.msg = d.msg /\ c.field = d.field /\ c.how = d.how) => c.class = d.class
    /\ \A c \in Catalog : c.class = "unbind" => c.rpc \notin Informational
ASSUME CatalogOK
ASSUME RPCs \subseteq AllRPCs
=============================================================================
