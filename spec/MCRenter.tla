------------------------------ MODULE MCRenter ------------------------------
(* Model-checking / edge-export wrapper for Renter (property C10).  EmitEdge is evaluated as
   ACTION_CONSTRAINT: one EDGE line per explored transition; props/C10.py turns the paths
   Init -> Start(rpc, variant, plan) -> Deliver* into the cases the Go harness executes. *)
EXTENDS Renter, Json

St(r, v, k, p, ps, o, b) == [rpc |-> r, variant |-> v, samekey |-> k, plan |-> p, pos |-> ps, outcome |-> o, bound |-> b]   \* (wire is constantly TRUE in the model)

EmitEdge ==
    PrintT("EDGE " \o ToJson([from |-> St(rpc, variant, samekey, plan, pos, outcome, bound),
                              act |-> act',
                              reply |-> [outcome |-> outcome', bound |-> bound'],
                              to |-> St(rpc', variant', samekey', plan', pos', outcome', bound')]))

\* selftest deviations (function-valued constants cannot be written in a .cfg)
DevSig  == {<<"AppendSectors", "HostSignature">>}
DevData == {<<"ReadSector", "Bytes">>, <<"WriteSector", "Root">>}
DevUnaligned == {<<"ReadUnaligned", "All">>, <<"FreeOutOfRange", "All">>}
=============================================================================
