------------------------------ MODULE MCLimits ------------------------------
(* Model-checking / edge-export wrapper for Limits (property C18). *)
EXTENDS Limits, Json, Sequences

StateRec == [lim |-> lim, st |-> st, out |-> out, sem |-> sem, sub |-> sub, loopOn |-> loopOn, gone |-> gone,
             tgLive |-> tgLive, stop |-> stop, lclosed |-> lclosed, peersClosed |-> peersClosed, dead |-> dead,
             runLive |-> runLive, conn |-> conn, th |-> th, stop2 |-> stop2, par |-> par]

\* Leg R: the harness decides the environment steps and lets the real code run until it is settled, so
\* environment steps are exported only from states in which no internal step is enabled ("eager" graph).
EnvOps == {"Arrive", "Disconnect", "CloseListener", "StopBegin", "Stop2Begin", "CancelParent", "ThAdd", "ThRefuse", "ThCheck", "AllowCheck", "Refuse", "Handshake"}
IsEnvStep == \/ act'.op \in EnvOps
             \/ (act'.op = "Abort" /\ stop = "no")
             \/ (act'.op = "RemovePeer" /\ ~dead[act'.p])
\* in the RPC/TG families a handler's return is the harness's decision too (it holds the gate)
GateOps == {"Handle", "ThDone"}
\* CONN family: the harness also holds PeerStore.AddPeer, i.e. decides when addPeer proceeds
ConnGateOps == {"AddPeer"}

InternalEnabledExcept(ops) ==
    \/ \E p \in Peers : G_AcquirePeer(p) \/ G_AcquireSubnet(p) \/ G_Spawn(p) \/ G_LoopExit(p)
    \/ \E p \in Peers, r \in RpcIds :
          G_TgAdd(p, r) \/ G_HandleDone(p, r) \/ G_ReleaseSubnet(p, r) \/ G_ReleasePeer(p, r) \/ G_Abandon(p, r)
    \/ G_StopWait \/ G_StopReturn \/ G_Stop2Return \/ G_ClosePeers \/ G_RunExit
    \/ \E t \in Threads : G_ThCommit(t)
    \/ \E c \in Conns : G_RunPeer(c)
    \/ ("AddPeer" \notin ops /\ \E c \in Conns : G_AddPeer(c))
    \/ ("Handle" \notin ops /\ \E p \in Peers, r \in RpcIds : G_Handle(p, r))
    \/ ("ThDone" \notin ops /\ \E t \in Threads : G_ThDone(t))
    \/ (stop # "no" /\ \E c \in Conns : G_Abort(c))
    \/ (\E c \in Conns : dead[c] /\ G_RemovePeer(c))

Harness == GateOps \cup ConnGateOps
\* a harness that connects after the listener has been closed is always refused (allowConnect after the close
\* needs an accept before it, which a sequential replay does not produce)
Eager == /\ (IsEnvStep \/ act'.op \in Harness) => ~InternalEnabledExcept(Harness)
         /\ ~(act'.op = "AllowCheck" /\ act'.p \in InConns /\ lclosed)

Emit ==
    PrintT("EDGE " \o ToJson([init |-> (act.op = "Init"), from |-> StateRec, act |-> act',
        to |-> [lim |-> lim', st |-> st', out |-> out', sem |-> sem', sub |-> sub', loopOn |-> loopOn', gone |-> gone',
                tgLive |-> tgLive', stop |-> stop', lclosed |-> lclosed', peersClosed |-> peersClosed', dead |-> dead',
                runLive |-> runLive', conn |-> conn', th |-> th', stop2 |-> stop2', par |-> par']]))

EagerEmit == Eager /\ Emit
=============================================================================
