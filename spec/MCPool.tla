----------------------------- MODULE MCPool -----------------------------
(* Model-checking / edge-export wrapper for Pool: the scenarios are read from the JSON file named
   by $POOLSC (written by props/C14.py for Leg M and Leg R, by harness/poolx for Leg T). *)
EXTENDS Pool, Json, IOUtils

ScJ == JsonDeserialize(IOEnv.POOLSC)

ToSet(s) == {s[i] : i \in 1..Len(s)}
FixTx(x) == [ins |-> ToSet(x.ins), refs |-> ToSet(x.refs), outs |-> ToSet(x.outs), kind |-> x.kind, w |-> x.w, lo |-> x.lo, hi |-> x.hi]
FixSc(c) ==
    [n |-> c.n, maxpool |-> c.maxpool, maxblock |-> c.maxblock, parent |-> c.parent, height |-> c.height, body |-> c.body,
     creates |-> [b \in 1..c.n |-> ToSet(c.creates[b])],
     spends  |-> [b \in 1..c.n |-> ToSet(c.spends[b])],
     ntx |-> c.ntx, tx |-> [t \in 1..c.ntx |-> FixTx(c.tx[t])],
     sets |-> c.sets, rsets |-> c.rsets, look |-> ToSet(c.look), txsetc |-> ToSet(c.txsetc)]
ScensC == [i \in 1..Len(ScJ) |-> FixSc(ScJ[i])]

StateRec == [sc |-> sc, tip |-> tip, sub |-> sub, app |-> app, pc |-> pc, utxo |-> utxo, pool1 |-> pool1,
             pool2 |-> pool2, offered |-> offered, mustKeep |-> mustKeep, kept0 |-> kept0, stale |-> stale]

EmitEdge == PrintT("EDGE " \o ToJson([from |-> StateRec, act |-> act', reply |-> reply', to |-> StateRec']))
=============================================================================
