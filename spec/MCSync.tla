------------------------------ MODULE MCSync ------------------------------
(* Model-checking constants and edge export for Sync.tla (properties C12, C11). *)
EXTENDS Sync, Json

\* ---- honest family: trunk g-t1-t2, branch a (a3..a6) and branch b (b3..b5) off t2.
\* With K = 2 the history sample of a chain of height 6 is {6, 5, 3, 0}: fork points fall inside
\* the dense part (5), on a sample point (3), between sample points (4, 2) and beyond;
\* Batch = 2 splits a 4-block download in two requests; ReqH = 4 puts the second request of
\* branch a on the checkpoint + pre-validation path.
TreeA == [
  par |-> [g |-> "g", t1 |-> "g", t2 |-> "t1", a3 |-> "t2", a4 |-> "a3", a5 |-> "a4", a6 |-> "a5", b3 |-> "t2", b4 |-> "b3", b5 |-> "b4"],
  h   |-> [g |-> 0, t1 |-> 1, t2 |-> 2, a3 |-> 3, a4 |-> 4, a5 |-> 5, a6 |-> 6, b3 |-> 3, b4 |-> 4, b5 |-> 5],
  cls |-> [g |-> "ok", t1 |-> "ok", t2 |-> "ok", a3 |-> "ok", a4 |-> "ok", a5 |-> "ok", a6 |-> "ok", b3 |-> "ok", b4 |-> "ok", b5 |-> "ok"],
  lo  |-> [g |-> 0, t1 |-> 1, t2 |-> 2, a3 |-> 3, a4 |-> 4, a5 |-> 5, a6 |-> 6, b3 |-> 3, b4 |-> 4, b5 |-> 5],
  hi  |-> [g |-> 0, t1 |-> 1, t2 |-> 2, a3 |-> 3, a4 |-> 4, a5 |-> 5, a6 |-> 6, b3 |-> 3, b4 |-> 4, b5 |-> 5]]

\* a smaller tree for three nodes: trunk g-t1, a2..a4, b2..b3, c3 off a2
TreeC == [
  par |-> [g |-> "g", t1 |-> "g", a2 |-> "t1", a3 |-> "a2", a4 |-> "a3", b2 |-> "t1", b3 |-> "b2", c3 |-> "a2"],
  h   |-> [g |-> 0, t1 |-> 1, a2 |-> 2, a3 |-> 3, a4 |-> 4, b2 |-> 2, b3 |-> 3, c3 |-> 3],
  cls |-> [g |-> "ok", t1 |-> "ok", a2 |-> "ok", a3 |-> "ok", a4 |-> "ok", b2 |-> "ok", b3 |-> "ok", c3 |-> "ok"],
  lo  |-> [g |-> 0, t1 |-> 1, a2 |-> 2, a3 |-> 3, a4 |-> 4, b2 |-> 2, b3 |-> 3, c3 |-> 3],
  hi  |-> [g |-> 0, t1 |-> 1, a2 |-> 2, a3 |-> 3, a4 |-> 4, b2 |-> 2, b3 |-> 3, c3 |-> 3]]

\* ---- byzantine family: honest chain g-t1-a2-a3-a4; crafted blocks: z2 (header-valid, body
\* invalid) and z3 on top of it, y2 (rejected at submission: insufficient work / bad payout /
\* wrong height), w4 (invalid block on top of the honest a3), v2-v3 (a VALID fork only Z has).
TreeB == [
  par |-> [g |-> "g", t1 |-> "g", a2 |-> "t1", a3 |-> "a2", a4 |-> "a3", z2 |-> "t1", z3 |-> "z2", y2 |-> "t1", w4 |-> "a3", v2 |-> "t1", v3 |-> "v2"],
  h   |-> [g |-> 0, t1 |-> 1, a2 |-> 2, a3 |-> 3, a4 |-> 4, z2 |-> 2, z3 |-> 3, y2 |-> 2, w4 |-> 4, v2 |-> 2, v3 |-> 3],
  cls |-> [g |-> "ok", t1 |-> "ok", a2 |-> "ok", a3 |-> "ok", a4 |-> "ok", z2 |-> "bad", z3 |-> "bad", y2 |-> "hdr", w4 |-> "bad", v2 |-> "ok", v3 |-> "ok"],
  lo  |-> [g |-> 0, t1 |-> 1, a2 |-> 2, a3 |-> 3, a4 |-> 4, z2 |-> 2, z3 |-> 3, y2 |-> 2, w4 |-> 4, v2 |-> 2, v3 |-> 3],
  hi  |-> [g |-> 0, t1 |-> 1, a2 |-> 2, a3 |-> 3, a4 |-> 4, z2 |-> 2, z3 |-> 3, y2 |-> 2, w4 |-> 4, v2 |-> 2, v3 |-> 3]]

\* ---- node sets, topologies, assignments
H2 == {"n1", "n2"}
H3 == {"n1", "n2", "n3"}
Line2 == {<<"n1", "n2">>}
Line3 == {<<"n1", "n2">>, <<"n3", "n2">>}
Tri3 == {<<"n1", "n2">>, <<"n2", "n3">>, <<"n3", "n1">>}

FromGenesis2 == [n \in H2 |-> "g"]
FromGenesis3 == [n \in H3 |-> "g"]
Cap2 == [n \in H2 |-> 2]
Cap3 == [n \in H3 |-> 2]

\* every assignment of tree positions to two nodes (Init keeps the admissible ones)
TipsA2 == [H2 -> {"g", "t1", "t2", "a3", "a4", "a5", "a6", "b3", "b4", "b5"}]
\* three nodes: one holds the heaviest branch, the others anything
TipsC3 == {f \in [H3 -> {"g", "t1", "a2", "a4", "b3", "c3"}] : \E n \in H3 : f[n] = "a4"}
TipsA3 == {f \in [H3 -> {"t1", "a4", "a6", "b5"}] : \E n \in H3 : f[n] = "a6"}

\* checkpoint family: n2 bootstrapped at t2 (holds t2 and everything above on its chain)
BaseCp2 == [n \in H2 |-> IF n = "n2" THEN "t2" ELSE "g"]
TipsCp2 == {f \in [H2 -> {"t2", "a3", "a4", "a5", "a6", "b3", "b4", "b5", "t1", "g"}] : T.h[f["n2"]] >= 2}

\* byzantine family: victim v, honest peer p (passive or active), Byzantine z
HB == {"v", "p"}
ZB == {"z"}
EdgesB == {<<"v", "p">>, <<"z", "v">>}
BaseB == [n \in HB |-> "g"]
CapB == [n \in HB |-> 2]
TipsB == {f \in [HB -> {"g", "t1", "a2", "a4"}] : f["p"] = "a4"}

\* ---- edge export (Leg R): printed once per explored transition, evaluated as ACTION_CONSTRAINT
Proj(k, t, l, b) ==
    [tip |-> t, known |-> k, link |-> [n \in H |-> [p \in Nodes \ {n} |-> l[<<n, p>>]]], banned |-> b]
EmitEdge ==
    PrintT("EDGE " \o ToJson([from |-> Proj(known, tip, link, banned), act |-> act',
                              to |-> Proj(known', tip', link', banned'),
                              fromsync |-> sync, tosync |-> sync']))
=============================================================================
