------------------------------ MODULE SeedMC ------------------------------
(***************************************************************************)
(* Leg M of C20: a scaled-down instance of Seed (e.g. 8-bit entropy, 1-bit *)
(* checksum, 3-bit words) that TLC checks EXHAUSTIVELY:                    *)
(*  - the definitions themselves (Words/Bits are inverse bijections, the   *)
(*    bounded-witness Decodes is the fully quantified one, the statement   *)
(*    of C20 holds for the specified codec) for several checksum functions;*)
(*  - an implementation-shaped model of wallet/seed.go (two half-width     *)
(*    registers hi/lo, shift-and-mask loops, carry between the halves)     *)
(*    supplies the results of every call and is judged by the property     *)
(*    invariants of Seed.  Dev switches on a named deviation of that model *)
(*    (self-test: TLC must then report a violation).                       *)
(***************************************************************************)
EXTENDS Seed

CONSTANTS Dev,     \* "none" | "shift" | "nocheck" | "carry"
          Lens,    \* token-sequence lengths to enumerate for Dec
          CSuse    \* names of the checksum functions to check with (subset of CSnames)

VARIABLE csn       \* the NAME of the checksum function of this behaviour (keeps the state small)

mvars == <<svars, csn>>

H2 == EB \div 2    \* register width (64 in the code)
R  == WB - CB      \* entropy bits in the last word (7 in the code)
ASSUME EB = 2 * H2 /\ H2 >= WB /\ CB >= 1

ASSUME BitsValInverse ==
    \A n \in 1..WB : /\ \A v \in 0..(2^n - 1) : Val(BitsOfVal(v, n)) = v
                     /\ \A s \in BitSeq(n) : BitsOfVal(Val(s), n) = s

Mask(x, n) == x % 2^n
Ones(e) == Cardinality({i \in 1..EB : e[i] = 1})

CSzero  == [e \in Ent |-> [i \in 1..CB |-> 0]]
CSlow   == [e \in Ent |-> [i \in 1..CB |-> e[EB - CB + i]]]
CSnhigh == [e \in Ent |-> [i \in 1..CB |-> 1 - e[i]]]
CSmix   == [e \in Ent |-> BitsOfVal((Val(e) * 5 + (Val(e) \div 8) + 3) % 2^CB, CB)]
CSpar   == [e \in Ent |-> BitsOfVal(Ones(e) % 2^CB, CB)]
CSnames == {"zero", "low", "nhigh", "mix", "par"}
CSfun   == [n \in CSnames |-> CASE n = "zero" -> CSzero [] n = "low" -> CSlow [] n = "nhigh" -> CSnhigh
                                    [] n = "mix" -> CSmix [] n = "par" -> CSpar]
csf     == CSfun[csn]          \* the checksum function of this behaviour (total: Ent -> CSum)

--------------------------------------------------------------------------
(* implementation-shaped codec: encodeBIP39Phrase / decodeBIP39Phrase with  *)
(* 64 -> H2, 11 -> WB, 7 -> R, 4 -> CB                                      *)

RECURSIVE EncLoop(_, _, _, _)
EncLoop(i, lo, hi, ws) ==
    IF i = 0 THEN ws
    ELSE LET sh == IF Dev = "shift" THEN WB - 1 ELSE WB
         IN  EncLoop(i - 1, (lo \div 2^sh) + Mask(hi, sh) * 2^(H2 - sh), hi \div 2^sh,
                     [ws EXCEPT ![i] = Mask(lo, WB)])

ImplEnc(e, c) ==
    LET hi   == Val(SubSeq(e, 1, H2))
        lo   == Val(SubSeq(e, H2 + 1, EB))
        last == Mask(lo, R) * 2^CB + Val(c)
    IN  EncLoop(NW - 1, (lo \div 2^R) + Mask(hi, R) * 2^(H2 - R), hi \div 2^R,
                [i \in 1..NW |-> IF i = NW THEN last ELSE 0])

RECURSIVE DecLoop(_, _, _, _)
DecLoop(t, i, lo, hi) ==           \* words i..NW-1; returns <<lo, hi>>
    IF i = NW THEN <<lo, hi>>
    ELSE LET carry == IF Dev = "carry" THEN 0 ELSE lo \div 2^(H2 - WB)
         IN  DecLoop(t, i + 1, Mask(lo * 2^WB + t[i], H2), Mask(hi * 2^WB + carry, H2))

ImplDec(t) ==
    IF Len(t) # NW \/ \E i \in 1..Len(t) : t[i] \notin Vocab
    THEN [ok |-> FALSE, d |-> <<>>]
    ELSE LET lh == DecLoop(t, 1, 0, 0)
             w  == t[NW]
             hi == Mask(lh[2] * 2^R + lh[1] \div 2^(H2 - R), H2)
             lo == Mask(lh[1] * 2^R + w \div 2^CB, H2)
             e  == BitsOfVal(hi, H2) \o BitsOfVal(lo, H2)
         IN  IF Dev = "nocheck" \/ Val(csf[e]) = Mask(w, CB)
             THEN [ok |-> TRUE, d |-> e] ELSE [ok |-> FALSE, d |-> <<>>]

--------------------------------------------------------------------------
(* behaviours: any single decode, or the scenario the trace driver runs for *)
(* an entropy: Enc; Dec of every checksum variant; Var; re-Enc; two Keys.   *)

TokSeqs == UNION {[1..n -> Vocab \cup {Unknown}] : n \in Lens}

Idle   == call.op \in {"Init", "Reset"}
InScen == DOMAIN H.enc # {}
Base   == H.enc[CHOOSE e \in DOMAIN H.enc : TRUE]
Todo   == Variants(Base) \ DOMAIN H.dec

MCEnc(e) == EncCall(e, csf[e], [wf |-> TRUE, w |-> ImplEnc(e, csf[e])])
MCDec(t) == LET r  == ImplDec(t)
                wf == WellFormed(t)
            IN  DecCall(t, IF wf THEN EntOf(t) ELSE <<>>, IF wf THEN csf[EntOf(t)] ELSE <<>>,
                        r, [ok |-> r.ok, s |-> r.d])

MCSfp(t) == LET r  == ImplDec(t)
                wf == WellFormed(t)
            IN  SfpCall(t, IF wf THEN EntOf(t) ELSE <<>>, IF wf THEN csf[EntOf(t)] ELSE <<>>,
                        [ok |-> r.ok, s |-> r.d])
Single  == Idle /\ \E t \in TokSeqs : MCDec(t) \/ MCSfp(t)
Start   == Idle /\ \E e \in Ent : MCEnc(e)
StepVar == /\ InScen /\ call.op \in {"Enc", "Dec"} /\ WellFormed(Base) /\ Todo # {}
           /\ MCDec(CHOOSE u \in Todo : \A x \in Todo : u[NW] <= x[NW])
StepChk == InScen /\ call.op = "Dec" /\ WellFormed(Base) /\ Todo = {} /\ VarCall(Base)
StepRe  == /\ InScen /\ call.op = "Var"
           /\ \E u \in Variants(Base) : H.dec[u].out.ok /\ MCEnc(H.dec[u].out.d)
StepKey == /\ InScen /\ DOMAIN H.dec # {} /\ call.op \in {"Enc", "Key"} /\ Cardinality(DOMAIN H.ky) < 2
           /\ \E s \in {"a", "b"}, i \in {"0", "1"} : KeyCall(s, i, <<s, i>>)
Ret     == ~Idle /\ ResetCall(FALSE)

MCNext == (Single \/ Start \/ StepVar \/ StepChk \/ StepRe \/ StepKey \/ Ret) /\ csn' = csn
MCInit == Init /\ csn \in CSuse
MCSpec == MCInit /\ [][MCNext]_mvars

--------------------------------------------------------------------------
(* theorems about the definitions, evaluated in every reachable state      *)

\* Words and Bits are inverse bijections between Ent x CSum and Vocab^NW
DefBijective ==
    /\ call.op = "Enc" => (EntOf(call.exp) = call.e /\ CsOf(call.exp) = call.c)
    /\ (call.op = "Dec" /\ call.wf) => Words(EntOf(call.t), CsOf(call.t)) = call.t
\* the bounded-witness Decodes of the call spec = the fully quantified definition = checksum comparison
DefDeclEquiv ==
    (call.op = "Dec" /\ call.wf) =>
        /\ call.exp.ok <=> (\E e \in Ent : \E c \in {csf[e]} : Encodes(e, c, call.t))   \* i.e. Words(e, c) = call.t
        /\ call.exp.ok <=> (CsOf(call.t) = csf[EntOf(call.t)])
\* the statement of C20 for the specified codec, csf total
ThmRoundTrip  == call.op = "Enc" => DecReply(call.exp, csf) = [ok |-> TRUE, e |-> call.e]
ThmReencode   == (call.op = "Dec" /\ call.exp.ok) => Words(call.exp.e, csf[call.exp.e]) = call.t
ThmExactlyOne == call.op = "Enc" => Cardinality({u \in Variants(call.exp) : DecReply(u, csf).ok}) = 1
\* Encodes is Words-equality (Encodes only short-circuits)
DefEncodes    == call.op = "Enc" => /\ Encodes(call.e, call.c, call.exp)
                                    /\ \A u \in Variants(call.exp) : Encodes(call.e, call.c, u) <=> (Words(call.e, call.c) = u)
ThmMalformed  == (call.op = "Dec" /\ ~call.wf) => ~call.exp.ok
=============================================================================
