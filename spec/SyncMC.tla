------------------------------ MODULE SyncMC ------------------------------
(* Model-checking constants and edge export for Sync.tla (properties C12, C11). *)
EXTENDS Sync, Json

\* ---- honest family: trunk g-t1-t2, branch a (a3..a6) and branch b (b3..b5) off t2.
\* With K = 2 the history sample of a chain of height 6 is {6, 5, 3, 0}: fork points fall inside
\* the dense part (5), on a sample point (3), between sample points (4, 2) and beyond;
\* Batch = 2 splits a 4-block download in two requests; ReqH = 4 puts the second request of
\* branch a on the checkpoint + pre-validation path.
WithId(t) == [par |-> t.par, h |-> t.h, cls |-> t.cls, lo |-> t.lo, hi |-> t.hi, id |-> [b \in DOMAIN t.par |-> b],
              v1 |-> [b \in DOMAIN t.par |-> FALSE]]
\* the same tree with the given blocks mined as v1 blocks
WithV1(t, vs) == [t EXCEPT !.v1 = [b \in DOMAIN t.par |-> b \in vs]]

TreeA == WithId([
  par |-> [g |-> "g", t1 |-> "g", t2 |-> "t1", a3 |-> "t2", a4 |-> "a3", a5 |-> "a4", a6 |-> "a5", b3 |-> "t2", b4 |-> "b3", b5 |-> "b4"],
  h   |-> [g |-> 0, t1 |-> 1, t2 |-> 2, a3 |-> 3, a4 |-> 4, a5 |-> 5, a6 |-> 6, b3 |-> 3, b4 |-> 4, b5 |-> 5],
  cls |-> [g |-> "ok", t1 |-> "ok", t2 |-> "ok", a3 |-> "ok", a4 |-> "ok", a5 |-> "ok", a6 |-> "ok", b3 |-> "ok", b4 |-> "ok", b5 |-> "ok"],
  lo  |-> [g |-> 0, t1 |-> 1, t2 |-> 2, a3 |-> 3, a4 |-> 4, a5 |-> 5, a6 |-> 6, b3 |-> 3, b4 |-> 4, b5 |-> 5],
  hi  |-> [g |-> 0, t1 |-> 1, t2 |-> 2, a3 |-> 3, a4 |-> 4, a5 |-> 5, a6 |-> 6, b3 |-> 3, b4 |-> 4, b5 |-> 5]])

\* TreeA with AllowH = 2, ReqH = 4: the window [2, 4) holds v1 blocks (t2, a3) next to a v2 block (b3)
TreeAv1 == WithV1(TreeA, {"g", "t1", "t2", "a3"})

\* a smaller tree for three nodes: trunk g-t1, a2..a4, b2..b3, c3 off a2
TreeC == WithId([
  par |-> [g |-> "g", t1 |-> "g", a2 |-> "t1", a3 |-> "a2", a4 |-> "a3", b2 |-> "t1", b3 |-> "b2", c3 |-> "a2"],
  h   |-> [g |-> 0, t1 |-> 1, a2 |-> 2, a3 |-> 3, a4 |-> 4, b2 |-> 2, b3 |-> 3, c3 |-> 3],
  cls |-> [g |-> "ok", t1 |-> "ok", a2 |-> "ok", a3 |-> "ok", a4 |-> "ok", b2 |-> "ok", b3 |-> "ok", c3 |-> "ok"],
  lo  |-> [g |-> 0, t1 |-> 1, a2 |-> 2, a3 |-> 3, a4 |-> 4, b2 |-> 2, b3 |-> 3, c3 |-> 3],
  hi  |-> [g |-> 0, t1 |-> 1, a2 |-> 2, a3 |-> 3, a4 |-> 4, b2 |-> 2, b3 |-> 3, c3 |-> 3]])

\* ---- byzantine family: honest chain g-t1-a2-a3-a4; crafted blocks: z2 (header-valid, body
\* invalid) and z3 on top of it, y2 (rejected at submission: insufficient work / bad payout /
\* wrong height), w4 (invalid block on top of the honest a3), v2-v3 (a VALID fork only Z has).
TreeB == WithId([
  par |-> [g |-> "g", t1 |-> "g", a2 |-> "t1", a3 |-> "a2", a4 |-> "a3", z2 |-> "t1", z3 |-> "z2", y2 |-> "t1", w4 |-> "a3", v2 |-> "t1", v3 |-> "v2"],
  h   |-> [g |-> 0, t1 |-> 1, a2 |-> 2, a3 |-> 3, a4 |-> 4, z2 |-> 2, z3 |-> 3, y2 |-> 2, w4 |-> 4, v2 |-> 2, v3 |-> 3],
  cls |-> [g |-> "ok", t1 |-> "ok", a2 |-> "ok", a3 |-> "ok", a4 |-> "ok", z2 |-> "bad", z3 |-> "bad", y2 |-> "hdr", w4 |-> "bad", v2 |-> "ok", v3 |-> "ok"],
  lo  |-> [g |-> 0, t1 |-> 1, a2 |-> 2, a3 |-> 3, a4 |-> 4, z2 |-> 2, z3 |-> 3, y2 |-> 2, w4 |-> 4, v2 |-> 2, v3 |-> 3],
  hi  |-> [g |-> 0, t1 |-> 1, a2 |-> 2, a3 |-> 3, a4 |-> 4, z2 |-> 2, z3 |-> 3, y2 |-> 2, w4 |-> 4, v2 |-> 2, v3 |-> 3]])

\* quick tier: the same ingredients on 8 blocks
TreeBq == WithId([
  par |-> [g |-> "g", t1 |-> "g", a2 |-> "t1", a3 |-> "a2", z2 |-> "t1", y2 |-> "t1", w3 |-> "a2", v2 |-> "t1"],
  h   |-> [g |-> 0, t1 |-> 1, a2 |-> 2, a3 |-> 3, z2 |-> 2, y2 |-> 2, w3 |-> 3, v2 |-> 2],
  cls |-> [g |-> "ok", t1 |-> "ok", a2 |-> "ok", a3 |-> "ok", z2 |-> "bad", y2 |-> "hdr", w3 |-> "bad", v2 |-> "ok"],
  lo  |-> [g |-> 0, t1 |-> 1, a2 |-> 2, a3 |-> 3, z2 |-> 2, y2 |-> 2, w3 |-> 3, v2 |-> 2],
  hi  |-> [g |-> 0, t1 |-> 1, a2 |-> 2, a3 |-> 3, z2 |-> 2, y2 |-> 2, w3 |-> 3, v2 |-> 2]])

\* ---- node sets, topologies, assignments
H2 == {"n1", "n2"}
H3 == {"n1", "n2", "n3"}
Line2 == {<<"n1", "n2">>}
Line3 == {<<"n1", "n2">>, <<"n3", "n2">>}
Tri3 == {<<"n1", "n2">>, <<"n2", "n3">>, <<"n3", "n1">>}

FromGenesis2 == [n \in H2 |-> "g"]
FromGenesis3 == [n \in H3 |-> "g"]
Cap2 == [n \in H2 |-> 2]
Cap3 == [n \in H3 |-> 2]

\* every assignment of tree positions to two nodes (Init keeps the admissible ones)
TipsA2 == [H2 -> {"g", "t1", "t2", "a3", "a4", "a5", "a6", "b3", "b4", "b5"}]
\* three nodes: one holds the heaviest branch, the others anything
TipsC3 == {f \in [H3 -> {"g", "t1", "a2", "a4", "b3", "c3"}] : \E n \in H3 : f[n] = "a4"}
\* quick: the heaviest branch at the end (n1) or in the middle (n2) of the line
TipsC3q == {f \in [H3 -> {"g", "a2", "a4", "b3", "c3"}] : (f["n1"] = "a4" /\ f["n2"] # "a4" /\ f["n3"] # "a4") \/ (f["n2"] = "a4" /\ f["n1"] # "a4" /\ f["n3"] # "a4" /\ f["n1"] = "b3")}
\* triangle: every pair is connected, a few representative assignments
TipsTri3 == {[n \in H3 |-> IF n = "n1" THEN "a4" ELSE IF n = "n2" THEN "b3" ELSE "c3"],
             [n \in H3 |-> IF n = "n1" THEN "a4" ELSE IF n = "n2" THEN "g" ELSE "b3"],
             [n \in H3 |-> IF n = "n1" THEN "a4" ELSE IF n = "n2" THEN "a2" ELSE "t1"]}
TipsA3 == {f \in [H3 -> {"t1", "a4", "a6", "b5"}] : \E n \in H3 : f[n] = "a6"}

\* checkpoint family: n2 bootstrapped at t2 (holds t2 and everything above on its chain)
BaseCp2 == [n \in H2 |-> IF n = "n2" THEN "t2" ELSE "g"]
\* n1 (from genesis) must be able to find a common id INSIDE n2's stored range: its history sample
\* must contain a block of the common chain at or above n2's checkpoint -- a full node cannot sync
\* from a checkpoint peer otherwise (the peer does not hold the older blocks; see the report)
TipsCp2 == {f \in [H2 -> {"t2", "a3", "a4", "a5", "a6", "b3", "b4", "b5"}] :
               \E x \in HistHeights(K, T.h[f["n1"]], 0, FALSE) :
                   x >= 2 /\ AncAt(T, f["n1"], x) \in AncSet(T, f["n2"])}

\* the assignment that exposes the one-block-behind trap of header-only announcements
TipsTrap == {[n \in H3 |-> IF n = "n1" THEN "a4" ELSE IF n = "n2" THEN "t1" ELSE "a2"]}

\* byzantine family: victim v, honest peer p (passive or active), Byzantine z
HB == {"v", "p"}
ZB == {"z"}
EdgesB == {<<"v", "p">>, <<"z", "v">>}
BaseB == [n \in HB |-> "g"]
CapB == [n \in HB |-> 2]
TipsB == {f \in [HB -> {"g", "t1", "a2", "a4"}] : f["p"] = "a4"}
TipsBq == {f \in [HB -> {"g", "t1", "a3"}] : f["p"] = "a3" /\ f["v"] # "a3"}

\* plant-then-serve: two Byzantine peers; z relays an invalid block on the victim's tip (rejected, but its
\* state stays stored), the accomplice y serves it through the pre-validated path
ZB2 == {"z", "y"}
EdgesB2 == {<<"v", "p">>, <<"z", "v">>, <<"y", "v">>}
TipsPlant == {[n \in HB |-> IF n = "p" THEN "a3" ELSE "a2"]}
PlantTops == {"w3", "a3"}

\* equal-height competing tips, then one node extends its fork by one block (TreeD): n1 on a3, n2 on b3,
\* b4 is mined by n2 once the forks have been exchanged
TreeD == WithId([
  par |-> [g |-> "g", t1 |-> "g", a2 |-> "t1", a3 |-> "a2", b2 |-> "t1", b3 |-> "b2", b4 |-> "b3"],
  h   |-> [g |-> 0, t1 |-> 1, a2 |-> 2, a3 |-> 3, b2 |-> 2, b3 |-> 3, b4 |-> 4],
  cls |-> [g |-> "ok", t1 |-> "ok", a2 |-> "ok", a3 |-> "ok", b2 |-> "ok", b3 |-> "ok", b4 |-> "ok"],
  lo  |-> [g |-> 0, t1 |-> 1, a2 |-> 2, a3 |-> 3, b2 |-> 2, b3 |-> 3, b4 |-> 4],
  hi  |-> [g |-> 0, t1 |-> 1, a2 |-> 2, a3 |-> 3, b2 |-> 2, b3 |-> 3, b4 |-> 4]])
TipsGrow == {[n \in H2 |-> IF n = "n1" THEN "a3" ELSE "b3"]}
MineD == {"b4"}
MinerD == [x \in MineD |-> "n2"]
NoMiner == [x \in {} |-> "n1"]

\* ID twin, poison-then-heal: victim v on its own fork b2-b3, honest p on a2-a3-a4; z holds the prefix a2-a3
TreeT == WithId([
  par |-> [g |-> "g", t1 |-> "g", a2 |-> "t1", a3 |-> "a2", a4 |-> "a3", b2 |-> "t1", b3 |-> "b2"],
  h   |-> [g |-> 0, t1 |-> 1, a2 |-> 2, a3 |-> 3, a4 |-> 4, b2 |-> 2, b3 |-> 3],
  cls |-> [g |-> "ok", t1 |-> "ok", a2 |-> "ok", a3 |-> "ok", a4 |-> "ok", b2 |-> "ok", b3 |-> "ok"],
  lo  |-> [g |-> 0, t1 |-> 1, a2 |-> 2, a3 |-> 3, a4 |-> 4, b2 |-> 2, b3 |-> 3],
  hi  |-> [g |-> 0, t1 |-> 1, a2 |-> 2, a3 |-> 3, a4 |-> 4, b2 |-> 2, b3 |-> 3]])
\* checkpoint-bootstrapped victim: v holds t1 and what is above it on its own fork (TreeT)
BaseCpV == [n \in HB |-> IF n = "v" THEN "t1" ELSE "g"]
TipsTwin == {[n \in HB |-> IF n = "p" THEN "a4" ELSE "b3"]}
TwinTops == {"a3", "a4"}

\* two-phase fork (TreeE): the attacker's chain z2..z5 forks off t1; z2 is invalid (header-valid), z3..z5 are built on it
\* AS IF it were valid.  The victim holds the honest a2-a3-a4.  With Batch = 2 and ReqH = 3 the first request [z2, z3]
\* (base t1, below the require height) is stored header-only and is not heavier; the second [z4, z5] (base z3) passes
\* checkpoint + pre-validation and tips the work over: the reorg must fail at z2 and leave the tip where it was.
TreeE == WithId([
  par |-> [g |-> "g", t1 |-> "g", a2 |-> "t1", a3 |-> "a2", a4 |-> "a3", z2 |-> "t1", z3 |-> "z2", z4 |-> "z3", z5 |-> "z4"],
  h   |-> [g |-> 0, t1 |-> 1, a2 |-> 2, a3 |-> 3, a4 |-> 4, z2 |-> 2, z3 |-> 3, z4 |-> 4, z5 |-> 5],
  cls |-> [g |-> "ok", t1 |-> "ok", a2 |-> "ok", a3 |-> "ok", a4 |-> "ok", z2 |-> "bad", z3 |-> "asif", z4 |-> "asif", z5 |-> "asif"],
  lo  |-> [g |-> 0, t1 |-> 1, a2 |-> 2, a3 |-> 3, a4 |-> 4, z2 |-> 2, z3 |-> 3, z4 |-> 4, z5 |-> 5],
  hi  |-> [g |-> 0, t1 |-> 1, a2 |-> 2, a3 |-> 3, a4 |-> 4, z2 |-> 2, z3 |-> 3, z4 |-> 4, z5 |-> 5]])
TipsE == {[n \in HB |-> "a4"]}
TopsE == {"z5", "z3"}

\* ---- edge export (Leg R): printed once per explored transition, evaluated as ACTION_CONSTRAINT.
\* The complete state is printed (the replay driver computes quiescent macro-steps on it and the Go
\* harness compares the projection tip / known / link / banned with the real nodes).
Full(k, t, ht, l, r, se, sy, b) ==
    [tip |-> t, htip |-> ht, known |-> k, link |-> [n \in H |-> [p \in Nodes \ {n} |-> l[<<n, p>>]]],
     round |-> r, seen |-> se,
     sync |-> [n \in H |-> [on |-> sy[n].on, src |-> sy[n].src, base |-> sy[n].base, top |-> sy[n].top, nxt |-> sy[n].nxt, rem0 |-> sy[n].rem0]],
     banned |-> {x[1] \o ">" \o x[2] : x \in b}]
EmitEdge ==
    PrintT("EDGE " \o ToJson([from |-> Full(known, tip, htip, link, round, seen, sync, banned), act |-> act',
                              to |-> Full(known', tip', htip', link', round', seen', sync', banned')]))

\* Leg R, byzantine family: only the victim's sync loop runs; the honest peer p serves and handles relays
AllBlocks == DOMAIN T.par
EdgeTopsB == {"z3", "w4", "v3", "a4"}
TipsEdgeB == {f \in [HB -> {"t1", "a3", "a4"}] : f["p"] = "a4" /\ f["v"] # "a4"}
ActiveV == {"v"}

\* Leg R, honest family: v syncs from two passive honest peers holding different forks (TreeC)
HE == {"v", "p", "q"}
EdgesE == {<<"v", "p">>, <<"v", "q">>}
BaseE == [n \in HE |-> "g"]
CapE == [n \in HE |-> 100]
CapB100 == [n \in HB |-> 100]
TipsEdgeE == {f \in [HE -> {"g", "t1", "a2", "a3", "a4", "b3", "c3"}] : f["p"] = "a4" /\ f["q"] \in {"b3", "c3", "a3"} /\ f["v"] \in {"g", "a2", "a3", "b3"}}
=============================================================================
