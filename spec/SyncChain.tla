----------------------------- MODULE SyncChain -----------------------------
(***************************************************************************)
(* The abstract chain state a syncer sees through syncer.ChainManager,     *)
(* shared by Sync.tla (protocol model, properties C11/C12) and             *)
(* SyncTrace.tla (validation of recorded ChainManager call logs).          *)
(*                                                                         *)
(* A block tree is a record T of functions over block names:               *)
(*   T.par  parent ("g" is genesis, par["g"] = "g")                        *)
(*   T.h    height                                                         *)
(*   T.cls  validity class, computed by an oracle, never assumed:          *)
(*            "ok"   valid                                                 *)
(*            "bad"  header-valid (work, linkage, timestamp, payouts), body*)
(*                   invalid or built on an invalid block: accepted by     *)
(*                   AddBlocks as a header, rejected when a reorg applies it*)
(*            "asif" built on an invalid ancestor as if it were valid: header-*)
(*                   valid AND valid relative to the state obtained by      *)
(*                   applying its ancestors blindly (what a checkpoint      *)
(*                   yields), so it passes pre-validation; no chain through *)
(*                   its invalid ancestor is valid                          *)
(*            "hdr"  rejected at submission (consensus.ValidateOrphan)     *)
(*            "orphan" parent unknown to the oracle                        *)
(*   T.id   the name under which the block's ID is known: itself, except   *)
(*          for a "variant" -- a block that carries the id of another block*)
(*          with different content (a v2 id does not cover the payout)     *)
(*   T.v1   TRUE for a v1 block (legal below the v2 require height; only   *)
(*          used by Sync.tla)                                              *)
(*   T.lo, T.hi  integer ranks with                                        *)
(*            a sufficiently heavier than b  <=>  lo[a] > hi[b]            *)
(*          (core State.SufficientlyHeavierThan: TotalWork(a) >            *)
(*           TotalWork(b) + Difficulty(b)/5; in Sync.tla lo = hi = work)   *)
(*                                                                         *)
(* A node is (known, tip): the blocks whose header state the manager       *)
(* stores, and the tip of its best chain (chain/manager.go:245-359).       *)
(***************************************************************************)
EXTENDS Integers, Sequences, FiniteSets, TLC

G == "g"

Suff(T, a, b) == T.lo[a] > T.hi[b]

RECURSIVE AncSet(_, _)
\* b and all its ancestors
AncSet(T, b) == IF b = G THEN {G} ELSE {b} \cup AncSet(T, T.par[b])

RECURSIVE AncAt(_, _, _)
\* the ancestor-or-self of b at height hh (hh <= T.h[b])
AncAt(T, b, hh) == IF T.h[b] <= hh \/ b = G THEN b ELSE AncAt(T, T.par[b], hh)

RECURSIVE Above(_, _, _)
\* the blocks of b's chain that are not in `stop` (stop contains an ancestor of b, or G)
Above(T, b, stop) == IF b \in stop \/ b = G THEN {} ELSE {b} \cup Above(T, T.par[b], stop)

RECURSIVE PathSeq(_, _, _)
\* the blocks after `base` up to `top`, lowest first (base is an ancestor-or-self of top)
PathSeq(T, base, top) == IF top = base \/ top = G THEN <<>> ELSE Append(PathSeq(T, base, T.par[top]), top)

Range(s) == {s[i] : i \in DOMAIN s}

\* linkage is by block id
Linked(T, bs) == \A i \in 2..Len(bs) : T.par[bs[i]] = T.id[bs[i - 1]]
Ids(T, bs) == {T.id[bs[i]] : i \in DOMAIN bs}

\* index of the first block of bs that AddBlocks refuses at submission (0: none):
\* a block of class hdr/orphan, or one whose parent state is missing
FirstRefused(T, known, bs) ==
    LET bad(i) == \/ T.cls[bs[i]] \in {"hdr", "orphan"}
                  \/ T.par[bs[i]] \notin (known \cup {T.id[bs[j]] : j \in 1..(i - 1)})
        S == {i \in DOMAIN bs : bad(i)}
    IN IF S = {} THEN 0 ELSE CHOOSE i \in S : \A j \in S : i <= j

(* Manager.AddBlocks(bs), chain/manager.go:245-308.  Blocks are stored (header state) one by    *)
(* one until one is refused; if none is refused and the LAST block is sufficiently heavier than *)
(* the tip a reorg to it is attempted, which fully validates every not-yet-applied block on the *)
(* path; if one of them is invalid the manager returns to the old tip and reports an error.    *)
AddBlocksRes(T, known, tip, bs) ==
    LET r == FirstRefused(T, known, bs)
        n == Len(bs)
    IN IF n = 0 THEN [known |-> known, tip |-> tip, err |-> FALSE]
       ELSE IF r > 0 THEN [known |-> known \cup {T.id[bs[j]] : j \in 1..(r - 1)}, tip |-> tip, err |-> TRUE]
       ELSE LET k2 == known \cup Ids(T, bs)
                last == bs[n]
            IN IF Suff(T, last, tip)
                 THEN IF \A x \in Above(T, last, AncSet(T, tip)) : T.cls[x] = "ok"
                        THEN [known |-> k2, tip |-> last, err |-> FALSE]
                        ELSE [known |-> k2, tip |-> tip, err |-> TRUE]
                 ELSE [known |-> k2, tip |-> tip, err |-> FALSE]

(* Manager.AddValidatedV2Blocks(bs, states), chain/manager.go:313-359: no validation at all --  *)
(* the caller vouches for blocks and states.  Only the first parent must be known.             *)
AddValidatedRes(T, known, tip, bs) ==
    LET n == Len(bs)
    IN IF n = 0 THEN [known |-> known, tip |-> tip, err |-> FALSE]
       ELSE IF T.par[bs[1]] \notin known THEN [known |-> known, tip |-> tip, err |-> TRUE]
       ELSE LET k2 == known \cup Ids(T, bs)
                last == bs[n]
            IN IF Suff(T, last, tip)
                 THEN IF \A x \in Above(T, last, AncSet(T, tip)) \ Range(bs) : T.cls[x] = "ok"
                        THEN [known |-> k2, tip |-> last, err |-> FALSE]
                        ELSE [known |-> k2, tip |-> tip, err |-> TRUE]
                 ELSE [known |-> k2, tip |-> tip, err |-> FALSE]

\* what the syncer must have established before it may call AddValidatedV2Blocks
\* (syncer/parallel_sync.go:57-79): a linked run of VALID blocks above the v2 require height
ValidatedOK(T, reqh, bs) ==
    /\ Len(bs) > 0
    /\ Linked(T, bs)
    /\ \A i \in DOMAIN bs : T.cls[bs[i]] \in {"ok", "asif"}
    /\ T.h[T.par[bs[1]]] >= reqh

(* History sample, chain/manager.go:160-184: the k most recent blocks, then exponentially       *)
(* spaced (offsets k+1, k+5, k+13, ... = (k-3) + 2^(i-k+2)), clamped at genesis; a node that    *)
(* does not hold its whole chain (checkpoint) stops at the first height it does not have.       *)
HistOff(k, i) == IF i < k THEN i ELSE (k - 3) + 2 ^ (i - k + 2)
HistHeights(k, tiph, lowest, anchor) ==
    LET raw == {IF tiph >= HistOff(k, i) THEN tiph - HistOff(k, i) ELSE 0 : i \in 0..(k + 10)}
        have == {x \in raw : x >= lowest}
    IN IF anchor THEN have \cup {lowest} ELSE have
=============================================================================
