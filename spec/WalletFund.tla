----------------------------- MODULE WalletFund -----------------------------
(***************************************************************************)
(* Property C07: funding in wallet.SingleAddressWallet (wallet/wallet.go)  *)
(* never double-allocates, conserves value and yields valid spends.        *)
(*                                                                         *)
(* State                                                                   *)
(*   cfg     the public options [dt, mi, md, rt]: defrag threshold, max    *)
(*           inputs for defrag, max defrag outputs, reservation in ticks   *)
(*           (rt = 0: a reservation shorter than anything observable)      *)
(*   owned   id -> [v, m]   confirmed unspent outputs of the wallet; m is  *)
(*           the number of blocks until maturity (0 = mature)              *)
(*   locked  id -> expiry tick (in-memory reservations, wallet.go:113-118) *)
(*   txs     tid -> [ver, st, ins, inv, out, fee, made, exp]  transactions *)
(*           produced by the wallet that are still of interest:            *)
(*           st = "out"    funded, handed to the caller, not broadcast     *)
(*           st = "rlsing" a ReleaseInputs call for it is in flight        *)
(*                         (concurrent traces only)                        *)
(*           st = "pool"   in the transaction pool                         *)
(*           ins  = selected input ids, inv = their total value at the time*)
(*           of selection, out = value leaving the wallet, fee = miner fee,*)
(*           made = {[id, v]} outputs paying the wallet (change, ...),     *)
(*           exp  = tick at which its reservation lapses                   *)
(*   poolSpent / poolMade (DESIGN) are the derived sets PoolSpent/PoolMade *)
(*   now     current tick;  nextId / nextTx  fresh-id counters             *)
(*   lag     number of blocks the chain manager has accepted that the      *)
(*           wallet's store has not been fed yet (owned / m are the STORE's *)
(*           view, which is what selection works on); a descriptor's bl is  *)
(*           how far behind the manager's tip the returned basis is: it     *)
(*           must be the wallet's tip (bl = lag), the index the selected    *)
(*           elements' proofs are valid for                                 *)
(*   act, reply  label and result of the last action (hidden by VIEW)      *)
(*                                                                         *)
(* The specification is PERMISSIVE about which eligible outputs a request  *)
(* selects (the code's largest-first + defrag policy, ties and map order   *)
(* are not part of the property): Fund/Redistribute/Split take the chosen  *)
(* transaction descriptor(s) `d` as a parameter and only demand what C07   *)
(* demands -- eligibility, disjointness, conservation.  It is EXACT about  *)
(* success/failure: a request for `amt` fails with NotEnoughFunds iff the  *)
(* eligible total is short, and a failed request changes nothing.          *)
(*                                                                         *)
(* Named deviations (reproduce two defects of the pinned tree; TRUE only   *)
(* in the self-test cfgs, where TLC must report the violated invariant):   *)
(*   DevSpendableIgnoresV2  SpendableOutputs scans only v1 pool spends     *)
(*   DevDefragReselect      defrag re-adds an already selected output      *)
(*   DevBalanceUsesManagerHeight  Balance() judges maturity by the chain    *)
(*                          manager's height, selection by the store's tip *)
(*   DevRedistLocksGathered a multi-batch Redistribute also reserves the   *)
(*                          outputs gathered for a batch it then dropped   *)
(***************************************************************************)
EXTENDS Integers, FiniteSets, FiniteSetsExt, TLC

CONSTANTS
    Delay,                  \* maturity delay of a miner payout, in blocks
    Batch,                  \* redistributeBatchSize (wallet.go:24)
    DevSpendableIgnoresV2, DevDefragReselect, DevRedistLocksGathered, DevBalanceUsesManagerHeight,
    \* ---- enumeration sets / bounds used by Next (model checking only)
    Cfgs, InitWallets,      \* option records; initial wallets (id -> [v, m])
    Amounts, RedistNs, RedistAmts, SplitNs, SplitMins, SplitFee, Rewards, Lags,
    MaxId, MaxTx, MaxNow

VARIABLES cfg, owned, locked, txs, now, nextId, nextTx, lag, act, reply
vars  == <<cfg, owned, locked, txs, now, nextId, nextTx, lag, act, reply>>
svars == <<cfg, owned, locked, txs, now, nextId, nextTx, lag>>
view  == svars

-----------------------------------------------------------------------------
(* helpers *)
Ids(M) == {o.id : o \in M}
MaxOf(S) == CHOOSE x \in S : \A y \in S : y <= x
MinOf(a, b) == IF a < b THEN a ELSE b
NoReply == [r |-> "ok", d |-> {}, dup |-> 0]

TxIds == DOMAIN txs
PoolTx == {t \in TxIds : txs[t].st = "pool"}
PoolSpentBy(V) == UNION {txs[t].ins : t \in {u \in PoolTx : txs[u].ver \in V}}
PoolSpent == PoolSpentBy({1, 2})                     \* DESIGN: poolSpent
MadeAll == UNION {txs[t].made : t \in PoolTx}
PoolMade == {o \in MadeAll : o.id \notin PoolSpent}  \* DESIGN: poolMade (unconfirmed outputs)
MakerVer(i) == txs[CHOOSE t \in PoolTx : i \in Ids(txs[t].made)].ver

Val(i) == IF i \in DOMAIN owned THEN owned[i].v ELSE (CHOOSE o \in MadeAll : o.id = i).v
SumV(S) == FoldSet(LAMBDA i, acc : acc + Val(i), 0, S)     \* total value of the outputs S
SumM(M) == FoldSet(LAMBDA o, acc : acc + o.v, 0, M)        \* total value of the made-records M

IsLocked(i) == i \in DOMAIN locked /\ now < locked[i]            \* wallet.go:822-824
LockedNow == {i \in DOMAIN locked : now < locked[i]}
Live(t) == txs[t].st = "out" /\ now < txs[t].exp                 \* reservation still held
\* inputs of transactions whose release is in flight: they may or may not be free yet
Rlsing == UNION {txs[t].ins : t \in {u \in TxIds : txs[u].st = "rlsing"}}

\* What input selection may use (wallet.go:317-347): confirmed = owned, mature, not spent
\* by a pooled transaction, not reserved; unconfirmed = made by a pooled transaction, not
\* spent in the pool, not reserved.  Must = certainly free, May = free or being released.
ConfAll  == {i \in DOMAIN owned : owned[i].m = 0 /\ i \notin PoolSpent}
ConfMust == {i \in ConfAll : ~IsLocked(i)}
ConfMay  == {i \in ConfAll : ~IsLocked(i) \/ i \in Rlsing}
UncMust  == {i \in Ids(PoolMade) : ~IsLocked(i)}
UncMay   == {i \in Ids(PoolMade) : ~IsLocked(i) \/ i \in Rlsing}
Must(unc) == ConfMust \cup (IF unc THEN UncMust ELSE {})
May(unc)  == ConfMay \cup (IF unc THEN UncMay ELSE {})

\* fresh output ids / transaction ids
\* Ids are names: a new output / transaction needs a name that is not in use (the model checker
\* and the sequential drivers simply count up; the two calls of a concurrent pair are named
\* before TLC decides in which order they took effect)
UsedIds == DOMAIN owned \cup Ids(UNION {txs[t].made : t \in TxIds})
FreshMade(M) == /\ \A o \in M : o.id >= 1 /\ o.id \notin UsedIds /\ o.v > 0
                /\ Cardinality(Ids(M)) = Cardinality(M)
BumpId(M) == IF M = {} THEN nextId ELSE MaxOf({nextId, 1 + MaxOf(Ids(M))})

Prune(l, t) == Restrict(l, {i \in DOMAIN l : t < l[i]})
\* lockUTXOs (wallet.go:420-429): every id of S is reserved until now + cfg.rt
Lock(S) == Prune([i \in DOMAIN locked \cup S |-> IF i \in S THEN now + cfg.rt ELSE locked[i]], now)

\* Records the descriptors D (records [tid, ver, ins, out, fee, made]) as new transactions
\* in status st and reserves their inputs.  Shared by Fund / Redistribute / Split.
AllocateX(D, st, extra) ==
    LET tids == {d.tid : d \in D}
        mades == UNION {d.made : d \in D}
        D2tx(d) == [ver |-> d.ver, st |-> st, ins |-> d.ins, inv |-> SumV(d.ins), out |-> d.out,
                    fee |-> d.fee, made |-> d.made, exp |-> now + cfg.rt, bl |-> d.bl,
                    rec |-> (st = "pool")]      \* SplitUTXO broadcasts (and records) its transaction itself
    IN /\ Cardinality(tids) = Cardinality(D)
       /\ \A d \in D : d.bl = lag                                  \* the basis handed back is the WALLET's tip
       /\ \A d \in D : d.tid >= 1 /\ d.tid \notin TxIds /\ d.fee >= 0 /\ d.out >= 0 /\ d.ins # {}
       /\ FreshMade(mades)
       /\ \A d1, d2 \in D : d1 # d2 => d1.ins \cap d2.ins = {} /\ Ids(d1.made) \cap Ids(d2.made) = {}
       \* an input taken over from a transaction whose release is in flight shows that the release
       \* already happened for it: it now belongs to the new request (RelEnd must not free it again)
       /\ txs' = [t \in TxIds \cup tids |->
                    IF t \in TxIds
                    THEN (IF txs[t].st = "rlsing" THEN [txs[t] EXCEPT !.ins = @ \ UNION {d.ins : d \in D}] ELSE txs[t])
                    ELSE D2tx(CHOOSE d \in D : d.tid = t)]
       /\ locked' = Lock(UNION {d.ins : d \in D} \cup extra)   \* extra # {} only under a named deviation
       /\ nextId' = BumpId(mades)
       /\ nextTx' = MaxOf({nextTx, 1 + MaxOf(tids)})
       /\ UNCHANGED <<lag, cfg, owned, now>>

Allocate(D, st) == AllocateX(D, st, {})

-----------------------------------------------------------------------------
(* Initial state: a wallet w (id -> [v, m]) under options c. *)
InitWith(c, w) ==
    /\ cfg = c
    /\ owned = w
    /\ locked = <<>>
    /\ txs = <<>>
    /\ now = 0
    /\ nextId = IF DOMAIN w = {} THEN 1 ELSE 1 + MaxOf(DOMAIN w)
    /\ nextTx = 1
    /\ lag = 0
    /\ act = [op |-> "Init"]
    /\ reply = NoReply

Init == \E c \in Cfgs, w \in InitWallets : InitWith(c, w)

-----------------------------------------------------------------------------
(* FundTransaction (ver = 1) / FundV2Transaction (ver = 2), wallet.go:435-531 *)

FundLabel(ver, amt, unc) == [op |-> "Fund", ver |-> ver, amt |-> amt, unc |-> unc]

\* amount zero: nothing is selected, nothing reserved, no transaction changes
FundZero(ver, amt, unc) ==
    /\ amt = 0
    /\ act' = FundLabel(ver, amt, unc)
    /\ reply' = [r |-> "zero", d |-> {}, dup |-> 0]
    /\ UNCHANGED svars

\* success: ANY non-empty set of eligible outputs worth at least amt; change = inputs - amt
FundOK(ver, amt, unc, d) ==
    /\ amt > 0
    /\ d.ver = ver /\ d.out = amt /\ d.fee = 0
    /\ d.ins \subseteq May(unc)                                  \* Eligible
    /\ Cardinality(d.made) <= 1
    /\ SumV(d.ins) = amt + SumM(d.made)                          \* Conservation
    /\ Allocate({d}, "out")
    /\ act' = FundLabel(ver, amt, unc)
    /\ reply' = [r |-> "ok", d |-> {d}, dup |-> 0]

\* NotEnoughFunds iff the eligible total is short; a failed request reserves nothing
FundFail(ver, amt, unc) ==
    /\ amt > 0
    /\ SumV(Must(unc)) < amt
    /\ act' = FundLabel(ver, amt, unc)
    /\ reply' = [r |-> "nef", d |-> {}, dup |-> 0]
    /\ UNCHANGED svars

\* DEVIATION (2): input x of the selection is appended a second time by the defrag step, so
\* the transaction spends x twice and its change is computed from the doubled sum.
FundDup(ver, amt, unc, d, x) ==
    /\ DevDefragReselect
    /\ amt > 0 /\ x \in d.ins
    /\ d.ver = ver /\ d.out = amt /\ d.fee = 0
    /\ d.ins \subseteq May(unc)
    /\ Cardinality(d.made) <= 1
    /\ SumV(d.ins) + Val(x) = amt + SumM(d.made)
    /\ Allocate({d}, "out")
    /\ act' = FundLabel(ver, amt, unc)
    /\ reply' = [r |-> "ok", d |-> {d}, dup |-> x]

-----------------------------------------------------------------------------
(* Redistribute(n, amt, feePerByte), wallet.go:706-798.  feeub is an upper bound of the fee
   the failing attempt would have had to pay (0 when feePerByte = 0). *)

RedistLabel(n, amt, feeub) == [op |-> "Redist", n |-> n, amt |-> amt, feeub |-> feeub]
SameMust(amt) == {i \in ConfMust : Val(i) = amt}
SameMay(amt)  == {i \in ConfMay : Val(i) = amt}

\* enough unused mature outputs of that value exist already: nothing to do
RedistNone(n, amt, feeub) ==
    /\ Cardinality(SameMay(amt)) >= n
    /\ act' = RedistLabel(n, amt, feeub)
    /\ reply' = [r |-> "none", d |-> {}, dup |-> 0]
    /\ UNCHANGED svars

\* success: one or more transactions (the code builds one per batch of at most Batch wanted
\* outputs) over pairwise disjoint eligible CONFIRMED outputs, each creating outputs of value amt
\* plus (maybe) change, conserving value including the fee.  PARTIAL success is success: when a
\* later batch cannot be funded the call returns the batches built so far -- and reserves the
\* inputs of exactly those (Allocate: locked' covers UNION ins and nothing else; NoOrphanLocks,
\* ViewsAgree and the Obs after the call see an output that is reserved but spent by no
\* returned transaction).
RedistOK(n, amt, feeub, D) ==
    /\ amt > 0 /\ n > 0 /\ D # {}
    /\ Cardinality(SameMust(amt)) < n
    /\ \A d \in D :
          /\ d.ver = 2 /\ d.out = 0
          /\ d.ins \subseteq ConfMay                              \* Eligible
          /\ \E o \in d.made : o.v = amt
          /\ SumV(d.ins) = d.fee + SumM(d.made)                   \* Conservation
    /\ Cardinality(UNION {d.made : d \in D}) <= n + Cardinality(D)
    /\ Allocate(D, "out")
    /\ act' = RedistLabel(n, amt, feeub)
    /\ reply' = [r |-> "ok", d |-> D, dup |-> 0]

\* DEVIATION (3): the outputs gathered for a LATER batch that was then dropped for lack of funds
\* (partial success) are reserved as well although no returned transaction spends them.
RedistLeak(n, amt, feeub, D, extra) ==
    /\ DevRedistLocksGathered
    /\ amt > 0 /\ n > Batch /\ D # {} /\ extra # {}
    /\ Cardinality(SameMust(amt)) < n
    /\ extra \subseteq ConfMay \ UNION {d.ins : d \in D}
    /\ \A d \in D :
          /\ d.ver = 2 /\ d.out = 0
          /\ d.ins \subseteq ConfMay
          /\ \E o \in d.made : o.v = amt
          /\ SumV(d.ins) = d.fee + SumM(d.made)
    /\ AllocateX(D, "out", extra)
    /\ act' = RedistLabel(n, amt, feeub)
    /\ reply' = [r |-> "ok", d |-> D, dup |-> 0]

\* failure only if not even the first batch can be funded from the usable outputs of another
\* value; it reserves nothing
RedistFail(n, amt, feeub) ==
    /\ amt > 0 /\ n > 0
    /\ Cardinality(SameMust(amt)) < n
    /\ SumV(ConfMust \ SameMust(amt)) < MinOf(n - Cardinality(SameMust(amt)), Batch) * amt + feeub
    /\ act' = RedistLabel(n, amt, feeub)
    /\ reply' = [r |-> "nef", d |-> {}, dup |-> 0]
    /\ UNCHANGED svars

-----------------------------------------------------------------------------
(* SplitUTXO(n, min), wallet.go:859-998: builds, signs AND broadcasts a transaction that
   splits one eligible output (confirmed or unconfirmed) into parts of at least min. *)

SplitLabel(n, mn) == [op |-> "Split", n |-> n, min |-> mn]
SplitArgsOK(n, mn) == cfg.dt >= n /\ mn > 0 /\ n > 1
AboveMust(mn) == {i \in Must(TRUE) : Val(i) >= mn}
AboveMay(mn)  == {i \in May(TRUE) : Val(i) >= mn}

SplitOK(n, mn, d) ==
    /\ SplitArgsOK(n, mn)
    /\ Cardinality(AboveMust(mn)) < n
    /\ d.ver = 2 /\ d.out = 0
    /\ Cardinality(d.ins) = 1 /\ d.ins \subseteq May(TRUE)        \* Eligible
    /\ \A i \in d.ins : IF i \in DOMAIN owned THEN TRUE ELSE MakerVer(i) = 2   \* a v2 set cannot carry a v1 parent
    /\ \A o \in d.made : o.v >= mn
    /\ SumV(d.ins) = d.fee + SumM(d.made)                          \* Conservation
    /\ Allocate({d}, "pool")                                       \* broadcast by the wallet itself
    /\ act' = SplitLabel(n, mn)
    /\ reply' = [r |-> "ok", d |-> {d}, dup |-> 0]

SplitNone(n, mn) ==
    /\ SplitArgsOK(n, mn)
    /\ Cardinality(AboveMay(mn)) >= n
    /\ act' = SplitLabel(n, mn)
    /\ reply' = [r |-> "none", d |-> {}, dup |-> 0]
    /\ UNCHANGED svars

\* the property does not say when a split must succeed; an error must leave no trace
SplitErr(n, mn) ==
    /\ act' = SplitLabel(n, mn)
    /\ reply' = [r |-> "err", d |-> {}, dup |-> 0]
    /\ UNCHANGED svars

-----------------------------------------------------------------------------
(* ReleaseInputs (wallet.go:803-818) of a transaction whose reservation is still held.
   (Releasing a transaction whose reservation already lapsed would free outputs that a later
   request may have reserved since; the property is silent about that misuse.) *)

Unlock(S) == Restrict(locked, DOMAIN locked \ S)

Release(t) ==
    /\ t \in TxIds /\ Live(t)
    /\ locked' = Unlock(txs[t].ins)                 \* frees exactly that request's inputs
    /\ txs' = Restrict(txs, TxIds \ {t})
    /\ act' = [op |-> "Release", t |-> t]
    /\ reply' = NoReply
    /\ UNCHANGED <<lag, cfg, owned, now, nextId, nextTx>>

\* concurrent traces: the call is an interval [RelBegin, RelEnd]
RelBegin(t) ==
    /\ t \in TxIds /\ Live(t)
    /\ txs' = [txs EXCEPT ![t].st = "rlsing"]
    /\ act' = [op |-> "RelBegin", t |-> t]
    /\ reply' = NoReply
    /\ UNCHANGED <<lag, cfg, owned, locked, now, nextId, nextTx>>

RelEnd(t) ==
    /\ t \in TxIds /\ txs[t].st = "rlsing"
    /\ locked' = Unlock(txs[t].ins)
    /\ txs' = Restrict(txs, TxIds \ {t})
    /\ act' = [op |-> "RelEnd", t |-> t]
    /\ reply' = NoReply
    /\ UNCHANGED <<lag, cfg, owned, now, nextId, nextTx>>

\* one tick of the reservation clock: reservations whose period is over end
Tick ==
    /\ now' = now + 1
    /\ locked' = Prune(locked, now + 1)
    /\ act' = [op |-> "Tick"]
    /\ reply' = NoReply
    /\ UNCHANGED <<lag, cfg, owned, txs, nextId, nextTx>>

-----------------------------------------------------------------------------
(* Broadcast: the signed transaction is submitted to the pool (AddPoolTransactions with its
   unconfirmed v1 parents / BroadcastV2TransactionSet with its V2TransactionSet).  It must be
   accepted iff every input still exists and is unspent.  An unconfirmed input made by a
   transaction of the OTHER version cannot be expressed in a transaction set (a v1 set cannot
   carry v2 parents and vice versa), so such a transaction is accepted only after its parent
   confirmed.  A lapsed transaction is only broadcast while no newer reservation holds one of
   its inputs (the caller's own discipline, see Release). *)

Avail(t) == \A i \in txs[t].ins :
               /\ i \notin PoolSpent
               /\ i \in DOMAIN owned \/ i \in Ids(MadeAll)
CrossVer(t) == \E i \in txs[t].ins : i \notin DOMAIN owned /\ i \in Ids(MadeAll) /\ MakerVer(i) # txs[t].ver
CanBroadcast(t) == t \in TxIds /\ txs[t].st = "out" /\ (Live(t) \/ txs[t].ins \cap LockedNow = {})

\* pre: the caller (or a peer's relay) had put the set into the pool already, e.g. to validate it
\* with AddV2PoolTransactions, before handing it to the wallet's BroadcastV2TransactionSet.  "Known
\* to the (volatile) pool" is not "recorded in the wallet's store": the broadcast records the set
\* (rec) in BOTH cases, which is what lets Restart re-load it into a fresh pool.  A v1 transaction
\* has no broadcast call in the wallet; it only ever lives in the pool (rec stays FALSE).
BcastLabel(t, pre) == [op |-> "Bcast", t |-> t, pre |-> pre]
BcastAcc(t, pre) ==
    /\ CanBroadcast(t)
    /\ pre => txs[t].ver = 2
    /\ Avail(t) /\ ~CrossVer(t)
    /\ txs' = [txs EXCEPT ![t].st = "pool", ![t].rec = (txs[t].ver = 2)]
    /\ act' = BcastLabel(t, pre)
    /\ reply' = [r |-> "acc", d |-> {}, dup |-> 0]
    /\ UNCHANGED <<lag, cfg, owned, locked, now, nextId, nextTx>>

BcastRej(t, pre) ==
    /\ CanBroadcast(t)
    /\ pre => txs[t].ver = 2
    /\ ~(Avail(t) /\ ~CrossVer(t))
    /\ act' = BcastLabel(t, pre)
    /\ reply' = [r |-> "rej", d |-> {}, dup |-> 0]
    /\ UNCHANGED svars

-----------------------------------------------------------------------------
(* Chain and process events *)

Age(o) == [v |-> o.v, m |-> IF o.m > 0 THEN o.m - 1 ELSE 0]

\* a block confirming the whole pool: pool-spent outputs disappear, pool-made outputs become
\* owned and mature, immature outputs age by one block
\* (A block is only mined while no v2 transaction still with its caller spends an output of a
\* transaction that is not in the pool any more (a v1 parent lost in a restart): after a block
\* that leaves such a parent unconfirmed chain.Manager can never rebase the child, see Reward.)
DanglingV2 == \E t, u \in TxIds : /\ txs[t].ver = 2 /\ txs[t].st # "pool" /\ txs[u].st # "pool"
                                   /\ txs[t].ins \cap Ids(txs[u].made) # {}
Mine ==
    /\ lag = 0
    /\ ~DanglingV2
    /\ LET keep == DOMAIN owned \ PoolSpent
           new == PoolMade
           own2 == [i \in keep \cup Ids(new) |->
                      IF i \in keep THEN Age(owned[i]) ELSE [v |-> (CHOOSE o \in new : o.id = i).v, m |-> 0]]
       IN /\ owned' = own2
          /\ locked' = Restrict(locked, DOMAIN locked \cap DOMAIN own2)
    /\ txs' = Restrict(txs, TxIds \ PoolTx)
    /\ act' = [op |-> "Mine"]
    /\ reply' = NoReply
    /\ UNCHANGED <<lag, cfg, now, nextId, nextTx>>

\* an empty block paying x to the wallet: a new immature output; the pool is untouched.
\* (Such a block is only mined while no v2 transaction -- pooled or still with its caller --
\* spends an unconfirmed output: chain.Manager cannot carry a v2 transaction with an unconfirmed
\* parent across a block that leaves the parent unconfirmed; it drops it from the pool and
\* refuses to rebase it.  Pool / rebasing policy, outside C07.)
NoEphemeralV2 == \A t \in TxIds : txs[t].ver = 2 => txs[t].ins \subseteq DOMAIN owned
Reward(x, rid) ==
    /\ x > 0 /\ rid >= nextId /\ lag = 0
    /\ NoEphemeralV2
    /\ owned' = [i \in DOMAIN owned \cup {rid} |-> IF i = rid THEN [v |-> x, m |-> Delay] ELSE Age(owned[i])]
    /\ nextId' = rid + 1
    /\ act' = [op |-> "Reward", v |-> x]
    /\ reply' = NoReply
    /\ UNCHANGED <<lag, cfg, locked, txs, now, nextTx>>

\* The chain manager accepts k blocks (empty as far as the wallet is concerned; possibly after
\* abandoning blocks the store had indexed: a reorg) that the wallet's store is not fed yet.
\* Every call keeps working on the store's view; what it returns must be usable AS RETURNED:
\* the basis is the store's tip, and the pool accepts the signed transaction with that basis.
LagBegin(k) ==
    /\ k > 0 /\ lag = 0 /\ NoEphemeralV2
    /\ lag' = k
    /\ act' = [op |-> "Lag", k |-> k]
    /\ reply' = NoReply
    /\ UNCHANGED <<cfg, owned, locked, txs, now, nextId, nextTx>>

\* the subscriber catches up: the store sees the k blocks, immature outputs age by k
CatchUp ==
    /\ lag > 0
    /\ owned' = [i \in DOMAIN owned |-> [v |-> owned[i].v, m |-> IF owned[i].m > lag THEN owned[i].m - lag ELSE 0]]
    /\ lag' = 0
    /\ act' = [op |-> "CatchUp"]
    /\ reply' = NoReply
    /\ UNCHANGED <<cfg, locked, txs, now, nextId, nextTx>>

\* process restart: reservations live in memory only; the pool is not persisted but the
\* wallet re-adds the v2 sets it broadcast (wallet.go:1107-1121); v1 pool transactions are
\* simply gone (their creators may submit them again)
Restart ==
    /\ Rlsing = {} /\ lag = 0
    /\ locked' = <<>>
    /\ txs' = [t \in TxIds |->
                 IF txs[t].st = "pool" /\ txs[t].rec THEN txs[t]      \* the recorded sets are re-loaded
                 ELSE [txs[t] EXCEPT !.st = "out", !.exp = 0]]
    /\ act' = [op |-> "Restart"]
    /\ reply' = NoReply
    /\ UNCHANGED <<lag, cfg, owned, now, nextId, nextTx>>

-----------------------------------------------------------------------------
(* The three views of "what is spendable" (wallet.go:165-231, 252-279, 281-330) *)

\* maturity as Balance() sees it: like selection, by the store's tip (DEVIATION: by the manager's)
BalMature(i)   == IF DevBalanceUsesManagerHeight THEN owned[i].m <= lag ELSE owned[i].m = 0
BalSpendable   == SumV({i \in DOMAIN owned : BalMature(i) /\ ~IsLocked(i) /\ i \notin PoolSpent})
BalConfirmed   == SumV({i \in DOMAIN owned : BalMature(i)})
BalImmature    == SumV({i \in DOMAIN owned : ~BalMature(i)})
BalUnconfirmed == SumM(PoolMade)
ListSpendable  == {i \in DOMAIN owned : /\ owned[i].m = 0 /\ ~IsLocked(i)
                                        /\ i \notin PoolSpentBy(IF DevSpendableIgnoresV2 THEN {1} ELSE {1, 2})}
MaxFund        == SumV(ConfMust)          \* largest amount Fund(useUnconf = FALSE) succeeds with

\* pure observation of Balance() and SpendableOutputs()
Obs ==
    /\ act' = [op |-> "Obs"]
    /\ reply' = NoReply
    /\ UNCHANGED svars

-----------------------------------------------------------------------------
(* Next-state relation for model checking: every action with every argument of the small
   enumeration sets and EVERY selection the property allows. *)

FundAmts(unc) == Amounts \cup {SumV(Must(unc)), SumV(Must(unc)) + 1}
ChangeOf(rest, id) == IF rest > 0 THEN {[id |-> id, v |-> rest]} ELSE {}

NextFund ==
    \E ver \in {1, 2}, unc \in BOOLEAN : \E amt \in FundAmts(unc) :
        \/ FundZero(ver, amt, unc)
        \/ FundFail(ver, amt, unc)
        \/ \E sel \in (SUBSET May(unc)) \ {{}} :
              /\ SumV(sel) >= amt
              /\ FundOK(ver, amt, unc, [tid |-> nextTx, ver |-> ver, ins |-> sel, out |-> amt, fee |-> 0, bl |-> lag,
                                        made |-> ChangeOf(SumV(sel) - amt, nextId)])
        \/ DevDefragReselect /\ \E sel \in (SUBSET May(unc)) \ {{}} : \E x \in sel :
              /\ SumV(sel) + Val(x) >= amt
              /\ FundDup(ver, amt, unc, [tid |-> nextTx, ver |-> ver, ins |-> sel, out |-> amt, fee |-> 0, bl |-> lag,
                                         made |-> ChangeOf(SumV(sel) + Val(x) - amt, nextId)], x)

RedistDesc(tid, sel, k, amt, id) ==
    [tid |-> tid, ver |-> 2, ins |-> sel, out |-> 0, fee |-> 0, bl |-> lag,
     made |-> {[id |-> id + j - 1, v |-> amt] : j \in 1..k} \cup ChangeOf(SumV(sel) - k * amt, id + k)]
NewIds(sel, k, amt) == k + (IF SumV(sel) > k * amt THEN 1 ELSE 0)

NextRedist ==
    \E n \in RedistNs, amt \in RedistAmts :
        \/ RedistNone(n, amt, 0)
        \/ RedistFail(n, amt, 0)
        \/ \E k \in 1..n : \E sel \in (SUBSET ConfMay) \ {{}} :
              /\ SumV(sel) >= k * amt
              /\ RedistOK(n, amt, 0, {RedistDesc(nextTx, sel, k, amt, nextId)})
        \* more than one batch wanted: results of TWO transactions (both batches funded), the
        \* single-transaction results above covering the partial successes (second batch dropped)
        \/ /\ n > Batch
           /\ \E k1, k2 \in 1..n : \E s1, s2 \in (SUBSET ConfMay) \ {{}} :
                 /\ k1 + k2 <= n /\ s1 \cap s2 = {}
                 /\ SumV(s1) >= k1 * amt /\ SumV(s2) >= k2 * amt
                 /\ RedistOK(n, amt, 0, {RedistDesc(nextTx, s1, k1, amt, nextId),
                                         RedistDesc(nextTx + 1, s2, k2, amt, nextId + NewIds(s1, k1, amt))})
        \/ /\ DevRedistLocksGathered /\ n > Batch
           /\ \E k \in 1..n : \E sel \in (SUBSET ConfMay) \ {{}} : \E extra \in (SUBSET (ConfMay \ sel)) \ {{}} :
                 /\ SumV(sel) >= k * amt
                 /\ RedistLeak(n, amt, 0, {RedistDesc(nextTx, sel, k, amt, nextId)}, extra)

NextSplit ==
    \E n \in SplitNs, mn \in SplitMins :
        \/ SplitNone(n, mn)
        \/ SplitErr(n, mn)
        \/ \E i \in May(TRUE) : \E r \in 2..(n + 1) :
              LET v == Val(i) - SplitFee
                  per == v \div r
              IN /\ v > 0 /\ per >= 1
                 /\ SplitOK(n, mn, [tid |-> nextTx, ver |-> 2, ins |-> {i}, out |-> 0, fee |-> SplitFee, bl |-> lag,
                                    made |-> {[id |-> nextId + j - 1, v |-> per] : j \in 1..(r - 1)}
                                             \cup {[id |-> nextId + r - 1, v |-> v - per * (r - 1)]}])

Next ==
    \/ NextFund
    \/ NextRedist
    \/ NextSplit
    \/ \E t \in TxIds : Release(t) \/ \E pre \in BOOLEAN : BcastAcc(t, pre) \/ BcastRej(t, pre)
    \/ Tick
    \/ Mine
    \/ \E x \in Rewards : Reward(x, nextId)
    \/ Restart
    \/ \E k \in Lags : LagBegin(k)
    \/ CatchUp

Spec == Init /\ [][Next]_vars

\* bounds of the explored instance
Bound == nextId <= MaxId + 1 /\ nextTx <= MaxTx + 1 /\ now <= MaxNow

-----------------------------------------------------------------------------
(* Invariants and action properties (C07) *)

TxRec == [ver : {1, 2}, st : {"out", "rlsing", "pool"}, ins : SUBSET Nat, inv : Nat, out : Nat,
          fee : Nat, made : SUBSET [id : Nat, v : Nat], exp : Nat, bl : Nat, rec : BOOLEAN]
TypeOK ==
    /\ cfg \in [dt : Nat, mi : Nat, md : Nat, rt : Nat]
    /\ DOMAIN owned \subseteq Nat /\ \A i \in DOMAIN owned : owned[i] \in [v : Nat, m : 0..Delay]
    /\ DOMAIN locked \subseteq Nat /\ \A i \in DOMAIN locked : locked[i] \in Nat
    /\ DOMAIN txs \subseteq Nat /\ \A t \in TxIds : txs[t] \in TxRec
    /\ now \in Nat /\ nextId \in Nat /\ nextTx \in Nat /\ lag \in Nat

\* no two un-released, un-lapsed funded transactions share an input
Disjoint ==
    \A t1, t2 \in TxIds : t1 # t2 /\ Live(t1) /\ Live(t2) => txs[t1].ins \cap txs[t2].ins = {}

\* selected inputs = amount leaving + fee + what is paid back to the wallet
Conservation ==
    \A t \in TxIds : txs[t].inv = txs[t].out + txs[t].fee + SumM(txs[t].made)

\* a held reservation really protects: its inputs are reserved, exist, and are not spent by
\* the pool -- so the signed transaction is a valid spend
LiveValid ==
    \A t \in TxIds : Live(t) =>
        /\ txs[t].ins \subseteq LockedNow
        /\ Avail(t)
        /\ \A i \in txs[t].ins \cap DOMAIN owned : owned[i].m = 0

\* the pool never holds two spends of one output, and only spends outputs that exist
PoolValid ==
    /\ \A t1, t2 \in PoolTx : t1 # t2 => txs[t1].ins \cap txs[t2].ins = {}
    /\ \A t \in PoolTx : txs[t].ins \subseteq DOMAIN owned \cup Ids(MadeAll)

\* every v2 transaction in the pool is recorded in the wallet's store (so a restart re-loads it)
PoolRecorded == \A t \in PoolTx : txs[t].rec = (txs[t].ver = 2)

\* every reservation belongs to a request the model still knows: none leaks
NoOrphanLocks ==
    \A i \in LockedNow : \E t \in TxIds : i \in txs[t].ins

\* Balance.Spendable = sum(SpendableOutputs) = largest fundable amount
ViewsAgree ==
    /\ ListSpendable = ConfMust
    /\ BalSpendable = SumV(ListSpendable)
    /\ BalSpendable = MaxFund

\* every selected input was eligible when it was selected and appears once
Eligible ==
    [][reply'.r = "ok" /\ act'.op \in {"Fund", "Redist", "Split"} =>
          /\ reply'.dup = 0
          /\ \A d \in reply'.d : d.ins \subseteq May(TRUE) /\ d.ins \cap (LockedNow \ Rlsing) = {}
          /\ \A d \in reply'.d : act'.op = "Redist" \/ (act'.op = "Fund" /\ ~act'.unc) => d.ins \subseteq ConfMay]_vars

\* a failed request reserves nothing (and changes nothing else)
FailReservesNothing ==
    [][reply'.r \in {"nef", "err", "none", "zero", "rej"} => UNCHANGED svars]_vars

\* release and expiry free exactly that request's inputs, nothing else
ReservationEnds ==
    [][/\ act'.op \in {"Release", "RelEnd"} =>
            /\ LockedNow' = LockedNow \ txs[act'.t].ins
            /\ act'.t \notin DOMAIN txs'
       /\ act'.op = "Tick" => LockedNow' = {i \in LockedNow : locked[i] > now + 1}
       /\ act'.op = "Restart" => LockedNow' = {}
       /\ act'.op \in {"Bcast", "RelBegin", "Reward", "Obs", "Lag", "CatchUp"} => LockedNow' = LockedNow]_vars

\* the basis a request hands back is the wallet's tip -- the index its inputs' proofs are valid
\* for -- also while the store lags the chain manager
BasisIsWalletTip ==
    [][reply'.r = "ok" /\ act'.op \in {"Fund", "Redist", "Split"} => \A d \in reply'.d : d.bl = lag]_vars

\* ... and with that basis the pool accepts the signed transaction as long as every input still
\* exists and is unspent (and has no unconfirmed parent of the other version), lag or no lag
PoolAcceptsAtBasis ==
    [][act'.op = "Bcast" /\ Avail(act'.t) /\ ~CrossVer(act'.t) => reply'.r = "acc"]_vars
=============================================================================
