------------------------------- MODULE Sync -------------------------------
(***************************************************************************)
(* The P2P syncer of coreutils (syncer/syncer.go, peer.go,                 *)
(* parallel_sync.go) over the abstract chain state of SyncChain.tla.       *)
(*                                                                         *)
(*   C12  honest connected nodes converge to the same heaviest chain       *)
(*        (family `honest`, Z = {}): AlwaysValid, WorkMonotone, NoHonestBan,*)
(*        liveness Convergence under weak fairness of the honest actions.  *)
(*   C11  a Byzantine peer cannot corrupt, crash or stall an honest        *)
(*        syncer (family `byzantine`): the same invariants with Z # {},    *)
(*        ProvableMisbehaviourBanned, liveness HonestProgress.             *)
(*                                                                         *)
(* Nodes are H \cup Z.  An honest node n holds (known[n], tip[n]) and, per *)
(* directed connection, link[<<n,p>>] \in {off, unsynced, synced} -- the   *)
(* Peer.synced flag of syncer/peer.go:19-27.  A Byzantine node has no      *)
(* state: it answers every request with any element of the corruption      *)
(* catalogue, and relays whatever it likes.                                *)
(*                                                                         *)
(* The history sample keeps its real shape scaled down (K most recent, then*)
(* exponentially spaced; K = 10 in the code), the 100-block request split  *)
(* is scaled to Batch.                                                     *)
(***************************************************************************)
EXTENDS SyncChain

CONSTANTS
    H,          \* honest nodes
    Z,          \* Byzantine nodes
    Active,     \* honest nodes whose syncLoop runs (the others only serve and handle relays)
    T,          \* block tree [par, h, cls, lo, hi] (SyncChain.tla)
    Edges,      \* set of <<a, b>>: a may dial b
    InitTips,   \* set of functions H -> block: initial assignments of branches to nodes
    BaseOf,     \* H -> block: lowest block the node holds (G: synced from genesis)
    Cap,        \* H -> Nat: blocks served per SendV2Blocks RPC (WithMaxSendBlocks)
    K,          \* history sample: number of most recent blocks (10 in the code)
    Batch,      \* blocks per SendV2Blocks request (100 in the code)
    ReqH,       \* v2 require height: batches based at or above it use checkpoint + pre-validation
    AllowH,     \* v2 allow height: blocks in [AllowH, ReqH) may be v1 or v2 (T.v1)
    HistAnchor, \* TRUE: the sample ends with the node's lowest block (as genesis does for a full node)
    DevOutlineSidechainBan, \* TRUE: named deviation, see RelayOutline
    ZTops,      \* header chains a Byzantine peer may offer end in one of these blocks (Blocks: any)
    ZTwins,     \* TRUE: a Byzantine worker may serve ID twins (honest header, other body) on the AddBlocks path
    ZRem,       \* values of `remaining = 0` a Byzantine peer may claim (BOOLEAN: any)
    DevCheckpointFromAllow, \* TRUE: self-test mutation -- the WORKER picks the checkpoint path from the allow height on
    DevSkipSeenValidation,  \* TRUE: self-test mutation -- pre-validation is skipped for blocks whose state is already stored
    DevCheckpointPayoutUnbound, \* TRUE: named deviation -- the miner payout VALUE of a checkpoint block is bound by nothing
    DevPayoutCountUnchecked,    \* TRUE: self-test mutation -- the miner payout COUNT of a checkpoint block is not checked
    ZHangup,    \* TRUE: a Byzantine peer may hang up right after delivering its data, before the victim's verdict
    DevBanOnlyIfConnected,    \* TRUE: self-test mutation -- Syncer.ban returns early for a peer that is already disconnected
    DevRollbackToBase,        \* TRUE: self-test mutation -- a failed reorg in AddValidatedV2Blocks rolls back to the batch's base, not to the old tip
    DevBanLastBatchPeer,      \* TRUE: named deviation -- a failed reorg bans the peer of the batch being added, whoever served the invalid block
    DevSkipKnownBelowTip,     \* TRUE: self-test mutation -- AddBlocks skips ANY re-delivered block with a stored state at or below the tip height
    DevOutlineAttachByHeight, \* TRUE: self-test mutation -- a relayed outline 'attaches' if its height is tip height + 1
    Mineable,   \* blocks that do not exist initially: Miner[x] mines x once its parent is that node's tip
    Miner,      \* [Mineable -> H]
    FinalGoal,  \* the heaviest tip once everything is mined (only used when Mineable # {})
    DevNoPreValidation, \* TRUE: self-test mutation -- batches above the require height are submitted without ValidateBlock
    Labels      \* TRUE: act carries the transition label (edge export, safety runs with VIEW); FALSE: constant

Nodes == H \cup Z

\* a v1 block is only legal below the require height
ASSUME \A b \in DOMAIN T.par : T.v1[b] => T.h[b] < ReqH
Blocks == DOMAIN T.par
LinkState == {"off", "unsynced", "synced"}

VARIABLES
    known,   \* [H -> SUBSET Blocks]  blocks whose header state the manager stores
    tip,     \* [H -> Blocks]         tip of the best chain
    link,    \* [Nodes \X Nodes -> LinkState]
    round,   \* [H -> SUBSET Nodes]   peers whose SendHeaders response the current syncLoop iteration still has to handle
    seen,    \* [H -> SUBSET Blocks]  last header ids already synced in this iteration (syncer.go:842-851)
    htip,    \* [H -> Blocks]         tip when the iteration began: cm.History() is taken ONCE per iteration (syncer.go:811)
    sync,    \* [H -> record]         the running parallelSync, if any
    banned,  \* SUBSET (H \X Nodes)   PeerStore.Ban calls
    misb,    \* SUBSET (H \X Z)       provable misbehaviour observed
    goal,    \* the heaviest honest initial tip (history variable fixed by Init)
    dead,    \* SUBSET H: honest nodes whose process died (an unrecovered panic in a sync goroutine)
    garb,    \* [H -> SUBSET (Blocks \X Nodes)]  <<x, w>>: the stored, never-applied block x has the BODY peer w served, an "ID twin"
             \*                       (a v2 id covers only the header; the body is bound by the commitment, checked on apply)
    act      \* label of the last transition (hidden by VIEW)

vars == <<known, tip, link, round, seen, htip, sync, banned, misb, goal, dead, garb>>
allvars == <<vars, act>>
sview == vars

Lbl(x) == IF Labels THEN x ELSE [op |-> "-"]

NoSync == [on |-> FALSE, src |-> CHOOSE n \in Nodes : TRUE, base |-> G, top |-> G, nxt |-> 0, rem0 |-> TRUE]

Lowest(n) == T.h[BaseOf[n]]
\* b is on n's best chain and inside the range of heights n stores
OnBest(n, b) == b \in AncSet(T, tip[n]) /\ T.h[b] >= Lowest(n)
HeaderValid(b) == T.cls[b] \in {"ok", "bad", "asif"}

\* an assignment is admissible if one tip is sufficiently heavier than all the others (the
\* premise "the heaviest valid chain among them" read with core's reorg threshold)
HeaviestOf(f) == CHOOSE b \in {f[n] : n \in H} : \A n \in H : f[n] = b \/ Suff(T, b, f[n])
Admissible(f) == \E b \in {f[n] : n \in H} : \A n \in H : f[n] = b \/ Suff(T, b, f[n])

TypeOK ==
    /\ known \in [H -> SUBSET Blocks]
    /\ tip \in [H -> Blocks]
    /\ link \in [Nodes \X Nodes -> LinkState]
    /\ round \in [H -> SUBSET Nodes]
    /\ seen \in [H -> SUBSET Blocks]
    /\ htip \in [H -> Blocks]
    /\ \A n \in H : sync[n].on \in BOOLEAN /\ sync[n].base \in Blocks /\ sync[n].top \in Blocks /\ sync[n].nxt \in Nat
    /\ banned \subseteq (H \X Nodes)
    /\ misb \subseteq (H \X Z)
    /\ dead \subseteq H
    /\ garb \in [H -> SUBSET (Blocks \X Nodes)]

Init ==
    /\ \E f \in InitTips :
          /\ Mineable = {} => Admissible(f)
          /\ \A n \in H : AncSet(T, f[n]) \cap Mineable = {}
          /\ tip = f
          /\ known = [n \in H |-> {b \in AncSet(T, f[n]) : T.h[b] >= Lowest(n)}]
          /\ goal = IF Mineable = {} THEN HeaviestOf(f) ELSE FinalGoal
    /\ link = [p \in Nodes \X Nodes |-> "off"]
    /\ round = [n \in H |-> {}]
    /\ seen = [n \in H |-> {}]
    /\ htip = tip
    /\ sync = [n \in H |-> NoSync]
    /\ banned = {}
    /\ misb = {}
    /\ dead = {}
    /\ garb = [n \in H |-> {}]
    /\ act = Lbl([op |-> "Init"])

-----------------------------------------------------------------------------
(* helpers *)

DropLink(l, a, b) == [l EXCEPT ![<<a, b>>] = "off", ![<<b, a>>] = "off"]
Resync(l, n, p) == IF l[<<n, p>>] = "synced" THEN [l EXCEPT ![<<n, p>>] = "unsynced"] ELSE l

\* Syncer.ban (syncer.go:351-384): report to the peer store, close the connection
BanUpd(n, p) ==
    /\ banned' = banned \cup {<<n, p>>}
    /\ link' = DropLink(link, n, p)

\* the same when the peer may have hung up between delivering its data and the verdict: the ban is owed for
\* the MISBEHAVIOUR, not for the connection (the mutation skips PeerStore.Ban for a peer that is gone)
Hangs == IF ZHangup THEN BOOLEAN ELSE {FALSE}
BanUpdH(n, p, hung) ==
    /\ banned' = IF DevBanOnlyIfConnected /\ hung THEN banned ELSE banned \cup {<<n, p>>}
    /\ link' = DropLink(link, n, p)

\* ids n offers to its peers in the current iteration, chain/manager.go:160-184 + syncer.go:811-836:
\* the sample of the best chain as it was when the iteration began
HistIds(n) == {AncAt(T, htip[n], x) : x \in HistHeights(K, T.h[htip[n]], Lowest(n), HistAnchor)}

\* the first (highest) offered id the honest peer p finds on its best chain
\* (Manager.Headers, chain/manager.go:189-206), or "none"
Recognised(n, p) == {b \in HistIds(n) : OnBest(p, b)}
CommonId(n, p) == CHOOSE b \in Recognised(n, p) : \A c \in Recognised(n, p) : T.h[c] <= T.h[b]

Hdrs(n) == PathSeq(T, sync[n].base, sync[n].top)
NBatches(n) == (Len(Hdrs(n)) + Batch - 1) \div Batch
BatchOf(n) == LET hs == Hdrs(n)
                  lo == sync[n].nxt * Batch + 1
                  hi == IF lo + Batch - 1 < Len(hs) THEN lo + Batch - 1 ELSE Len(hs)
              IN SubSeq(hs, lo, hi)

\* an honest peer w can serve the batch: SendCheckpoint/SendV2Blocks answer from its best chain
\* only (chain/manager.go:213-241, peer.go:338-351), at most Cap[w] blocks per request
\* the request path is a function of the batch's BASE height (parallel_sync.go:57); the checkpoint path
\* needs the base block itself to be a v2 block (Peer.SendCheckpoint: "checkpoint is not a v2 block")
WorkerCheckpointPath(base) == T.h[base] >= (IF DevCheckpointFromAllow THEN AllowH ELSE ReqH)
Fetchable(bs) == WorkerCheckpointPath(T.par[bs[1]]) => ~T.v1[T.par[bs[1]]]

CanServe(w, bs) ==
    /\ Fetchable(bs)
    /\ Len(bs) <= Cap[w]
    /\ OnBest(w, T.par[bs[1]])
    /\ \A i \in DOMAIN bs : OnBest(w, bs[i])

-----------------------------------------------------------------------------
(* connections *)

Connect(a, b) ==
    /\ <<a, b>> \in Edges
    /\ link[<<a, b>>] = "off"
    /\ <<a, b>> \notin banned /\ <<b, a>> \notin banned
    /\ link' = [link EXCEPT ![<<a, b>>] = "unsynced", ![<<b, a>>] = "unsynced"]
    /\ act' = Lbl([op |-> "Connect", a |-> a, b |-> b])
    /\ UNCHANGED <<known, tip, round, seen, htip, sync, banned, misb, goal, dead, garb>>

-----------------------------------------------------------------------------
(* syncLoop, syncer.go:784-864 *)

\* one ticker iteration begins: SendHeaders goes to every unsynced peer
SyncTick(n) ==
    /\ n \in Active
    /\ ~sync[n].on
    /\ round[n] = {}
    /\ \E p \in Nodes : link[<<n, p>>] = "unsynced"
    /\ round' = [round EXCEPT ![n] = {p \in Nodes : link[<<n, p>>] = "unsynced"}]
    /\ seen' = [seen EXCEPT ![n] = {}]
    /\ htip' = [htip EXCEPT ![n] = tip[n]]
    /\ act' = Lbl([op |-> "SyncTick", n |-> n])
    /\ UNCHANGED <<known, tip, link, sync, banned, misb, goal, dead, garb>>

StartSync(n, p, base, top, rem0) ==
    /\ sync' = [sync EXCEPT ![n] = [on |-> TRUE, src |-> p, base |-> base, top |-> top, nxt |-> 0, rem0 |-> rem0]]
    /\ seen' = [seen EXCEPT ![n] = @ \cup {top}]

\* the response of an honest peer is handled (HeadersOk: work and linkage hold by construction)
HandleRespHonest(n, p) ==
    /\ p \in H
    /\ p \in round[n]
    /\ ~sync[n].on
    /\ round' = [round EXCEPT ![n] = @ \ {p}]
    /\ UNCHANGED <<known, tip, htip, banned, misb, goal, dead, garb>>
    /\ IF link[<<n, p>>] # "unsynced"
         THEN /\ UNCHANGED <<link, sync, seen>>
              /\ act' = Lbl([op |-> "Headers", n |-> n, p |-> p, res |-> "gone"])
       ELSE IF Recognised(n, p) = {}
         THEN \* "no common history": the peer is dropped (syncer.go:836,845)
              /\ link' = DropLink(link, n, p)
              /\ UNCHANGED <<sync, seen>>
              /\ act' = Lbl([op |-> "Headers", n |-> n, p |-> p, res |-> "nocommon"])
       ELSE LET base == CommonId(n, p) IN
            IF base = tip[p]
              THEN /\ link' = [link EXCEPT ![<<n, p>>] = "synced"]
                   /\ UNCHANGED <<sync, seen>>
                   /\ act' = Lbl([op |-> "Headers", n |-> n, p |-> p, res |-> "empty"])
            ELSE IF tip[p] \in seen[n]
              THEN /\ UNCHANGED <<link, sync, seen>>
                   /\ act' = Lbl([op |-> "Headers", n |-> n, p |-> p, res |-> "dup"])
            ELSE /\ StartSync(n, p, base, tip[p], TRUE)
                 /\ UNCHANGED link
                 /\ act' = Lbl([op |-> "Headers", n |-> n, p |-> p, res |-> "sync", base |-> base, top |-> tip[p]])

\* the response (or the timeout) of a Byzantine peer is handled
HandleRespByz(n, z) ==
    /\ z \in Z
    /\ z \in round[n]
    /\ ~sync[n].on
    /\ round' = [round EXCEPT ![n] = @ \ {z}]
    /\ UNCHANGED <<known, tip, htip, banned, misb, goal, dead, garb>>
    /\ IF link[<<n, z>>] # "unsynced"
         THEN /\ UNCHANGED <<link, sync, seen>>
              /\ act' = Lbl([op |-> "Headers", n |-> n, p |-> z, res |-> "gone"])
         ELSE \/ \* HeadersBad: malformed frame, stall (timeout), closed stream, no recognised id,
                 \* headers with insufficient work / broken linkage / bad timestamp: peer dropped
                 /\ link' = DropLink(link, n, z)
                 /\ UNCHANGED <<sync, seen>>
                 /\ act' = Lbl([op |-> "Headers", n |-> n, p |-> z, res |-> "err"])
              \/ \* no headers
                 /\ link' = [link EXCEPT ![<<n, z>>] = "synced"]
                 /\ UNCHANGED <<sync, seen>>
                 /\ act' = Lbl([op |-> "Headers", n |-> n, p |-> z, res |-> "empty"])
              \/ \* HeadersOk: any header-valid chain above any of the offered ids, any `remaining`
                 \E base \in HistIds(n), top \in ZTops, rem0 \in ZRem :
                    /\ top # base
                    /\ base \in AncSet(T, top)
                    /\ \A x \in Above(T, top, AncSet(T, base)) : HeaderValid(x)
                    /\ IF top \in seen[n]
                         THEN /\ UNCHANGED <<link, sync, seen>>
                              /\ act' = Lbl([op |-> "Headers", n |-> n, p |-> z, res |-> "dup", base |-> base, top |-> top])
                         ELSE /\ StartSync(n, z, base, top, rem0)
                              /\ UNCHANGED link
                              /\ act' = Lbl([op |-> "Headers", n |-> n, p |-> z, res |-> "sync", base |-> base, top |-> top])

-----------------------------------------------------------------------------
(* parallelSync, parallel_sync.go:17-239 *)

\* the batch is served by worker w with exactly the announced blocks and applied
\* the tree as node n's store sees it: a block whose stored body is an ID twin fails when it is applied
GarbIds(g) == {q[1] : q \in g}
Seen(n, g) == [T EXCEPT !.cls = [b \in DOMAIN T.par |-> IF b \in GarbIds(g) THEN "bad" ELSE T.cls[b]]]

\* bodies stored by AddBlocks(bs) when worker w delivers the blocks in `tw` as ID twins (honest header, other
\* body): an applied block is skipped ("already have this block"); a stored but never-applied block is
\* re-validated and RE-STORED, so an honest re-delivery heals a twin (chain/manager.go:278-300).  The
\* mutation skips every block with a stored state at or below the tip height instead.
Restored(n, bs) ==
    {x \in Range(bs) \ AncSet(T, tip[n]) :
        ~(DevSkipKnownBelowTip /\ x \in known[n] /\ T.h[x] <= T.h[tip[n]])}
GarbAfter(n, w, bs, tw) ==
    {q \in garb[n] : q[1] \notin Restored(n, bs)} \cup {<<x, w>> : x \in tw \cap Restored(n, bs)}

\* whom to blame when adding w's batch ends in a failed reorg: the peer that served the block that failed
\* (the batch's own peer if nothing better is known)
Culprit(n, w, g, last) ==
    LET bad == {q \in g : q[1] \in Above(T, last, AncSet(T, tip[n]))}
    IN IF DevBanLastBatchPeer \/ bad = {} THEN w ELSE (CHOOSE q \in bad : TRUE)[2]

ApplyBatch(n, w, bs, void, tw, hung) ==
    LET validated == T.h[T.par[bs[1]]] >= ReqH
        \* AddValidatedV2Blocks stores the (pre-validated) bodies it is given
        g1 == IF validated THEN {q \in garb[n] : q[1] \notin Range(bs)} ELSE GarbAfter(n, w, bs, tw)
        who == Culprit(n, w, g1, bs[Len(bs)]) IN
    \* known[n] holds every block whose (header) state is stored -- including blocks that were submitted,
    \* failed full validation and were rolled back (chain/manager.go:276-278): "stored" is not "validated"
    \* an "asif" block (built on an invalid ancestor as if it were valid) PASSES pre-validation: the state it is
    \* checked against is derived from the peer's checkpoint; the invalid ancestor is found when the reorg applies
    \* the unvalidated stored prefix -- and then the manager must return to the tip it had (tip' = tip)
    IF validated /\ ~DevNoPreValidation /\ ~void /\ \E i \in DOMAIN bs : T.cls[bs[i]] \notin {"ok", "asif"} /\ (DevSkipSeenValidation => bs[i] \notin known[n])
      THEN \* consensus.ValidateBlock against the checkpoint-derived state fails: ban, batch discarded
           /\ BanUpdH(n, w, hung)
           /\ misb' = IF w \in Z THEN misb \cup {<<n, w>>} ELSE misb
           /\ UNCHANGED <<known, tip, sync, garb>>
           /\ act' = Lbl([op |-> "Fetch", n |-> n, w |-> w, res |-> "invalid"])
      ELSE LET r0 == IF validated THEN AddValidatedRes(Seen(n, g1), known[n], tip[n], bs)
                                  ELSE AddBlocksRes(Seen(n, g1), known[n], tip[n], bs)
               \* mutation: the failed reorg is "undone" towards the batch's base, which lies on the rejected fork:
               \* that second reorg fails at the invalid block too and leaves the tip at its parent
               badp == {x \in Above(T, bs[1], AncSet(T, tip[n])) : Seen(n, g1).cls[x] # "ok"}
               low  == CHOOSE x \in badp : \A y \in badp : T.h[x] <= T.h[y]
               r == IF DevRollbackToBase /\ validated /\ r0.err /\ badp # {}
                      THEN [known |-> r0.known, tip |-> T.par[low], err |-> TRUE] ELSE r0 IN
           /\ known' = [known EXCEPT ![n] = r.known]
           /\ tip' = [tip EXCEPT ![n] = r.tip]
           /\ garb' = [garb EXCEPT ![n] = g1]
           /\ IF r.err
                THEN /\ BanUpdH(n, who, hung /\ who = w)
                     /\ misb' = IF who \in Z THEN misb \cup {<<n, who>>} ELSE misb
                     /\ sync' = [sync EXCEPT ![n] = NoSync]
                     /\ act' = Lbl([op |-> "Fetch", n |-> n, w |-> w, res |-> "rejected"])
                ELSE /\ sync' = [sync EXCEPT ![n].nxt = @ + 1]
                     /\ link' = IF hung THEN DropLink(link, n, w) ELSE link
                     /\ UNCHANGED <<banned, misb>>
                     /\ act' = Lbl([op |-> "Fetch", n |-> n, w |-> w, res |-> (IF tw = {} THEN "ok" ELSE "twin")])

FetchHonest(n, w) ==
    /\ w \in H
    /\ sync[n].on
    /\ sync[n].nxt < NBatches(n)
    /\ link[<<n, w>>] = "unsynced"
    /\ CanServe(w, BatchOf(n))
    /\ ApplyBatch(n, w, BatchOf(n), FALSE, {}, FALSE)
    /\ UNCHANGED <<round, seen, htip, goal, dead>>

\* a Byzantine worker may serve the exact blocks (whatever their validity); every other answer
\* (blocks not matching the headers, wrong count, malformed, stall, bogus checkpoint state / block /
\* commitment) fails the id / count / commitment checks and changes nothing
FetchByz(n, z) ==
    /\ z \in Z
    /\ sync[n].on
    /\ sync[n].nxt < NBatches(n)
    /\ link[<<n, z>>] = "unsynced"
    /\ Fetchable(BatchOf(n))
    /\ \E tw \in {{}} \cup {{x} : x \in {y \in Range(BatchOf(n)) : T.cls[y] = "ok" /\ ZTwins}}, hung \in Hangs :
          ApplyBatch(n, z, BatchOf(n), FALSE, tw, hung)
    /\ UNCHANGED <<round, seen, htip, goal, dead>>

\* Corruptions of the SendCheckpoint answer (state, block) for the base of a batch on the pre-validated
\* path.  Peer.SendCheckpoint (peer.go:168-183) must reject every one of them -- the worker fails and
\* nothing changes -- because whatever passes is the state every block of the batch is validated against
\* (and, for RetrieveCheckpoint, what NewDBStoreAtCheckpoint applies without validation):
\*   state-field     any field of the parent state altered            -> commitment mismatch
\*   wrong-block     another (consistent) pair                        -> wrong index
\*   not-v2 / body   v1 block, swapped transactions                   -> not a v2 block / commitment mismatch
\*   payout-address  miner address changed                            -> commitment mismatch
\*   payouts-empty   MinerPayouts emptied (id intact)                 -> "not a v2 block"; unchecked: index panic
\*   payouts-extra   a made-up payout appended after the genuine one  -> "not a v2 block"; unchecked: accepted
\*   payout-value    the single payout's value inflated               -> must be checked against the state
\*                   (covered neither by the v2 id nor by the commitment)
\*   malformed / stall
\* An ACCEPTED altered pair makes pre-validation void: the peer controls the state the blocks are checked against.
CkptCorruptions == {"state-field", "wrong-block", "not-v2", "body", "payout-address", "payouts-empty", "payouts-extra",
                    "payout-value", "malformed", "stall"}
FetchByzCkpt(n, z, c) ==
    /\ z \in Z
    /\ c \in CkptCorruptions
    /\ sync[n].on
    /\ sync[n].nxt < NBatches(n)
    /\ link[<<n, z>>] = "unsynced"
    /\ T.h[T.par[BatchOf(n)[1]]] >= ReqH
    /\ Fetchable(BatchOf(n))
    /\ IF c = "payouts-empty" /\ DevPayoutCountUnchecked
         THEN /\ dead' = dead \cup {n}
              /\ act' = Lbl([op |-> "FetchCkpt", n |-> n, w |-> z, c |-> c, res |-> "panic"])
              /\ UNCHANGED <<known, tip, link, round, seen, htip, sync, banned, misb, goal, garb>>
       ELSE IF (c = "payouts-extra" /\ DevPayoutCountUnchecked) \/ (c = "payout-value" /\ DevCheckpointPayoutUnbound)
         THEN /\ ApplyBatch(n, z, BatchOf(n), TRUE, {}, FALSE)
              /\ UNCHANGED <<round, seen, htip, goal, dead>>
       ELSE /\ act' = Lbl([op |-> "FetchCkpt", n |-> n, w |-> z, c |-> c, res |-> "rejected"])
            /\ UNCHANGED vars

\* "all peers failed to sync blocks": no honest worker can serve the next batch
SyncAbort(n) ==
    /\ sync[n].on
    /\ sync[n].nxt < NBatches(n)
    /\ ~\E w \in H : link[<<n, w>>] = "unsynced" /\ CanServe(w, BatchOf(n))
    /\ sync' = [sync EXCEPT ![n] = NoSync]
    /\ act' = Lbl([op |-> "SyncAbort", n |-> n])
    /\ UNCHANGED <<known, tip, link, round, seen, htip, banned, misb, goal, dead, garb>>

\* every batch applied: a peer that sent all its headers is marked synced (syncer.go:855-860)
SyncDone(n) ==
    /\ sync[n].on
    /\ sync[n].nxt = NBatches(n)
    /\ link' = IF sync[n].rem0 /\ link[<<n, sync[n].src>>] = "unsynced"
                 THEN [link EXCEPT ![<<n, sync[n].src>>] = "synced"] ELSE link
    /\ sync' = [sync EXCEPT ![n] = NoSync]
    /\ act' = Lbl([op |-> "SyncDone", n |-> n])
    /\ UNCHANGED <<known, tip, round, seen, htip, banned, misb, goal, dead, garb>>

-----------------------------------------------------------------------------
(* relay handlers, peer.go:353-453.  Announce: an honest node (re-)announces its tip -- *)
(* the premise "tips are announced".                                                   *)

Announce(a, b, kind) ==
    /\ a \in H /\ b \in H
    /\ link[<<a, b>>] # "off"
    /\ tip[a] # G
    /\ LET x == tip[a]
           p == T.par[x]
       IN /\ act' = Lbl([op |-> "Announce", a |-> a, b |-> b, kind |-> kind])
          /\ UNCHANGED <<round, seen, htip, sync, misb, goal, dead, garb>>
          /\ IF p \notin known[b]
               THEN \* unknown parent
                    /\ link' = Resync(link, b, a)
                    /\ UNCHANGED <<known, tip, banned>>
             ELSE IF kind = "outline" /\ p \notin AncSet(T, tip[b])
               THEN \* RelayOutline, parent known only as an unapplied side-chain block: its stored
                    \* state is header-only, so the id derived from it (outline.ID(cs)) is garbage:
                    \* never "already seen", never attaching.  Deviation: the code checks the work
                    \* of that garbage id BEFORE the attachment test and bans the honest peer.
                    \* The attachment test is on the PARENT ID (peer.go: r.Block.ParentID != Tip().ID).  Mutation
                    \* DevOutlineAttachByHeight tests the height instead: a child of a competing block at our
                    \* tip's height "attaches", is rebuilt from the header-only parent state, fails on apply,
                    \* and the honest announcer is banned.
                    IF DevOutlineAttachByHeight /\ T.h[x] = T.h[tip[b]] + 1
                      THEN /\ BanUpd(b, a)
                           /\ UNCHANGED <<known, tip>>
                      ELSE \/ /\ link' = Resync(link, b, a)
                              /\ UNCHANGED <<known, tip, banned>>
                           \/ /\ DevOutlineSidechainBan
                              /\ BanUpd(b, a)
                              /\ UNCHANGED <<known, tip>>
             ELSE IF x \in known[b]
               THEN UNCHANGED <<known, tip, link, banned>>
             ELSE IF p # tip[b]
               THEN /\ link' = Resync(link, b, a)
                    /\ UNCHANGED <<known, tip, banned>>
             ELSE IF kind = "hdr"
               THEN UNCHANGED <<known, tip, link, banned>>       \* only relayed on
             ELSE LET r == AddBlocksRes(T, known[b], tip[b], <<x>>) IN
                    /\ known' = [known EXCEPT ![b] = r.known]
                    /\ tip' = [tip EXCEPT ![b] = r.tip]
                    /\ IF r.err THEN BanUpd(b, a) ELSE UNCHANGED <<link, banned>>

\* a Byzantine peer hangs up whenever it likes
Disconnect(z, n) ==
    /\ z \in Z /\ n \in H
    /\ ZHangup
    /\ link[<<n, z>>] # "off"
    /\ link' = DropLink(link, n, z)
    /\ act' = Lbl([op |-> "Disconnect", z |-> z, n |-> n])
    /\ UNCHANGED <<known, tip, round, seen, htip, sync, banned, misb, goal, dead, garb>>

\* an honest node mines the next block on its tip (the second phase of the equal-height scenarios)
Mine(n, x) ==
    /\ x \in Mineable
    /\ Miner[x] = n
    /\ T.par[x] = tip[n]
    /\ x \notin known[n]
    /\ known' = [known EXCEPT ![n] = @ \cup {x}]
    /\ tip' = [tip EXCEPT ![n] = x]
    /\ act' = Lbl([op |-> "Mine", n |-> n, x |-> x])
    /\ UNCHANGED <<link, round, seen, htip, sync, banned, misb, goal, dead, garb>>

\* a Byzantine peer relays: header / outline / transaction set, honest-looking or corrupted.
\*   ban     provable: insufficient work on a known parent, wrong "missing" transactions,
\*           empty transaction set
\*   resync  unknown parent, non-attaching block, unknown basis, failed SendTransactions
\*   none    valid attaching header, invalid transaction set, malformed frame
\*   block   an outline that attaches to our tip: completed and submitted
ZRelay(z, n, eff, x) == \E hung \in Hangs :
    /\ z \in Z /\ n \in H
    /\ link[<<n, z>>] # "off"
    /\ UNCHANGED <<round, seen, htip, sync, goal, dead, garb>>
    /\ act' = Lbl([op |-> "ZRelay", z |-> z, n |-> n, eff |-> eff, x |-> x])
    /\ eff # "block" => x = G
    /\ (hung => eff # "resync")
    /\ CASE eff = "ban" ->
              /\ BanUpdH(n, z, hung)
              /\ misb' = misb \cup {<<n, z>>}
              /\ UNCHANGED <<known, tip>>
         [] eff = "resync" ->
              /\ link' = Resync(link, n, z)
              /\ UNCHANGED <<known, tip, banned, misb>>
         [] eff = "block" ->
              /\ T.par[x] = tip[n]
              /\ x \notin known[n]
              /\ LET r == AddBlocksRes(T, known[n], tip[n], <<x>>) IN
                   /\ known' = [known EXCEPT ![n] = r.known]
                   /\ tip' = [tip EXCEPT ![n] = r.tip]
                   /\ IF r.err
                        THEN /\ BanUpdH(n, z, hung)
                             /\ misb' = misb \cup {<<n, z>>}
                        ELSE /\ link' = IF hung THEN DropLink(link, n, z) ELSE link
                             /\ UNCHANGED <<banned, misb>>
         [] OTHER -> FALSE

-----------------------------------------------------------------------------

Next ==
    \/ \E a, b \in Nodes : Connect(a, b)
    \/ \E n \in H : SyncTick(n) \/ SyncAbort(n) \/ SyncDone(n)
    \/ \E n \in H, x \in Mineable : Mine(n, x)
    \/ \E n \in H, p \in Nodes : HandleRespHonest(n, p) \/ HandleRespByz(n, p)
    \/ \E n \in H, w \in Nodes : FetchHonest(n, w) \/ FetchByz(n, w)
    \/ \E n \in H, z \in Z, c \in CkptCorruptions : FetchByzCkpt(n, z, c)
    \/ \E a, b \in H, kind \in {"hdr", "outline"} : Announce(a, b, kind)
    \/ \E z \in Z, n \in H, eff \in {"ban", "resync", "block"}, x \in Blocks : ZRelay(z, n, eff, x)
    \/ \E z \in Z, n \in H : Disconnect(z, n)

\* weak fairness of every honest action (timeouts make the victim's side of an exchange with a
\* Byzantine peer fair as well); nothing is assumed about Byzantine nodes
Fair ==
    /\ \A a, b \in H : WF_vars(Connect(a, b))
    /\ \A n \in H, x \in Mineable : WF_vars(Mine(n, x))
    /\ \A n \in H : WF_vars(SyncTick(n)) /\ WF_vars(SyncAbort(n)) /\ WF_vars(SyncDone(n))
    /\ \A n \in H, p \in Nodes : WF_vars(HandleRespHonest(n, p)) /\ WF_vars(HandleRespByz(n, p))
    /\ \A n \in H, w \in H : WF_vars(FetchHonest(n, w))
    /\ \A a, b \in H : WF_vars(Announce(a, b, "hdr")) /\ WF_vars(Announce(a, b, "outline"))

Spec == Init /\ [][Next]_allvars
FairSpec == Spec /\ Fair

\* header announcements only: a node exactly one block behind a peer it has marked synced is
\* never resynced (a header that attaches to the tip is only relayed on, peer.go:373-380) --
\* Convergence must FAIL under this spec; the premise needs the outline, as the repository's own
\* synced() test helper sends it
FairHeaderOnly ==
    /\ \A a, b \in H : WF_vars(Connect(a, b))
    /\ \A n \in H, x \in Mineable : WF_vars(Mine(n, x))
    /\ \A n \in H : WF_vars(SyncTick(n)) /\ WF_vars(SyncAbort(n)) /\ WF_vars(SyncDone(n))
    /\ \A n \in H, p \in Nodes : WF_vars(HandleRespHonest(n, p)) /\ WF_vars(HandleRespByz(n, p))
    /\ \A n \in H, w \in H : WF_vars(FetchHonest(n, w))
    /\ \A a, b \in H : WF_vars(Announce(a, b, "hdr"))
FairSpecHeaderOnly == Spec /\ FairHeaderOnly

\* self-test: without the premise "tips are (re-)announced" a relay that races an in-flight sync is
\* swallowed and the peer stays marked synced forever -- Convergence must FAIL under this spec
FairNoAnnounce ==
    /\ \A a, b \in H : WF_vars(Connect(a, b))
    /\ \A n \in H, x \in Mineable : WF_vars(Mine(n, x))
    /\ \A n \in H : WF_vars(SyncTick(n)) /\ WF_vars(SyncAbort(n)) /\ WF_vars(SyncDone(n))
    /\ \A n \in H, p \in Nodes : WF_vars(HandleRespHonest(n, p)) /\ WF_vars(HandleRespByz(n, p))
    /\ \A n \in H, w \in H : WF_vars(FetchHonest(n, w))
FairSpecNoAnnounce == Spec /\ FairNoAnnounce

-----------------------------------------------------------------------------
(* properties *)

\* every honest node's best chain is valid and linked, and the node stores all of it
AlwaysValid ==
    \A n \in H : \A b \in AncSet(T, tip[n]) :
        T.h[b] >= Lowest(n) => T.cls[b] = "ok" /\ b \in known[n] /\ b \notin GarbIds(garb[n])

\* a node's tip never loses work, and only moves to a sufficiently heavier tip
WorkMonotone ==
    [][\A n \in H : tip'[n] = tip[n] \/ Suff(T, tip'[n], tip[n])]_allvars

\* provable misbehaviour is reported to the peer store
ProvableMisbehaviourBanned == misb \subseteq banned

\* no honest node's process dies
NeverPanics == dead = {}

\* an honest peer is never banned
NoHonestBan == banned \cap (H \X H) = {}

\* stored blocks form a tree hanging off the node's stored range
KnownClosed ==
    \A n \in H : \A b \in known[n] : b = BaseOf[n] \/ T.h[b] <= Lowest(n) \/ T.par[b] \in known[n]

Converged == \A n \in Active : tip[n] = goal
Convergence == <>[]Converged

\* despite Byzantine peers every active honest node ends at least as heavy as the heaviest
\* chain the honest nodes offered
Progressed == \A n \in Active : T.lo[tip[n]] >= T.lo[goal]
HonestProgress == <>[]Progressed
=============================================================================
