------------------------------ MODULE KVTrace ------------------------------
(***************************************************************************)
(* Trace validation for KV (property C17, Leg T): every recorded call of   *)
(* a real backend must be explainable as the corresponding KV action with  *)
(* exactly the logged reply.  The NDJSON file ($TRACE) concatenates many   *)
(* traces separated by Reset events.                                       *)
(***************************************************************************)
EXTENDS KV, Json, IOUtils, Sequences

Log == ndJsonDeserialize(IOEnv.TRACE)
N == Len(Log)

VARIABLE l          \* next line to consume
tvars == <<vars, l>>

Ev == Log[l]
Step(op) == l <= N /\ Ev.op = op /\ l' = l + 1
SetOf(seq) == {<<seq[i][1], seq[i][2]>> : i \in DOMAIN seq}

TraceInit == Init /\ l = 1

TReset ==
    /\ Step("Reset")
    /\ cur' = [b \in Buckets |-> Absent]
    /\ dur' = cur'
    /\ reply' = <<"init">>
    /\ act' = [op |-> "Init"]

TCreate == Step("Create") /\ Create(Ev.b) /\ reply' = <<Ev.reply>>
TOpen   == Step("Open")   /\ Open(Ev.b)   /\ reply' = <<Ev.reply>>
TPut    == Step("Put")    /\ Put(Ev.b, Ev.k, Ev.v) /\ reply' = <<Ev.reply>>
TDel    == Step("Del")    /\ Del(Ev.b, Ev.k) /\ reply' = <<Ev.reply>>
TGet    == Step("Get")    /\ Get(Ev.b, Ev.k) /\ Ev.reply = "val" /\ reply' = <<"val", Ev.res>>
TIter   == Step("Iter")   /\ Iter(Ev.b) /\ Ev.reply = "set" /\ reply' = <<"set", SetOf(Ev.set)>>
TFlush  == Step("Flush")  /\ Flush /\ reply' = <<Ev.reply>>
TCancel == Step("Cancel") /\ Cancel /\ reply' = <<Ev.reply>>

TraceNext == TReset \/ TCreate \/ TOpen \/ TPut \/ TDel \/ TGet \/ TIter \/ TFlush \/ TCancel

TraceSpec == TraceInit /\ [][TraceNext]_tvars

\* high-water mark of consumed lines (needs -workers 1)
ASSUME TLCSet(1, 0)
HWM == TLCSet(1, IF l - 1 > TLCGet(1) THEN l - 1 ELSE TLCGet(1))
TraceAccepted ==
    /\ PrintT(<<"HWM", TLCGet(1), "of", N>>)
    /\ TLCGet(1) = N
=============================================================================
