----------------------------- MODULE PoolTrace -----------------------------
(***************************************************************************)
(* Trace validation for Pool (Legs R and T of C14, C05, C13): every        *)
(* execution of the real chain.Manager recorded by harness/poolx must be a *)
(* behaviour of Pool.tla with exactly the logged replies, and every        *)
(* invariant / action property of Pool is evaluated along it.  $TRACE is   *)
(* the NDJSON event file, $POOLSC the abstract scenarios (one per Reset)   *)
(* that the harness derived from the REAL blocks and transactions.         *)
(*                                                                         *)
(*   Reset{sc}                      new history on scenario sc             *)
(*   Submit{to}                     AddBlocks with the chain ending in `to`*)
(*   Revert{b} / Apply{b}           the store saw RevertBlock / ApplyBlock *)
(*   Done{tip}                      AddBlocks returned                     *)
(*   Obs{p1,p2,eph,full,valid,mine,alias,asked,found}  PoolTransactions +  *)
(*                                  (full: the harness' own sum, logged    *)
(*                                  for the audits; the spec recomputes it)*)
(*                                  V2PoolTransactions reported, with the  *)
(*                                  harness' concrete verdicts; asked /    *)
(*                                  found: lookups by id right after it    *)
(*   AddSet{kind,basis,set,r,alias} submission and its result              *)
(*   Lookup{kind,id,r,k}            PoolTransaction / V2PoolTransaction    *)
(*   Mine{r,ids}                    block assembled by coreutils.MineBlock *)
(*                                  from the reported pool                 *)
(*   Rebase{set,from,to,corrupt,r,ids,eph,proofs,nopanic}                  *)
(*   TxSet{x,basis,r,ids,k,nopanic}                                        *)
(***************************************************************************)
EXTENDS Pool, Json, IOUtils

ScJ == JsonDeserialize(IOEnv.POOLSC)
ToSet(s) == {s[i] : i \in 1..Len(s)}
FixTx(x) == [ins |-> ToSet(x.ins), refs |-> ToSet(x.refs), outs |-> ToSet(x.outs), kind |-> x.kind, w |-> x.w, lo |-> x.lo, hi |-> x.hi]
FixSc(c) ==
    [n |-> c.n, maxpool |-> c.maxpool, maxblock |-> c.maxblock, parent |-> c.parent, height |-> c.height, body |-> c.body,
     creates |-> [b \in 1..c.n |-> ToSet(c.creates[b])],
     spends  |-> [b \in 1..c.n |-> ToSet(c.spends[b])],
     ntx |-> c.ntx, tx |-> [t \in 1..c.ntx |-> FixTx(c.tx[t])]]
ScensC == [i \in 1..Len(ScJ) |-> FixSc(ScJ[i])]

Log == ndJsonDeserialize(IOEnv.TRACE)
N == Len(Log)

VARIABLE l
tvars == <<vars, l>>
Ev == Log[l]
Step(op) == l <= N /\ Ev.op = op /\ l' = l + 1

TraceInit == InitFor(1) /\ l = 1

Keep == UNCHANGED <<sc, tip, sub, app, pc, utxo, pool1, pool2, offered, mustKeep, kept0, stale>>

TReset ==
    /\ Step("Reset")
    /\ sc' = Ev.sc
    /\ tip' = 1 /\ sub' = {1} /\ app' = {1}
    /\ pc' = IdlePc
    /\ utxo' = Scens[Ev.sc].creates[1] \ Scens[Ev.sc].spends[1]
    /\ pool1' = <<>> /\ pool2' = <<>>
    /\ offered' = {} /\ mustKeep' = {} /\ kept0' = {}
    /\ stale' = FALSE
    /\ obs' = ObsOK /\ reply' = NoReply /\ act' = [op |-> "Init"]

TSubmit == Step("Submit") /\ Submit(Ev.to) /\ obs' = ObsOK
TRevert == Step("Revert") /\ tip = Ev.b /\ BlockReverted /\ obs' = ObsOK
TApply  == Step("Apply") /\ BlockApplied /\ tip' = Ev.b /\ obs' = ObsOK
TDone   == Step("Done") /\ Done /\ tip = Ev.tip /\ obs' = ObsOK

FixInst(x) == [t |-> x.t, eph |-> ToSet(x.eph)]
FixSet(s)  == [i \in 1..Len(s) |-> [t |-> s[i].t, eph |-> ToSet(s[i].eph), bad |-> s[i].bad]]
FixISeq(s) == [i \in 1..Len(s) |-> FixInst(s[i])]
EphSeq(s)  == [i \in 1..Len(s) |-> ToSet(s[i])]

\* the pool as reported (this is where revalidatePool becomes visible)
TObs ==
    /\ Step("Obs") /\ Idle
    /\ LET p1 == Ev.p1 p2 == Ev.p2 IN
       /\ IF stale \/ Full       \* Full: the spec's own sum over the pooled transactions, not the harness' flag
            THEN LET K == IF Full THEN Closure(mustKeep \cap (SeqSet(p1) \cup SeqSet(p2)), utxo) ELSE mustKeep IN
                 /\ mustKeep' = K
                 /\ kept0' = IF Full THEN Closure(kept0 \cap (SeqSet(p1) \cup SeqSet(p2)), utxo) ELSE kept0
                 /\ AllowedPool(p1, p2, K)
            ELSE /\ p1 = pool1 /\ p2 = pool2 /\ mustKeep' = mustKeep /\ kept0' = kept0
       /\ pool1' = p1 /\ pool2' = p2
       /\ Len(Ev.eph) = Len(p2)
       /\ \A j \in 1..Len(p2) : ToSet(Ev.eph[j]) = EphAtTip(p2[j])
    /\ stale' = FALSE
    /\ act' = [op |-> "Revalidate"] /\ reply' = NoReply
    /\ obs' = [ObsOK EXCEPT !.valid = Ev.valid, !.mine = Ev.mine, !.alias = Ev.alias, !.asked = ToSet(Ev.asked), !.found = ToSet(Ev.found)]
    /\ UNCHANGED <<sc, tip, sub, app, pc, utxo, offered>>

TAddSet ==
    /\ Step("AddSet")
    /\ AddSet(Ev.kind, Ev.basis, FixSet(Ev.set))
    /\ reply'.r = Ev.r
    /\ obs' = [ObsOK EXCEPT !.alias = Ev.alias]

TLookup ==
    /\ Step("Lookup")
    /\ Lookup(Ev.kind, Ev.id)
    /\ reply'.r = Ev.r /\ reply'.k = Ev.k
    /\ obs' = ObsOK

\* the body that coreutils.MineBlock assembled on the real node (ids, in block order) and whether core
\* on the independent ledger, a copy of the node and a fresh linear node accepted it are taken from the
\* log and JUDGED by Minable / MinedIsPrefix / MinedSelfContained / MinedFits
TMine ==
    /\ Step("Mine") /\ Fresh
    /\ act' = [op |-> "Mine"]
    /\ reply' = [NoReply EXCEPT !.r = Ev.r, !.ids = Ev.ids]
    /\ obs' = [ObsOK EXCEPT !.mine = (Ev.r = "accepted")]
    /\ Keep

\* the replies of Rebase / TxSet are taken from the log and JUDGED by the action properties
\* RebaseResult / RebaseErrors / ParentsFirst / BasisIsTip / TxSetErrors (the properties say what
\* a correct reply is; the order of discovered parents, for instance, is only constrained)
TRebase ==
    /\ Step("Rebase") /\ Idle
    /\ act' = [op |-> "Rebase", set |-> FixISeq(Ev.set), from |-> Ev.from, to |-> Ev.to, corrupt |-> Ev.corrupt]
    /\ reply' = [NoReply EXCEPT !.r = Ev.r, !.ids = Ev.ids, !.eph = EphSeq(Ev.eph)]
    /\ obs' = [ObsOK EXCEPT !.proofs = Ev.proofs, !.nopanic = Ev.nopanic]
    /\ Keep

TTxSet ==
    /\ Step("TxSet") /\ Idle          \* also right after a block, before the pool was looked at (the call revalidates itself)
    /\ act' = [op |-> "TxSet", x |-> FixInst(Ev.x), basis |-> Ev.basis]
    /\ reply' = [NoReply EXCEPT !.r = Ev.r, !.ids = Ev.ids, !.k = Ev.k]
    /\ obs' = [ObsOK EXCEPT !.proofs = Ev.proofs, !.nopanic = Ev.nopanic]
    /\ Keep

TraceNext ==
    \/ TReset \/ TSubmit \/ TRevert \/ TApply \/ TDone \/ TObs \/ TAddSet \/ TLookup \/ TMine \/ TRebase \/ TTxSet

TraceSpec == TraceInit /\ [][TraceNext]_tvars

ASSUME TLCSet(1, 0)
HWM == TLCSet(1, IF l - 1 > TLCGet(1) THEN l - 1 ELSE TLCGet(1))
TraceAccepted ==
    /\ PrintT(<<"HWM", TLCGet(1), "of", N>>)
    /\ TLCGet(1) = N
=============================================================================
