-------------------------- MODULE WalletLedgerTrace --------------------------
(***************************************************************************)
(* Trace validation for WalletLedger (Leg T of C06): every execution of a  *)
(* real chain.Manager + wallet.SingleAddressWallet (over the reference     *)
(* store) recorded by harness/walletledx TestDriver must be a behaviour of *)
(* WalletLedger.tla, with the wallet's COMPLETE projected state after every *)
(* UpdateChainState call equal to the specification's, and every invariant *)
(* evaluated in every state.  One NDJSON line per action; $TRACE is the    *)
(* event file, $TREES the abstract trees (one per Reset: real tree of a    *)
(* randomised history + the persona whose address the wallet has).         *)
(*                                                                         *)
(*   Reset{t}                                   new history on tree t      *)
(*   Adopt{to}                                  an AddBlocks call moved the tip *)
(*   Chunk{max,from,rus,aus,wtip,utxo,ev}       one UpdatesSince + UpdateChainState *)
(***************************************************************************)
EXTENDS WalletLedger, Json, IOUtils

TreesJ == JsonDeserialize(IOEnv.TREES)
QuadSet(s) == {<<s[i][1], s[i][2], s[i][3], s[i][4]>> : i \in 1..Len(s)}
TreesC == TreesJ

Log == ndJsonDeserialize(IOEnv.TRACE)
N == Len(Log)

VARIABLE l
tvars == <<vars, l>>
Ev == Log[l]
Step(op) == l <= N /\ Ev.op = op /\ l' = l + 1

TraceInit == Init /\ l = 1

TReset ==
    /\ Step("Reset")
    /\ t' = Ev.t
    /\ mem' = 1 /\ wTip' = 0
    /\ wUtxo' = {} /\ wEv' = {} /\ wOk' = TRUE
    /\ act' = [op |-> "Init"]

TAdopt == Step("Adopt") /\ Adopt(Ev.to)

\* the real call: exactly the stream the specification computes, and afterwards exactly its state
TChunk ==
    /\ Step("Chunk")
    /\ wTip = Ev.from
    /\ Chunk(Ev.max)
    /\ act'.rus = Ev.rus /\ act'.aus = Ev.aus
    /\ wTip' = Ev.wtip
    /\ wUtxo' = QuadSet(Ev.utxo)
    /\ wEv' = QuadSet(Ev.ev)
    /\ wOk'

TraceNext == TReset \/ TAdopt \/ TChunk

TraceSpec == TraceInit /\ [][TraceNext]_tvars

ASSUME TLCSet(1, 0)
HWM == TLCSet(1, IF l - 1 > TLCGet(1) THEN l - 1 ELSE TLCGet(1))
TraceAccepted ==
    /\ PrintT(<<"HWM", TLCGet(1), "of", N>>)
    /\ TLCGet(1) = N
=============================================================================
