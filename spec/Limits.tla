------------------------------- MODULE Limits -------------------------------
(***************************************************************************)
(* Property C18 -- "Limits and shutdown are honoured under any schedule".  *)
(*                                                                         *)
(* Three families of actions share ONE thread group (tgLive, stop):        *)
(*                                                                         *)
(*  RPC   syncer.runPeer (syncer/syncer.go:451-509).  Per peer a loop that *)
(*        takes the arrived streams in order, acquires the per-peer        *)
(*        semaphore (BLOCKING), then the per-subnet counter (NON-blocking: *)
(*        on failure the peer slot is returned and the stream dropped),    *)
(*        spawns the handler goroutine, which joins the thread group       *)
(*        (refused after Stop: both slots are returned), handles, leaves   *)
(*        the group, returns the subnet slot, returns the peer slot.       *)
(*  CONN  acceptLoop / peerLoop -> allowConnect -> handshake -> addPeer -> *)
(*        runPeer -> removal (syncer.go:386-401, 569-674).  AllowCheck,    *)
(*        Handshake and AddPeer are SEPARATE steps, exactly as in the code.*)
(*  TG    threadgroup.ThreadGroup itself (Add / done / Stop), which is all *)
(*        rhp4.Server.Serve/Close and SingleAddressWallet.Close consist of.*)
(*                                                                         *)
(* The limits are a VARIABLE `lim` (chosen in Init from the cfg's sets and *)
(* never changed) so that one TLC run covers every cap combination and the *)
(* trace spec can install a recorded run's configuration from its Reset.   *)
(*                                                                         *)
(* Every action is  G_X (a state predicate: its guard)  /\  its effect, so *)
(* that MCLimits / LimitsTrace can ask which internal steps are enabled.   *)
(* `act` labels the transition and is hidden by the VIEW.                  *)
(*                                                                         *)
(* Named deviations (all FALSE = intended design):                         *)
(*   DevCapCheckThenAct  AddPeer inserts without re-checking the cap under *)
(*                       the lock of the insert -- THIS IS THE CODE AS IT  *)
(*                       IS; PeerCaps fails (cfg Limits_conn_impl).        *)
(*   DevSweepOnce        Run closes the peers that are in s.peers at the ONE    *)
(*                       moment its teardown runs; addPeer still inserts        *)
(*                       afterwards -- THIS IS THE CODE AS IT IS; a peer added  *)
(*                       between Close's `l.Close()` and `tg.Stop()` is never   *)
(*                       closed and Stop waits for its runPeer for as long as   *)
(*                       the remote likes (StopReturns fails, Limits_conn_sweep)*)
(*   DevLeakOnTgFail     a handler refused by the stopped group forgets to *)
(*                       return its slots (NoSlotLeak fails).  Self-test.  *)
(*   DevDropOnPeerFull   a full per-peer semaphore drops instead of        *)
(*                       blocking (BackPressureNotDrop fails).  Self-test. *)
(*   DevCtxLeak          AddContext with an already cancelled parent returns an *)
(*                       error without giving back what Add counted             *)
(*                       (TgAccounting and StopReturns fail).  Self-test.       *)
(*   DevStop2NoWait      a Stop that finds the group already closed returns     *)
(*                       without waiting (StopWaits fails).  Self-test.         *)
(*   DevAddUnlocked      ThreadGroup.Add tests `closed` and joins in two   *)
(*                       steps (StopWaits fails).  Self-test.              *)
(***************************************************************************)
EXTENDS Integers, FiniteSets, TLC

CONSTANTS
    Peers,          \* connected peers whose RPC pipeline is modelled ({} in the other families)
    NRpc,           \* each peer sends RPCs 1..NRpc, in this order
    Subnets,        \* names of subnets (domain of the counter)
    SharedA,        \* peers of SharedA share subnet "A"; every other peer is alone in the subnet named like itself
    OneShot,        \* peers that send only RPC 1 (keeps a third peer affordable)
    InflightCaps,   \* Init picks lim.maxInflight from this set (>= 1)
    SubnetCaps,     \* ... lim.maxSubnet (<= 0: the subnet limit is disabled)
    InConns, OutConns,  \* inbound / outbound connection attempts
    InCaps, OutCaps,    \* ... lim.maxIn, lim.maxOut (0 or negative: nothing is admitted)
    Threads,        \* plain users of the thread group
    WithRun,        \* TRUE: Syncer.Run is a member of the group and tears the peers down on Stop
    AllowDisconnect,\* TRUE: a peer may hang up at any moment
    CtxThreads,     \* threads that join with AddContext(parent): their parent context may be cancelled at any moment
    DevCtxLeak,     \* self-test: AddContext with an already cancelled parent returns an error AFTER having joined
    TwoStoppers,    \* TRUE: a second Stop/Close may be called while the first one is waiting
    DevCapCheckThenAct, DevSweepOnce, DevLeakOnTgFail, DevDropOnPeerFull, DevAddUnlocked,
    DevStop2NoWait  \* self-test: a Stop that finds the group already closed returns at once

VARIABLES
    lim,         \* [maxInflight, maxSubnet, maxIn, maxOut, sub : Peers -> Subnets]
    st, out,     \* per peer and RPC: pipeline stage / outcome
    sem,         \* per peer: occupied slots of the `inflight` channel of runPeer
    sub,         \* per subnet: Syncer.inflightSubnet
    loopOn,      \* per peer: runPeer's loop has not returned
    gone,        \* per peer: the peer hung up
    tgLive,      \* threadgroup: WaitGroup counter
    stop,        \* "no" | "closed" (closed channel closed) | "waiting" (wg.Wait) | "returned"
    par,         \* per thread: state of the parent context handed to AddContext: "live" | "cancelled"
    stop2,       \* a second, overlapping Stop: "idle" | "waiting" (found the channel closed; wg.Wait) | "returned"
    lclosed,     \* the listener is closed (first statement of Syncer.Close)
    peersClosed, \* Run's teardown has run: it closed every peer that was in s.peers at that moment
    dead,        \* per connection attempt: its transport was closed by that teardown
    runLive,     \* 1 while Syncer.Run is a member of the group
    conn,        \* per connection attempt: "idle","checked","shaken","peer","running","rejected","closed"
    th,          \* per thread: "idle","chk","live","done","refused"
    act

vars == <<lim, st, out, sem, sub, loopOn, gone, tgLive, stop, lclosed, peersClosed, dead, runLive, conn, th, stop2, par, act>>
view == <<lim, st, out, sem, sub, loopOn, gone, tgLive, stop, lclosed, peersClosed, dead, runLive, conn, th, stop2, par>>

RpcIds == 1..NRpc
Conns == InConns \cup OutConns
Lbl(o, p, r) == [op |-> o, p |-> p, r |-> r]

SubnetOf(p) == lim.sub[p]
SubnetOn == lim.maxSubnet > 0

Stages == {"new", "arrived", "gotpeer", "gotsub", "spawned", "handling", "exited", "ending", "relsub", "final"}
Outcomes == {"none", "answered", "maybe", "lost", "rejected", "dropsub", "dropshut", "droppeer"}
FailOutcomes == {"lost", "rejected", "dropsub", "dropshut", "droppeer"}

Arrived(p)  == {r \in RpcIds : st[p][r] = "arrived"}
InLoop(p)   == {r \in RpcIds : st[p][r] \in {"gotpeer", "gotsub"}}    \* the RPC the loop is busy with
HeadRpc(p)     == CHOOSE r \in Arrived(p) : \A x \in Arrived(p) : r <= x
TheOne(S)   == CHOOSE r \in S : TRUE
HoldsPeer(p) == {r \in RpcIds : st[p][r] \in {"gotpeer", "gotsub", "spawned", "handling", "exited", "ending", "relsub"}}
HoldsSub(s) == {pr \in Peers \X RpcIds : SubnetOf(pr[1]) = s /\ st[pr[1]][pr[2]] \in {"gotsub", "spawned", "handling", "exited", "ending"}}
Handlers == {pr \in Peers \X RpcIds : st[pr[1]][pr[2]] \in {"handling", "exited"}}

IsPeer(c) == conn[c] \in {"peer", "running"}
NumIn  == Cardinality({c \in InConns : IsPeer(c)})
NumOut == Cardinality({c \in OutConns : IsPeer(c)})
CountFor(c) == IF c \in InConns THEN NumIn ELSE NumOut
CapFor(c)   == IF c \in InConns THEN lim.maxIn ELSE lim.maxOut
ConnHolds == {c \in Conns : conn[c] \in {"checked", "shaken", "peer", "running"}}

TypeOK ==
    /\ st \in [Peers -> [RpcIds -> Stages]]
    /\ out \in [Peers -> [RpcIds -> Outcomes]]
    /\ sem \in [Peers -> Nat]
    /\ sub \in [Subnets -> Nat]
    /\ loopOn \in [Peers -> BOOLEAN] /\ gone \in [Peers -> BOOLEAN]
    /\ tgLive \in Nat
    /\ stop \in {"no", "closed", "waiting", "returned"}
    /\ stop2 \in {"idle", "waiting", "returned"}
    /\ peersClosed \in BOOLEAN /\ lclosed \in BOOLEAN /\ runLive \in {0, 1}
    /\ dead \in [Conns -> BOOLEAN]
    /\ conn \in [Conns -> {"idle", "checked", "shaken", "peer", "running", "rejected", "closed"}]
    /\ th \in [Threads -> {"idle", "chk", "live", "done", "refused", "errored"}]
    /\ par \in [Threads -> {"live", "cancelled"}]

InitState(l) ==
    /\ lim = l
    /\ st = [p \in Peers |-> [r \in RpcIds |-> "new"]]
    /\ out = [p \in Peers |-> [r \in RpcIds |-> "none"]]
    /\ sem = [p \in Peers |-> 0]
    /\ sub = [s \in Subnets |-> 0]
    /\ loopOn = [p \in Peers |-> TRUE]
    /\ gone = [p \in Peers |-> FALSE]
    /\ runLive = IF WithRun THEN 1 ELSE 0
    /\ tgLive = Cardinality(Peers) + runLive      \* every runPeer joined the group when it started; so did Run
    /\ stop = "no" /\ stop2 = "idle"
    /\ peersClosed = FALSE /\ lclosed = FALSE
    /\ dead = [c \in Conns |-> FALSE]
    /\ conn = [c \in Conns |-> "idle"]
    /\ th = [t \in Threads |-> "idle"]
    /\ par = [t \in Threads |-> "live"]
    /\ act = Lbl("Init", "", 0)

Init == \E a \in InflightCaps, b \in SubnetCaps, c \in InCaps, d \in OutCaps :
            InitState([maxInflight |-> a, maxSubnet |-> b, maxIn |-> c, maxOut |-> d,
                       sub |-> [p \in Peers |-> IF p \in SharedA THEN "A" ELSE p]])

-----------------------------------------------------------------------------
(* RPC family *)

\* environment: the peer opens a stream and writes the RPC id (RPCs of one peer in order)
G_Arrive(p, r) == st[p][r] = "new" /\ (IF r = 1 THEN TRUE ELSE p \notin OneShot /\ st[p][r - 1] # "new")
Arrive(p, r) ==
    /\ G_Arrive(p, r)
    /\ st' = [st EXCEPT ![p][r] = "arrived"]
    /\ act' = Lbl("Arrive", p, r)
    /\ UNCHANGED <<lim, out, sem, sub, loopOn, gone, tgLive, stop, lclosed, peersClosed, dead, runLive, conn, th, stop2, par>>

\* `inflight <- struct{}{}` : BLOCKS while the semaphore is full (not enabled).  After Stop the select may
\* still take this branch (Go picks at random among ready cases), so `stop` is not consulted.
G_AcquirePeer(p) ==
    /\ loopOn[p] /\ InLoop(p) = {} /\ Arrived(p) # {}
    /\ (sem[p] < lim.maxInflight \/ DevDropOnPeerFull)
AcquirePeer(p) ==
    /\ G_AcquirePeer(p)
    /\ LET r == HeadRpc(p) IN
         /\ IF sem[p] < lim.maxInflight
              THEN /\ sem' = [sem EXCEPT ![p] = @ + 1]
                   /\ st' = [st EXCEPT ![p][r] = "gotpeer"]
                   /\ out' = out
              ELSE /\ st' = [st EXCEPT ![p][r] = "final"]       \* deviation only
                   /\ out' = [out EXCEPT ![p][r] = "droppeer"]
                   /\ sem' = sem
         /\ act' = Lbl("AcquirePeer", p, r)
    /\ UNCHANGED <<lim, sub, loopOn, gone, tgLive, stop, lclosed, peersClosed, dead, runLive, conn, th, stop2, par>>

\* acquireInflight: non-blocking; failure = `<-inflight; stream.Close(); continue`
G_AcquireSubnet(p) == loopOn[p] /\ \E r \in RpcIds : st[p][r] = "gotpeer"
AcquireSubnet(p) ==
    /\ G_AcquireSubnet(p)
    /\ LET r == TheOne({x \in RpcIds : st[p][x] = "gotpeer"})
           s == SubnetOf(p) IN
         IF ~SubnetOn \/ sub[s] < lim.maxSubnet
           THEN /\ st' = [st EXCEPT ![p][r] = "gotsub"]
                /\ sub' = IF SubnetOn THEN [sub EXCEPT ![s] = @ + 1] ELSE sub
                /\ UNCHANGED <<sem, out>>
                /\ act' = Lbl("AcquireSubnet", p, r)
           ELSE /\ st' = [st EXCEPT ![p][r] = "final"]
                /\ out' = [out EXCEPT ![p][r] = "dropsub"]
                /\ sem' = [sem EXCEPT ![p] = @ - 1]
                /\ sub' = sub
                /\ act' = Lbl("DropSubnet", p, r)
    /\ UNCHANGED <<lim, loopOn, gone, tgLive, stop, lclosed, peersClosed, dead, runLive, conn, th, stop2, par>>

\* `go func() { ... }()`
G_Spawn(p) == loopOn[p] /\ \E r \in RpcIds : st[p][r] = "gotsub"
Spawn(p) ==
    /\ G_Spawn(p)
    /\ LET r == TheOne({x \in RpcIds : st[p][x] = "gotsub"}) IN
         /\ st' = [st EXCEPT ![p][r] = "spawned"]
         /\ act' = Lbl("Spawn", p, r)
    /\ UNCHANGED <<lim, out, sem, sub, loopOn, gone, tgLive, stop, lclosed, peersClosed, dead, runLive, conn, th, stop2, par>>

\* handler goroutine: s.tg.Add(); refused after Stop -> the two deferred releases run
G_TgAdd(p, r) == st[p][r] = "spawned"
TgAdd(p, r) ==
    /\ G_TgAdd(p, r)
    /\ IF stop = "no"
         THEN /\ st' = [st EXCEPT ![p][r] = "handling"]
              /\ tgLive' = tgLive + 1
              /\ out' = out
              /\ act' = Lbl("TgAdd", p, r)
         ELSE /\ st' = [st EXCEPT ![p][r] = IF DevLeakOnTgFail THEN "final" ELSE "ending"]
              /\ out' = [out EXCEPT ![p][r] = "rejected"]
              /\ tgLive' = tgLive
              /\ act' = Lbl("TgRefuse", p, r)
    /\ UNCHANGED <<lim, sem, sub, loopOn, gone, stop, lclosed, peersClosed, dead, runLive, conn, th, stop2, par>>

\* the handler returns (the response is written unless the transport is already dead: the peer hung up, Run
\* closed it, or runPeer returned -- the accepting goroutine closes the connection when runPeer returns)
G_Handle(p, r) == st[p][r] = "handling"
Handle(p, r) ==
    /\ G_Handle(p, r)
    /\ st' = [st EXCEPT ![p][r] = "exited"]
    \* Run's teardown closes the peers one after the other: between the listener's close and the end of the
    \* teardown this peer's transport may or may not be closed already ("maybe": answered or lost)
    /\ out' = [out EXCEPT ![p][r] = IF peersClosed \/ gone[p] \/ ~loopOn[p] THEN "lost"
                                     ELSE IF lclosed THEN "maybe" ELSE "answered"]
    /\ act' = Lbl("Handle", p, r)
    /\ UNCHANGED <<lim, sem, sub, loopOn, gone, tgLive, stop, lclosed, peersClosed, dead, runLive, conn, th, stop2, par>>

\* deferred calls run LIFO: stream.Close, done() -- the group is left BEFORE the slots are returned
G_HandleDone(p, r) == st[p][r] = "exited"
HandleDone(p, r) ==
    /\ G_HandleDone(p, r)
    /\ st' = [st EXCEPT ![p][r] = "ending"]
    /\ tgLive' = tgLive - 1
    /\ act' = Lbl("HandleDone", p, r)
    /\ UNCHANGED <<lim, out, sem, sub, loopOn, gone, stop, lclosed, peersClosed, dead, runLive, conn, th, stop2, par>>

G_ReleaseSubnet(p, r) == st[p][r] = "ending"
ReleaseSubnet(p, r) ==
    /\ G_ReleaseSubnet(p, r)
    /\ st' = [st EXCEPT ![p][r] = "relsub"]
    /\ sub' = IF SubnetOn THEN [sub EXCEPT ![SubnetOf(p)] = @ - 1] ELSE sub
    /\ act' = Lbl("ReleaseSubnet", p, r)
    /\ UNCHANGED <<lim, out, sem, loopOn, gone, tgLive, stop, lclosed, peersClosed, dead, runLive, conn, th, stop2, par>>

G_ReleasePeer(p, r) == st[p][r] = "relsub"
ReleasePeer(p, r) ==
    /\ G_ReleasePeer(p, r)
    /\ st' = [st EXCEPT ![p][r] = "final"]
    /\ sem' = [sem EXCEPT ![p] = @ - 1]
    /\ act' = Lbl("ReleasePeer", p, r)
    /\ UNCHANGED <<lim, out, sub, loopOn, gone, tgLive, stop, lclosed, peersClosed, dead, runLive, conn, th, stop2, par>>

\* runPeer returns: at the select (`<-s.tg.Done()`) once Stop has begun, or at acceptRPC once the transport
\* is dead (peer hung up / Run closed the peers).  Deliberately permissive about which of the two.
G_LoopExit(p) == loopOn[p] /\ InLoop(p) = {} /\ (stop # "no" \/ gone[p] \/ peersClosed)
LoopExit(p) ==
    /\ G_LoopExit(p)
    /\ loopOn' = [loopOn EXCEPT ![p] = FALSE]
    /\ tgLive' = tgLive - 1
    /\ act' = Lbl("LoopExit", p, 0)
    /\ UNCHANGED <<lim, st, out, sem, sub, gone, stop, lclosed, peersClosed, dead, runLive, conn, th, stop2, par>>

\* a stream that arrived but was never taken dies with the connection
G_Abandon(p, r) == st[p][r] = "arrived" /\ ~loopOn[p]
Abandon(p, r) ==
    /\ G_Abandon(p, r)
    /\ st' = [st EXCEPT ![p][r] = "final"]
    /\ out' = [out EXCEPT ![p][r] = "dropshut"]
    /\ act' = Lbl("Abandon", p, r)
    /\ UNCHANGED <<lim, sem, sub, loopOn, gone, tgLive, stop, lclosed, peersClosed, dead, runLive, conn, th, stop2, par>>

G_Disconnect(p) == AllowDisconnect /\ ~gone[p]
Disconnect(p) ==
    /\ G_Disconnect(p)
    /\ gone' = [gone EXCEPT ![p] = TRUE]
    /\ act' = Lbl("Disconnect", p, 0)
    /\ UNCHANGED <<lim, st, out, sem, sub, loopOn, tgLive, stop, lclosed, peersClosed, dead, runLive, conn, th, stop2, par>>

-----------------------------------------------------------------------------
(* thread group, Run *)

\* Syncer.Close is `s.l.Close(); s.tg.Stop()`: two statements, anything may run in between
G_CloseListener == WithRun /\ ~lclosed /\ stop = "no"
CloseListener ==
    /\ G_CloseListener
    /\ lclosed' = TRUE
    /\ act' = Lbl("CloseListener", "", 0)
    /\ UNCHANGED <<lim, st, out, sem, sub, loopOn, gone, tgLive, stop, peersClosed, dead, runLive, conn, th, stop2, par>>

G_StopBegin == stop = "no" /\ (WithRun => lclosed)
StopBegin ==
    /\ G_StopBegin
    /\ stop' = "closed"
    /\ act' = Lbl("StopBegin", "", 0)
    /\ UNCHANGED <<lim, st, out, sem, sub, loopOn, gone, tgLive, lclosed, peersClosed, dead, runLive, conn, th, stop2, par>>

G_StopWait == stop = "closed"
StopWait ==
    /\ G_StopWait
    /\ stop' = "waiting"
    /\ act' = Lbl("StopWait", "", 0)
    /\ UNCHANGED <<lim, st, out, sem, sub, loopOn, gone, tgLive, lclosed, peersClosed, dead, runLive, conn, th, stop2, par>>

G_StopReturn == stop = "waiting" /\ tgLive = 0
StopReturn ==
    /\ G_StopReturn
    /\ stop' = "returned"
    /\ act' = Lbl("StopReturn", "", 0)
    /\ UNCHANGED <<lim, st, out, sem, sub, loopOn, gone, tgLive, lclosed, peersClosed, dead, runLive, conn, th, stop2, par>>

\* Stop / Close may be called again while the first call is still waiting (Stop is written to be called twice:
\* `select { case <-tg.closed: default: close(tg.closed) }`).  The second caller finds the channel closed and
\* must wait for the members just like the first: EVERY Stop returns only when no member is live.
G_Stop2Begin == TwoStoppers /\ stop2 = "idle" /\ stop # "no"
Stop2Begin ==
    /\ G_Stop2Begin
    /\ stop2' = IF DevStop2NoWait THEN "returned" ELSE "waiting"
    /\ act' = Lbl("Stop2Begin", "", 0)
    /\ UNCHANGED <<lim, st, out, sem, sub, loopOn, gone, tgLive, stop, lclosed, peersClosed, dead, runLive, conn, th, par>>

G_Stop2Return == stop2 = "waiting" /\ tgLive = 0
Stop2Return ==
    /\ G_Stop2Return
    /\ stop2' = "returned"
    /\ act' = Lbl("Stop2Return", "", 0)
    /\ UNCHANGED <<lim, st, out, sem, sub, loopOn, gone, tgLive, stop, lclosed, peersClosed, dead, runLive, conn, th, par>>

\* the listener is closed; acceptLoop fails; Run's teardown closes every peer that is in s.peers NOW (once)
G_ClosePeers == WithRun /\ lclosed /\ ~peersClosed
ClosePeers ==
    /\ G_ClosePeers
    /\ peersClosed' = TRUE
    /\ dead' = [c \in Conns |-> dead[c] \/ IsPeer(c)]
    /\ act' = Lbl("ClosePeers", "", 0)
    /\ UNCHANGED <<lim, st, out, sem, sub, loopOn, gone, tgLive, stop, lclosed, runLive, conn, th, stop2, par>>

\* Run waits until s.peers is empty, then leaves the group
G_RunExit == runLive = 1 /\ peersClosed /\ (\A p \in Peers : ~loopOn[p]) /\ (\A c \in Conns : ~IsPeer(c))
RunExit ==
    /\ G_RunExit
    /\ runLive' = 0
    /\ tgLive' = tgLive - 1
    /\ act' = Lbl("RunExit", "", 0)
    /\ UNCHANGED <<lim, st, out, sem, sub, loopOn, gone, stop, lclosed, peersClosed, dead, conn, th, stop2, par>>

\* plain members: rhp4.Server stream goroutines, the wallet's rebroadcast goroutine, ThreadGroup users
G_ThAdd(t) == th[t] = "idle"
ThAdd(t) ==
    /\ G_ThAdd(t)
    /\ IF stop # "no"
         THEN th' = [th EXCEPT ![t] = "refused"] /\ tgLive' = tgLive /\ act' = Lbl("ThRefuse", t, 0)
         ELSE IF DevCtxLeak /\ t \in CtxThreads /\ par[t] = "cancelled"
           \* deviation only: the caller gets an error and will never call done, but Add has counted it
           THEN th' = [th EXCEPT ![t] = "errored"] /\ tgLive' = tgLive + 1 /\ act' = Lbl("ThAdd", t, 0)
         ELSE IF DevAddUnlocked
           THEN th' = [th EXCEPT ![t] = "chk"] /\ tgLive' = tgLive /\ act' = Lbl("ThCheck", t, 0)
           ELSE th' = [th EXCEPT ![t] = "live"] /\ tgLive' = tgLive + 1 /\ act' = Lbl("ThAdd", t, 0)
    /\ UNCHANGED <<lim, st, out, sem, sub, loopOn, gone, stop, lclosed, peersClosed, dead, runLive, conn, stop2, par>>

\* AddContext(parent): the parent context may be cancelled before the thread joins (it still joins: the member is
\* handed an already cancelled context and leaves through its done func like any other), while it is a member
\* (its context is cancelled; it stays a member until done), or after it has left.  Whatever the parent does,
\* what Add counted is given back by done: registered = running.
G_CancelParent(t) == t \in CtxThreads /\ par[t] = "live"
CancelParent(t) ==
    /\ G_CancelParent(t)
    /\ par' = [par EXCEPT ![t] = "cancelled"]
    /\ act' = Lbl("CancelParent", t, 0)
    /\ UNCHANGED <<lim, st, out, sem, sub, loopOn, gone, tgLive, stop, lclosed, peersClosed, dead, runLive, conn, th, stop2>>

G_ThCommit(t) == th[t] = "chk"      \* deviation only
ThCommit(t) ==
    /\ G_ThCommit(t)
    /\ th' = [th EXCEPT ![t] = "live"]
    /\ tgLive' = tgLive + 1
    /\ act' = Lbl("ThAdd", t, 0)
    /\ UNCHANGED <<lim, st, out, sem, sub, loopOn, gone, stop, lclosed, peersClosed, dead, runLive, conn, stop2, par>>

G_ThDone(t) == th[t] = "live"
ThDone(t) ==
    /\ G_ThDone(t)
    /\ th' = [th EXCEPT ![t] = "done"]
    /\ tgLive' = tgLive - 1
    /\ act' = Lbl("ThDone", t, 0)
    /\ UNCHANGED <<lim, st, out, sem, sub, loopOn, gone, stop, lclosed, peersClosed, dead, runLive, conn, stop2, par>>

-----------------------------------------------------------------------------
(* CONN family *)

\* allowConnect: tg.Add and the count of s.peers under s.mu.  peerLoop is ONE goroutine, so at most one
\* outbound attempt is between its check and its insert; inbound attempts are one goroutine each.
G_AllowCheck(c) ==
    /\ conn[c] = "idle"
    /\ c \in OutConns => \A d \in OutConns : conn[d] \notin {"checked", "shaken"}
AllowCheck(c) ==
    /\ G_AllowCheck(c)
    /\ IF stop = "no" /\ CountFor(c) < CapFor(c)      \* (a connection accepted before the listener closed may get here after it)
         THEN conn' = [conn EXCEPT ![c] = "checked"] /\ tgLive' = tgLive + 1 /\ act' = Lbl("AllowCheck", c, 1)
         ELSE conn' = [conn EXCEPT ![c] = "rejected"] /\ tgLive' = tgLive /\ act' = Lbl("AllowCheck", c, 0)
    /\ UNCHANGED <<lim, st, out, sem, sub, loopOn, gone, stop, lclosed, peersClosed, dead, runLive, th, stop2, par>>

\* the listener is closed: the connection is not taken at all
G_Refuse(c) == conn[c] = "idle" /\ c \in InConns /\ lclosed
Refuse(c) ==
    /\ G_Refuse(c)
    /\ conn' = [conn EXCEPT ![c] = "rejected"]
    /\ act' = Lbl("Refuse", c, 0)
    /\ UNCHANGED <<lim, st, out, sem, sub, loopOn, gone, tgLive, stop, lclosed, peersClosed, dead, runLive, th, stop2, par>>

G_Handshake(c) == conn[c] = "checked"
Handshake(c) ==
    /\ G_Handshake(c)
    /\ conn' = [conn EXCEPT ![c] = "shaken"]
    /\ act' = Lbl("Handshake", c, 0)
    /\ UNCHANGED <<lim, st, out, sem, sub, loopOn, gone, tgLive, stop, lclosed, peersClosed, dead, runLive, th, stop2, par>>

\* the handshake fails (remote hangs up, deadline).  Once the handshake is through the syncer does not notice
\* a hang-up before runPeer's first acceptRPC, i.e. a "shaken" attempt always proceeds to AddPeer.
G_Abort(c) == conn[c] = "checked"
Abort(c) ==
    /\ G_Abort(c)
    /\ conn' = [conn EXCEPT ![c] = "closed"]
    /\ tgLive' = tgLive - 1
    /\ act' = Lbl("Abort", c, 0)
    /\ UNCHANGED <<lim, st, out, sem, sub, loopOn, gone, stop, lclosed, peersClosed, dead, runLive, th, stop2, par>>

\* addPeer: s.peers[addr] = p under s.mu.  Intended design: under this lock the cap is re-checked and nothing
\* is inserted once Run's teardown has begun.
G_AddPeer(c) == conn[c] = "shaken"
AddPeer(c) ==
    /\ G_AddPeer(c)
    /\ IF (~DevCapCheckThenAct /\ CountFor(c) >= CapFor(c)) \/ (~DevSweepOnce /\ peersClosed)
         THEN conn' = [conn EXCEPT ![c] = "rejected"] /\ tgLive' = tgLive - 1 /\ act' = Lbl("AddPeer", c, 0)
         ELSE conn' = [conn EXCEPT ![c] = "peer"] /\ tgLive' = tgLive /\ act' = Lbl("AddPeer", c, 1)
    /\ UNCHANGED <<lim, st, out, sem, sub, loopOn, gone, stop, lclosed, peersClosed, dead, runLive, th, stop2, par>>

\* runPeer's own tg.Add: refused after Stop -> the peer is removed at once
G_RunPeer(c) == conn[c] = "peer"
RunPeer(c) ==
    /\ G_RunPeer(c)
    /\ IF stop = "no"
         THEN conn' = [conn EXCEPT ![c] = "running"] /\ tgLive' = tgLive /\ act' = Lbl("RunPeer", c, 1)
         ELSE conn' = [conn EXCEPT ![c] = "closed"] /\ tgLive' = tgLive - 1 /\ act' = Lbl("RunPeer", c, 0)
    /\ UNCHANGED <<lim, st, out, sem, sub, loopOn, gone, stop, lclosed, peersClosed, dead, runLive, th, stop2, par>>

G_RemovePeer(c) == conn[c] = "running"
RemovePeer(c) ==
    /\ G_RemovePeer(c)
    /\ conn' = [conn EXCEPT ![c] = "closed"]
    /\ tgLive' = tgLive - 1
    /\ act' = Lbl("RemovePeer", c, 0)
    /\ UNCHANGED <<lim, st, out, sem, sub, loopOn, gone, stop, lclosed, peersClosed, dead, runLive, th, stop2, par>>

-----------------------------------------------------------------------------
\* steps the environment decides (when a peer sends, hangs up, when Close is called, when a connection is
\* attempted / shaken / dropped by the remote, when a thread asks to join)
EnvNext ==
    \/ \E p \in Peers, r \in RpcIds : Arrive(p, r)
    \/ \E p \in Peers : Disconnect(p)
    \/ CloseListener \/ StopBegin \/ Stop2Begin
    \/ \E t \in Threads : ThAdd(t) \/ CancelParent(t)
    \/ \E c \in Conns : AllowCheck(c) \/ Refuse(c) \/ Handshake(c)
    \/ \E c \in Conns : (stop = "no" /\ Abort(c)) \/ (~dead[c] /\ RemovePeer(c))    \* the remote hangs up

\* steps the system takes on its own; fair (handlers return, threads finish, Run closes the peers)
InternalNext ==
    \/ \E p \in Peers : AcquirePeer(p) \/ AcquireSubnet(p) \/ Spawn(p) \/ LoopExit(p)
    \/ \E p \in Peers, r \in RpcIds :
          TgAdd(p, r) \/ Handle(p, r) \/ HandleDone(p, r) \/ ReleaseSubnet(p, r) \/ ReleasePeer(p, r) \/ Abandon(p, r)
    \/ StopWait \/ StopReturn \/ Stop2Return \/ ClosePeers \/ RunExit
    \/ \E t \in Threads : ThCommit(t) \/ ThDone(t)
    \/ \E c \in Conns : AddPeer(c) \/ RunPeer(c)
    \/ \E c \in Conns : (stop # "no" /\ Abort(c))       \* handshake deadline (ConnectTimeout)
                       \/ (dead[c] /\ RemovePeer(c))    \* acceptRPC fails on the transport the teardown closed

\* so that TLC's deadlock check flags exactly the states in which something is stuck (a Stop that hangs)
Terminated ==
    /\ stop = "returned" /\ (TwoStoppers => stop2 = "returned")
    /\ \A p \in Peers, r \in RpcIds : st[p][r] = "final" \/ (p \in OneShot /\ r > 1)
    /\ \A c \in Conns : conn[c] \in {"rejected", "closed"}
    /\ \A t \in Threads : th[t] \in {"done", "refused"} /\ (t \in CtxThreads => par[t] = "cancelled")
Idle == Terminated /\ UNCHANGED vars

Next == EnvNext \/ InternalNext \/ Idle

Spec == Init /\ [][Next]_vars
FairSpec == Spec /\ WF_vars(InternalNext)

-----------------------------------------------------------------------------
(* The property *)

Quiescent == \A p \in Peers, r \in RpcIds : st[p][r] \in {"new", "final"}

\* never more handlers of one peer than the per-peer limit; the semaphore counts exactly its holders
PerPeerCap ==
    \A p \in Peers :
        /\ Cardinality({r \in RpcIds : st[p][r] \in {"handling", "exited"}}) <= lim.maxInflight
        /\ sem[p] <= lim.maxInflight
        /\ (~DevLeakOnTgFail => sem[p] = Cardinality(HoldsPeer(p)))

\* never more handlers of one subnet than the per-subnet limit (when enabled)
PerSubnetCap ==
    \A s \in Subnets :
        IF SubnetOn
          THEN /\ Cardinality({pr \in Handlers : SubnetOf(pr[1]) = s}) <= lim.maxSubnet
               /\ sub[s] <= lim.maxSubnet
               /\ (~DevLeakOnTgFail => sub[s] = Cardinality(HoldsSub(s)))
          ELSE sub[s] = 0

\* slots are always returned: nothing in flight => every counter is zero
NoSlotLeak == Quiescent => (\A p \in Peers : sem[p] = 0) /\ (\A s \in Subnets : sub[s] = 0)

\* an RPC is dropped only by the subnet rule or by shutdown / hang-up; the per-peer limit never drops
BackPressureNotDrop ==
    [][\A p \in Peers, r \in RpcIds :
         (out[p][r] = "none" /\ out'[p][r] \in FailOutcomes) =>
            \/ out'[p][r] = "dropsub" /\ SubnetOn /\ sub[SubnetOf(p)] >= lim.maxSubnet
            \/ out'[p][r] = "rejected" /\ stop # "no"
            \/ out'[p][r] = "dropshut" /\ ~loopOn[p]
            \/ out'[p][r] = "lost" /\ (peersClosed \/ gone[p] \/ ~loopOn[p])]_vars
LoopExitsOnlyOnShutdown == \A p \in Peers : ~loopOn[p] => (stop # "no" \/ lclosed \/ gone[p])

\* inbound / outbound peer caps
PeerCaps == NumIn <= (IF lim.maxIn > 0 THEN lim.maxIn ELSE 0) /\ NumOut <= (IF lim.maxOut > 0 THEN lim.maxOut ELSE 0)

\* the WaitGroup counts exactly the members
TgAccounting ==
    tgLive = Cardinality(Handlers) + Cardinality({p \in Peers : loopOn[p]}) + runLive
             + Cardinality(ConnHolds) + Cardinality({t \in Threads : th[t] = "live"})

\* EVERY Stop returns only when no member is live
StopWaits ==
    (stop = "returned" \/ stop2 = "returned") =>
        /\ Handlers = {}
        /\ \A p \in Peers : ~loopOn[p]
        /\ runLive = 0
        /\ ConnHolds = {}
        /\ \A t \in Threads : th[t] # "live"

\* nothing joins after Stop has begun
AddAfterStopRejected ==
    [][stop # "no" =>
         /\ \A p \in Peers, r \in RpcIds : st'[p][r] = "handling" => st[p][r] = "handling"
         /\ \A t \in Threads : th'[t] = "live" => th[t] = "live"
         /\ \A c \in Conns : conn'[c] \in {"checked", "running"} => conn'[c] = conn[c]]_vars

\* liveness (under FairSpec): Stop returns, every RPC that arrived is settled
StopReturns == (stop # "no") ~> (stop = "returned")
StopTerminates == StopReturns      \* (the name used for "a Stop with no work running never blocks")
Stop2Returns == (stop2 = "waiting") ~> (stop2 = "returned")
RpcsSettle == \A p \in Peers, r \in RpcIds : (st[p][r] = "arrived" /\ stop # "no") ~> (st[p][r] = "final")
=============================================================================
