------------------------------- MODULE Seed -------------------------------
(***************************************************************************)
(* Property C20: seed phrases and derived keys round-trip exactly          *)
(* (/repo/wallet/seed.go).                                                 *)
(*                                                                         *)
(* Part 1 defines the phrase encoding DECLARATIVELY over bit sequences --  *)
(* deliberately unlike the 64-bit shifting code: an entropy e (EB bits)    *)
(* followed by its checksum c (CB bits) is cut into NW groups of WB bits,  *)
(* the i-th word is the big-endian value of the i-th group.  The real      *)
(* instance is EB = 128, CB = 4, WB = 11 (12 words over a 2048 word list); *)
(* SeedMC.tla instantiates a scaled-down copy that TLC checks              *)
(* exhaustively.                                                           *)
(*                                                                         *)
(* The checksum function CS (first bits of SHA-256 of the entropy) is      *)
(* UNINTERPRETED: the spec never computes it.  Every call carries the      *)
(* value of CS at the one entropy it concerns; the spec remembers the      *)
(* graph of CS seen so far (H.cs) and insists that it is a function.  The  *)
(* same is done for the two other hash-like functions (entropy -> seed,    *)
(* (seed, index) -> key): only determinism and injectivity are specified.  *)
(*                                                                         *)
(* Part 2 is the call-level specification.  A call action takes the        *)
(* arguments AND the observed result, computes the specified result and    *)
(* the judgement of every clause of the property into `call`; the named    *)
(* invariants of part 3 are the property.  SeedMC supplies results from an *)
(* implementation-shaped model, SeedGen emits the specified results for    *)
(* replay into the real code, SeedTrace supplies results recorded from the *)
(* real code.                                                              *)
(***************************************************************************)
EXTENDS Integers, Sequences, FiniteSets, TLC

CONSTANTS EB,      \* entropy bits
          CB,      \* checksum bits
          WB       \* bits per word

NW == (EB + CB) \div WB          \* words per phrase

ASSUME SeedParams ==
    /\ EB \in Nat \ {0} /\ CB \in Nat /\ WB \in Nat \ {0}
    /\ NW * WB = EB + CB         \* the groups tile entropy+checksum exactly
    /\ CB < WB                   \* the checksum lives in the last word only

--------------------------------------------------------------------------
(* Part 1: the encoding                                                    *)

Bit       == {0, 1}
BitSeq(n) == [1..n -> Bit]
Ent       == BitSeq(EB)
CSum      == BitSeq(CB)
Vocab     == 0..(2^WB - 1)       \* word indices
Unknown   == -1                  \* a token that is not in the word list

\* big-endian value of a bit sequence: the weighted sum of its bits
RECURSIVE WSum(_, _)
WSum(s, i) == IF i = 0 THEN 0 ELSE s[i] * 2^(Len(s) - i) + WSum(s, i - 1)
Val(s) == WSum(s, Len(s))

\* the n-bit big-endian sequence of a value (inverse of Val on n bits; SeedMC checks it)
BitsOfVal(v, n) == [j \in 1..n |-> (v \div 2^(n - j)) % 2]

\* word i of the bit string b (= entropy \o checksum)
Word(b, i)  == Val(SubSeq(b, WB * (i - 1) + 1, WB * i))
Words(e, c) == LET b == e \o c IN [i \in 1..NW |-> Word(b, i)]

\* the bit string spelled by a sequence of NW words
Bits(w) == LET wb == [i \in 1..NW |-> BitsOfVal(w[i], WB)]
           IN  [j \in 1..(NW * WB) |-> wb[((j - 1) \div WB) + 1][((j - 1) % WB) + 1]]
EntOf(w) == SubSeq(Bits(w), 1, EB)
CsOf(w)  == SubSeq(Bits(w), EB + 1, EB + CB)

\* a token sequence that could be a phrase at all
WellFormed(t) == Len(t) = NW /\ \A i \in 1..Len(t) : t[i] \in Vocab

(* Decodes(w, g): w is the encoding of some entropy.  g is (a part of) the *)
(* graph of CS -- a function from entropies to checksums.  This is the     *)
(* DESIGN's  \E e, c : Words(e, c) = w /\ c = CS(e)  with the quantifier   *)
(* bounded by the known graph; the caller guarantees EntOf(w) \in DOMAIN g *)
(* (HarnessPacking), the only possible witness (SeedMC: DefBijective,      *)
(* DefDeclEquiv).                                                          *)
Encodes(e, c, w) == LET b == e \o c IN \A i \in 1..NW : Word(b, i) = w[i]
Decodes(w, g)    == \E e \in DOMAIN g : Encodes(e, g[e], w)
Witness(w, g)    == CHOOSE e \in DOMAIN g : Encodes(e, g[e], w)

\* the specified result of decoding a token sequence
DecReply(t, g) == IF WellFormed(t) /\ Decodes(t, g)
                  THEN [ok |-> TRUE,  e |-> Witness(t, g)]
                  ELSE [ok |-> FALSE, e |-> <<>>]

\* all CB-bit variants of the last word
Variants(t) == {[t EXCEPT ![NW] = (t[NW] \div 2^CB) * 2^CB + v] : v \in 0..(2^CB - 1)}

--------------------------------------------------------------------------
(* Part 2: calls                                                           *)

VARIABLES H,       \* history since the last Reset: graphs of the uninterpreted functions and of the codec
          P,       \* a pinned earlier history (determinism over a whole run)
          call     \* the last call, its specified result and the judgement of every clause

svars == <<H, P, call>>

Empty == [cs |-> <<>>, enc |-> <<>>, dec |-> <<>>, sfp |-> <<>>, sd |-> <<>>, ky |-> <<>>]
Hs    == {H, P}

Agree(f, x, y) == x \in DOMAIN f => f[x] = y                   \* y is consistent with f being a function
Inj(f, x, y)   == \A z \in DOMAIN f : f[z] = y => z = x        \* ... an injective one
Put(f, x, y)   == IF x \in DOMAIN f THEN f ELSE f @@ (x :> y)

Init == H = Empty /\ P = Empty /\ call = [op |-> "Init"]

\* encode(e) returned out = [wf |-> 12 known words joined by single spaces?, w |-> their indices]; c = CS(e)
EncCall(e, c, out) ==
    /\ call' = [op |-> "Enc", e |-> e, c |-> c, out |-> out,
                exp   |-> Words(e, c),
                csOk  |-> \A X \in Hs : Agree(X.cs, e, c),
                det   |-> \A X \in Hs : Agree(X.enc, e, out.w),
                reenc |-> \A X \in Hs : \A t \in DOMAIN X.dec :
                              (X.dec[t].out.ok /\ X.dec[t].out.d = e) => out.w = t]
    /\ H' = [H EXCEPT !.cs = Put(@, e, c), !.enc = Put(@, e, out.w)]
    /\ P' = P

\* decode of a phrase whose tokens are t (word indices, Unknown for anything else) returned
\* out = [ok, d]; SeedFromPhrase on the same phrase returned sd = [ok, s].  For a well-formed t the
\* caller supplies eb = EntOf(t) (its own packing) and c = CS(eb).
DecCall(t, eb, c, out, sd) ==
    LET wf  == WellFormed(t)
        g   == IF wf THEN Put(H.cs, eb, c) ELSE H.cs
        res == [out |-> out, sd |-> sd]
    IN  /\ call' = [op |-> "Dec", t |-> t, out |-> out, sd |-> sd, wf |-> wf,
                    packOk |-> wf => eb = EntOf(t),
                    csOk   |-> wf => \A X \in Hs : Agree(X.cs, eb, c),
                    exp    |-> DecReply(t, g),
                    same   |-> \A X \in Hs : Agree(X.dec, t, res) /\ Agree(X.sfp, t, sd),
                    rt     |-> out.ok => \A X \in Hs : \A e \in DOMAIN X.enc : X.enc[e] = t => out.d = e,
                    sdSame |-> (out.ok /\ sd.ok) => \A X \in Hs : Agree(X.sd, out.d, sd.s),
                    sdInj  |-> (out.ok /\ sd.ok) => \A X \in Hs : Inj(X.sd, out.d, sd.s)]
        /\ H' = [H EXCEPT !.cs = g, !.dec = Put(@, t, res),
                          !.sd = IF out.ok /\ sd.ok THEN Put(@, out.d, sd.s) ELSE @]
        /\ P' = P

\* SeedFromPhrase ALONE (the public entry point, no decode call next to it) on a phrase with tokens t
\* returned sd = [ok, s].  The entropy behind a successful result is the specified witness.
SfpCall(t, eb, c, sd) ==
    LET wf  == WellFormed(t)
        g   == IF wf THEN Put(H.cs, eb, c) ELSE H.cs
        exp == DecReply(t, g)
    IN  /\ call' = [op |-> "Sfp", t |-> t, sd |-> sd, wf |-> wf,
                    packOk |-> wf => eb = EntOf(t),
                    csOk   |-> wf => \A X \in Hs : Agree(X.cs, eb, c),
                    exp    |-> exp,
                    same   |-> \A X \in Hs : /\ Agree(X.sfp, t, sd)
                                             /\ t \in DOMAIN X.dec => X.dec[t].sd = sd,
                    sdSame |-> (sd.ok /\ exp.ok) => \A X \in Hs : Agree(X.sd, exp.e, sd.s),
                    sdInj  |-> (sd.ok /\ exp.ok) => \A X \in Hs : Inj(X.sd, exp.e, sd.s)]
        /\ H' = [H EXCEPT !.cs = g, !.sfp = Put(@, t, sd),
                          !.sd = IF sd.ok /\ exp.ok THEN Put(@, exp.e, sd.s) ELSE @]
        /\ P' = P

\* a freshly generated phrase (NewSeedPhrase) has tokens t; canon = it is in canonical single-space form
NewCall(t, eb, c, canon) ==
    LET wf == WellFormed(t)
        g  == IF wf THEN Put(H.cs, eb, c) ELSE H.cs
    IN  /\ call' = [op |-> "New", t |-> t, wf |-> wf, canon |-> canon,
                    packOk |-> wf => eb = EntOf(t),
                    csOk   |-> wf => \A X \in Hs : Agree(X.cs, eb, c),
                    valid  |-> wf /\ Decodes(t, g)]
        /\ H' = [H EXCEPT !.cs = g]
        /\ P' = P

\* KeyFromSeed(s, i) returned k
KeyCall(s, i, k) ==
    /\ call' = [op |-> "Key", s |-> s, i |-> i, k |-> k,
                same |-> \A X \in Hs : Agree(X.ky, <<s, i>>, k),
                inj  |-> \A X \in Hs : Inj(X.ky, <<s, i>>, k)]
    /\ H' = [H EXCEPT !.ky = Put(@, <<s, i>>, k)]
    /\ P' = P

\* bookkeeping: all checksum variants of t have been decoded since the last Reset
VarCall(t) ==
    /\ WellFormed(t)
    /\ call' = [op |-> "Var", t |-> t,
                all |-> Variants(t) \subseteq DOMAIN H.dec,
                n   |-> Cardinality({u \in Variants(t) : u \in DOMAIN H.dec /\ H.dec[u].out.ok})]
    /\ UNCHANGED <<H, P>>

ResetCall(pin) ==
    /\ call' = [op |-> "Reset"]
    /\ H' = Empty
    /\ P' = IF pin THEN H ELSE P

--------------------------------------------------------------------------
(* Part 3: the property, clause by clause                                  *)

\* the caller's side of the contract (a failure is a harness defect, never a finding)
HarnessPacking == call.op \in {"Dec", "Sfp", "New"} => call.packOk
CSFunctional   == call.op \in {"Enc", "Dec", "Sfp", "New"} => call.csOk

\* "every entropy encodes to a NW-word phrase ..."
EncCorrect       == call.op = "Enc" => (call.out.wf /\ call.out.w = call.exp)
EncDeterministic == call.op = "Enc" => call.det
\* "... every phrase decodes iff its checksum is correct ..." / "malformed phrases are rejected"
MalformedRejected  == /\ (call.op = "Dec" /\ ~call.wf) => ~call.out.ok
                      /\ (call.op = "Sfp" /\ ~call.wf) => ~call.sd.ok
DecodesIffChecksum == /\ call.op = "Dec" => (call.out.ok <=> call.exp.ok)
                      /\ call.op = "Sfp" => (call.sd.ok <=> call.exp.ok)
DecodedEntropy     == (call.op = "Dec" /\ call.out.ok /\ call.exp.ok) => call.out.d = call.exp.e
\* "... that decodes back to the same entropy" / "... and then re-encodes to itself" (observational:
\* these two compare recorded calls with each other and do not use Words at all)
RoundTrip        == call.op = "Dec" => call.rt
ReencodeIdentity == call.op = "Enc" => call.reenc
\* "whitespace variations do not change the result": the result is a function of the token sequence
\* (the histories also make it "a function of the call alone": the same tokens decoded after different
\* earlier calls, by decode or by SeedFromPhrase alone, must give the same result)
WhitespaceInvariant == call.op \in {"Dec", "Sfp"} => call.same
\* the public SeedFromPhrase succeeds exactly when the phrase decodes; seed = F(entropy), F injective
SeedAgrees     == call.op = "Dec" => (call.sd.ok <=> call.out.ok)
SeedFunctional == call.op \in {"Dec", "Sfp"} => call.sdSame
SeedInjective  == call.op \in {"Dec", "Sfp"} => call.sdInj
\* "the same phrase and index always derive the same key and address" (+ index/seed sensitivity)
SameArgsSameKey         == call.op = "Key" => call.same
DistinctArgsDistinctKey == call.op = "Key" => call.inj
\* exactly one of the 2^CB last-word variants of a phrase decodes
ExactlyOneVariant == call.op = "Var" => (call.all /\ call.n = 1)
\* a generated phrase is a valid canonical phrase
NewValid == call.op = "New" => (call.canon /\ call.valid)

Contract == HarnessPacking /\ CSFunctional
Property ==
    /\ EncCorrect /\ EncDeterministic /\ MalformedRejected /\ DecodesIffChecksum /\ DecodedEntropy
    /\ RoundTrip /\ ReencodeIdentity /\ WhitespaceInvariant /\ SeedAgrees /\ SeedFunctional
    /\ SeedInjective /\ SameArgsSameKey /\ DistinctArgsDistinctKey /\ ExactlyOneVariant /\ NewValid
=============================================================================
