------------------------------ MODULE KVCache ------------------------------
(***************************************************************************)
(* Implementation-shaped model of chain.CacheDB (chain/db.go:203-346): a   *)
(* MemDB used purely as an overlay (its committed map stays empty: Flush   *)
(* clears the pending maps in place and never calls mem.Flush) over an     *)
(* underlying DB that follows the reference semantics (ucur/udur).         *)
(* Every bucket access goes through CacheDB.Bucket, which lazily creates   *)
(* the overlay bucket -- a side effect that is part of every action here.  *)
(* Checked as a refinement of KV for all operation sequences.              *)
(*                                                                         *)
(* Named deviations (behaviour of the pinned tree before the fix commits): *)
(*   DevGetFallthrough     Get falls through to the underlying DB when the *)
(*                         overlay says nil (ignores unflushed deletes)    *)
(*   DevIterMissesPending  overlay iteration yields nothing                *)
(***************************************************************************)
EXTENDS Naturals, FiniteSets, TLC

CONSTANTS Buckets, Keys, Vals, DevGetFallthrough, DevIterMissesPending

None == "none"
VARIABLES ucur, udur, mputs, mdels, reply, act
vars == <<ucur, udur, mputs, mdels, reply, act>>
view == <<ucur, udur, mputs, mdels, reply>>

EmptyKV == [k \in Keys |-> None]
Absent == [ex |-> FALSE, kv |-> EmptyKV]
NoMap  == [on |-> FALSE, kv |-> EmptyKV]
NoSet  == [on |-> FALSE, ks |-> {}]

Init ==
    /\ ucur = [b \in Buckets |-> Absent]
    /\ udur = ucur
    /\ mputs = [b \in Buckets |-> NoMap]
    /\ mdels = [b \in Buckets |-> NoSet]
    /\ reply = <<"init">>
    /\ act = [op |-> "Init"]

\* CacheDB.Bucket(name): nil if the underlying DB has no such bucket; otherwise make sure the
\* overlay bucket exists (mem.CreateBucket allocates both pending maps)
MemOn(b) == mputs[b].on \/ mdels[b].on
EnsuredPuts(b) == IF MemOn(b) THEN mputs ELSE [mputs EXCEPT ![b] = [on |-> TRUE, kv |-> EmptyKV]]
EnsuredDels(b) == IF MemOn(b) THEN mdels ELSE [mdels EXCEPT ![b] = [on |-> TRUE, ks |-> {}]]

GetVal(b, k) ==
    IF mputs[b].kv[k] # None THEN mputs[b].kv[k]
    ELSE IF k \in mdels[b].ks /\ ~DevGetFallthrough THEN None
    ELSE ucur[b].kv[k]

\* CacheDB.CreateBucket: underlying first, then mem.CreateBucket (which now refuses a pending
\* overlay bucket -- unreachable here, asserted by OverlayOnlyIfUnderlying)
Create(b) ==
    /\ act' = [op |-> "Create", b |-> b]
    /\ IF ucur[b].ex
         THEN reply' = <<"exists">> /\ UNCHANGED <<ucur, mputs, mdels>>
         ELSE /\ ucur' = [ucur EXCEPT ![b] = [ex |-> TRUE, kv |-> EmptyKV]]
              /\ IF MemOn(b)
                   THEN reply' = <<"exists">> /\ UNCHANGED <<mputs, mdels>>
                   ELSE /\ mputs' = [mputs EXCEPT ![b] = [on |-> TRUE, kv |-> EmptyKV]]
                        /\ mdels' = [mdels EXCEPT ![b] = [on |-> TRUE, ks |-> {}]]
                        /\ reply' = <<"ok">>
    /\ UNCHANGED udur

Open(b) ==
    /\ act' = [op |-> "Open", b |-> b]
    /\ IF ucur[b].ex
         THEN reply' = <<"bucket">> /\ mputs' = EnsuredPuts(b) /\ mdels' = EnsuredDels(b)
         ELSE reply' = <<"nil">> /\ UNCHANGED <<mputs, mdels>>
    /\ UNCHANGED <<ucur, udur>>

Put(b, k, v) ==
    /\ ucur[b].ex
    /\ act' = [op |-> "Put", b |-> b, k |-> k, v |-> v]
    /\ mputs' = [EnsuredPuts(b) EXCEPT ![b] = [on |-> TRUE, kv |-> [@.kv EXCEPT ![k] = v]]]
    /\ mdels' = [EnsuredDels(b) EXCEPT ![b].ks = @ \ {k}]
    /\ reply' = <<"ok">>
    /\ UNCHANGED <<ucur, udur>>

Del(b, k) ==
    /\ ucur[b].ex
    /\ act' = [op |-> "Del", b |-> b, k |-> k]
    /\ mdels' = [EnsuredDels(b) EXCEPT ![b] = [on |-> TRUE, ks |-> @.ks \cup {k}]]
    /\ mputs' = [EnsuredPuts(b) EXCEPT ![b].kv[k] = None]
    /\ reply' = <<"ok">>
    /\ UNCHANGED <<ucur, udur>>

Get(b, k) ==
    /\ ucur[b].ex
    /\ act' = [op |-> "Get", b |-> b, k |-> k]
    /\ reply' = <<"val", GetVal(b, k)>>
    /\ mputs' = EnsuredPuts(b) /\ mdels' = EnsuredDels(b)
    /\ UNCHANGED <<ucur, udur>>

\* cacheBucket.Iter: the overlay's entries, then the underlying ones not put/deleted in the overlay
IterSet(b) ==
    LET pend == IF DevIterMissesPending THEN {}
                ELSE {<<k, mputs[b].kv[k]>> : k \in {kk \in Keys : mputs[b].kv[kk] # None}}
        under == {<<k, ucur[b].kv[k]>> : k \in {kk \in Keys : /\ ucur[b].kv[kk] # None
                                                              /\ mputs[b].kv[kk] = None
                                                              /\ kk \notin mdels[b].ks}}
    IN pend \cup under

Iter(b) ==
    /\ ucur[b].ex
    /\ act' = [op |-> "Iter", b |-> b]
    /\ reply' = <<"set", IterSet(b)>>
    /\ mputs' = EnsuredPuts(b) /\ mdels' = EnsuredDels(b)
    /\ UNCHANGED <<ucur, udur>>

\* CacheDB.Flush: sorted puts, sorted deletes into the underlying DB, clear the overlay maps in
\* place (they stay allocated), flush the underlying DB.  Writing to a bucket the underlying DB
\* does not have would be a nil dereference: asserted unreachable by OverlayOnlyIfUnderlying.
Flush ==
    /\ act' = [op |-> "Flush"]
    /\ ucur' = [b \in Buckets |->
          IF ucur[b].ex
            THEN [ex |-> TRUE,
                  kv |-> [k \in Keys |-> IF mputs[b].kv[k] # None THEN mputs[b].kv[k]
                                         ELSE IF k \in mdels[b].ks THEN None
                                         ELSE ucur[b].kv[k]]]
            ELSE ucur[b]]
    /\ udur' = ucur'
    /\ mputs' = [b \in Buckets |-> [on |-> mputs[b].on, kv |-> EmptyKV]]
    /\ mdels' = [b \in Buckets |-> [on |-> mdels[b].on, ks |-> {}]]
    /\ reply' = <<"ok">>

Cancel ==
    /\ act' = [op |-> "Cancel"]
    /\ mputs' = [b \in Buckets |-> NoMap]
    /\ mdels' = [b \in Buckets |-> NoSet]
    /\ ucur' = udur
    /\ reply' = <<"ok">>
    /\ UNCHANGED udur

Next ==
    \/ \E b \in Buckets : Create(b) \/ Open(b) \/ Iter(b)
    \/ \E b \in Buckets, k \in Keys : Del(b, k) \/ Get(b, k)
    \/ \E b \in Buckets, k \in Keys, v \in Vals : Put(b, k, v)
    \/ Flush
    \/ Cancel

Spec == Init /\ [][Next]_vars

-----------------------------------------------------------------------------
CurOf(b) == IF ucur[b].ex THEN [ex |-> TRUE, kv |-> [k \in Keys |->
                 IF mputs[b].kv[k] # None THEN mputs[b].kv[k]
                 ELSE IF k \in mdels[b].ks THEN None ELSE ucur[b].kv[k]]]
            ELSE Absent

Ref == INSTANCE KV WITH cur <- [b \in Buckets |-> CurOf(b)], dur <- udur
Refines == Ref!Spec

\* the overlay has (allocated) maps only for buckets the underlying DB has: Flush never
\* dereferences a nil underlying bucket, CreateBucket never half-fails
OverlayOnlyIfUnderlying == \A b \in Buckets : MemOn(b) => ucur[b].ex
Disjoint == \A b \in Buckets, k \in Keys : ~(mputs[b].kv[k] # None /\ k \in mdels[b].ks)
=============================================================================
