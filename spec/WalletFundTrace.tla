-------------------------- MODULE WalletFundTrace --------------------------
(***************************************************************************)
(* Trace validation for WalletFund (property C07, Leg T and the realized   *)
(* runs of Leg R): every recorded call of the real wallet must be          *)
(* explainable as the corresponding WalletFund action with exactly the     *)
(* logged arguments, result and SELECTION (which eligible outputs the      *)
(* wallet picked is logged, why is not -- the action is permissive).       *)
(* The NDJSON file ($TRACE) concatenates many sessions separated by Reset  *)
(* events carrying the session's options and initial wallet.               *)
(*                                                                         *)
(* Output ids are small integers allotted by the harness in order of first *)
(* appearance; values are hastings (< 2^31, asserted by the harness).      *)
(* Pure observations (Obs) and selections the harness neutralised at once  *)
(* (a duplicated input, released immediately) do not change the state: if  *)
(* they disagree with the specification they are REPORTED ("OUT" lines     *)
(* collected by props/C07.py as mismatches) and validation continues, so   *)
(* one divergence does not hide the rest of the session.                   *)
(***************************************************************************)
EXTENDS WalletFund, Json, IOUtils, Sequences

Log == ndJsonDeserialize(IOEnv.TRACE)
N == Len(Log)

VARIABLES l,        \* next line to consume sequentially
          pend      \* lines of the current Par block that are still to be consumed (any order)
tvars == <<vars, l, pend>>

ToSet(seq) == {seq[i] : i \in DOMAIN seq}
MadeOf(seq) == {[id |-> seq[i][1], v |-> seq[i][2]] : i \in DOMAIN seq}
DescOf(x, ver, out) == [tid |-> x.tid, ver |-> ver, ins |-> ToSet(x.ins), out |-> out, fee |-> x.fee, bl |-> x.bl,
                        made |-> MadeOf(x.made)]
Report(i, E, what, want) == PrintT("OUT " \o ToJson([line |-> i, what |-> what, ev |-> E, want |-> want]))

\* enumeration constants of WalletFund.Next are not used here
TCfgs == {}
TWallets == {}

TraceInit ==
    /\ l = 1 /\ pend = {}
    /\ cfg = [dt |-> 0, mi |-> 0, md |-> 0, rt |-> 0]
    /\ owned = <<>> /\ locked = <<>> /\ txs = <<>>
    /\ now = 0 /\ nextId = 1 /\ nextTx = 1 /\ lag = 0
    /\ act = [op |-> "Init"] /\ reply = NoReply

TReset(i, E) ==
    /\ E.op = "Reset"
    /\ cfg' = [dt |-> E.cfg.dt, mi |-> E.cfg.mi, md |-> E.cfg.md, rt |-> E.cfg.rt]
    /\ owned' = [k \in {E.owned[j][1] : j \in DOMAIN E.owned} |->
                   LET j == CHOOSE q \in DOMAIN E.owned : E.owned[q][1] = k
                   IN [v |-> E.owned[j][2], m |-> E.owned[j][3]]]
    /\ locked' = <<>> /\ txs' = <<>>
    /\ now' = 0 /\ nextId' = E.nid /\ nextTx' = 1 /\ lag' = 0
    /\ act' = [op |-> "Init"] /\ reply' = NoReply

\* a selection with a duplicated input: reported; the harness released it at once, so the
\* reservation state is unchanged provided the (distinct) inputs were free before
TFundDup(i, E) ==
    /\ E.r = "ok" /\ E.dup /\ pend = {}
    /\ Report(i, E, {"dup-input"} \cup (IF ToSet(E.d[1].ins) \subseteq May(E.unc) THEN {} ELSE {"ineligible"}), [may |-> May(E.unc)])
    /\ act' = FundLabel(E.ver, E.amt, E.unc) /\ reply' = NoReply
    /\ UNCHANGED svars

TFund(i, E) ==
    /\ E.op = "Fund"
    /\ \/ E.r = "zero" /\ FundZero(E.ver, E.amt, E.unc)
       \/ E.r = "nef" /\ FundFail(E.ver, E.amt, E.unc)
       \/ E.r = "ok" /\ ~E.dup /\ E.cons /\ FundOK(E.ver, E.amt, E.unc, DescOf(E.d[1], E.ver, E.amt))
       \/ TFundDup(i, E)

TRedist(i, E) ==
    /\ E.op = "Redist"
    /\ \/ E.r = "none" /\ RedistNone(E.n, E.amt, E.feeub)
       \/ E.r = "nef" /\ RedistFail(E.n, E.amt, E.feeub)
       \/ E.r = "ok" /\ E.cons /\ RedistOK(E.n, E.amt, E.feeub, {DescOf(E.d[j], 2, 0) : j \in DOMAIN E.d})

TSplit(i, E) ==
    /\ E.op = "Split"
    /\ \/ E.r = "none" /\ SplitNone(E.n, E.min)
       \/ E.r = "err" /\ SplitErr(E.n, E.min)
       \/ E.r = "ok" /\ E.cons /\ SplitOK(E.n, E.min, DescOf(E.d[1], 2, 0))

TRelease(i, E)  == E.op = "Release"  /\ Release(E.tid)
TRelBegin(i, E) == E.op = "RelBegin" /\ RelBegin(E.tid)
TRelEnd(i, E)   == E.op = "RelEnd"   /\ RelEnd(E.tid)
TTick(i, E)     == E.op = "Tick"     /\ Tick
TBcast(i, E)    == E.op = "Bcast"    /\ \/ E.r = "acc" /\ BcastAcc(E.tid, E.pre)
                                        \/ E.r = "rej" /\ BcastRej(E.tid, E.pre)
TMine(i, E)     == E.op = "Mine"     /\ Mine
TReward(i, E)   == E.op = "Reward"   /\ Reward(E.v, E.id)
TRestart(i, E)  == E.op = "Restart"  /\ Restart
TLag(i, E)      == E.op = "Lag"      /\ LagBegin(E.k)
TCatchUp(i, E)  == E.op = "CatchUp"  /\ CatchUp

\* Balance() and SpendableOutputs() against the three views; disagreement is reported
TObs(i, E) ==
    /\ E.op = "Obs"
    /\ LET bad == (IF E.sp # BalSpendable THEN {"balance-spendable"} ELSE {})
                  \cup (IF E.conf # BalConfirmed THEN {"balance-confirmed"} ELSE {})
                  \cup (IF E.imm # BalImmature THEN {"balance-immature"} ELSE {})
                  \cup (IF E.unc # BalUnconfirmed THEN {"balance-unconfirmed"} ELSE {})
                  \cup (IF ToSet(E.list) # ListSpendable THEN {"spendable-list"} ELSE {})
       IN IF bad = {} THEN TRUE
          ELSE pend = {} /\    \* inside a Par block a wrong view just rules this order out
               Report(i, E, bad, [sp |-> BalSpendable, conf |-> BalConfirmed, imm |-> BalImmature,
                                  unc |-> BalUnconfirmed, list |-> ListSpendable,
                                  v2spent |-> PoolSpentBy({2}) \cap ToSet(E.list), lag |-> lag,
                                  spm |-> SumV({k \in DOMAIN owned : owned[k].m <= lag /\ ~IsLocked(k) /\ k \notin PoolSpent}),
                                  confm |-> SumV({k \in DOMAIN owned : owned[k].m <= lag})])
    /\ Obs

\* the two views on their own (one wallet call each; the gated pairs race them separately)
TObsBal(i, E) ==
    /\ E.op = "ObsBal"
    /\ E.sp = BalSpendable /\ E.conf = BalConfirmed /\ E.imm = BalImmature /\ E.unc = BalUnconfirmed
    /\ Obs
TObsList(i, E) ==
    /\ E.op = "ObsList"
    /\ ToSet(E.list) = ListSpendable
    /\ Obs

(* Concurrent calls.  {"op":"Par","n":k} announces that the next k lines are calls whose
   call/return intervals all overlapped in real time (recorded by the gated driver: the second
   call was started while the first was parked inside one of the wallet's calls into the chain
   manager / store / syncer).  Real-time order says nothing about them, so TLC consumes them in
   ANY order: the run is accepted iff SOME linearization is a behaviour of WalletFund -- whose
   actions are atomic, i.e. exactly what the wallet mutex has to provide -- with every invariant
   (Disjoint, LiveValid, PoolValid, ...) evaluated in every state on the way. *)
TPar(i, E) ==
    /\ E.op = "Par" /\ pend = {}
    /\ l' = l + 1 + E.n
    /\ pend' = (l + 1)..(l + E.n)
    /\ UNCHANGED vars

Cand == IF pend = {} THEN (IF l <= N THEN {l} ELSE {}) ELSE pend
Advance(i) == IF pend = {} THEN l' = l + 1 /\ pend' = {} ELSE l' = l /\ pend' = pend \ {i}

TraceNext ==
    \E i \in Cand : LET E == Log[i] IN
        \/ TPar(i, E)
        \/ /\ E.op # "Par"
           /\ Advance(i)
           /\ \/ TReset(i, E) \/ TFund(i, E) \/ TRedist(i, E) \/ TSplit(i, E) \/ TRelease(i, E)
              \/ TRelBegin(i, E) \/ TRelEnd(i, E) \/ TTick(i, E) \/ TBcast(i, E) \/ TMine(i, E)
              \/ TReward(i, E) \/ TRestart(i, E) \/ TObs(i, E) \/ TObsBal(i, E) \/ TObsList(i, E) \/ TLag(i, E) \/ TCatchUp(i, E)

TraceSpec == TraceInit /\ [][TraceNext]_tvars

\* high-water mark of consumed lines (needs -workers 1)
Consumed == l - 1 - Cardinality(pend)
ASSUME TLCSet(1, 0)
HWM == TLCSet(1, IF Consumed > TLCGet(1) THEN Consumed ELSE TLCGet(1))
TraceAccepted ==
    /\ PrintT(<<"HWM", TLCGet(1), "of", N>>)
    /\ TLCGet(1) = N
=============================================================================
