-------------------------- MODULE WalletFundTrace --------------------------
(***************************************************************************)
(* Trace validation for WalletFund (property C07, Leg T and the realized   *)
(* runs of Leg R): every recorded call of the real wallet must be          *)
(* explainable as the corresponding WalletFund action with exactly the     *)
(* logged arguments, result and SELECTION (which eligible outputs the      *)
(* wallet picked is logged, why is not -- the action is permissive).       *)
(* The NDJSON file ($TRACE) concatenates many sessions separated by Reset  *)
(* events carrying the session's options and initial wallet.               *)
(*                                                                         *)
(* Output ids are small integers allotted by the harness in order of first *)
(* appearance; values are hastings (< 2^31, asserted by the harness).      *)
(* Pure observations (Obs) and selections the harness neutralised at once  *)
(* (a duplicated input, released immediately) do not change the state: if  *)
(* they disagree with the specification they are REPORTED ("OUT" lines     *)
(* collected by props/C07.py as mismatches) and validation continues, so   *)
(* one divergence does not hide the rest of the session.                   *)
(***************************************************************************)
EXTENDS WalletFund, Json, IOUtils, Sequences

Log == ndJsonDeserialize(IOEnv.TRACE)
N == Len(Log)

VARIABLE l          \* next line to consume
tvars == <<vars, l>>

Ev == Log[l]
Step(op) == l <= N /\ Ev.op = op /\ l' = l + 1
ToSet(seq) == {seq[i] : i \in DOMAIN seq}
MadeOf(seq) == {[id |-> seq[i][1], v |-> seq[i][2]] : i \in DOMAIN seq}
DescOf(x, ver, out) == [tid |-> x.tid, ver |-> ver, ins |-> ToSet(x.ins), out |-> out, fee |-> x.fee,
                        made |-> MadeOf(x.made)]
Report(what, want) == PrintT("OUT " \o ToJson([line |-> l, what |-> what, ev |-> Ev, want |-> want]))

\* enumeration constants of WalletFund.Next are not used here
TCfgs == {}
TWallets == {}

TraceInit ==
    /\ l = 1
    /\ cfg = [dt |-> 0, mi |-> 0, md |-> 0, rt |-> 0]
    /\ owned = <<>> /\ locked = <<>> /\ txs = <<>>
    /\ now = 0 /\ nextId = 1 /\ nextTx = 1
    /\ act = [op |-> "Init"] /\ reply = NoReply

TReset ==
    /\ Step("Reset")
    /\ cfg' = [dt |-> Ev.cfg.dt, mi |-> Ev.cfg.mi, md |-> Ev.cfg.md, rt |-> Ev.cfg.rt]
    /\ owned' = [i \in {Ev.owned[j][1] : j \in DOMAIN Ev.owned} |->
                   LET j == CHOOSE k \in DOMAIN Ev.owned : Ev.owned[k][1] = i
                   IN [v |-> Ev.owned[j][2], m |-> Ev.owned[j][3]]]
    /\ locked' = <<>> /\ txs' = <<>>
    /\ now' = 0 /\ nextId' = Ev.nid /\ nextTx' = 1
    /\ act' = [op |-> "Init"] /\ reply' = NoReply

\* a selection with a duplicated input: reported; the harness released it at once, so the
\* reservation state is unchanged provided the (distinct) inputs were free before
TFundDup ==
    /\ Ev.r = "ok" /\ Ev.dup
    /\ Report({"dup-input"} \cup (IF ToSet(Ev.d[1].ins) \subseteq May(Ev.unc) THEN {} ELSE {"ineligible"}), [may |-> May(Ev.unc)])
    /\ act' = FundLabel(Ev.ver, Ev.amt, Ev.unc) /\ reply' = NoReply
    /\ UNCHANGED svars

TFund ==
    /\ Step("Fund")
    /\ \/ Ev.r = "zero" /\ FundZero(Ev.ver, Ev.amt, Ev.unc)
       \/ Ev.r = "nef" /\ FundFail(Ev.ver, Ev.amt, Ev.unc)
       \/ Ev.r = "ok" /\ ~Ev.dup /\ Ev.cons /\ FundOK(Ev.ver, Ev.amt, Ev.unc, DescOf(Ev.d[1], Ev.ver, Ev.amt))
       \/ TFundDup

TRedist ==
    /\ Step("Redist")
    /\ \/ Ev.r = "none" /\ RedistNone(Ev.n, Ev.amt, Ev.feeub)
       \/ Ev.r = "nef" /\ RedistFail(Ev.n, Ev.amt, Ev.feeub)
       \/ Ev.r = "ok" /\ Ev.cons /\ RedistOK(Ev.n, Ev.amt, Ev.feeub, {DescOf(Ev.d[j], 2, 0) : j \in DOMAIN Ev.d})

TSplit ==
    /\ Step("Split")
    /\ \/ Ev.r = "none" /\ SplitNone(Ev.n, Ev.min)
       \/ Ev.r = "err" /\ SplitErr(Ev.n, Ev.min)
       \/ Ev.r = "ok" /\ Ev.cons /\ SplitOK(Ev.n, Ev.min, DescOf(Ev.d[1], 2, 0))

TRelease  == Step("Release")  /\ Release(Ev.tid)
TRelBegin == Step("RelBegin") /\ RelBegin(Ev.tid)
TRelEnd   == Step("RelEnd")   /\ RelEnd(Ev.tid)
TTick     == Step("Tick")     /\ Tick
TBcast    == Step("Bcast")    /\ \/ Ev.r = "acc" /\ BcastAcc(Ev.tid)
                                 \/ Ev.r = "rej" /\ BcastRej(Ev.tid)
TMine     == Step("Mine")     /\ Mine
TReward   == Step("Reward")   /\ Reward(Ev.v, Ev.id)
TRestart  == Step("Restart")  /\ Restart

\* Balance() and SpendableOutputs() against the three views; disagreement is reported
TObs ==
    /\ Step("Obs")
    /\ LET bad == (IF Ev.sp # BalSpendable THEN {"balance-spendable"} ELSE {})
                  \cup (IF Ev.conf # BalConfirmed THEN {"balance-confirmed"} ELSE {})
                  \cup (IF Ev.imm # BalImmature THEN {"balance-immature"} ELSE {})
                  \cup (IF Ev.unc # BalUnconfirmed THEN {"balance-unconfirmed"} ELSE {})
                  \cup (IF ToSet(Ev.list) # ListSpendable THEN {"spendable-list"} ELSE {})
       IN IF bad = {} THEN TRUE
          ELSE Report(bad, [sp |-> BalSpendable, conf |-> BalConfirmed, imm |-> BalImmature,
                            unc |-> BalUnconfirmed, list |-> ListSpendable,
                            v2spent |-> PoolSpentBy({2}) \cap ToSet(Ev.list)])
    /\ Obs

TraceNext == TReset \/ TFund \/ TRedist \/ TSplit \/ TRelease \/ TRelBegin \/ TRelEnd \/ TTick
             \/ TBcast \/ TMine \/ TReward \/ TRestart \/ TObs

TraceSpec == TraceInit /\ [][TraceNext]_tvars

\* high-water mark of consumed lines (needs -workers 1)
ASSUME TLCSet(1, 0)
HWM == TLCSet(1, IF l - 1 > TLCGet(1) THEN l - 1 ELSE TLCGet(1))
TraceAccepted ==
    /\ PrintT(<<"HWM", TLCGet(1), "of", N>>)
    /\ TLCGet(1) = N
=============================================================================
