------------------------------- MODULE Pool -------------------------------
(***************************************************************************)
(* The transaction pool of SiaFoundation/coreutils (chain/manager.go):     *)
(* submission (AddPoolTransactions / AddV2PoolTransactions), lookup        *)
(* (PoolTransaction / V2PoolTransaction), the reported pool                *)
(* (PoolTransactions / V2PoolTransactions) under blocks applied and        *)
(* reverted beneath it, mining from the pool (miner.go), rebasing of v2    *)
(* transaction sets (UpdateV2TransactionSet) and assembling a broadcast    *)
(* set (V2TransactionSet).  Properties C14 (family `contract`), C05        *)
(* (family `pool`), C13 (family `rebase`).                                 *)
(*                                                                         *)
(* Abstract world (a CONSTANT scenario, produced from REAL blocks and      *)
(* transactions by harness/poolx, or written by props/C14.py for Leg M):   *)
(* accumulator leaves (siacoin/siafund outputs, contracts, chain index     *)
(* elements) are small integers; a transaction is [ins, refs, outs, kind]  *)
(* -- leaves consumed, leaves referenced by proof only, leaves created,    *)
(* "v1" or "v2"; a fork tree of valid blocks gives per block its parent,   *)
(* height, the catalogued transactions it confirms (body) and ALL leaves   *)
(* it creates and spends (including those of uncatalogued transactions).   *)
(* A v2 transaction instance is [t, eph]: eph is the set of inputs carried *)
(* as EPHEMERAL (no proof; must be created earlier in the same set, pool   *)
(* or block), all others carry a Merkle proof for some chain index.        *)
(*                                                                         *)
(* The specification is property-shaped and deliberately permissive where  *)
(* the properties are silent: Revalidate (the lazily triggered             *)
(* revalidatePool) may install ANY pool over what was ever offered that is *)
(* prefix-valid at the tip and contains the must-keep set; nothing is said *)
(* about order beyond validity, about whether reverted transactions are    *)
(* re-offered, or about which transactions a full pool evicts.  Where the  *)
(* code has an algorithm with a documented result (all-or-nothing          *)
(* submission, the rebase walk, parent discovery) the action is written as *)
(* the algorithm and the property as an independent declarative statement. *)
(*                                                                         *)
(* Named deviations (open findings; TRUE = the faulty behaviour is ALSO    *)
(* allowed, so that the rest of every recorded execution is still checked; *)
(* the concrete audits of harness/poolx report the finding itself):        *)
(*   DevPartialAdd   a set that conflicts with the pool at position k      *)
(*                   leaves its first k-1 new transactions in the pool     *)
(*   DevSharedIndex  lookups resolve ids of the other version through the  *)
(*                   shared id -> position map: wrong transaction or panic *)
(*   DevEphDrop      a v2 transaction with an input that is still          *)
(*                   ephemeral after a block step is dropped from the pool *)
(*                   / makes rebasing fail                                 *)
(*   DevStaleParents V2TransactionSet with a basis other than the tip      *)
(*                   rebases the POOLED parents (whose proofs are already  *)
(*                   at the tip) together with the caller's transaction    *)
(*                   and fails when their proofs differ between the two    *)
(***************************************************************************)
EXTENDS Integers, Sequences, FiniteSets, TLC

CONSTANTS
    Scens,          \* sequence of scenario records
    MaxDist,        \* longest supported rebase path (reverts + applies): 144 in the code
    RevalAny,       \* TRUE: Revalidate is fully permissive; FALSE: canonical filter (stimulus graphs)
    EnAdd, EnLookup, EnBlocks, EnMine, EnRebase, EnTxSet,   \* which actions Next explores
    DevPartialAdd, DevSharedIndex, DevEphDrop, DevStaleParents

VARIABLES
    sc,        \* index of the scenario (fixed after Init / Reset)
    tip,       \* current tip (node id)
    sub,       \* nodes whose block the manager has been given (header + body stored)
    app,       \* nodes that were applied at least once (stored with supplement and full state)
    pc,        \* reorg in progress: [busy, rev, app]
    utxo,      \* unspent leaves at the tip
    pool1,     \* reported v1 pool: sequence of transaction ids
    pool2,     \* reported v2 pool: sequence of transaction ids (flags are forced by validity)
    offered,   \* every transaction ever accepted, or contained in a reverted block
    mustKeep,  \* accepted transactions none of whose retention-ending events has happened
    kept0,     \* the same WITHOUT any tolerated deviation (equals mustKeep when all Dev* are FALSE)
    stale,     \* the tip moved (or a submission hit a pool conflict) since the last revalidation
    obs,       \* concrete verdicts of the harness for the last step (all TRUE in Leg M)
    reply,     \* result of the last call
    act        \* label of the last action (hidden by VIEW)

vars == <<sc, tip, sub, app, pc, utxo, pool1, pool2, offered, mustKeep, kept0, stale, obs, reply, act>>
view == <<sc, tip, sub, app, pc, utxo, pool1, pool2, offered, mustKeep, kept0, stale>>

-----------------------------------------------------------------------------
S        == Scens[sc]
Nodes    == 1..S.n
Par(b)   == S.parent[b]
H(b)     == S.height[b]
Body(b)  == S.body[b]
Cr(b)    == S.creates[b]
Sp(b)    == S.spends[b]
Txs      == 1..S.ntx
Ins(t)   == S.tx[t].ins
Refs(t)  == S.tx[t].refs
Outs(t)  == S.tx[t].outs
Kind(t)  == S.tx[t].kind
Lo(t)    == S.tx[t].lo                  \* the transaction is valid only while Lo <= height of the tip <= Hi:
Hi(t)    == S.tx[t].hi                  \* v2 from AllowHeight - 1 on, v1 up to RequireHeight - 2 and only in the
                                        \* signature-replay epoch (before / after AllowHeight) it was signed for
W(t)     == S.tx[t].w                   \* weight (Leg M: small integers; traces: the real encoded size)
Need(t)  == Ins(t) \cup Refs(t)           \* the leaves whose proofs a v2 instance carries

SeqSet(s) == {s[i] : i \in 1..Len(s)}
Rev(s)    == [i \in 1..Len(s) |-> s[Len(s) + 1 - i]]
NoDup(s)  == \A i, j \in 1..Len(s) : i # j => s[i] # s[j]
BodySet(b) == SeqSet(Body(b))

RECURSIVE Lca(_, _)
Lca(a, b) == IF a = b THEN a
             ELSE IF H(a) > H(b) THEN Lca(Par(a), b)
             ELSE IF H(b) > H(a) THEN Lca(a, Par(b))
             ELSE Lca(Par(a), Par(b))
RECURSIVE Down(_, _)        \* b, Par(b), ... down to (excluding) its ancestor anc
Down(b, anc) == IF b = anc THEN <<>> ELSE <<b>> \o Down(Par(b), anc)
RevertList(from, to) == Down(from, Lca(from, to))          \* tip first
ApplyList(from, to)  == Rev(Down(to, Lca(from, to)))       \* ancestor first
PathSet(b)  == SeqSet(Down(b, 1)) \cup {1}
Heavier(a, b) == H(a) > H(b)      \* equal block spacing: more work = more blocks (checked by the harness)

RECURSIVE UtxoAt(_)
UtxoAt(b) == IF b = 1 THEN Cr(1) \ Sp(1) ELSE (UtxoAt(Par(b)) \cup Cr(b)) \ Sp(b)

-----------------------------------------------------------------------------
(* Validity of a sequence of instances against a set U of unspent leaves.  *)
(* st = [sp, cr]: leaves spent / created by the instances before.          *)

St0 == [sp |-> {}, cr |-> {}]
StepSt(st, t) == [sp |-> st.sp \cup Ins(t), cr |-> st.cr \cup Outs(t)]

InstOK(U, st, x) ==
    LET t == x.t IN
    /\ x.eph \subseteq Ins(t)
    /\ \A i \in Ins(t) :
          /\ i \notin st.sp
          /\ IF Kind(t) = "v2"
               THEN (IF i \in x.eph THEN i \in st.cr ELSE i \in U)
               ELSE (i \in U \/ i \in st.cr)
    /\ \A i \in Refs(t) : i \in U /\ i \notin st.sp

RECURSIVE SeqOKFrom(_, _, _, _)
SeqOKFrom(U, st, s, i) ==      \* IF, not \/: TLC explores both sides of a disjunction inside an action
    IF i > Len(s) THEN TRUE
    ELSE IF InstOK(U, st, s[i]) THEN SeqOKFrom(U, StepSt(st, s[i].t), s, i + 1) ELSE FALSE
SeqOK(U, s) == SeqOKFrom(U, St0, s, 1)

\* the reported pool as instances: v1 then v2; the flags of a pooled v2 transaction are forced by
\* validity (an input is ephemeral exactly when the tip's ledger does not hold it)
KindNow(t)    == Lo(t) <= H(tip) /\ H(tip) <= Hi(t)
EphAtTip(t)   == Ins(t) \ utxo
InstAtTip(t)  == [t |-> t, eph |-> IF Kind(t) = "v2" THEN EphAtTip(t) ELSE {}]
RECURSIVE IdsOKFrom(_, _, _)
IdsOKFrom(st, ids, i) ==
    IF i > Len(ids) THEN TRUE
    ELSE IF KindNow(ids[i]) /\ InstOK(utxo, st, InstAtTip(ids[i])) THEN IdsOKFrom(StepSt(st, ids[i]), ids, i + 1) ELSE FALSE
PoolOK(p1, p2) == IdsOKFrom(St0, p1 \o p2, 1)
RECURSIVE IdsState(_, _, _)
IdsState(st, ids, i) == IF i > Len(ids) THEN st ELSE IdsState(StepSt(st, ids[i]), ids, i + 1)
PoolIds       == SeqSet(pool1) \cup SeqSet(pool2)
PoolState     == IdsState(St0, pool1 \o pool2, 1)
Idle          == ~pc.busy
\* The pool is full when the POOLED transactions weigh at least the limit (10 x MaxBlockWeight in
\* the code).  Full is a function of the pooled transactions and nothing else: what a rejected
\* submission weighed, or what was appended and rolled back again, must never count.
RECURSIVE WeightOf(_, _)
WeightOf(ids, i) == IF i > Len(ids) THEN 0 ELSE W(ids[i]) + WeightOf(ids, i + 1)
PoolWeight    == WeightOf(pool1 \o pool2, 1)
Full          == PoolWeight >= S.maxpool
Fresh         == Idle /\ ~stale /\ ~Full       \* what every query sees after its revalidatePool()

-----------------------------------------------------------------------------
(* The rebase walk (updateV2TransactionProofs): revert block by block,     *)
(* then apply block by block; result [err, set].  This is the IDEAL walk;  *)
(* the deviation DevEphDrop adds "err" as a further possible reply where   *)
(* RebaseMayFail holds (see AddResults, Rebase, TxSet).                    *)

RECURSIVE WalkRev(_, _, _)
WalkRev(s, rl, i) ==
    IF i > Len(rl) THEN [err |-> FALSE, set |-> s]
    ELSE LET b == rl[i] IN
      IF \E j \in 1..Len(s) : (Need(s[j].t) \ s[j].eph) \cap Cr(b) # {}     \* element not on our chain
        THEN [err |-> TRUE, set |-> <<>>]
        ELSE WalkRev(s, rl, i + 1)

RECURSIVE WalkApp(_, _, _)
WalkApp(s, al, i) ==
    IF i > Len(al) THEN [err |-> FALSE, set |-> s]
    ELSE LET b    == al[i]
             NotConfirmed(x) == x.t \notin BodySet(b)
             kept == SelectSeq(s, NotConfirmed)
             s2   == [j \in 1..Len(kept) |-> [kept[j] EXCEPT !.eph = @ \ Cr(b)]]
         IN WalkApp(s2, al, i + 1)

\* RebaseErr: everything that makes the code refuse before / while walking
PathKnown(from, to) ==
    /\ from \in sub /\ to \in sub
    /\ \A b \in SeqSet(RevertList(from, to)) \cup SeqSet(ApplyList(from, to)) : b \in app
Dist(from, to) == Len(RevertList(from, to)) + Len(ApplyList(from, to))

\* the premise of a rebase: every proof-carrying element of the set is unspent at `from` (the code
\* validates the proofs against the state of the claimed basis first; an element that does not exist
\* there -- a contract formed later, the chain index element of a block not yet mined -- has none)
ProofsAt(s, from) == \A j \in 1..Len(s) : (Need(s[j].t) \ s[j].eph) \subseteq UtxoAt(from)

RebaseWalk(s, from, to) ==     \* s: sequence of [t, eph]; from/to: nodes or 0 (unknown)
    IF from = 0 \/ to = 0 \/ from \notin Nodes \/ to \notin Nodes THEN [err |-> TRUE, set |-> <<>>]
    ELSE IF ~PathKnown(from, to) \/ Dist(from, to) > MaxDist THEN [err |-> TRUE, set |-> <<>>]
    ELSE IF ~ProofsAt(s, from) THEN [err |-> TRUE, set |-> <<>>]
    ELSE LET r == WalkRev(s, RevertList(from, to), 1) IN
         IF r.err THEN r ELSE WalkApp(s, ApplyList(from, to), 1)

\* ---- the declarative statement of C13 (independent of the walk)
AppliedBodies(from, to) == UNION {BodySet(b) : b \in SeqSet(ApplyList(from, to))}
AppliedCreates(from, to) == UNION {Cr(b) : b \in SeqSet(ApplyList(from, to))}
RevertedCreates(from, to) == UNION {Cr(b) : b \in SeqSet(RevertList(from, to))}
RebaseExpected(s, from, to) ==
    LET Keep(x) == x.t \notin AppliedBodies(from, to)
        kept == SelectSeq(s, Keep)
    IN [j \in 1..Len(kept) |-> [kept[j] EXCEPT !.eph = @ \ AppliedCreates(from, to)]]
RebaseMustFail(s, from, to) ==
    \/ from = 0 \/ to = 0 \/ from \notin Nodes \/ to \notin Nodes
    \/ ~PathKnown(from, to)
    \/ Dist(from, to) > MaxDist
    \/ ~ProofsAt(s, from)
    \/ \E j \in 1..Len(s) : (Need(s[j].t) \ s[j].eph) \cap RevertedCreates(from, to) # {}
\* under DevEphDrop an error is additionally tolerated when an instance has an ephemeral input
RebaseMayFail(s, from, to) ==
    DevEphDrop /\ from # to /\ \E j \in 1..Len(s) : s[j].eph # {}

-----------------------------------------------------------------------------
(* Submission.  s is a sequence of [t, eph, bad]; bad = the instance has a *)
(* corrupted proof or signature (invalid whatever the state).              *)

Strip(s) == [i \in 1..Len(s) |-> [t |-> s[i].t, eph |-> s[i].eph]]

\* the incremental loop against the pool: returns the ids appended and whether a conflict stopped it
RECURSIVE AddLoop(_, _, _, _)
AddLoop(st, s, i, added) ==
    IF i > Len(s) THEN [conflict |-> FALSE, added |-> added]
    ELSE IF s[i].t \in PoolIds \/ s[i].t \in SeqSet(added) THEN AddLoop(st, s, i + 1, added)
    ELSE IF KindNow(s[i].t) /\ InstOK(utxo, st, s[i]) THEN AddLoop(StepSt(st, s[i].t), s, i + 1, Append(added, s[i].t))
    ELSE [conflict |-> TRUE, added |-> added]

\* all results the specification allows for a submission: [r, added, restale]
AddResults(k, b, s) ==
    LET errR == [r |-> "err", added |-> <<>>, restale |-> FALSE, keep |-> {}]
        unknownBasis == k = "v2" /\ (b = 0 \/ b \notin sub)
        anyBad == \E i \in 1..Len(s) : s[i].bad
        kindsOK == \A i \in 1..Len(s) : Kind(s[i].t) = k
        rb == IF k = "v2" /\ ~unknownBasis THEN RebaseWalk(Strip(s), b, tip) ELSE [err |-> FALSE, set |-> Strip(s)]
    IN
    IF unknownBasis \/ anyBad \/ ~kindsOK THEN {errR}
    ELSE IF rb.err THEN {errR}
    ELSE LET s2 == rb.set
             mayRebaseErr == IF k = "v2" /\ RebaseMayFail(Strip(s), b, tip) THEN {errR} ELSE {}
         IN
         IF ~(SeqOK(utxo, s2) /\ \A i \in 1..Len(s2) : KindNow(s2[i].t))   \* not a valid set at the tip on its own (incl. the hardfork regime)
           THEN {errR} \cup (IF Len(s2) > 0 /\ \A i \in 1..Len(s2) : s2[i].t \in PoolIds           \* (all pooled, but e.g. a child without its
                             THEN {[r |-> "known", added |-> <<>>, restale |-> FALSE, keep |-> {}]}  \* parent: the documented contract says invalid,
                             ELSE {})                                                              \* the property says known: both are accepted)
         ELSE IF \A i \in 1..Len(s2) : s2[i].t \in PoolIds
           THEN (IF Len(s2) = 0 THEN {[r |-> "known", added |-> <<>>, restale |-> FALSE, keep |-> {}], [r |-> "ok", added |-> <<>>, restale |-> FALSE, keep |-> {}]}
                               ELSE {[r |-> "known", added |-> <<>>, restale |-> FALSE, keep |-> {}]}) \cup mayRebaseErr
         ELSE LET lp == AddLoop(PoolState, s2, 1, <<>>) IN
              IF ~lp.conflict THEN {[r |-> "ok", added |-> lp.added, restale |-> FALSE, keep |-> {s2[i].t : i \in 1..Len(s2)}]} \cup mayRebaseErr
              ELSE {[r |-> "err", added |-> <<>>, restale |-> rs, keep |-> {}] : rs \in BOOLEAN}
                   \cup (IF DevPartialAdd THEN {[r |-> "err", added |-> lp.added, restale |-> TRUE, keep |-> {}]} ELSE {})
                   \cup mayRebaseErr

\* the declarative statement of C14 for a submission
AllOrNothing(tol, k, s, p1, p2, p1n, p2n, r) ==
    LET old == IF k = "v1" THEN p1 ELSE p2
        new == IF k = "v1" THEN p1n ELSE p2n
        oth == IF k = "v1" THEN p2 = p2n ELSE p1 = p1n
        extends == /\ Len(new) >= Len(old) /\ SubSeq(new, 1, Len(old)) = old
                   /\ SeqSet(new) \ SeqSet(old) \subseteq {s[i].t : i \in 1..Len(s)}
    IN /\ oth
       /\ r = "known" => new = old
       /\ r = "err" => new = old \/ (tol /\ extends)      \* tol: deviation DevPartialAdd (finding C14-partial-add-on-pool-conflict)
       /\ r = "ok" => extends

-----------------------------------------------------------------------------
(* Retention.                                                              *)

\* largest subset of K whose every input is in U or created by a member
RECURSIVE Closure(_, _)
Closure(K, U) ==
    LET made == UNION {Outs(p) : p \in K}
        K2 == {t \in K : (\A i \in Ins(t) : i \in U \/ i \in made) /\ Refs(t) \subseteq U}
    IN IF K2 = K THEN K ELSE Closure(K2, U)

DevDropped(tol, t, U) == tol /\ Kind(t) = "v2" /\ \E i \in Ins(t) : i \notin U

KeepAfterApply(tol, K, b, U2) ==
    \* (H(b) <= Hi(t): the chain outgrew the regime the transaction is valid in -- v1 at the require height,
    \* v1 signatures of the epoch before the allow height; heights never shrink across a completed reorg)
    Closure({t \in K : t \notin BodySet(b) /\ Need(t) \cap Sp(b) = {} /\ H(b) <= Hi(t) /\ ~DevDropped(tol, t, U2)}, U2)
KeepAfterRevert(tol, K, b, U2) ==
    Closure({t \in K : Need(t) \cap Cr(b) = {} /\ ~DevDropped(tol, t, U2)}, U2)

\* the pools Revalidate may install for must-keep set K
AllowedPool(p1, p2, K) ==
    /\ NoDup(p1 \o p2)
    /\ \A i \in 1..Len(p1) : p1[i] \in offered /\ Kind(p1[i]) = "v1"
    /\ \A i \in 1..Len(p2) : p2[i] \in offered /\ Kind(p2[i]) = "v2"
    /\ PoolOK(p1, p2)
    /\ K \subseteq SeqSet(p1) \cup SeqSet(p2)

InjSeqs(X) == {s \in UNION {[1..k -> X] : k \in 0..Cardinality(X)} : NoDup(s)}

\* canonical choice (stimulus graphs): keep what is still valid, in order, add nothing
RECURSIVE Filter(_, _, _, _)
Filter(st, ids, i, out) ==
    IF i > Len(ids) THEN out
    ELSE LET x == [t |-> ids[i], eph |-> IF Kind(ids[i]) = "v2" THEN EphAtTip(ids[i]) ELSE {}] IN
         IF KindNow(ids[i]) /\ InstOK(utxo, st, x) THEN Filter(StepSt(st, ids[i]), ids, i + 1, Append(out, ids[i]))
         ELSE Filter(st, ids, i + 1, out)
CanonPool ==
    LET all == Filter(St0, pool1 \o pool2, 1, <<>>)
        Is1(t) == Kind(t) = "v1"
        Is2(t) == Kind(t) = "v2"
    IN [p1 |-> SelectSeq(all, Is1), p2 |-> SelectSeq(all, Is2)]

-----------------------------------------------------------------------------
(* Parent discovery (V2TransactionSet).                                    *)

Creator2(i) == {p \in SeqSet(pool2) : i \in Outs(p)}
RECURSIVE Ancestors(_)
Ancestors(A) ==
    LET more == UNION {Creator2(i) : i \in UNION {Ins(t) : t \in A}} IN
    IF more \subseteq A THEN A ELSE Ancestors(A \cup more)
ParentsOf(t) == Ancestors({t}) \ {t}
InPoolOrder(A) == LET In(t) == t \in A IN SelectSeq(pool2, In)
ParentsFirstOK(ids) ==
    \A i, j \in 1..Len(ids) : (Ins(ids[j]) \cap Outs(ids[i]) # {}) => i < j

-----------------------------------------------------------------------------
\* asked / found: the transactions the harness looked up BY ID right after a reported pool (through the
\* lookup of their own version), and those the lookup returned
ObsOK  == [valid |-> TRUE, mine |-> TRUE, alias |-> TRUE, proofs |-> TRUE, nopanic |-> TRUE, asked |-> {}, found |-> {}]
NoReply == [r |-> "none", ids |-> <<>>, eph |-> <<>>, k |-> 0]
IdlePc == [busy |-> FALSE, rev |-> <<>>, app |-> <<>>]

InitFor(k) ==
    /\ sc = k
    /\ tip = 1 /\ sub = {1} /\ app = {1}
    /\ pc = IdlePc
    /\ utxo = Scens[k].creates[1] \ Scens[k].spends[1]
    /\ pool1 = <<>> /\ pool2 = <<>>
    /\ offered = {} /\ mustKeep = {} /\ kept0 = {}
    /\ stale = FALSE
    /\ obs = ObsOK
    /\ reply = NoReply
    /\ act = [op |-> "Init"]

Init == \E k \in 1..Len(Scens) : InitFor(k)

AddSet(k, b, s) ==
    /\ Fresh
    /\ act' = [op |-> "AddSet", kind |-> k, basis |-> b, set |-> s]
    /\ \E R \in AddResults(k, b, s) :
        /\ reply' = [NoReply EXCEPT !.r = R.r, !.ids = R.added]
        /\ pool1' = IF k = "v1" THEN pool1 \o R.added ELSE pool1
        /\ pool2' = IF k = "v2" THEN pool2 \o R.added ELSE pool2
        /\ offered' = offered \cup SeqSet(R.added)
        /\ mustKeep' = mustKeep \cup R.keep      \* every member of an accepted set is protected, known ones included
        /\ kept0' = kept0 \cup R.keep
        /\ stale' = R.restale
    /\ UNCHANGED <<sc, tip, sub, app, pc, utxo>>

LookupResults(k, id) ==
    LET mine  == IF k = "v1" THEN pool1 ELSE pool2
        other == IF k = "v1" THEN pool2 ELSE pool1
        pos(s) == CHOOSE i \in 1..Len(s) : s[i] = id
    IN IF id \in SeqSet(mine) THEN {[r |-> "found", k |-> id]}
       ELSE {[r |-> "absent", k |-> 0]}
            \cup (IF DevSharedIndex /\ id \in SeqSet(other)
                    THEN (IF pos(other) <= Len(mine) THEN {[r |-> "wrong", k |-> mine[pos(other)]]} ELSE {[r |-> "panic", k |-> 0]})
                    ELSE {})

Lookup(k, id) ==
    /\ Fresh
    /\ act' = [op |-> "Lookup", kind |-> k, id |-> id]
    /\ \E R \in LookupResults(k, id) : reply' = [NoReply EXCEPT !.r = R.r, !.k = R.k]
    /\ UNCHANGED <<sc, tip, sub, app, pc, utxo, pool1, pool2, offered, mustKeep, kept0, stale>>

\* AddBlocks with the chain ending in `to`
Submit(to) ==
    /\ Idle
    /\ act' = [op |-> "Submit", to |-> to]
    /\ sub' = sub \cup PathSet(to)
    /\ pc' = IF Heavier(to, tip) THEN [busy |-> TRUE, rev |-> RevertList(tip, to), app |-> ApplyList(tip, to)]
                                 ELSE [busy |-> TRUE, rev |-> <<>>, app |-> <<>>]
    /\ reply' = NoReply
    /\ UNCHANGED <<sc, tip, app, utxo, pool1, pool2, offered, mustKeep, kept0, stale>>

BlockReverted ==
    /\ pc.busy /\ pc.rev # <<>>
    /\ LET b == Head(pc.rev) U2 == (utxo \cup Sp(b)) \ Cr(b) IN
       /\ b = tip
       /\ act' = [op |-> "Revert", b |-> b]
       /\ tip' = Par(b)
       /\ utxo' = U2
       /\ offered' = offered \cup BodySet(b)
       /\ mustKeep' = KeepAfterRevert(DevEphDrop, mustKeep, b, U2)
       /\ kept0' = KeepAfterRevert(FALSE, kept0, b, U2)
    /\ pc' = [pc EXCEPT !.rev = Tail(@)]
    /\ stale' = TRUE
    /\ reply' = NoReply
    /\ UNCHANGED <<sc, sub, app, pool1, pool2>>

BlockApplied ==
    /\ pc.busy /\ pc.rev = <<>> /\ pc.app # <<>>
    /\ LET b == Head(pc.app) U2 == (utxo \cup Cr(b)) \ Sp(b) IN
       /\ Par(b) = tip
       /\ act' = [op |-> "Apply", b |-> b]
       /\ tip' = b
       /\ app' = app \cup {b}
       /\ utxo' = U2
       /\ mustKeep' = KeepAfterApply(DevEphDrop, mustKeep, b, U2)
       /\ kept0' = KeepAfterApply(FALSE, kept0, b, U2)
    /\ pc' = [pc EXCEPT !.app = Tail(@)]
    /\ stale' = TRUE
    /\ reply' = NoReply
    /\ UNCHANGED <<sc, sub, offered, pool1, pool2>>

Done ==
    /\ pc.busy /\ pc.rev = <<>> /\ pc.app = <<>>
    /\ act' = [op |-> "Done"]
    /\ pc' = IdlePc
    /\ reply' = NoReply
    /\ UNCHANGED <<sc, tip, sub, app, utxo, pool1, pool2, offered, mustKeep, kept0, stale>>

\* a full pool may evict anything (the property does not say which transactions have "low fees")
EvictChoices == IF Full THEN {Closure(mustKeep \ E, utxo) : E \in SUBSET mustKeep} ELSE {mustKeep}

Revalidate ==
    /\ Idle /\ (stale \/ Full)
    /\ act' = [op |-> "Revalidate"]
    /\ \E K \in EvictChoices :
        /\ mustKeep' = K
        /\ kept0' = IF Full THEN Closure(kept0 \ (mustKeep \ K), utxo) ELSE kept0
        /\ IF RevalAny
             THEN \E p1 \in InjSeqs({t \in offered : Kind(t) = "v1"}), p2 \in InjSeqs({t \in offered : Kind(t) = "v2"}) :
                    /\ AllowedPool(p1, p2, K)
                    /\ Full => WeightOf(p1 \o p2, 1) < S.maxpool
                    /\ pool1' = p1 /\ pool2' = p2
             ELSE /\ K = mustKeep \/ Full
                  /\ pool1' = CanonPool.p1 /\ pool2' = CanonPool.p2
                  /\ AllowedPool(pool1', pool2', K)
    /\ stale' = FALSE
    /\ reply' = NoReply
    /\ UNCHANGED <<sc, tip, sub, app, pc, utxo, offered>>

\* coreutils.MineBlock (miner.go): the assembler takes the reported pool, v1 then v2, IN ORDER and stops
\* at the first transaction that no longer fits into the block weight: the body is a PREFIX of the
\* reported sequence -- the only thing the pool promises to be valid
RECURSIVE CutLen(_, _, _)
CutLen(ids, i, w) ==
    IF i > Len(ids) THEN i - 1
    ELSE IF w + W(ids[i]) > S.maxblock THEN i - 1
    ELSE CutLen(ids, i + 1, w + W(ids[i]))
MinePrefix == LET all == pool1 \o pool2 IN SubSeq(all, 1, CutLen(all, 1, 0))

Mine ==
    /\ Fresh
    /\ act' = [op |-> "Mine"]
    /\ reply' = [NoReply EXCEPT !.r = IF IdsOKFrom(St0, MinePrefix, 1) THEN "accepted" ELSE "rejected", !.ids = MinePrefix]
    /\ UNCHANGED <<sc, tip, sub, app, pc, utxo, pool1, pool2, offered, mustKeep, kept0, stale>>

\* UpdateV2TransactionSet(set, from, to); corrupt: "none" | "proof" | "leaf" | "basis"
Rebase(s, from, to, corrupt) ==
    /\ Idle
    /\ act' = [op |-> "Rebase", set |-> s, from |-> from, to |-> to, corrupt |-> corrupt]
    /\ LET r == IF from = to /\ from # 0 THEN [err |-> FALSE, set |-> s]       \* documented: returned as is
                ELSE IF corrupt # "none" THEN [err |-> TRUE, set |-> <<>>]
                ELSE RebaseWalk(s, from, to) IN
       reply' \in {[NoReply EXCEPT !.r = IF r.err THEN "err" ELSE "ok",
                                   !.ids = [j \in 1..Len(r.set) |-> r.set[j].t],
                                   !.eph = [j \in 1..Len(r.set) |-> r.set[j].eph]]}
                   \cup (IF from # to /\ RebaseMayFail(s, from, to) THEN {[NoReply EXCEPT !.r = "err"]} ELSE {})
    /\ UNCHANGED <<sc, tip, sub, app, pc, utxo, pool1, pool2, offered, mustKeep, kept0, stale>>

\* V2TransactionSet(basis, txn): x = [t, eph] is the caller's instance at `basis`
TxSet(x, basis) ==
    /\ Fresh
    /\ act' = [op |-> "TxSet", x |-> x, basis |-> basis]
    /\ LET r == IF basis = tip THEN [err |-> FALSE, set |-> <<x>>] ELSE RebaseWalk(<<x>>, basis, tip)
           okR == [NoReply EXCEPT !.r = "ok", !.ids = InPoolOrder(ParentsOf(x.t)) \o [j \in 1..Len(r.set) |-> r.set[j].t], !.k = tip]
           errR == [NoReply EXCEPT !.r = "err"] IN
       reply' \in (IF r.err THEN {errR} ELSE {okR})
                   \cup (IF basis # tip /\ (RebaseMayFail(<<x>>, basis, tip) \/ (DevStaleParents /\ ParentsOf(x.t) # {})) THEN {errR} ELSE {})
    /\ UNCHANGED <<sc, tip, sub, app, pc, utxo, pool1, pool2, offered, mustKeep, kept0, stale>>

\* ---- Leg M: candidate arguments come from the scenario
CanonInst(t, b) == [t |-> t, eph |-> IF Kind(t) = "v2" /\ b \in Nodes THEN Ins(t) \ UtxoAt(b) ELSE {}]
CandSet(c) == [i \in 1..Len(c.txs) |-> [t |-> c.txs[i], eph |-> CanonInst(c.txs[i], c.basis).eph, bad |-> (c.bad = i)]]
CandRSet(c, from) == [i \in 1..Len(c) |-> CanonInst(c[i], from)]
\* a rebase candidate must be valid at `from` (the property's premise)
ValidAt(s, from) == from \in Nodes /\ SeqOK(UtxoAt(from), s)

NextA ==
    \/ EnAdd /\ \E i \in 1..Len(S.sets) : AddSet(S.sets[i].kind, S.sets[i].basis, CandSet(S.sets[i]))
    \/ EnLookup /\ \E k \in {"v1", "v2"}, id \in S.look : Lookup(k, id)
    \/ EnBlocks /\ \E to \in Nodes : to \notin sub /\ Submit(to)
    \/ BlockReverted \/ BlockApplied \/ Done
    \/ Revalidate
    \/ EnMine /\ Mine
    \/ EnRebase /\ \E i \in 1..Len(S.rsets), from \in Nodes, to \in Nodes :
            /\ ValidAt(CandRSet(S.rsets[i], from), from)
            /\ \E c \in {"none", "proof"} : Rebase(CandRSet(S.rsets[i], from), from, to, c)
    \/ EnRebase /\ \E i \in 1..Len(S.rsets), to \in Nodes : Rebase(CandRSet(S.rsets[i], 1), 0, to, "basis")
    \/ EnTxSet /\ \E t \in S.txsetc, basis \in app :
            /\ Kind(t) = "v2" /\ Refs(t) \subseteq UtxoAt(basis)
            /\ TxSet(CanonInst(t, basis), basis)

Next == NextA /\ obs' = ObsOK

Spec == Init /\ [][Next]_vars

-----------------------------------------------------------------------------
(* Properties.                                                             *)

TypeOK ==
    /\ tip \in Nodes /\ sub \subseteq Nodes /\ app \subseteq sub
    /\ SeqSet(pool1) \subseteq Txs /\ SeqSet(pool2) \subseteq Txs
    /\ offered \subseteq Txs /\ mustKeep \subseteq Txs
    /\ stale \in BOOLEAN

(* C05 *)
\* every prefix of the reported pool (v1 then v2) is valid at the tip; SeqOK checks instance by
\* instance, which is validity of every prefix
PrefixValid == (Fresh => PoolOK(pool1, pool2)) /\ obs.valid
Retention   == Fresh => mustKeep \subseteq PoolIds
\* "stays RETRIEVABLE": what the pool lists is also found by its id, and what the specification no longer
\* holds as pooled is reported absent -- after every report, i.e. after submissions, blocks applied and
\* reverted underneath, rebuilds and evictions (with Retention: every must-keep transaction is found)
Retrievable == \A t \in obs.asked : (t \in obs.found) <=> (t \in PoolIds)
RetentionStrict == Fresh => kept0 \subseteq PoolIds          \* without the tolerance of DevEphDrop
NoInvention == PoolIds \subseteq offered /\ NoDup(pool1 \o pool2)
Minable     == (act.op = "Mine" => reply.r = "accepted") /\ obs.mine
\* the assembled body (reply.ids, judged whatever assembled it) is a prefix of the reported pool ...
MinedIsPrefix ==
    [][act'.op = "Mine" => LET all == pool1 \o pool2 b == reply'.ids IN
                             Len(b) <= Len(all) /\ SubSeq(all, 1, Len(b)) = b]_vars
\* ... in particular it is a valid set at the tip on its own: no child without the parent that creates
\* its output, no input spent twice (decided from the specification's ledger, not from the node's answer)
MinedSelfContained == [][act'.op = "Mine" => IdsOKFrom(St0, reply'.ids, 1)]_vars
\* and it is cut at the weight limit, not beyond
MinedFits == [][act'.op = "Mine" => WeightOf(reply'.ids, 1) <= S.maxblock]_vars
\* the statement of Retention is consistent: some pool always satisfies it
RetentionSatisfiable ==
    Idle => \E p1 \in InjSeqs({t \in mustKeep : Kind(t) = "v1"}), p2 \in InjSeqs({t \in mustKeep : Kind(t) = "v2"}) :
               /\ mustKeep \subseteq offered
               /\ AllowedPool(p1, p2, mustKeep)
UtxoIsFold  == utxo = UtxoAt(tip)
BlocksOnlyStale == [][tip' # tip => stale']_vars
\* nothing leaves the must-keep set at a revalidation unless the POOLED transactions had reached the
\* limit (seed C05-b: the weight of a rolled-back prefix of a rejected set made a small pool evict)
EvictOnlyWhenFull == [][act'.op = "Revalidate" /\ mustKeep' # mustKeep => Full]_vars

(* C14 *)
AtomicityP(tol) ==
    [][act'.op = "AddSet" => AllOrNothing(tol, act'.kind, act'.set, pool1, pool2, pool1', pool2', reply'.r)]_vars
Atomicity == AtomicityP(DevPartialAdd)
AtomicityStrict == AtomicityP(FALSE)
KnownIffAllPooled ==
    [][act'.op = "AddSet" /\ reply'.r # "err" =>
         LET s == act'.set
             rb == IF act'.kind = "v2" THEN RebaseWalk(Strip(s), act'.basis, tip) ELSE [err |-> FALSE, set |-> Strip(s)]
             ids == {rb.set[i].t : i \in 1..Len(rb.set)} IN
         /\ (reply'.r = "known" => ids \subseteq PoolIds)
         /\ (ids # {} /\ ids \subseteq PoolIds => reply'.r = "known")]_vars
LookupExactP(tol) ==
    [][act'.op = "Lookup" =>
         LET mine == IF act'.kind = "v1" THEN pool1 ELSE pool2
             other == IF act'.kind = "v1" THEN pool2 ELSE pool1 IN
         IF act'.id \in SeqSet(mine) THEN reply'.r = "found" /\ reply'.k = act'.id
         ELSE \/ reply'.r = "absent"
              \/ (tol /\ act'.id \in SeqSet(other) /\ reply'.r \in {"wrong", "panic"})]_vars   \* tol: deviation DevSharedIndex
LookupExact == LookupExactP(DevSharedIndex)
LookupExactStrict == LookupExactP(FALSE)
NoAliasing == obs.alias

(* C13 *)
RebaseResult ==
    [][act'.op = "Rebase" /\ reply'.r = "ok" /\ act'.from # act'.to =>
         LET e == RebaseExpected(act'.set, act'.from, act'.to) IN
         /\ reply'.ids = [j \in 1..Len(e) |-> e[j].t]
         /\ reply'.eph = [j \in 1..Len(e) |-> e[j].eph]]_vars
\* concrete part (harness): every input's leaf index and Merkle proof equal the linear ledger's at the target
RebaseProofs == obs.proofs
RebaseErrorsP(tol) ==
    [][act'.op = "Rebase" /\ act'.from # act'.to =>
         LET must == act'.corrupt # "none" \/ RebaseMustFail(act'.set, act'.from, act'.to)
             may  == tol /\ RebaseMayFail(act'.set, act'.from, act'.to) IN
         /\ (must => reply'.r = "err")
         /\ (reply'.r = "err" => must \/ may)]_vars
RebaseErrors == RebaseErrorsP(TRUE)
RebaseErrorsStrict == RebaseErrorsP(FALSE)
NoPanic == obs.nopanic
ParentsFirst ==
    [][act'.op = "TxSet" /\ reply'.r = "ok" /\ Fresh                             \* (the spec's pool is the reported one)
         /\ ~(act'.basis # tip /\ act'.x.t \in AppliedBodies(act'.basis, tip)) =>   \* (confirmed meanwhile: nothing to broadcast)
         LET ids == reply'.ids t == act'.x.t IN
         /\ NoDup(ids)
         /\ SeqSet(ids) = ParentsOf(t) \cup {t}
         /\ ids[Len(ids)] = t
         /\ ParentsFirstOK(ids)]_vars
BasisIsTip == [][act'.op = "TxSet" /\ reply'.r = "ok" => reply'.k = tip]_vars
\* whatever the pool looks like after its (lazy) revalidation: the pooled ancestors that MUST still be
\* there -- accepted, not confirmed, no input spent or reverted -- are part of the set.  Judged even when
\* the call comes right after a block, before anybody looked at the pool (seed C13-f: a block confirmed
\* the parent only and the child was dropped, V2TransactionSet(grandchild) returned the grandchild alone)
MustCreator(i) == {p \in mustKeep : Kind(p) = "v2" /\ i \in Outs(p)}
RECURSIVE MustAnc(_)
MustAnc(A) ==
    LET more == UNION {MustCreator(i) : i \in UNION {Ins(t) : t \in A}} IN
    IF more \subseteq A THEN A ELSE MustAnc(A \cup more)
TxSetKeepsAncestors ==
    [][act'.op = "TxSet" /\ reply'.r = "ok"
         /\ ~(act'.basis # tip /\ act'.x.t \in AppliedBodies(act'.basis, tip)) =>
         (MustAnc({act'.x.t}) \ {act'.x.t}) \subseteq SeqSet(reply'.ids)]_vars
TxSetErrorsP(tol) ==
    [][act'.op = "TxSet" =>
         LET x == act'.x b == act'.basis
             must == b # tip /\ RebaseMustFail(<<x>>, b, tip)
             may  == tol /\ b # tip /\ (RebaseMayFail(<<x>>, b, tip) \/ (DevStaleParents /\ ParentsOf(x.t) # {})) IN
         /\ (must => reply'.r = "err")
         /\ (reply'.r = "err" => must \/ may)]_vars
TxSetErrors == TxSetErrorsP(TRUE)
TxSetErrorsStrict == TxSetErrorsP(FALSE)
=============================================================================
